#!/venv/bin/python
"""Run checks against every seeded change (scratch copy of /repo with the patch applied).
usage: run_seeds.py [seed-id-prefix ...] [--all-props] [--props C01,C02]"""
import json, os, shutil, subprocess, sys, tempfile
from concurrent.futures import ThreadPoolExecutor
args = [a for a in sys.argv[1:] if not a.startswith("--")]
allp = "--all-props" in sys.argv
props_opt = [a.split("=", 1)[1].split(",") for a in sys.argv if a.startswith("--props=")]
SEED = os.environ.get("SEED_DIR", "/verif/seeded")
avail = sorted(p[:-3].upper() for p in os.listdir("/verif/sa/props") if p.startswith("c") and p.endswith(".py"))
def one(sid):
    d = os.path.join(SEED, sid)
    meta = json.load(open(os.path.join(d, "meta.json")))
    tmp = tempfile.mkdtemp(prefix="seedrun_")
    try:
        subprocess.run(f"git -C /repo archive HEAD | tar -x -C {tmp}", shell=True, check=True)
        r = subprocess.run(["git", "apply", os.path.join(d, "patch.diff")], cwd=tmp, capture_output=True, text=True)
        if r.returncode != 0:
            return sid, {"apply": "FAILED " + r.stderr[:100]}
        props = props_opt[0] if props_opt else (avail if allp else [meta["property"]])
        out = {}
        for p in props:
            if p not in avail:
                out[p] = "n/a"; continue
            env = dict(os.environ, SA_NO_EVIDENCE="1")
            r = subprocess.run(["/venv/bin/python", "-m", "sa.cli", "check", p, "--repo", tmp], cwd=os.environ.get("SA_ROOT", "/verif"), capture_output=True, text=True, env=env)
            v = [l for l in r.stdout.splitlines() if "VIOLATED" in l or l.startswith("ANALYSIS-ERROR")]
            out[p] = {0: "pass", 1: "VIOLATION", 2: "ERROR"}.get(r.returncode, str(r.returncode)) + (" :: " + v[0][:150] if v else "")
        return sid, out
    finally:
        shutil.rmtree(tmp, ignore_errors=True)
sids = [s for s in sorted(os.listdir(SEED)) if not args or any(s.startswith(a) for a in args)]
with ThreadPoolExecutor(12) as ex:
    for sid, out in ex.map(one, sids):
        for p, v in out.items():
            print(f"{sid:8s} {p:5s} {v}")
