#!/venv/bin/python
"""Regenerate MANIFEST.json from the table below (claimed checks must have sa/props/<id>.py)."""
import json, os
V = "/verif"
props = [json.loads(l) for l in open(f"{V}/properties.jsonl")]
NOTE = ("Trusted base: CPython semantics named in DESIGN.md 3.9, the abstract semantics of Engine A (sa/interp.py, sa/eval_*.py), "
        "ast.parse. Assumes user-supplied tagify()/_repr_html_()/__str__ are pure. The check decides the structural clause named in "
        "level_claimed.text, not runtime values; unknown code shapes end in exit 2 (ANALYSIS-ERROR), never in a violation.")
CLAIMS = {
 "C01": ("abstract interpretation of Tag/TagList.get_html_string into path summaries; frame grammar + attribute writer + void set + escape-function character map", "4/C01",
         "Structural: every path of the element frame matches the balanced-element grammar (void form iff childless void name), children and attributes are written once each in stored order, and both escape modes map their metacharacters to references that decode back. By induction over the tree the output parses back to the tree; tokenizer behaviour is an axiom."),
 "C02": ("escape typestate over all emission paths (Engine A) + abstract interpretation of html_escape (fast-path regex AST, replacement chain composed over the alphabet)", "4/C02",
         "Every path that emits a plain-str child applies text escaping exactly once; html_escape's fast path only skips strings without metacharacters and its slow path maps & < > to single references that decode back; numbers are stored as str(x). Decides which function runs on which path and that function's character map."),
 "C03": ("escape typestate of the attribute writer and of every merge path of TagAttrDict.update (Engine A) + attribute-mode character map of html_escape + dispatch table of value normalisation", "4/C03",
         "Every plain fragment that can reach an attribute value is attribute-escaped exactly once (by the writer for plain values, at the merge site for values merged into HTML()); the value normalisation table and the seven-character escape map are derived from the source and checked."),
 "C04": ("escape typestate (trusted fragments never escaped) + abstract interpretation of HTML.__add__/__radd__ over operand kinds", "4/C04",
         "HTML() children/attribute values, _repr_html_ output and script/style text are emitted unescaped on every path; HTML concatenation always yields HTML() with trusted operands verbatim and plain operands text-escaped once in operand order; no path escapes trusted or already-escaped content."),
 "C05": ("extracted sibling transducer + element frame (Engine A); product walk over reachable layout states checking no layout token between non-block neighbours; ownership/effect analysis: no read-only operation writes Tag.add_ws of a pre-existing tag, rebuilt tags keep the flag; content tokens of every transducer row carry no further operation (C05.text)", "4/C05-C07",
         "For every reachable layout state, a non-block child next to a non-block sibling emits no EOL/INDENT and is rendered flat; inline frames contain no layout token; every layout token is adjacent to a block boundary. Induction over the subtree gives the property for all trees incl. block-in-inline."),
 "C06": ("extracted sibling transducer + element frame compared with a specification renderer by product construction over all reachable (impl state, spec state) pairs", "4/C05-C07",
         "The extracted transducer and frames equal the specification written from the documented rule on every reachable state pair and every frame scenario, which by induction fixes the layout of every validly nested tree, every indent and eol."),
 "C07": ("extracted sibling transducer + element frame; metadata rows emit nothing and keep the state; frames invariant under number/position of metadata children; path-order rule: the MetadataNode test precedes every Protocol test on metadata rows (C07.order)", "4/C05-C07",
         "Metadata children are invisible to the three places that decide markup: the sibling loop (no emission, no state change in any reachable state), the child counting of the frame (same tokens for n_meta in {0,1,>=2}, metadata first or not), hence to the rendered string."),
 "C19": ("exhaustive AST check of all 113+66 generated wrappers against the generator's folded inline table; Engine A on Tag.__init__ for the _add_ws type guard", "4/C19",
         "All generated functions and the 17 re-exports are enumerated: element-name constant, forwarding of *args/**kwargs/_add_ws, default == (name not in _INLINE_TAG_NAMES); Tag.__init__ rejects every non-bool kind before storing."),
 "C10": ("abstract interpretation of _resolve_dependencies (3-ordering table), get_dependencies (per-kind collection table) and HTMLDependency.__init__ (validation-before-store over argument kinds)", "4/C10",
         "Resolution replaces iff the new Version is strictly greater than the kept one (compared as Version objects), keyed by name, result in first-occurrence order; collection is pre-order with dedup only at the top; every script/stylesheet/meta form is normalised to a list and validated for its required keys before it is stored; non-dict/keyless sources are rejected."),
 "C14": ("taint-with-sanitiser over TagList's effective mutator set (own + UserList parsed from the stdlib) via Engine A effect logs; dispatch tables of the normaliser, flatten, is_tag_node, is_tag_child; must-pass-through: every normal path of the flatten worker iterates its argument whatever its extra arguments hold (C14.reach)", "4/C14",
         "Every listed operation stores only results of the normaliser (or re-enters the checked constructor); normalisation precedes every storage write in each mutator (failure atomicity); the per-kind tables of the normaliser and of flatten are the documented ones; is_tag_child accepts every accepted kind and is_tag_node every stored kind."),
 "C15": ("abstract interpretation of TagAttrDict (value dispatch table, name pipeline evaluated on the property's raw-name shapes, per-path merge table of update, argument order, single final dict.update), Tag.__init__ partition and consolidate_attrs forwarding", "4/C15",
         "Names: one trailing underscore stripped then underscores to hyphens; values: None/False dropped, True empty, numbers as text; repeated names joined existing+' '+new in argument order into a per-call dict that is written once (so later updates replace); Tag.__init__ and consolidate_attrs split arguments by the same predicate."),
 "C16": ("abstract interpretation of add_class/remove_class/has_class/add_style (effect traces with TagAttrDict opaque) and of css()'s loop body; key pipeline of each loop-body path evaluated on the sample property names that take the path", "4/C16",
         "Structural part only: helpers return self; add_style's semicolon test is on every accepting path and precedes the write; (new, old) order iff prepend; has_class is membership in split(); remove_class filters split() tokens by != and re-joins or pops; css appends one declaration per non-None argument. The token-set algebra over histories is not decided."),
 "C17": ("effect-order analysis (Engine A traces) of Tag.__enter__/__exit__ and dispatch table of the display-hook wrapper (both truth values of the saved hook explored; the _repr_html_ test precedes any hand-over of a plain value)", "4/C17",
         "On every path of __exit__ the saved hook is restored before foreign code runs and the tag is handed to it exactly once; __enter__ raises before writing anything when the tag is active and saves the hook before replacing it; wrapper table per value kind. Nesting follows by induction on depth."),
 "C08": ("ownership/effect analysis (mutation sites vs. borrowed objects, per-function summaries to a fix-point, copy semantics read from each class's __copy__) + Engine A tables for tagify, equality coverage (loop over the fields or whole-dictionary comparison) and delegation; pairing rule for transient fields, class-level defaults included", "4/C08",
         "No read-only entry point has, on any call path, a mutation site whose target existed before the call; tagify returns a new object with new containers and replaces every tagifiable/metadata child; render uses the tagified copy; repr/_repr_html_/str agree; == rejects other kinds and compares every instance field; the transient hook field is reset by __exit__. Value-level equality of copies is not decided."),
 "C09": ("splice-safety idiom check of TagList.tagify + Engine A loop-body table + extracted sibling transducer (raise rows) + effect traces of HTMLDocument._gen_html_tag_tree; must-pass-through: every normal path of TagList.tagify enters the expansion loop unless the receiver is empty (C09.reach)", "4/C09",
         "Splicing cannot skip or revisit children (descending index, fresh list, or exact advance); a TagList expansion replaces exactly its element; un-tagified objects without _repr_html_ raise and emit nothing on every layout state; document shape decisions and head hoisting operate on tagified content."),
 "C11": ("effect-trace analysis (Engine A, callees opaque) of HTMLDocument.render / _gen_html_tag_tree / _hoist_head_content / as_html_tags against obligations R1-R6", "4/C11",
         "Structural obligations R1-R5 of document assembly hold on every path (doctype, three-case table with both settings forwarded, head search/insert, meta charset first, listing iff non-empty, as_html_tags over the same list in order, meta/link/script/head order); R6 (listed = hoisted = returned) is a recorded known finding. The complete document string is not decided."),
 "C12": ("effect-order analysis of copy_to (verification pass dominates every filesystem change; raise path touches nothing), argument-forwarding checks for save_html/as_dict, case table of source_path_map; def-use rule on the copy loop (no path computed from a variable the loop rebinds); call-graph closure of the save/copy path free of cache decorators and module-level state", "4/C12",
         "Structural part only: URL and copy path both come from source_path_map with the same settings; quote() with default safe set on the same src/href fields the copier reads; copy_to verifies all listed files before rmtree/mkdir/copy; save_html copies every rendered dependency and returns the path. Byte identity and filesystem faults are runtime matters."),
 "C13": ("extracted sanitiser chain applied to the 448-word '</script' language; regex-AST prefix vs derived open tag; Engine A tables for extraction de-duplication and first-occurrence replace; sibling agreement with HTMLDocument; head markup taken with get_html_string; no class-level mutable state", "4/C13",
         "No case variant of '</script' followed by any tokenizer terminator survives the serialiser while JSON-decoding is preserved; writer keys = reader parameters; the extraction pattern matches exactly the rendered open tag lazily to </script>; de-duplication is by membership in all earlier serialisations; the placeholder is replaced once by str.replace with HTMLDocument's listing/markup."),
 "C18": ("nondeterminism-source reachability over the call-graph closure of the construction/render API (hash/id, set iteration, time/random/env, module-level state, memoising decorators, shared mutable defaults and class attributes) + dataflow of head_content's name + purity of read-only operations", "4/C18",
         "No source of run-to-run or history-dependent variation is reachable from the API; head_content names are prefix + hashlib digest of the rendered payload; read-only operations mutate nothing (history independence). Digest injectivity is an axiom."),
 "C20": ("ownership/effect analysis of JSXTag.tagify with the walker analysed under its visitor closure + Engine A tables (walker coverage, visitor, _serialize_attr dispatch, allow-list order, prop-name normalisation on item assignment and update) + asset existence", "4/C20",
         "Conversion mutates nothing reachable from the component; the walker reaches every child and prop value; every metadata node seen is collected and attached together with react/react-dom; prop values are serialised per kind (lists element-wise, booleans before numbers); disallowed props are rejected before construction; script files exist. JavaScript well-formedness is not decided."),
}
checks = []
for pid, (tech, ref, text) in sorted(CLAIMS.items()):
    assert os.path.isfile(f"{V}/sa/props/{pid.lower()}.py"), pid
    checks.append({
        "property_id": pid,
        "quick_cmd": f"/venv/bin/python -m sa.cli check {pid} --tier quick",
        "thorough_cmd": f"/venv/bin/python -m sa.cli check {pid} --tier thorough",
        "evidence_file": f"/verif/evidence/{pid}.json",
        "replay_cmd_template": f"/venv/bin/python -m sa.cli check {pid} --replay {{path}}",
        "engine": "sa",
        "level_claimed": {"category": "other", "text": "Static analysis (no repository code is executed). " + text, "design_ref": f"DESIGN.md section {ref}"},
        "level_note": NOTE,
        "technique": "static analysis: " + tech,
    })
na = [{"property_id": p["id"], "reason": "not claimed"} for p in props if p["id"] not in CLAIMS]
m = {"version": 1, "setup_cmd": "true",
     "hooks": {"guard": "HTMLTOOLS_VERIF", "enable": "no hooks: the analysers only parse /repo's sources; nothing reads the guard",
               "baseline_off_cmd": "cd /repo && /venv/bin/python -m pytest -ra -q -p no:cacheprovider --timeout=900 --continue-on-collection-errors",
               "source_commits": [], "add_only": True},
     "engines": [{"name": "sa", "path": "/verif/sa", "serves_properties": sorted(CLAIMS),
                  "kind_free_text": "pure-stdlib static analysers over the ASTs of /repo: abstract interpreter (path summaries), CFG/dominance, ownership/effects, constant and regex-AST tables"}],
     "checks": checks,
     "notes": "All checks: cwd /verif, read /repo's working tree on every run, never import htmltools. Exit 0 held / 1 VIOLATION / 2 ANALYSIS-ERROR (cannot decide).",
     "not_applicable": na}
json.dump(m, open(f"{V}/MANIFEST.json", "w"), indent=1)
print("claimed", sorted(CLAIMS), "n/a", len(na))
