#!/venv/bin/python
"""Confirm seeded changes: in a scratch worktree of /repo, the patch applies, the suite passes (77),
the demo fails with the patch and passes without. Writes /verif/seeded/<id>/{patch.diff,demo.py,notes.md,meta.json}."""
import json, os, shutil, subprocess, sys, re
SRC = sys.argv[1] if len(sys.argv) > 1 else "/tmp/seedout"
OFF = int(os.environ.get("SEED_OFFSET", "0"))   # round 2: ids continue after the first round
ONLY = sys.argv[2:]
DST = "/verif/seeded"
WT = "/tmp/wt_confirm"
def sh(cmd, cwd=None, env=None):
    p = subprocess.run(cmd, shell=True, cwd=cwd, env=env, capture_output=True, text=True)
    return p.returncode, (p.stdout + p.stderr)
subprocess.run(f"git -C /repo worktree remove --force {WT}", shell=True, capture_output=True)
rc, out = sh(f"git -C /repo worktree add -q --detach {WT} HEAD"); assert rc == 0, out
head = sh("git -C /repo rev-parse --short HEAD")[1].strip()
env = dict(os.environ, PYTHONPATH=WT, PYTHONDONTWRITEBYTECODE="1")
res = []
for pid in sorted(x for x in os.listdir(SRC) if os.path.isdir(os.path.join(SRC, x))):
    if ONLY and pid not in ONLY:
        continue
    for k in sorted(x for x in os.listdir(os.path.join(SRC, pid)) if x.isdigit()):
        d = os.path.join(SRC, pid, k)
        patch = os.path.join(d, "patch.diff"); demo = os.path.join(d, "demo.py")
        if not (os.path.isfile(patch) and os.path.isfile(demo)):
            res.append((pid, k, "missing files")); continue
        sid = f"{pid}-{int(k) + OFF}"
        sh("git checkout -q -- . && git clean -fdq", cwd=WT)
        rc0, o0 = sh(f"/venv/bin/python {demo}", cwd=WT, env=env)
        rc, o = sh(f"git apply {patch}", cwd=WT)
        if rc != 0:
            res.append((pid, k, "patch does not apply: " + o[:200])); continue
        rct, ot = sh("/venv/bin/python -m pytest -q -p no:cacheprovider -x 2>&1 | tail -3", cwd=WT, env=env)
        passed = re.search(r"(\d+) passed", ot); failed = re.search(r"(\d+) failed", ot)
        rc1, o1 = sh(f"/venv/bin/python {demo}", cwd=WT, env=env)
        files = sh("git diff --name-only", cwd=WT)[1].split()
        sh("git checkout -q -- . && git clean -fdq", cwd=WT)
        ok = (rc0 == 0 and rc1 != 0 and passed and int(passed.group(1)) == 77 and not failed)
        res.append((pid, k, "CONFIRMED" if ok else f"REJECTED clean_rc={rc0} patched_rc={rc1} tests={ot.strip()[-80:]}"))
        if ok:
            out = os.path.join(DST, sid); os.makedirs(out, exist_ok=True)
            shutil.copy(patch, out); shutil.copy(demo, out)
            notes = os.path.join(d, "notes.md")
            if os.path.isfile(notes): shutil.copy(notes, out)
            meta = {"id": sid, "property": pid, "files_touched": files, "base_commit": head,
                    "needs_to_manifest": open(notes).read()[:1500] if os.path.isfile(notes) else "",
                    "confirmed": {"suite_with_patch": "77 passed", "demo_with_patch_exit": rc1, "demo_clean_exit": rc0,
                                  "how": f"scratch worktree {WT} of /repo@{head}: git apply patch.diff; PYTHONPATH=<wt> /venv/bin/python -m pytest -q -p no:cacheprovider; PYTHONPATH=<wt> /venv/bin/python demo.py; git checkout -- .; demo.py again",
                                  "demo_output_with_patch": o1[-600:]}}
            json.dump(meta, open(os.path.join(out, "meta.json"), "w"), indent=1)
subprocess.run(f"git -C /repo worktree remove --force {WT}", shell=True, capture_output=True)
for r in res: print(*r)
