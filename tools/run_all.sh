#!/bin/bash
# run every claimed quick check on /repo, validate evidence
cd /verif
rc=0
for pid in $(jq -r '.checks[].property_id' MANIFEST.json); do
  out=$(/venv/bin/python -m sa.cli check $pid --tier ${1:-quick} 2>&1); r=$?
  echo "$pid rc=$r $(echo "$out" | head -1)"
  if [ $r -ne 0 ]; then echo "$out" | grep -E "VIOLAT|ANALYSIS|KNOWN" | head -5; rc=1; fi
done
python3-vt - <<'PY'
import json, jsonschema, glob
sch=json.load(open('/root/.vp/EVIDENCE.schema.json'))
man=json.load(open('/verif/MANIFEST.json'))
jsonschema.validate(man, json.load(open('/root/.vp/MANIFEST.schema.json')))
for c in man['checks']:
    jsonschema.validate(json.load(open(c['evidence_file'])), sch)
print("manifest + evidence valid:", len(man['checks']))
PY
exit $rc
