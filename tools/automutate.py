#!/venv/bin/python
"""Systematic first-order mutants of the package source (development aid, not part of any verdict).

For every mutation site in htmltools/_core.py, _util.py, _jsx.py (functions that belong to the rendering / tree / dependency
code; the preview server and IPython glue are skipped):
  1. apply the mutant to a scratch copy of /repo HEAD, 2. run the unedited test-suite (-x); mutants the tests kill are dropped,
  3. run all twenty checks on the survivors.  Output: one line per surviving mutant with the checks that report it.
Survivors that no check reports are either equivalent mutants, outside the twenty properties, or gaps - to be triaged by hand.

usage: tools/automutate.py [--files=_core.py,_util.py] [--limit=N] [--only=func1,func2] > /tmp/automut.txt
"""
from __future__ import annotations

import ast
import copy
import json
import os
import shutil
import subprocess
import sys
import tempfile
from concurrent.futures import ThreadPoolExecutor

VERIF = os.path.dirname(os.path.dirname(os.path.abspath(__file__)))
SKIP_FUNCS = {"_tag_show", "ensure_http_server", "start_http_server", "http_server", "get_open_port", "package_dir", "show", "__repr__",
              "log_message", "Handler.__init__"}
FILES = ["htmltools/_core.py", "htmltools/_util.py", "htmltools/_jsx.py"]
for a in sys.argv[1:]:
    if a.startswith("--files="):
        FILES = ["htmltools/" + x for x in a.split("=", 1)[1].split(",")]
LIMIT = next((int(a.split("=")[1]) for a in sys.argv[1:] if a.startswith("--limit=")), 10 ** 9)
ONLY = next((set(a.split("=")[1].split(",")) for a in sys.argv[1:] if a.startswith("--only=")), None)

CMP = {ast.Eq: ast.NotEq, ast.NotEq: ast.Eq, ast.Lt: ast.LtE, ast.LtE: ast.Lt, ast.Gt: ast.GtE, ast.GtE: ast.Gt,
       ast.Is: ast.IsNot, ast.IsNot: ast.Is, ast.In: ast.NotIn, ast.NotIn: ast.In}


def sites(tree: ast.Module):
    """Yield (description, function qualname, mutate(tree_copy_node_lookup))."""
    out = []
    parents = {}
    for n in ast.walk(tree):
        for c in ast.iter_child_nodes(n):
            parents[id(c)] = n

    def qual(n):
        names = []
        cur = n
        while cur is not None:
            if isinstance(cur, (ast.FunctionDef, ast.ClassDef)):
                names.append(cur.name)
            cur = parents.get(id(cur))
        return ".".join(reversed(names))

    idx = {id(n): i for i, n in enumerate(ast.walk(tree))}
    for n in ast.walk(tree):
        q = qual(n)
        if not q or any(part in SKIP_FUNCS for part in q.split(".")) or q.split(".")[-1] in SKIP_FUNCS:
            continue
        if ONLY and not (set(q.split(".")) & ONLY):
            continue
        # skip annotations and docstrings
        par = parents.get(id(n))
        if isinstance(par, ast.arg) or isinstance(par, ast.AnnAssign) and par.annotation is n:
            continue
        i = idx[id(n)]
        if isinstance(n, ast.Compare) and len(n.ops) == 1 and type(n.ops[0]) in CMP:
            out.append((f"cmp {type(n.ops[0]).__name__}->{CMP[type(n.ops[0])].__name__}", q, n.lineno, ("cmp", i)))
        if isinstance(n, ast.BoolOp):
            out.append((f"bool {type(n.op).__name__} flipped", q, n.lineno, ("bool", i)))
        if isinstance(n, ast.UnaryOp) and isinstance(n.op, ast.Not):
            out.append(("not removed", q, n.lineno, ("not", i)))
        if isinstance(n, ast.Constant) and isinstance(n.value, bool):
            out.append((f"const {n.value}->{not n.value}", q, n.lineno, ("constbool", i)))
        if isinstance(n, ast.Constant) and isinstance(n.value, int) and not isinstance(n.value, bool) and not isinstance(par, ast.Subscript):
            out.append((f"const {n.value}->{n.value + 1}", q, n.lineno, ("constint", i)))
        if isinstance(n, ast.Expr) and isinstance(n.value, ast.Call):
            out.append((f"delete call `{ast.unparse(n)[:40]}`", q, n.lineno, ("delstmt", i)))
        if isinstance(n, (ast.Continue, ast.Break)):
            out.append((f"delete {type(n).__name__.lower()}", q, n.lineno, ("delstmt", i)))
        if isinstance(n, ast.If) and not n.orelse and len(n.body) == 1 and isinstance(n.body[0], (ast.Raise,)):
            out.append(("delete guard-raise", q, n.lineno, ("delstmt", i)))
        if isinstance(n, ast.Call) and isinstance(n.func, ast.Name) and n.func.id == "isinstance" and len(n.args) == 2 and isinstance(n.args[1], ast.Tuple) \
                and len(n.args[1].elts) >= 2:
            for k in range(len(n.args[1].elts)):
                out.append((f"isinstance tuple drops {ast.unparse(n.args[1].elts[k])}", q, n.lineno, ("istuple", i, k)))
        if isinstance(n, ast.Call) and isinstance(n.func, ast.Name) and n.func.id in ("copy", "deepcopy") and len(n.args) == 1:
            out.append((f"{n.func.id}(x) -> x", q, n.lineno, ("uncopy", i)))
        if isinstance(n, ast.Call) and isinstance(n.func, ast.Name) and n.func.id == "reversed" and len(n.args) == 1:
            out.append(("reversed(x) -> x", q, n.lineno, ("uncopy", i)))
        if isinstance(n, ast.BinOp) and isinstance(n.op, ast.Add) and isinstance(n.right, ast.Constant) and isinstance(n.right.value, int):
            out.append(("x + k -> x", q, n.lineno, ("dropadd", i)))
        if isinstance(n, ast.IfExp):
            out.append(("ifexp branches swapped", q, n.lineno, ("ifexp", i)))
    return out


def apply(src: str, spec) -> str:
    tree = ast.parse(src)
    nodes = list(ast.walk(tree))
    kind, i = spec[0], spec[1]
    n = nodes[i]
    parents = {}
    for x in nodes:
        for f, v in ast.iter_fields(x):
            if isinstance(v, list):
                for k, c in enumerate(v):
                    if isinstance(c, ast.AST):
                        parents[id(c)] = (x, f, k)
            elif isinstance(v, ast.AST):
                parents[id(v)] = (x, f, None)

    def replace(old, new):
        p, f, k = parents[id(old)]
        if k is None:
            setattr(p, f, new)
        else:
            getattr(p, f)[k] = new

    if kind == "cmp":
        n.ops = [CMP[type(n.ops[0])]()]
    elif kind == "bool":
        n.op = ast.Or() if isinstance(n.op, ast.And) else ast.And()
    elif kind == "not":
        replace(n, n.operand)
    elif kind == "constbool":
        n.value = not n.value
    elif kind == "constint":
        n.value = n.value + 1
    elif kind == "delstmt":
        replace(n, ast.Pass())
    elif kind == "istuple":
        del n.args[1].elts[spec[2]]
    elif kind == "uncopy":
        replace(n, n.args[0])
    elif kind == "dropadd":
        replace(n, n.left)
    elif kind == "ifexp":
        n.body, n.orelse = n.orelse, n.body
    ast.fix_missing_locations(tree)
    return ast.unparse(tree)


def run_one(job):
    rel, base_src, desc, q, line, spec = job
    tmp = tempfile.mkdtemp(prefix="automut_")
    try:
        subprocess.run(f"git -C /repo archive HEAD | tar -x -C {tmp}", shell=True, check=True)
        try:
            new = apply(base_src, spec)
        except Exception as ex:
            return (rel, q, line, desc, "apply-error", str(ex)[:60])
        open(os.path.join(tmp, rel), "w").write(new)
        env = {**os.environ, "PYTHONPATH": tmp, "PYTHONDONTWRITEBYTECODE": "1"}
        t = subprocess.run(["/venv/bin/python", "-m", "pytest", "-q", "-x", "-p", "no:cacheprovider"], cwd=tmp, env=env, capture_output=True, text=True)
        if t.returncode != 0:
            return (rel, q, line, desc, "killed", "")
        hits, errs = [], []
        for pid in [f"C{k:02d}" for k in range(1, 21)]:
            c = subprocess.run(["/venv/bin/python", "-m", "sa.cli", "check", pid, "--repo", tmp], cwd=VERIF,
                               env={**os.environ, "SA_NO_EVIDENCE": "1"}, capture_output=True, text=True)
            if c.returncode == 1:
                hits.append(pid)
            elif c.returncode != 0:
                errs.append(pid)
        return (rel, q, line, desc, "survived", f"reported={','.join(hits) or '-'} undecided={','.join(errs) or '-'}")
    finally:
        shutil.rmtree(tmp, ignore_errors=True)


def main():
    jobs = []
    for rel in FILES:
        # the unparsed form is the base, so that a mutant differs from it in exactly one construct
        raw = subprocess.run(["git", "-C", "/repo", "show", f"HEAD:{rel}"], capture_output=True, text=True, check=True).stdout
        base = ast.unparse(ast.parse(raw))
        tree = ast.parse(base)
        for desc, q, line, spec in sites(tree):
            jobs.append((rel, base, desc, q, line, spec))
    jobs = jobs[:LIMIT]
    print(f"# {len(jobs)} mutation sites", flush=True)
    with ThreadPoolExecutor(14) as ex:
        for r in ex.map(run_one, jobs):
            if r[4] != "killed":
                print(" | ".join(str(x) for x in r), flush=True)


if __name__ == "__main__":
    main()
