#!/venv/bin/python
"""Confirm behaviour-preserving refactorings: patch applies, suite passes (77), probe output identical with/without.
Writes /verif/twins/<id>/{patch.diff,probe.py,notes.md,meta.json}."""
import json, os, shutil, subprocess, sys, re
SRC = sys.argv[1] if len(sys.argv) > 1 else "/tmp/twinout"
only = sys.argv[2:]
OFF = int(os.environ.get("TWIN_OFFSET", "0"))   # round 2: ids continue after the first round
DST = "/verif/twins"
WT = "/tmp/wt_confirm_t"
def sh(cmd, cwd=None, env=None):
    p = subprocess.run(cmd, shell=True, cwd=cwd, env=env, capture_output=True, text=True)
    return p.returncode, (p.stdout + p.stderr)
subprocess.run(f"git -C /repo worktree remove --force {WT}", shell=True, capture_output=True)
rc, out = sh(f"git -C /repo worktree add -q --detach {WT} HEAD"); assert rc == 0, out
head = sh("git -C /repo rev-parse --short HEAD")[1].strip()
env = dict(os.environ, PYTHONPATH=WT, PYTHONDONTWRITEBYTECODE="1", PYTHONHASHSEED="0")
for pid in sorted(x for x in os.listdir(SRC) if os.path.isdir(os.path.join(SRC, x))):
    if only and pid not in only: continue
    for k in sorted(x for x in os.listdir(os.path.join(SRC, pid)) if x.isdigit()):
        d = os.path.join(SRC, pid, k)
        patch = os.path.join(d, "patch.diff"); probe = os.path.join(d, "probe.py")
        if not (os.path.isfile(patch) and os.path.isfile(probe)): 
            continue
        sid = f"{pid}-{int(k) + OFF}"
        if os.path.isdir(os.path.join(DST, sid)): 
            print(sid, "already confirmed"); continue
        src = open(probe).read()
        src2 = re.sub(r'^(\s*)assert .*__file__.*$', r'\1pass', src, flags=re.M)
        tmpprobe = "/tmp/_probe_run.py"; open(tmpprobe, "w").write(src2)
        sh("git checkout -q -- . && git clean -fdq", cwd=WT)
        rc0, o0 = sh(f"/venv/bin/python {tmpprobe}", cwd=WT, env=env)
        rc, o = sh(f"git apply {patch}", cwd=WT)
        if rc != 0:
            print(sid, "REJECTED patch does not apply", o[:100]); continue
        rct, ot = sh("/venv/bin/python -m pytest -q -p no:cacheprovider -x 2>&1 | tail -3", cwd=WT, env=env)
        passed = re.search(r"(\d+) passed", ot); failed = re.search(r"(\d+) failed", ot)
        rc1, o1 = sh(f"/venv/bin/python {tmpprobe}", cwd=WT, env=env)
        files = sh("git diff --name-only", cwd=WT)[1].split()
        sh("git checkout -q -- . && git clean -fdq", cwd=WT)
        o0n = o0.replace(WT, "<wt>"); o1n = o1.replace(WT, "<wt>")
        ok = passed and int(passed.group(1)) == 77 and not failed and o0n == o1n and rc0 == rc1
        print(sid, "CONFIRMED" if ok else f"REJECTED tests={ot.strip()[-40:]} same_output={o0n == o1n} rc={rc0},{rc1}")
        if ok:
            out = os.path.join(DST, sid); os.makedirs(out, exist_ok=True)
            shutil.copy(patch, out); open(os.path.join(out, "probe.py"), "w").write(src2)
            notes = os.path.join(d, "notes.md")
            if os.path.isfile(notes): shutil.copy(notes, out)
            json.dump({"id": sid, "property": pid, "kind": "behaviour-preserving refactoring", "files_touched": files, "base_commit": head,
                       "what": open(notes).read()[:1200] if os.path.isfile(notes) else "",
                       "confirmed": {"suite_with_patch": "77 passed", "probe_output_identical": True, "probe_output_bytes": len(o0),
                                     "how": f"scratch worktree of /repo@{head}: probe.py on clean tree; git apply patch.diff; pytest; probe.py again; outputs compared"}},
                      open(os.path.join(out, "meta.json"), "w"), indent=1)
subprocess.run(f"git -C /repo worktree remove --force {WT}", shell=True, capture_output=True)
