#!/venv/bin/python
"""Markdown table "seed | change | own check | other checks" from a `run_seeds.py --all-props` matrix (development aid).
usage: tools/seed_table.py /tmp/matrix_all.txt [first-k last-k]"""
import json, os, re, sys
M = sys.argv[1]
lo, hi = (int(sys.argv[2]), int(sys.argv[3])) if len(sys.argv) > 3 else (1, 99)
DESC = {
 'C01-16': '`html_escape` memo keyed by the text only (attr flag not in the key)', 'C01-17': '`__setitem__` drops an empty class/style (render-time copy goes through it)', 'C01-18': 'void-ness looked up once in `Tag.__init__` (stale after rename; two sites)', 'C01-19': 'children filtered with `item not in (None, False)`: 0 dropped', 'C02-16': "`_normalize_text` verbatim memo conflates `HTML('x')` and `'x'`", 'C02-17': 'escape decision frozen in `Tag.__init__` (stale after rename)', 'C02-18': '`_tagchilds_to_tagnodes` drops zero with the False filter', 'C02-19': 'one shared `html_escape` cache for text and attribute mode (local alias of a module dict)', 'C03-16': '`x in (None, False)` drops 0 / 0.0', 'C03-17': '`html_escape` replaces only the characters found, in `sorted()` order (`"` before `&`)', 'C03-18': 'merge test `type(prev) is not type(new)` (str subclass)', 'C03-19': 'attribute writer: one flag for the whole tag after the first `HTML()` value', 'C04-16': 'new `HTML.__iadd__` grows the left operand in place', 'C04-17': '`_normalize_text` memo conflates `HTML` with `str` (module dict)', 'C04-18': "`update`: 'any HTML() value?' decided before kwargs are folded in", 'C04-19': '`HTMLTextDocument.render` splices with `re.sub` (replacement template)', 'C05-16': "`_repr_html_` branch keeps the previous sibling's state", 'C05-17': "block-inside-inline 'layout fix' in `Tag.get_html_string` (child's flag read as the frame's)", 'C05-18': '`as_html_tags` rebuilds head tags without their whitespace flag', 'C05-19': "`_hoist_head_content` sets `add_ws=True` on the dependency's own tags (aliasing)", 'C06-16': "`eol = eol or '\\n'` swallows `eol=''`", 'C06-17': 'first sibling decided by `child is not nodes[0]` (same object twice)', 'C06-18': '`Tag.extend(list(x))` iterates a bare string', 'C06-19': '`TagList.tagify` splices everything that is not a Tag/metadata node (`HTML` per character)', 'C07-16': 'void test runs before `children` is rebound to the filtered list', 'C07-17': 'forward tagify loop writes the metadata copy at a stale index', 'C07-18': '`HTMLDependency` gains `_repr_html_` (display hook overlap)', 'C07-19': '`insert` node by node at `start + offset` (negative index crosses 0)', 'C08-16': '`Tag.__copy__`: `copy(value) if value else value` shares empty containers', 'C08-17': '`source_path_map` caches on the instance (`cached_property`)', 'C08-18': '`TagList.tagify` iterates forwards while splicing', 'C08-19': '`HTMLDependency.head` class-level default + simplified `__eq__` tail', 'C09-16': 'splice test widened to `Sequence`: `HTML()` exploded per character', 'C09-17': "html attributes written before `tagify()` into the expansion's own tag", 'C09-18': 'un-expanded object alone in `<script>` emitted by the single-child fast path', 'C09-19': '`Tag.tagify` keeps un-expanded children when the expansion is empty (`if children:`)', 'C10-16': '`max(dep, map.get(name, dep), key=...)`: ties go to the later object', 'C10-17': 'direct dependencies collected before those of sibling tags', 'C10-18': '`if source:` skips validation of falsy sources', 'C10-19': 'metadata nodes ignored when choosing the root `<html>`/`<body>` (their dependencies are lost)', 'C11-16': '`Tag.__copy__` skips `copy()` for falsy fields (attrs leak between documents)', 'C11-17': '`HTMLDocument.__init__` adopts a lone `TagList` argument', 'C11-18': '`x in (None, False)` drops a zero html attribute', 'C11-19': 'sole-content test reads `len(self._content)` but takes `content[0]`', 'C12-16': 'source directory memoised in a module dict keyed by `subdir` only', 'C12-17': '`quote(unquote(path))` in `as_dict`', 'C12-18': '`target_dir` rebound inside the copy loop', 'C12-19': '`save_html` skips `copy_to` for dependencies without script/stylesheet', 'C13-16': 'dependency head serialised with `str()` (json mode appends nested dependencies)', 'C13-17': 'duplicates dropped by `dep not in deps` (object equality)', 'C13-18': '`_deps` class-level default list shared by all documents', 'C13-19': '`replace(..., 1)` rewritten with `str.partition` (placeholder absent)', 'C14-16': '`_flatten_recurse` recursion guard remembers containers forever', 'C14-17': 'module-level cache of number text keyed by the number (`1 == 1.0 == True`)', 'C14-18': '`insert` node by node at `start + offset`', 'C14-19': '`Tag.append` forwards its arguments one at a time (partial append before TypeError)', 'C15-16': '`prev = attrz.get(nm); if prev:` (empty previous value not joined)', 'C15-17': '`x in (None, False)` drops zero', 'C15-18': '`TagAttrDict.__init__` fast path for a lone dict forgets the keywords', 'C15-19': '`consolidate_attrs` returns one shared dict for attribute-less calls', 'C16-16': '`css()` built from a generator: never `None`', 'C16-17': '`remove_class` by padded `str.replace` misses adjacent repeats', 'C16-18': '`has_class` builds a regular expression from the token', 'C16-19': "`add_style` guard `style and not style.endswith(';')` accepts ''", 'C17-16': '`__enter__` swaps hooks with tuple assignment before the re-entry check', 'C17-17': '`isinstance(value, str)` fast path in front of the `_repr_html_` test', 'C17-18': '`_tagchilds_to_tagnodes` became a generator (partial append before TypeError)', 'C17-19': 'restore `self.prev_displayhook or sys.__displayhook__` (falsy callable)', 'C18-16': '`head_content` lone-text fast path hashes the unescaped text', 'C18-17': 'script items rebuilt through a keys-view difference (set order)', 'C18-18': '`_normalize_attr_value` memoised with `lru_cache`', 'C18-19': '`HTMLTextDocument._deps` class-level default', 'C19-16': 'bare-tag fast path returns before the `_add_ws` type check', 'C19-17': '`globals()` loop wraps obsolete tag functions (wrapper loses the element name)', 'C19-18': '`lru_cache` on `_normalize_attr_value`', 'C19-19': '`_flatten_recurse` fast path extends with a `TagList` item un-normalised', 'C20-16': 'scalar serialiser memoised with `lru_cache` (True vs 1.0)', 'C20-17': 'metadata nodes de-duplicated by name, last wins', 'C20-18': 'list-valued props walked in place through a list shared with the original', 'C20-19': 'positional dict props merged after the allow-list check',
 'C01-12': 'comma lost in the void table (`sourcetrack`)', 'C01-13': 'CR escaped as `&#10;` in the attribute table', 'C01-14': '`copy` dropped in `HTMLDocument.__copy__`', 'C01-15': 'void test reads `self.children` (unfiltered)', 'C02-12': '`html_escape` slow path always uses the attribute table', 'C02-13': 'numbers stored with `repr()`', 'C02-14': '`+=` uses `super().extend`', 'C02-15': 'display hook drops falsy values (`value and ...`)', 'C03-12': 'CR escaped as `&#10;`', 'C03-13': '`attr=True` lost in one merge branch', 'C03-14': '`x in (None, False)` drops zero', 'C03-15': '`__setitem__` stores the raw value', 'C04-12': '`html_escape` default flipped to `attr=True`', 'C04-13': 'no-escape fast path prints `self.children[0]`', 'C04-14': 'plain value merged after `HTML()` escaped with text rules', 'C04-15': 'display hook drops the `HTML()` wrap', 'C05-12': 'state reset lost after a `_repr_html_` child', 'C05-13': '`wbr` dropped from the inline table (script and tags.py)', 'C05-14': 'void test reads `self.children`', 'C05-15': '`svg.a` does not forward `_add_ws`', 'C06-12': '`TagList.get_html_string` default `add_ws=False`', 'C06-13': 'one-line rule reads `self.children[0]`', 'C06-14': '`tags.wbr` default flipped', 'C06-15': 'LF entry dropped from the attribute escape table', 'C07-12': 'void test reads `self.children`', 'C07-13': 'JSX renderer skips only `HTMLDependency`', 'C07-14': 'extraction pattern lost its final `>`', 'C07-15': '`_equals_impl` returns True for different classes', 'C08-12': '`JSXTag.__copy__` updates from `self.__dict__`', 'C08-13': '`Tag.render` collects dependencies from `self`', 'C08-14': '`copy_to` clears the target only `if isfile`', 'C08-15': 'JSX visitor copies only non-metadata values', 'C09-12': '`TagList.tagify`: `cp = self`', 'C09-13': '`Tag.render`: dependencies from `self`', 'C09-14': 'document case test reads `len(self._content)`', 'C09-15': '`raise` keyword lost before `RuntimeError(...)`', 'C10-12': '`>=` on version ties', 'C10-13': '`if source:` skips validation of falsy sources', 'C10-14': '`dedup` not forwarded by `Tag.get_dependencies`', 'C10-15': '`TagList.render`: dependencies from `self`', 'C11-12': 'lone-`<body>` test `len(content) >= 1`', 'C11-13': 'link tags before meta tags', 'C11-14': '`TagList.tagify`: `cp = self`', 'C11-15': 'void test reads `self.children`', 'C12-12': 'stale target cleared only `if isfile`', 'C12-13': '`Tag.save_html` lost its `return`', 'C12-14': "`quote(src, safe='/%')` for scripts", 'C12-15': '`Tag.render` collects with `dedup=False`', 'C13-12': 'only lower-case `</s` neutralised', 'C13-13': '`break` for `continue` on a repeated serialisation', 'C13-14': '`replace` lost its count', 'C13-15': 'json mode serialises `x.get_dependencies()`', 'C14-12': '`+=` extends `self.data` directly', 'C14-13': '`int` dropped from `is_tag_child`', 'C14-14': '`TagList.tagify`: `cp = self`', 'C14-15': '`JSXTag.extend` calls `append(*x)`', 'C15-12': '`__setitem__` stores under the raw name', 'C15-13': '`x in (None, False)` drops zero', 'C15-14': 'merge test `if attrz.get(nm)`', 'C15-15': '`consolidate_attrs` filters with `type(x) is not dict`', 'C16-12': '`css` drops falsy values', 'C16-13': '`remove_class` filters by substring', 'C16-14': '`add_style` guard checks `str` only', 'C16-15': "`has_class` splits on `' '`", 'C17-12': 'Ellipsis no longer ignored', 'C17-13': 'normaliser tests `is_tag_child`', 'C17-14': 'hand-over before the saved hook is cleared', 'C17-15': 're-entry guard by truthiness', 'C18-12': '`JSXTag.__copy__` without `copy`', 'C18-13': '`HTMLTextDocument(deps=[])` mutable default', 'C18-14': "digest of `encode('ascii', 'ignore')`", 'C18-15': '`TagList.get_dependencies` default `dedup=False`', 'C19-12': 'falsy non-bool `_add_ws` accepted', 'C19-13': '`template` default flipped', 'C19-14': '`feFuncB` creates `feFuncG`', 'C19-15': '`source` drops `*args`', 'C20-12': 'quote escaping became a no-op', 'C20-13': '`JSXTagAttrDict.__setitem__` stores under the raw name', 'C20-14': 'prop values not walked recursively', 'C20-15': '`JSXTag.__copy__` without `copy`',
 "C01-8": "void-ness cached at construction (stale after `.name` is reassigned)", "C01-9": "`html_escape` leaves numeric character references alone",
 "C01-10": "void table re-packed with one comma lost (`trackwbr`)", "C01-11": "`HTMLDocument` rebuilds `<head>` and drops its attributes",
 "C02-8": "precompiled fast-path pattern `[&<]` misses a lone `>`", "C02-9": "escape flag became process-wide state (not restored after an exception)",
 "C02-10": "numbers stored as `HTML()`", "C02-11": "`HTMLDependency` marks every top-level string of `head=` as markup",
 "C03-8": "`x in (None, False)` drops numeric zero", "C03-9": "merge escaping moved into `HTML.__add__` only (`__radd__` left behind)",
 "C03-10": "attribute escape table reordered: CR/LF double-escaped", "C03-11": "`consolidate_attrs` strips the `HTML()` marking",
 "C04-8": "`HTMLTextDocument.render` substitutes with `re.sub` (backslashes in trusted markup)", "C04-9": "raw-text decision cached at construction",
 "C04-10": "empty-operand fast path in `HTML.__add__`/`__radd__`", "C04-11": "display hook drops the `HTML()` wrapper around `_repr_html_()` output",
 "C05-8": "merged leaf branch loses the state reset for `_repr_html_` objects", "C05-9": "raw-text tags render children with the default `add_ws`",
 "C05-10": "`HTMLDocument` rebuilds a lone `<body>` without its whitespace flag", "C05-11": "`Tag.tagify` promotes an inline tag that holds a block child",
 "C06-8": "`first_child` flag replaced by `if html_ and ...`", "C06-9": "closing eol only `if not html_.endswith(eol)`",
 "C06-10": "json mode adds a separator even without dependencies", "C06-11": "`bdo` dropped from the inline table (generator script and tags.py)",
 "C07-8": "single-text test reads the unfiltered first child", "C07-9": "`HTMLDependency` gains `_repr_html_`",
 "C07-10": "JSX child loop filters `HTMLDependency` instead of all metadata", "C07-11": "charset de-duplication looks at the raw first child of `<head>`",
 "C08-8": "document html attributes written into the caller's `<html>` tag (two edits)", "C08-9": "`JSXTag.tagify` hands out the component's own dependencies",
 "C08-10": "`Tag._repr_html_` renders the un-tagified tree", "C08-11": "`TagList.__eq__` removed (UserList equality)",
 "C09-8": "`HTML()` expansion spliced per character", "C09-9": "un-expanded object silently dropped by the frame's child filter",
 "C09-10": "document case chosen before expansion (helper applied to stored content)", "C09-11": "tagifiable prop values of JSX tags not walked",
 "C10-8": "release-tuple comparison on version ties", "C10-9": "void-element fast path in `Tag.get_dependencies`",
 "C10-10": "`_validate_dicts` via `all(...)` stops at the first item", "C10-11": "JSX component de-duplicates metadata by `repr()`",
 "C11-8": "`HTMLDocument.render` follows the global json display mode", "C11-9": "void-element fast path in dependency collection",
 "C11-10": "`Tag.tagify` returns self for childless tags + head not copied (two sites)", "C11-11": "constructor keeps the caller's `TagList`",
 "C12-8": "existence check merged into the copy loop", "C12-9": "`save_html` skips a dependency whose versioned directory exists",
 "C12-10": "`include_version` lost on the `<html>`-root branch", "C12-11": "memoised source-directory lookup (`lru_cache`)",
 "C13-8": "json-mode fast path writes the script without the `</` escape", "C13-9": "placeholder substituted with `re.sub`",
 "C13-10": "extracted dependencies resolved by name when stored", "C13-11": "listing escaped in only one of the two sibling sites",
 "C14-8": "`id()` cycle guard in `flatten` drops repeated containers", "C14-9": "`insert` back-to-front at the same index",
 "C14-10": "`is_tag_child` made deep with the wrong element predicate", "C14-11": "lazy normaliser + streaming `extend`",
 "C15-8": "name normaliser steps swapped (strips a trailing hyphen)", "C15-9": "dropped-values table compared with `in`",
 "C15-10": "constructor fast path for one mapping replaces instead of joining", "C15-11": "shared split helper skips `None`",
 "C16-8": "css name conversion by one boundary regex", "C16-9": "class tokens split on single spaces only",
 "C16-10": "`Tag.__copy__` copies attrs with `dict.copy()` (plain dict)", "C16-11": "duplicate-class guard by substring in `update`",
 "C17-8": "cached hook wrapper leaks through copies", "C17-9": "`__copy__` clears the original's saved hook through `self.__dict__`",
 "C17-10": "\"nothing to display\" test moved ahead of the type dispatch", "C17-11": "no hand-over when the block is left by a non-`Exception`",
 "C18-8": "`remove_class` through a set", "C18-9": "`HTMLTextDocument._deps` became a shared class-level list",
 "C18-10": "`head_content` names the payload with `str(head)` (mode dependent)", "C18-11": "merge helper memoised with `lru_cache` (`HTML` == `str`)",
 "C19-8": "`svg.svg` default flipped", "C19-9": "`_add_ws` check `x not in (True, False)`",
 "C19-10": "lower-case-only tag-name regex rejects camelCase SVG names", "C19-11": "star import + `hr` lost from `tags.__all__`",
 "C20-8": "allow-list check turned into a substring test", "C20-9": "numeric-array fast path swallows booleans",
 "C20-10": "`JSXTag.__len__` + skipping falsy prop values", "C20-11": "`JSXTag.__copy__` copies only dict/list fields",
 "C01-4": "`_NO_ESCAPE_TAG_NAMES` widened to textarea and title", "C01-5": "`html_escape` remembers \"plain\" strings regardless of the mode",
 "C01-6": "void-name table rebuilt from a split string with a missing separator (`sourcetrack`)", "C01-7": "attribute-name normaliser made non-idempotent (copy re-normalises stored names)",
 "C02-4": "numbers stored as pre-escaped `HTML()`", "C02-5": "\"idempotent\" `html_escape` skips `&` that starts a known reference",
 "C02-6": "no-escape flag of script/style leaks into descendant tags", "C02-7": "memo in `_normalize_text` keyed by `==` (HTML vs str)",
 "C03-4": "precompiled fast-path pattern of `html_escape` forgets CR/LF", "C03-5": "extracted merge helper loses `attr=True` for one operand order",
 "C03-6": "hoisted escape flag also gates attribute escaping on script/style", "C03-7": "`add_class` fast path drops the `HTML()` marker (double escaping)",
 "C04-4": "`HTML(\"\") + str` fast path skips escaping", "C04-5": "`_escape_strings` lost on the inline branch of script/style",
 "C04-6": "`add_class` whitespace clean-up turns `HTML()` into `str`", "C04-7": "`HTML.__iter__` yields plain characters",
 "C05-4": "inline script/style children rendered with the default `add_ws=True`", "C05-5": "state reset dropped from the `_repr_html_` branch after reordering",
 "C05-6": "`HTMLDocument` rebuilds a user `<body>` and loses `_add_ws=False`", "C05-7": "`first_child` flag replaced by an index that counts metadata nodes",
 "C06-4": "one-line fast path inspects the unfiltered first child", "C06-5": "`eol=\"\"` read as \"inside an inline run\" (two sites)",
 "C06-6": "closing separator dropped when content already ends with `eol`", "C06-7": "cached indentation strings one level short past the table",
 "C07-4": "void fast path tests the unfiltered child list", "C07-5": "forward `tagify` loop forgets the index shift for metadata nodes",
 "C07-6": "extracted child filter tests `HTMLDependency` instead of `MetadataNode`", "C07-7": "`HTMLDependency` gains `_repr_html_` (captured as markup in `with` blocks)",
 "C08-4": "`add_ws` stored on the instance only when False (asymmetric `==`)", "C08-5": "`as_dict` skips the deep copy for source-less dependencies",
 "C08-6": "`JSXTag.tagify` shares metadata nodes with the original", "C08-7": "`_repr_html_` no longer tagifies",
 "C09-4": "`tagify` rewritten as expand-then-flatten with an `id()` cycle guard in `flatten`", "C09-5": "\"has tagify?\" cached per class",
 "C09-6": "un-expanded object inside script/style written as text", "C09-7": "`Tag.render` collects dependencies from the un-expanded tree",
 "C10-4": "`Tag.get_dependencies` returns `[]` for void-named tags", "C10-5": "resolution compares `version.release` tuples",
 "C10-6": "\"walk a shared Tag once\" memo drops dependencies with `dedup=False`", "C10-7": "shared helper skips validation for the single-dict spelling",
 "C11-4": "`include_version` not forwarded in the sole-`<html>` branch", "C11-5": "\"sole tag\" helper filters to Tags before counting",
 "C11-6": "head search stops at the first Tag child", "C11-7": "constructor aliases a caller's `TagList`",
 "C12-4": "missing-file check moved into a lazy generator", "C12-5": "`save_html` remembers which dependency directories it wrote",
 "C12-6": "\"don't double-encode\" guard leaves `%xx` names unencoded", "C12-7": "`include_version` dropped in the sole-`<html>` branch",
 "C13-4": "`</` neutralisation only when the dependency has a head", "C13-5": "extractor also de-duplicates on rendered markup",
 "C13-6": "shared head-tags helper loses `include_version` for `HTMLTextDocument`", "C13-7": "json mode serialises dependencies of the un-tagified object",
 "C14-4": "`insert` reverses a multi-node child at negative / past-the-end indices", "C14-5": "lazy normaliser generator fed to `list.extend` (partial writes on TypeError)",
 "C14-6": "`+=` raises for an empty container", "C14-7": "per-type cache in `is_tag_node`",
 "C15-4": "merged attribute moves to the end (`pop` + re-insert)", "C15-5": "single-mapping constructor fast path replaces instead of joining",
 "C15-6": "`x in (None, False)` drops numeric zero", "C15-7": "shared split helper drops `None` from `consolidate_attrs` children",
 "C16-4": "memoised class tokens not reset by `dict.pop`", "C16-5": "`remove_class` via `list.remove` (first occurrence only)",
 "C16-6": "`add_style` validates the merged value instead of the new declaration", "C16-7": "`css()` collects into a dict keyed by the normalised name",
 "C17-4": "cached display hook leaks through `copy`", "C17-5": "child validation uses `is_tag_child` instead of `is_tag_node`",
 "C17-6": "hand-off skipped when the block raised", "C17-7": "`__copy__` resets the original's saved hook",
 "C18-4": "`head_content` name memoised with `lru_cache` on `==`-equal arguments", "C18-5": "`remove_class` de-duplicates through a set",
 "C18-6": "leaf fast path in `tagify` + hoisting without a head copy (two sites)", "C18-7": "`hash_deterministic` normalises line breaks before hashing",
 "C19-4": "`_add_ws` type check weakened to `x in (True, False)`", "C19-5": "tag names lower-cased in the constructor",
 "C19-6": "`pre`/`textarea` forced inline", "C19-7": "`svg.tspan` default flipped",
 "C20-4": "leaf \"no copy\" fast path mutates childless components", "C20-5": "metadata collection moved into the renderer (props path loses it)",
 "C20-6": "`json.dumps` fast path quotes `jsx()` list elements", "C20-7": "shared `_js_string` helper escapes in the wrong order",
}
rows = {}
for ln in open(M):
    m = re.match(r"(C\d\d-\d+)\s+(C\d\d)\s+(\S+)(?: :: (.*))?", ln)
    if not m:
        continue
    sid, pid, res, det = m.groups()
    rows.setdefault(sid, {})[pid] = (res, det or "")
def key(s):
    a, b = s.split("-"); return (a, int(b))
for sid in sorted(rows, key=key):
    k = int(sid.split("-")[1])
    if not (lo <= k <= hi):
        continue
    own = sid.split("-")[0]
    res, det = rows[sid].get(own, ("?", ""))
    m = re.match(r"(?:ANALYSIS-ERROR: property=C\d\d )?(C\d\d\.\S+) VIOLATED\s+\S+?:(\S+)", det)
    if res == "VIOLATION" and m:
        owncell = f"{m.group(1)} at `{m.group(2)}`"
    elif res == "VIOLATION":
        owncell = "violation (analysis otherwise incomplete)"
    elif res == "ERROR":
        owncell = "*undecided* (exit 2)"
    else:
        owncell = "**not reported**"
    others = sorted(p for p, (r, _) in rows[sid].items() if p != own and r == "VIOLATION")
    desc = DESC.get(sid)
    if desc is None:
        meta = os.path.join("/verif/seeded", sid, "notes.md")
        desc = open(meta).readline().strip("# \n")[:90] if os.path.isfile(meta) else ""
    print(f"| {sid} | {desc} | {owncell} | {', '.join(others) or '-'} |")
