#!/venv/bin/python
"""Hand-written mutant catalogue (DESIGN Appendix A).  Development aid, not part of any verdict.

Each entry is a textual edit of the current /repo tree that is *meant* to break the named property.  The runner
  1. makes a scratch copy of /repo's HEAD (git archive), applies the edit,
  2. runs the unedited test-suite on it (a mutant the tests kill is dropped - it is not what the checks are for),
  3. runs the property's own check on the copy (SA_NO_EVIDENCE=1, --repo),
  4. writes /verif/mutants/<id>/{patch.diff,meta.json} for the survivors.

usage: tools/mutants.py [ids...] [--keep-killed]
"""
from __future__ import annotations

import json
import os
import shutil
import subprocess
import sys
import tempfile
from concurrent.futures import ThreadPoolExecutor

VERIF = os.path.dirname(os.path.dirname(os.path.abspath(__file__)))
CORE, UTIL, JSX, TAGS = "htmltools/_core.py", "htmltools/_util.py", "htmltools/_jsx.py", "htmltools/tags.py"

M = []


# mutants that turned out to be behaviour-preserving (or outside what the property states): the check must stay silent
SILENT = {
    "M08a": "the <head> reached by _hoist_head_content already belongs to the tagified copy made by _gen_html_tag_tree",
    "M08b": "the <html> tag passed to _hoist_head_content is already a private copy",
    "M08h": "content[0] is already a tagified copy (content = self._content.tagify())",
    "M09c": "first_child is always False at that point: equivalent",
    "M10g": "resolution of at most one dependency is the identity",
    "M14e": "a bare Tag is not iterable anyway; previously TypeError from flatten, now stored as one node",
    "M14g": "the storage of a TagList holds normalised nodes only (induction hypothesis of C14)",
    "M15d": "Tag(...) is constructed first and rejects a non-dict Mapping child with TypeError either way",
    "M17g": "comment-only change",
    "M18c": "memo is read but never written",
    "M20g": "string children are quoted, never blank: equivalent",
}
EITHER = {"M16d": "the property does not say how runs of capitals are hyphenated"}


def m(mid, prop, file, edits, note):
    if isinstance(edits, tuple):
        edits = [edits]
    M.append({"id": mid, "property": prop, "file": file, "edits": edits, "note": note})


# ---- C01 -------------------------------------------------------------------------------------------------------
m("M01a", "C01", CORE, ('    "wbr",\n', ""), "wbr no longer void: <wbr></wbr>")
m("M01b", "C01", CORE, ("for key, val in self.attrs.items():\n            if not isinstance(val, HTML):",
                        "for key, val in sorted(self.attrs.items()):\n            if not isinstance(val, HTML):"), "attributes written sorted, not in insertion order")
m("M01c", "C01", CORE, ('close = "</" + self.name + ">"', 'close = "</" + self.name.lower() + ">"'), "end tag lower-cased: <Foo></foo>")
m("M01d", "C01", CORE, ("if len(children) == 0 and self.name in _VOID_TAG_NAMES:", "if self.name in _VOID_TAG_NAMES:"), "void element drops its children")
m("M01e", "C01", CORE, ("        for child in self:\n            if isinstance(child, MetadataNode):\n                continue\n\n            # True if the previous",
                        "        for child in (self if len(self) < 4 else reversed(self)):\n            if isinstance(child, MetadataNode):\n                continue\n\n            # True if the previous"), "children of long lists written in reverse order")
m("M01f", "C01", CORE, ("        if len(children) == 0:\n            return html_ + close", "        if len(children) == 0:\n            return html_[:-1] + \"/>\" if not self.attrs and self.name == \"p\" else html_ + close"), "empty <p> self-closed")
# ---- C02 -------------------------------------------------------------------------------------------------------
m("M02a", "C02", UTIL, ("text = text.replace(key, value)", "text = text.replace(key, value, 1)"), "only first occurrence escaped")
m("M02b", "C02", UTIL, ('if not re.search("|".join(table), text):', 'if not re.match("|".join(table), text):'), "fast path taken unless text starts with a special char")
m("M02c", "C02", UTIL, ('if not re.search("|".join(table), text):', 'if not re.search("|".join(list(table)[:2]), text):'), "fast path ignores '<' (and attr chars)")
m("M02d", "C02", UTIL, ('    "&": "&amp;",\n    ">": "&gt;",\n    "<": "&lt;",\n', '    ">": "&gt;",\n    "<": "&lt;",\n    "&": "&amp;",\n'), "& replaced last: double escaping")
m("M02e", "C02", CORE, ("                if _escape_strings:\n                    html_ += _normalize_text(child)", "                if _escape_strings and not isinstance(self, str):\n                    html_ += _normalize_text(child) if indent < 6 else child"), "deeply nested text not escaped")
m("M02f", "C02", CORE, ("return html_ + _normalize_text(children[0]) + close", "return html_ + (_normalize_text(children[0]) if self.attrs or indent == 0 else str(children[0])) + close"), "single text child of attribute-less nested tag not escaped")
m("M02g", "C02", UTIL, ('    ">": "&gt;",\n    "<": "&lt;",\n}', '    "<": "&lt;",\n}'), "'>' not escaped (still unambiguous? no: property demands decode to original - '>' raw decodes fine) - expected silent or reported; informational")
# ---- C03 -------------------------------------------------------------------------------------------------------
m("M03a", "C03", UTIL, ('    "\\r": "&#13;",\n', ""), "CR not escaped in attribute values")
m("M03b", "C03", UTIL, ('    "\\n": "&#10;",\n', ""), "LF not escaped in attribute values")
m("M03c", "C03", UTIL, ("    \"'\": \"&apos;\",\n", ""), "apostrophe not escaped (values are double-quoted: harmless?) informational")
m("M03d", "C03", CORE, ("            if not isinstance(val, HTML):\n                val = html_escape(val, attr=True)", "            if not isinstance(val, HTML) and \"&\" in val:\n                val = html_escape(val, attr=True)"), "writer escapes only when & present")
m("M03e", "C03", CORE, ("            if not isinstance(val, HTML):\n                val = html_escape(val, attr=True)", "            if not isinstance(val, HTML):\n                val = html_escape(val, attr=False)"), "writer uses text mode")
m("M03f", "C03", CORE, ("prev = HTML(html_escape(prev, attr=True))", "prev = HTML(prev)"), "merge: plain left operand not escaped")
m("M03g", "C03", CORE, ("val = HTML(html_escape(val, attr=True))", "val = HTML(html_escape(val, attr=False))"), "merge: plain right operand escaped in text mode")
m("M03h", "C03", CORE, ("        val = self._normalize_attr_value(value)\n        if val is not None:\n            nm = self._normalize_attr_name(name)\n            super().__setitem__(nm, val)",
                        "        val = self._normalize_attr_value(value)\n        if val is not None:\n            nm = self._normalize_attr_name(name)\n            super().__setitem__(nm, HTML(val) if nm == \"style\" else val)"), "item assignment marks style values as HTML")
# ---- C04 -------------------------------------------------------------------------------------------------------
m("M04a", "C04", CORE, ("    if isinstance(txt, HTML):\n        return txt.as_string()", "    if isinstance(txt, HTML):\n        return html_escape(txt.as_string())"), "HTML children escaped")
m("M04b", "C04", CORE, ("return HTML(html_escape(str(other)) + self.as_string())", "return HTML(str(other) + self.as_string())"), "str + HTML does not escape the str")
m("M04c", "C04", CORE, ("return HTML(self.as_string() + html_escape(str(other)))", "return HTML(html_escape(self.as_string()) + html_escape(str(other)))"), "HTML + str escapes the HTML part too")
m("M04d", "C04", CORE, ('_NO_ESCAPE_TAG_NAMES = {"script", "style"}', '_NO_ESCAPE_TAG_NAMES = {"script"}'), "style content escaped")
m("M04e", "C04", CORE, ('_NO_ESCAPE_TAG_NAMES = {"script", "style"}', '_NO_ESCAPE_TAG_NAMES = {"script", "style", "title"}'), "title content not escaped")
m("M04f", "C04", CORE, ("_escape_strings=(self.name not in _NO_ESCAPE_TAG_NAMES),", "_escape_strings=True,"), "multi-child script content escaped")
m("M04g", "C04", CORE, ("            if self.name in _NO_ESCAPE_TAG_NAMES:\n                return html_ + str(children[0]) + close\n            else:\n                return html_ + _normalize_text(children[0]) + close",
                        "            return html_ + _normalize_text(children[0]) + close"), "single-child script content escaped")
m("M04h", "C04", CORE, ("            return HTML(self.as_string() + other.as_string())", "            return HTML(self.as_string() + str(html_escape(other.as_string())))"), "HTML + HTML escapes right operand")
# ---- C05 / C06 -------------------------------------------------------------------------------------------------
m("M05a", "C05", CORE, ("                html_ += child._repr_html_()  # pyright: ignore[reportPrivateUsage]\n\n                prev_was_add_ws = False\n", "                html_ += child._repr_html_()  # pyright: ignore[reportPrivateUsage]\n\n"), "ReprHtml child keeps previous ws state")
m("M05b", "C05", CORE, ("                    html_ += child\n\n                prev_was_add_ws = False\n", "                    html_ += child\n\n"), "string child keeps previous ws state")
m("M05c", "C05", CORE, ('html_ += child.get_html_string(0, "")', "html_ += child.get_html_string(indent, eol)"), "inline tag after inline sibling rendered with indent/eol")
m("M05d", "C05", CORE, ("        if self.add_ws:\n            html_ += eol\n\n        html_ += self.children", "        if self.add_ws or len(children) > 2:\n            html_ += eol\n\n        html_ += self.children"), "inline tag with >2 children gets a line break")
m("M05e", "C05", CORE, ("add_ws=self.add_ws,", "add_ws=self.add_ws or len(children) > 3,"), "inline tag with many children lays them out as block")
m("M06a", "C06", CORE, ("            html_ += eol + indent_str\n", "            html_ += eol + indent_str + (\"  \" if len(children) >= 3 else \"\")\n"), "close tag over-indented with >=3 children")
m("M06b", "C06", CORE, ("            elif isinstance(child, ReprHtml):\n                if prev_was_add_ws:\n                    html_ += \"  \" * indent", "            elif isinstance(child, ReprHtml):\n                if prev_was_add_ws:\n                    html_ += \"  \" * (indent + 1)"), "ReprHtml child over-indented")
m("M06c", "C06", CORE, ("prev_or_current_add_ws = prev_was_add_ws or (", "prev_or_current_add_ws = prev_was_add_ws and ("), "separator only when both are block")
m("M06d", "C06", CORE, ("            elif prev_or_current_add_ws:\n                html_ += eol", "            elif prev_or_current_add_ws:\n                html_ += \"\\n\""), "eol hard-coded between siblings")
m("M06e", "C06", CORE, ("                prev_was_add_ws = child.add_ws\n", "                prev_was_add_ws = child.add_ws or len(child.children) > 4\n"), "inline tag with many children counts as block for next sibling")
# ---- C07 -------------------------------------------------------------------------------------------------------
m("M07a", "C07", CORE, [("        for child in self:\n            if isinstance(child, MetadataNode):\n                continue\n\n            # True if the previous", "        for child in self:\n            # True if the previous"),
                        ("            if isinstance(child, Tag):\n                # Note that we don't pass", "            if isinstance(child, MetadataNode):\n                continue\n\n            if isinstance(child, Tag):\n                # Note that we don't pass")], "metadata child consumes the first-child slot / emits separator")
m("M07b", "C07", CORE, ("children = [x for x in self.children if not isinstance(x, MetadataNode)]", "children = list(self.children)"), "metadata counted as children in the frame")
m("M07c", "C07", CORE, ("if len(children) == 0 and self.name in _VOID_TAG_NAMES:", "if len(self.children) == 0 and self.name in _VOID_TAG_NAMES:"), "void test counts metadata")
m("M07d", "C07", CORE, ("if len(children) == 1 and isinstance(children[0], (str, HTML)):", "if len(self.children) == 1 and isinstance(children[0], (str, HTML)):"), "single-text inlining disabled by metadata sibling")
# ---- C08 -------------------------------------------------------------------------------------------------------
m("M08a", "C08", CORE, ("        res.children[head_index] = copy(res.children[head_index])\n", ""), "user's <head> mutated by render")
m("M08b", "C08", CORE, ("        res = copy(x)\n", "        res = x\n"), "html tag mutated by hoisting")
m("M08c", "C08", CORE, ("stylesheets = deepcopy(self.stylesheet)", "stylesheets = list(self.stylesheet)"), "as_dict rewrites the dependency's own stylesheet dicts")
m("M08d", "C08", CORE, ("            elif isinstance(child, MetadataNode):\n                cp[i] = copy(child)\n", ""), "tagify shares metadata nodes")
m("M08e", "C08", CORE, ("        cp = copy(self)\n        cp.children = cp.children.tagify()\n        return cp", "        cp = self\n        cp.children = cp.children.tagify()\n        return cp"), "Tag.tagify works in place")
m("M08f", "C08", CORE, ("        cp = copy(self)\n\n        # Iterate backwards", "        cp = self\n\n        # Iterate backwards"), "TagList.tagify works in place")
m("M08g", "C08", CORE, ("scripts = deepcopy(self.script)", "scripts = [s for s in self.script]"), "as_dict rewrites the dependency's own script dicts")
m("M08h", "C08", CORE, ("            html = cast(Tag, content[0])\n            html = html.tagify()\n", "            html = cast(Tag, content[0])\n"), "document attrs written onto (tagified copy of) user's html tag - content is already a copy: expected silent? informational")
# ---- C09 -------------------------------------------------------------------------------------------------------
m("M09a", "C09", CORE, ("for i in reversed(range(len(cp))):", "for i in range(len(cp)):"), "forward iteration while splicing")
m("M09b", "C09", CORE, ("cp[i : i + 1] = _tagchilds_to_tagnodes(tagified_child)", "cp[i:i] = _tagchilds_to_tagnodes(tagified_child)"), "tagifiable kept next to its expansion")
m("M09c", "C09", CORE, ("            elif isinstance(child, Tagifiable):\n                raise RuntimeError(", "            elif isinstance(child, Tagifiable) and not first_child:\n                raise RuntimeError("), "un-tagified first child falls into the string branch")
m("M09d", "C09", CORE, ("        cp = self.tagify()\n        deps = cp.get_dependencies()\n        return {\"dependencies\": deps, \"html\": cp.get_html_string()}\n\n    def get_html_string(\n        self,\n        indent: int = 0,\n        eol: str = \"\\n\",\n        *,",
                        "        cp = self.tagify()\n        deps = self.get_dependencies()\n        return {\"dependencies\": deps, \"html\": cp.get_html_string()}\n\n    def get_html_string(\n        self,\n        indent: int = 0,\n        eol: str = \"\\n\",\n        *,"), "TagList.render takes dependencies from the un-tagified list")
m("M09e", "C09", CORE, ("content: TagList = self._content.tagify()", "content: TagList = self._content"), "document case chosen before expansion (D9)")
m("M09f", "C09", CORE, ("                if isinstance(tagified_child, TagList):", "                if isinstance(tagified_child, TagList) and len(tagified_child) != 1:"), "single-element TagList result stored nested")
# ---- C10 -------------------------------------------------------------------------------------------------------
m("M10a", "C10", CORE, ("if dep.version > map[dep.name].version:", "if dep.version >= map[dep.name].version:"), "equal version: later wins")
m("M10b", "C10", CORE, ("if dep.version > map[dep.name].version:", "if str(dep.version) > str(map[dep.name].version):"), "string comparison of versions")
m("M10c", "C10", CORE, ("    return list(map.values())", "    return sorted(map.values(), key=lambda d: d.name)"), "result sorted by name")
m("M10d", "C10", CORE, ("self.version = Version(version) if isinstance(version, str) else version", "self.version = version  # type: ignore"), "version kept as str")
m("M10e", "C10", CORE, ('self._validate_dicts(meta, ["name", "content"])', 'self._validate_dicts(meta, ["name"])'), "meta without content accepted")
m("M10f", "C10", CORE, ("            if dep.version > map[dep.name].version:\n                map[dep.name] = dep", "            if dep.version > map[dep.name].version:\n                del map[dep.name]\n                map[dep.name] = dep"), "winner moves to the position of the later occurrence")
m("M10g", "C10", CORE, ("        if dedup:\n            return _resolve_dependencies(deps)", "        if dedup and len(deps) > 1:\n            return _resolve_dependencies(deps)"), "informational: single dep returned without resolution (same list) - expected silent or reported")
# ---- C11 -------------------------------------------------------------------------------------------------------
m("M11a", "C11", CORE, ('                    ";".join([d.name + "[" + str(d.version) + "]" for d in deps]),', '                    ";".join([d.name + "[" + str(d.version) + "]" for d in deps[1:]]),'), "listing omits the first dependency")
m("M11b", "C11", CORE, ('head.insert(0, Tag("meta", charset="utf-8"))', 'head.append(Tag("meta", charset="utf-8"))'), "charset meta after user head content")
m("M11c", "C11", CORE, ("                d.as_html_tags(lib_prefix=lib_prefix, include_version=include_version)\n                for d in deps\n", "                d.as_html_tags(lib_prefix=lib_prefix)\n                for d in deps\n"), "include_version not forwarded when hoisting")
m("M11d", "C11", CORE, ("        if len(deps) > 0:\n            head.append(", "        if len(deps) > 1:\n            head.append("), "listing omitted for a single dependency")
m("M11e", "C11", CORE, ("        deps = x.get_dependencies()\n        if len(deps) > 0:", "        deps = x.get_dependencies(dedup=False)\n        if len(deps) > 0:"), "hoisting without de-duplication")
m("M11f", "C11", CORE, ("        rendered = html_.render()\n        rendered[\"html\"] = \"<!DOCTYPE html>\\n\" + rendered[\"html\"]", "        rendered = html_.render()\n        rendered[\"html\"] = \"<!DOCTYPE html>\\n\" + rendered[\"html\"]\n        rendered[\"dependencies\"] = rendered[\"dependencies\"][::-1]"), "returned dependency list reversed")
# ---- C12 -------------------------------------------------------------------------------------------------------
m("M12a", "C12", CORE, ("            if not os.path.exists(src_file):\n                raise Exception(", "            if not os.path.exists(src_file) and self.all_files:\n                raise Exception("), "verification disabled for listed files")
m("M12b", "C12", CORE, ("dep.copy_to(destdir, include_version=include_version)", "dep.copy_to(destdir)"), "copier ignores include_version")
m("M12c", "C12", CORE, ("        # Verify they all exist\n", "        stale = Path(os.path.join(path, paths[\"href\"])).resolve()\n        if os.path.exists(stale):\n            shutil.rmtree(stale)\n        # Verify they all exist\n"), "target removed before verification")
m("M12d", "C12", CORE, ('                *[s["href"] for s in self.stylesheet],\n', ""), "stylesheets not copied")
m("M12e", "C12", CORE, ('paths = self.source_path_map(lib_prefix=None, include_version=include_version)', 'paths = self.source_path_map(lib_prefix=None, include_version=True)'), "copy path always versioned")
m("M12f", "C12", CORE, ("        if os.path.exists(target_dir):\n            shutil.rmtree(target_dir)\n", ""), "stale target contents kept")
m("M12g", "C12", CORE, ("            src = urllib.parse.quote(s[\"src\"])", "            src = s[\"src\"]"), "script URL not percent-encoded")
m("M12h", "C12", CORE, ("        with open(file, \"w\") as f:\n            f.write(rendered[\"html\"])\n        return file", "        with open(file, \"w\") as f:\n            f.write(rendered[\"html\"])\n        return destdir"), "save_html returns the lib directory")
m("M12i", "C12", CORE, ("        if lib_prefix:\n            href = posixpath.join(lib_prefix, href)", "        if lib_prefix:\n            href = os.path.join(os.path.normpath(lib_prefix), href)"), "URL prefix normalised, copy path not")
# ---- C13 -------------------------------------------------------------------------------------------------------
m("M13a", "C13", CORE, ('json.dumps(res, indent=indent).replace("</", "<\\\\/"),', "json.dumps(res, indent=indent),"), "no </ neutralisation")
m("M13b", "C13", CORE, ('json.dumps(res, indent=indent).replace("</", "<\\\\/"),', 'json.dumps(res, indent=indent).replace("</script", "<\\\\/script"),'), "case-sensitive neutralisation")
m("M13c", "C13", CORE, ("            data_html_dependency=True,", '            data_html_dependency="1",'), "marker attribute does not match the extractor")
m("M13d", "C13", CORE, ("            rendered_dep_tags[\"html\"],\n            1,\n        )", "            rendered_dep_tags[\"html\"],\n        )"), "every occurrence of the placeholder replaced")
m("M13e", "C13", CORE, ("((?:.|\\r|\\n)*?)</script>'", "(.*?)</script>'"), "extractor does not span lines")
m("M13f", "C13", CORE, ('            "all_files": self.all_files,\n', ""), "all_files lost in serialisation")
m("M13g", "C13", CORE, ("            if dep_str in seen_deps:\n                continue\n", "            if dep_str in seen_deps or len(seen_deps) > 8:\n                continue\n"), "at most nine serialized dependencies extracted")
m("M13h", "C13", CORE, ('            "version": str(self.version),\n            "source": self.source,', '            "version": str(self.version.major),\n            "source": self.source,'), "version truncated in serialisation")
# ---- C14 -------------------------------------------------------------------------------------------------------
m("M14a", "C14", CORE, ("        self[i:i] = _tagchilds_to_tagnodes([item])", "        self.data.insert(i, item)  # type: ignore"), "insert stores raw item")
m("M14b", "C14", UTIL, ("if isinstance(item, (list, tuple, TagList)):", "if isinstance(item, (list, TagList)):"), "tuples not flattened")
m("M14c", "C14", CORE, ("        self.extend(item)\n        return self", "        return super().__iadd__(item)  # type: ignore"), "+= bypasses normalisation (D4)")
m("M14d", "C14", CORE, ("        return TagList(*item, self)", "        return TagList(self, *item)"), "radd appends instead of prepending")
m("M14e", "C14", CORE, ("    if isinstance(x, str):\n        return [x]\n\n    result = flatten(x)", "    if isinstance(x, (str, Tag)):\n        return [x]\n\n    result = flatten(x)"), "informational: a bare Tag iterable")
m("M14f", "C14", CORE, ("        if isinstance(item, (int, float)):\n            result[i] = str(item)", "        if isinstance(item, int):\n            result[i] = str(item)"), "floats rejected")
m("M14g", "C14", CORE, ("        super().extend(_tagchilds_to_tagnodes(other))", "        super().extend(_tagchilds_to_tagnodes(other) if not isinstance(other, TagList) else other.data)"), "extend trusts TagList operands (harmless: already normal) informational")
m("M14h", "C14", CORE, ("        self.children.insert(index, x)", "        self.children.data.insert(index, x)  # type: ignore"), "Tag.insert bypasses normalisation")
# ---- C15 -------------------------------------------------------------------------------------------------------
m("M15a", "C15", CORE, ("        if x.endswith(\"_\"):\n            x = x[:-1]\n        return x.replace(\"_\", \"-\")\n\n    @staticmethod\n    def _normalize_attr_value", "        if x.endswith(\"_\"):\n            x = x.rstrip(\"_\")\n        return x.replace(\"_\", \"-\")\n\n    @staticmethod\n    def _normalize_attr_value"), "all trailing underscores removed")
m("M15b", "C15", CORE, ('                    val = prev + " " + val\n', '                    val = val + " " + prev\n'), "merge order reversed")
m("M15c", "C15", CORE, ("        super().update(attrz)\n", "        for nm, val in attrz.items():\n            if nm in self and nm == \"class\":\n                val = self[nm] + \" \" + val\n            super().__setitem__(nm, val)\n"), "update appends to existing class")
m("M15d", "C15", CORE, ("    children = [child for child in args if not isinstance(child, dict)]\n    return (attrs, children)", "    children = [child for child in args if not isinstance(child, Mapping)]\n    return (attrs, children)"), "consolidate_attrs and Tag.__init__ disagree on what a dict is")
m("M15e", "C15", CORE, ("        if x is None or x is False:\n            return None", "        if x is None or x is False or x == \"\":\n            return None"), "empty-string values dropped")
m("M15f", "C15", CORE, ("                val = self._normalize_attr_value(v)\n                if val is None:\n                    continue\n                nm = self._normalize_attr_name(k)\n", "                nm = self._normalize_attr_name(k)\n                val = self._normalize_attr_value(v)\n                if val is None:\n                    attrz.pop(nm, None)\n                    continue\n"), "a dropped value erases earlier values of the name")
m("M15g", "C15", CORE, ("        return x.replace(\"_\", \"-\")\n\n    @staticmethod\n    def _normalize_attr_value", "        return x.replace(\"_\", \"-\", 1)\n\n    @staticmethod\n    def _normalize_attr_value"), "only first underscore replaced")
m("M15h", "C15", CORE, ("        if isinstance(x, (int, float)):  # pyright: ignore[reportUnnecessaryIsInstance]\n            return str(x)", "        if isinstance(x, (int, float)):  # pyright: ignore[reportUnnecessaryIsInstance]\n            return repr(float(x))"), "ints rendered as floats")
# ---- C16 -------------------------------------------------------------------------------------------------------
m("M16a", "C16", CORE, ("            return class_ in cls.split()", "            return class_ in cls"), "has_class by substring")
m("M16b", "C16", CORE, ('self.attrs.update({"class": " ".join(new_classes)})', 'self.attrs.update({"class": " ".join(set(new_classes))})'), "class order through a set")
m("M16c", "C16", CORE, ('            self.attrs.update({"class": class_}, {"class": self.attrs.get("class")})\n', '            return self.attrs.update({"class": class_}, {"class": self.attrs.get("class")})  # type: ignore\n'), "add_class(prepend=True) returns None")
m("M16d", "C16", UTIL, ('re.sub("([A-Z])", "-\\\\1", k)', 're.sub("([A-Z]+)", "-\\\\1", k)'), "camelCase runs collapsed")
m("M16e", "C16", CORE, [("        if isinstance(  # type: ignore[reportUnnecessaryIsInstance]\n            style, (str, HTML)\n        ) and not style.endswith(\";\"):\n            raise ValueError(\"`Tag.add_style(style=)` must end with a semicolon\")\n\n", ""),
                        ("            self.attrs.update({\"style\": self.attrs.get(\"style\")}, {\"style\": style})\n        return self", "            self.attrs.update({\"style\": self.attrs.get(\"style\")}, {\"style\": style})\n        if not style.endswith(\";\"):\n            raise ValueError(\"`Tag.add_style(style=)` must end with a semicolon\")\n        return self")], "semicolon check after the write")
m("M16f", "C16", CORE, ("        new_classes = [cls_val for cls_val in cls.split() if cls_val != class_]", "        new_classes = [cls_val for cls_val in cls.split(\" \") if cls_val != class_]"), "split on single space only")
m("M16g", "C16", CORE, ("        class_ = str(class_).strip()\n", ""), "class_ not stripped before removal")
m("M16h", "C16", UTIL, ("        if v is None:\n            continue\n        v = \" \".join(v)", "        if not v:\n            continue\n        v = \" \".join(v)"), "css drops 0 values")
m("M16i", "C16", CORE, ('            self.attrs.update({"style": style}, {"style": self.attrs.get("style")})', '            self.attrs.update({"style": self.attrs.get("style")}, {"style": style})'), "add_style(prepend=True) appends")
# ---- C17 -------------------------------------------------------------------------------------------------------
m("M17a", "C17", CORE, ("        sys.displayhook = cast(Callable[[object], None], self.prev_displayhook)\n        self.prev_displayhook = None\n        sys.displayhook(self)", "        if exc_type is None:\n            sys.displayhook = cast(Callable[[object], None], self.prev_displayhook)\n            self.prev_displayhook = None\n        sys.displayhook(self)"), "hook restored only on normal exit")
m("M17b", "C17", CORE, ("        sys.displayhook = cast(Callable[[object], None], self.prev_displayhook)\n        self.prev_displayhook = None\n        sys.displayhook(self)", "        prev = cast(Callable[[object], None], self.prev_displayhook)\n        prev(self)\n        sys.displayhook = prev\n        self.prev_displayhook = None"), "hand-off before restore")
m("M17c", "C17", CORE, ("        if self.prev_displayhook is not None:\n            raise RuntimeError(\n                \"Attempted to enter a Tag object's context manager, but it has already been entered.\"\n            )\n        self.prev_displayhook = sys.displayhook\n",
                        "        prev, self.prev_displayhook = self.prev_displayhook, sys.displayhook\n        if prev is not None:\n            raise RuntimeError(\n                \"Attempted to enter a Tag object's context manager, but it has already been entered.\"\n            )\n"), "re-entry check after the save")
m("M17d", "C17", CORE, ("        self.prev_displayhook = None\n        sys.displayhook(self)", "        self.prev_displayhook = None\n        sys.displayhook(self)\n        return True  # type: ignore"), "exceptions swallowed")
m("M17e", "C17", CORE, ("        if isinstance(value, (Tag, TagList, Tagifiable)):\n            handler(value)\n        elif isinstance(value, ReprHtml):\n            handler(HTML(value._repr_html_()))  # pyright: ignore[reportPrivateUsage]",
                        "        if isinstance(value, ReprHtml):\n            handler(HTML(value._repr_html_()))  # pyright: ignore[reportPrivateUsage]\n        elif isinstance(value, (Tag, TagList, Tagifiable)):\n            handler(value)"), "tags captured as their HTML text")
m("M17f", "C17", CORE, ("        elif value not in (None, ...):", "        elif value is not None:"), "Ellipsis captured")
m("M17g", "C17", CORE, ("        sys.displayhook = wrap_displayhook_handler(\n            # self.append takes", "        sys.displayhook = wrap_displayhook_handler(\n            # self.append takes".replace("self.append takes", "self.append  takes")), "no-op (comment only) - must be silent")
# ---- C18 -------------------------------------------------------------------------------------------------------
m("M18a", "C18", CORE, ('name = "headcontent_" + hash_deterministic(head_str)', 'name = "headcontent_" + str(hash(head_str))'), "salted hash in dependency name")
m("M18b", "C18", CORE, ("        for dep_str in dep_strs:\n            if dep_str in seen_deps:", "        for dep_str in set(dep_strs):\n            if dep_str in seen_deps:"), "extraction order through a set")
m("M18c", "C18", UTIL, ("def html_escape(text: str, attr: bool = False) -> str:\n    table = HTML_ATTRS_ESCAPE_TABLE if attr else HTML_ESCAPE_TABLE\n", "_ESC_MEMO: dict[str, str] = {}\n\n\ndef html_escape(text: str, attr: bool = False) -> str:\n    if text in _ESC_MEMO:\n        return _ESC_MEMO[text]\n    table = HTML_ATTRS_ESCAPE_TABLE if attr else HTML_ESCAPE_TABLE\n"), "memo read (never written: harmless) informational")
m("M18d", "C18", UTIL, ("    for key, value in table.items():\n        text = text.replace(key, value)\n    return text", "    orig = text\n    for key, value in table.items():\n        text = text.replace(key, value)\n    _ESC_MEMO[orig] = text\n    return text"), "(with M18c) - applied alone it is a NameError at runtime; dropped by tests")
m("M18e", "C18", CORE, ("    map: dict[str, HTMLDependency] = {}\n    for dep in deps:", "    map: dict[str, HTMLDependency] = {}\n    for dep in sorted(deps, key=id):"), "resolution order by object address")
m("M18f", "C18", CORE, ("        return {\"dependencies\": deepcopy(self._deps), \"html\": html}", "        self._deps = self._deps[::-1]\n        return {\"dependencies\": deepcopy(self._deps), \"html\": html}"), "render flips stored dependency order each call")
# ---- C19 -------------------------------------------------------------------------------------------------------
m("M19a", "C19", TAGS, ("def label(*args: TagChild | TagAttrs, _add_ws: TagAttrValue = False,", "def label(*args: TagChild | TagAttrs, _add_ws: TagAttrValue = True,"), "label default flipped")
m("M19b", "C19", TAGS, ("def select(*args: TagChild | TagAttrs, _add_ws: TagAttrValue = False,", "def select(*args: TagChild | TagAttrs, _add_ws: TagAttrValue = True,"), "select default flipped")
# ---- C20 -------------------------------------------------------------------------------------------------------
m("M20a", "C20", JSX, ("        for key, value in x.attrs.items():\n            x.attrs[key] = _walk_attrs_and_children(value, fn)\n", ""), "prop values not walked: metadata in props lost")
m("M20b", "C20", JSX, ('            _lib_dependency("react-dom", script={"src": "react-dom.production.min.js"}),\n', ""), "react-dom dependency dropped")
m("M20c", "C20", JSX, ("    if isinstance(x, bool):\n        return str(x).lower()\n    if isinstance(x, (jsx, int, float)):\n        return str(x)", "    if isinstance(x, (jsx, int, float)):\n        return str(x)\n    if isinstance(x, bool):\n        return str(x).lower()"), "bools serialised as True/False")
m("M20d", "C20", JSX, ("            else:\n                x = copy.copy(x)\n", "            else:\n                pass\n"), "walk mutates the component (D6)")
m("M20e", "C20", JSX, ("        if allowedProps:\n            for k in kwargs.keys():\n                if k not in allowedProps:\n                    raise NotImplementedError(f\"{k} is not a valid prop for {_name}\")\n\n        self.name: str = _name\n        # Unlike HTML tags, JSX tag attributes can be anything.\n        self.attrs: JSXTagAttrDict = JSXTagAttrDict(**kwargs)\n",
                       "        self.name: str = _name\n        # Unlike HTML tags, JSX tag attributes can be anything.\n        self.attrs: JSXTagAttrDict = JSXTagAttrDict(**kwargs)\n        if allowedProps:\n            for k in self.attrs.keys():\n                if k not in allowedProps:\n                    raise NotImplementedError(f\"{k} is not a valid prop for {_name}\")\n\n"), "allow-list checked against normalised names")
m("M20f", "C20", JSX, ("        return indent_str + '\"' + x.replace('\"', '\\\\\"') + '\"'", "        return indent_str + '\"' + x + '\"'"), "string children not quoted-escaped")
m("M20g", "C20", JSX, ("        if child_str != \"\":\n            res += \",\" + eol + child_str", "        if child_str.strip() != \"\":\n            res += \",\" + eol + child_str"), "informational: whitespace-only child dropped? (string children are quoted so never blank) expected silent")
m("M20h", "C20", JSX, ("    if isinstance(x, MetadataNode):\n        return \"\"\n    elif isinstance(x, str):", "    if isinstance(x, str):"), "metadata nodes reach the TypeError branch")

# ---- found by tools/automutate.py (first-order mutants that survive the tests) ------------------------------------------------
m("M14i", "C14", CORE, ("        self.extend(item)\n        return self", "        return self"), "+= stores nothing")
m("M11g", "C11", CORE, ("        self._content.append(*args)\n", "        pass\n"), "HTMLDocument.append stores nothing")
m("M10h", "C10", CORE, ('    def get_dependencies(self, *, dedup: bool = True) -> list["HTMLDependency"]:', '    def get_dependencies(self, *, dedup: bool = False) -> list["HTMLDependency"]:'), "TagList.get_dependencies() unresolved by default")
m("M10i", "C10", CORE, ('    def get_dependencies(self, dedup: bool = True) -> list["HTMLDependency"]:', '    def get_dependencies(self, dedup: bool = False) -> list["HTMLDependency"]:'), "Tag.get_dependencies() unresolved by default")
m("M13i", "C13", CORE, ("        if len(self._deps) > 0:\n            dep_tags.append(", "        if len(self._deps) >= 0:\n            dep_tags.append("), "text document lists dependencies even when there are none")
m("M13j", "C13", CORE, ("        if len(self._deps) > 0:\n            dep_tags.append(", "        if len(self._deps) > 1:\n            dep_tags.append("), "text document omits the listing for a single dependency")
m("M13k", "C13", CORE, ("        if len(self._deps) > 0:\n            dep_tags.append(", "        if len(self._deps) > 0:\n            (lambda *a: None)("), "text document never writes the listing")
m("M20i", "C20", JSX, ("    def extend(self, x: Iterable[TagNode]) -> None:\n        self.children.extend(x)", "    def extend(self, x: Iterable[TagNode]) -> None:\n        pass"), "JSXTag.extend stores nothing")
m("M20j", "C20", JSX, ("    def append(self, *args: TagNode) -> None:\n        self.children.append(*args)", "    def append(self, *args: TagNode) -> None:\n        pass"), "JSXTag.append stores nothing")


def run_one(e, keep_killed=False):
    tmp = tempfile.mkdtemp(prefix="mutrun_")
    try:
        subprocess.run(f"git -C /repo archive HEAD | tar -x -C {tmp}", shell=True, check=True)
        p = os.path.join(tmp, e["file"])
        src = open(p).read()
        new = src
        for old, rep in e["edits"]:
            if new.count(old) != 1:
                return e["id"], "anchor", f"{new.count(old)} matches for {old[:50]!r}"
            new = new.replace(old, rep)
        if new == src:
            return e["id"], "noop", ""
        open(p, "w").write(new)
        r = subprocess.run(["/venv/bin/python", "-c", "import ast,sys; ast.parse(open(sys.argv[1]).read())", p], capture_output=True)
        if r.returncode:
            return e["id"], "syntax", r.stderr.decode()[-200:]
        diff = subprocess.run(["diff", "-u", "--label", "a/" + e["file"], "--label", "b/" + e["file"], "/dev/stdin", p],
                              input=src, capture_output=True, text=True).stdout
        t = subprocess.run(["/venv/bin/python", "-m", "pytest", "-q", "-x", "-p", "no:cacheprovider"], cwd=tmp,
                           env={**os.environ, "PYTHONPATH": tmp, "PYTHONDONTWRITEBYTECODE": "1"}, capture_output=True, text=True)
        tests_ok = t.returncode == 0
        if not tests_ok and not keep_killed:
            return e["id"], "killed-by-tests", (t.stdout.strip().splitlines() or [""])[-1][:100]
        c = subprocess.run(["/venv/bin/python", "-m", "sa.cli", "check", e["property"], "--repo", tmp], cwd=VERIF,
                           env={**os.environ, "SA_NO_EVIDENCE": "1"}, capture_output=True, text=True)
        rules = sorted({ln.split("key=")[1].split("|")[0] for ln in c.stdout.splitlines() if "key=" in ln and ("REFUTED" in ln or "VIOLATION" in ln or "finding" in ln.lower())})
        first = [ln for ln in c.stdout.splitlines() if ln.startswith(("VIOLATION", "ANALYSIS-ERROR"))][:1]
        d = os.path.join(VERIF, "mutants", e["id"])
        os.makedirs(d, exist_ok=True)
        open(os.path.join(d, "patch.diff"), "w").write(diff)
        want = "silent" if e["id"] in SILENT else ("either" if e["id"] in EITHER else "violation")
        json.dump({"id": e["id"], "property": e["property"], "note": e["note"], "tests_pass": tests_ok, "own_check_exit": c.returncode,
                   "expected": want, "why_silent": SILENT.get(e["id"]) or EITHER.get(e["id"])},
                  open(os.path.join(d, "meta.json"), "w"), indent=1)
        good = want == "either" or (want == "silent" and c.returncode == 0) or (want == "violation" and c.returncode == 1)
        return e["id"], f"exit{c.returncode}" + ("" if good else " MISS"), (first[0][:150] if first else "") + " " + ",".join(rules)
    finally:
        shutil.rmtree(tmp, ignore_errors=True)


def main():
    ids = [a for a in sys.argv[1:] if not a.startswith("--")]
    keep = "--keep-killed" in sys.argv
    todo = [e for e in M if not ids or e["id"] in ids or e["property"] in ids]
    with ThreadPoolExecutor(14) as ex:
        for mid, res, detail in ex.map(lambda e: run_one(e, keep), todo):
            e = next(x for x in M if x["id"] == mid)
            print(f"{mid} {e['property']} {res:16s} {e['note'][:60]:60s} | {detail}")


if __name__ == "__main__":
    main()
