"""Probe for property C07: metadata nodes leave no trace in the markup.

Prints deterministic reprs of rendered HTML / dependency lists / exception types
for a spread of trees with MetadataNode / HTMLDependency objects inserted at many
positions, plus corner cases of the functions that implement the property.
"""

import random
from copy import copy

import htmltools
from htmltools import (
    HTML,
    HTMLDependency,
    HTMLDocument,
    MetadataNode,
    Tag,
    TagList,
    a,
    div,
    span,
    tags,
)
from htmltools import _core

LOG = []


def show(label, fn):
    try:
        res = fn()
        print(label, "->", type(res).__name__, repr(res))
    except BaseException as e:  # noqa: BLE001
        print(label, "-> EXC", type(e).__name__, str(e)[:200])


class Meta(MetadataNode):
    """Custom metadata node that logs copies."""

    def __init__(self, label):
        self.label = label

    def __copy__(self):
        LOG.append(("copy", self.label))
        return Meta(self.label + "'")

    def __repr__(self):
        return f"<Meta {self.label}>"


class Widget:
    """ReprHtml-only object."""

    def __init__(self, txt, ret_html=False):
        self.txt = txt
        self.ret_html = ret_html

    def __repr__(self):
        return f"<Widget {self.txt!r}>"

    def _repr_html_(self):
        LOG.append(("repr_html", self.txt))
        if self.ret_html:
            return HTML(self.txt)
        return self.txt


class Lazy:
    """Tagifiable that is not a Tag."""

    def __init__(self, res):
        self.res = res

    def __repr__(self):
        return f"<{type(self).__name__} {type(self.res).__name__}>"

    def tagify(self):
        LOG.append(("tagify", repr(type(self.res).__name__)))
        return self.res


class LazyRepr(Lazy):
    """Both Tagifiable and ReprHtml."""

    def _repr_html_(self):
        return "<lazyrepr/>"


def dep(name="d", version="1.0", **kw):
    return HTMLDependency(name, version, **kw)


def mk_meta(i):
    kinds = [
        lambda: MetadataNode(),
        lambda: dep("a", "1.0"),
        lambda: dep("b", "2.1", script={"src": "b.js"}),
        lambda: dep("a", "1.2"),
        lambda: Meta("m%d" % i),
        lambda: dep("c", "0.1", head=tags.title("t")),
    ]
    return kinds[i % len(kinds)]()


# ---------------------------------------------------------------------------
# 1. hand-written trees, with metadata at every position
# ---------------------------------------------------------------------------
def base_trees():
    return {
        "empty_div": lambda *m: div(*m),
        "void_br": lambda *m: tags.br(*m),
        "void_img_attr": lambda *m: tags.img(*m, src="x.png", alt='a"<b>'),
        "void_with_child": lambda *m: tags.br(*m, "x"),
        "single_text": lambda *m: div(*m[:1], "hi <b>", *m[1:]),
        "single_html": lambda *m: div(*m[:1], HTML("<b>hi</b>"), *m[1:]),
        "empty_text": lambda *m: div(*m[:1], "", *m[1:]),
        "two_text": lambda *m: div("a", *m, "b"),
        "script_one": lambda *m: tags.script(*m[:1], "if (a < b) {}", *m[1:]),
        "script_two": lambda *m: tags.script("a<b", *m, "c>d"),
        "style_html": lambda *m: tags.style(*m, HTML("a > b {}")),
        "nested": lambda *m: div(*m[:1], div(*m[1:2], span("x", *m[2:3]), "t"), *m[3:]),
        "inline": lambda *m: span(*m[:1], a("l", *m[1:2]), "txt", *m[2:], span()),
        "mixed_ws": lambda *m: div(span("a"), *m[:1], div("b"), *m[1:], "c", span("d")),
        "widget": lambda *m: div(*m[:1], Widget("<w/>"), *m[1:], Widget("<v/>", True)),
        "noaddws": lambda *m: div(*m[:1], div("x"), "y", *m[1:], _add_ws=False),
        "number": lambda *m: div(1, *m, 2.5),
        "taglist": lambda *m: TagList(*m[:1], "a", div(*m[1:2]), *m[2:], "b"),
        "taglist_empty": lambda *m: TagList(*m),
        "taglist_inline": lambda *m: TagList(span("a"), *m, span("b"), "c"),
        "htmlname": lambda *m: Tag("my-el", *m, "x", div()),
    }


for name, build in base_trees().items():
    variants = [
        (),
        (mk_meta(0),),
        (mk_meta(1), mk_meta(2)),
        (mk_meta(3), mk_meta(4), mk_meta(5), mk_meta(1)),
    ]
    outs = []
    for v in variants:
        t = build(*v)
        s = t.get_html_string()
        outs.append(s)
        r = t.render()
        print(name, len(v), "html", repr(s))
        print(name, len(v), "render", repr(r["html"]), r["dependencies"])
        print(name, len(v), "str", repr(str(t)))
        print(name, len(v), "deps_nodedup", t.get_dependencies(dedup=False))
        for ind, eol in [(2, "\n"), (1, "\r\n"), (0, ""), (3, "|")]:
            print(name, len(v), ind, repr(eol), repr(t.get_html_string(ind, eol)))
    print(name, "ALL_EQUAL", all(o == outs[0] for o in outs))

# ---------------------------------------------------------------------------
# 2. TagList.get_html_string keyword corner cases
# ---------------------------------------------------------------------------
tl = TagList(mk_meta(1), "a<b", mk_meta(0), div("x", mk_meta(2)), span("s"), "z", mk_meta(4))
for kw in [
    {},
    {"add_ws": False},
    {"_escape_strings": False},
    {"add_ws": False, "_escape_strings": False, "indent": 2},
    {"indent": 4, "eol": "\n\n"},
    {"indent": 1, "eol": HTML("<br>")},
    {"indent": 1, "eol": HTML("<br>"), "add_ws": False},
]:
    show("tl kw %r" % (sorted(kw.items()),), lambda: tl.get_html_string(**kw))

show("tag eol HTML", lambda: div(mk_meta(1), div("a&b"), "x<y").get_html_string(1, HTML("<br>")))
show("tag eol HTML single", lambda: div(mk_meta(1), "x<y").get_html_string(1, HTML("<br>")))
show("tag name HTML", lambda: Tag(HTML("x-y"), mk_meta(1), "a<b").get_html_string())
show("tag name HTML empty", lambda: Tag(HTML("x-y"), mk_meta(1)).get_html_string())
show("tag name HTML multi", lambda: Tag(HTML("x-y"), "a<b", div()).get_html_string())
show("tag name int", lambda: Tag(3, "a").get_html_string())
show("tag indent str", lambda: div("a", div()).get_html_string("2"))
show("tl indent str", lambda: TagList("a", div()).get_html_string("2"))
show("tl indent str widget", lambda: TagList(Widget("w")).get_html_string("2"))
show("tl indent str noaddws", lambda: TagList("a").get_html_string("2", add_ws=False))
show("tl indent float", lambda: TagList(div("a")).get_html_string(1.5))
show("tl eol None", lambda: TagList("a", "b").get_html_string(eol=None))
show("tag eol None", lambda: div("a", "b").get_html_string(eol=None))
show("tag eol None single", lambda: div("a").get_html_string(eol=None))
show("attr html", lambda: div(mk_meta(1), id=HTML("<&>"), title="<&>").get_html_string())

# un-tagified objects
show("untagified tl", lambda: TagList("a", Lazy("x")).get_html_string())
show("untagified tl meta", lambda: TagList(mk_meta(0), Lazy("x"), mk_meta(1)).get_html_string())
show("untagified tag", lambda: div(mk_meta(0), Lazy("x"), "q").get_html_string())
show("untagified single", lambda: div(mk_meta(0), Lazy("x")).get_html_string())
show("untagified indent str", lambda: TagList(Lazy("x")).get_html_string("2"))
show("lazyrepr direct", lambda: TagList("a", LazyRepr("x"), mk_meta(0)).get_html_string())
show("lazyrepr render", lambda: TagList("a", LazyRepr("x"), mk_meta(0)).render())

# direct raw insertion of odd objects in .children / data
t_odd = div("a")
t_odd.children.data.append(42)
show("odd int child", lambda: t_odd.get_html_string())
t_odd2 = div()
t_odd2.children.data.append(None)
show("odd None child", lambda: t_odd2.get_html_string())
t_odd3 = TagList()
t_odd3.data.extend(["a", None])
show("odd None in taglist", lambda: t_odd3.get_html_string())
t_odd4 = TagList()
t_odd4.data.extend([b"a"])
show("odd bytes in taglist", lambda: t_odd4.get_html_string())
show("odd bytes no escape", lambda: t_odd4.get_html_string(_escape_strings=False))

# ---------------------------------------------------------------------------
# 3. tagify: metadata copied, order of side effects, flattening
# ---------------------------------------------------------------------------
LOG.clear()
m1, m2, m3 = Meta("1"), Meta("2"), Meta("3")
d1 = dep("zz", "3.0")
src = TagList(
    m1,
    Lazy(TagList("p", m2, Lazy("deep"))),
    d1,
    Lazy("str"),
    Lazy(div("in", m3)),
    Lazy(TagList()),
    "tail",
    Widget("<w/>"),
)
res = src.tagify()
print("tagify res data", res.data)
print("tagify src data len", len(src.data), [type(x).__name__ for x in src.data])
print("tagify LOG", LOG)
print("tagify identity", res[0] is m1, [x is d1 for x in res], d1 in list(res))
show("tagify html", lambda: res.get_html_string())
res2 = res.tagify()
print("tagify twice LOG", LOG)
show("tagify twice html", lambda: res2.get_html_string())
print("tagify deps", res.get_dependencies(), res.get_dependencies(dedup=False))
LOG.clear()
tg = div(m1, span(m2, "x"), Lazy(TagList(m3, "y")), d1)
tg2 = tg.tagify()
print("tag.tagify LOG", LOG)
print("tag.tagify", repr(tg2.get_html_string()), tg2.children.data, tg2.children is tg.children)
print("tag.tagify orig", tg.children.data[0] is m1, [type(x).__name__ for x in tg.children.data])
show("tagify bad result", lambda: TagList(Lazy(TagList(Lazy(3)))).tagify().data)
show("tagify lazy None", lambda: TagList("a", Lazy(None)).tagify().data)
show("tagify lazy None render", lambda: TagList("a", Lazy(None)).render())
show("tagify lazy int", lambda: TagList(Lazy(7)).tagify().data)
show("tagify lazy lazy", lambda: TagList(Lazy(Lazy("x"))).render())
show("tagify empty", lambda: TagList().tagify().data)
LOG.clear()


class Boom:
    def tagify(self):
        LOG.append("boom")
        raise KeyError("boom")


show("tagify raises", lambda: TagList(Meta("a"), Boom(), Meta("b")).tagify())
print("raise LOG", LOG)
LOG.clear()



class MetaLazy(MetadataNode):
    """Both a MetadataNode and Tagifiable: tagify() wins over copy()."""

    def __init__(self, res):
        self.res = res

    def __repr__(self):
        return "<MetaLazy>"

    def __copy__(self):
        LOG.append("metalazy copy")
        return MetaLazy(self.res)

    def tagify(self):
        LOG.append("metalazy tagify")
        return self.res


class MetaWidget(MetadataNode):
    """Both a MetadataNode and ReprHtml: never shown."""

    def __repr__(self):
        return "<MetaWidget>"

    def _repr_html_(self):
        LOG.append("metawidget repr_html")
        return "<SHOULD-NOT-SHOW/>"


show("metalazy tagify", lambda: TagList("a", MetaLazy(TagList("b", Meta("in"))), MetaLazy("c")).tagify().data)
show("metalazy html", lambda: TagList("a", MetaLazy("c"), "d").get_html_string())
show("metalazy in tag", lambda: div(MetaLazy("c")).get_html_string())
show("metalazy render", lambda: div(MetaLazy(div("c", dep("ml", "1")))).render())
show("metawidget html", lambda: TagList("a", MetaWidget(), div(MetaWidget())).get_html_string())
show("metawidget render", lambda: div(MetaWidget(), "a").render())
print("meta mixed LOG", LOG)
LOG.clear()

# ---------------------------------------------------------------------------
# 4. render / dependencies
# ---------------------------------------------------------------------------
deps_tree = div(
    dep("a", "1.0"),
    div(dep("b", "1.0"), dep("a", "2.0"), span(dep("a", "1.5"), "x")),
    dep("b", "1.0"),
    dep("c", "0.0.1"),
    MetadataNode(),
    dep("b", "0.9"),
)
show("deps dedup", lambda: deps_tree.get_dependencies())
show("deps nodedup", lambda: deps_tree.get_dependencies(dedup=False))
show("deps children dedup", lambda: deps_tree.children.get_dependencies())
show("deps children nodedup", lambda: deps_tree.children.get_dependencies(dedup=False))
show("deps dedup falsy", lambda: deps_tree.children.get_dependencies(dedup=0))
show("deps dedup truthy", lambda: deps_tree.children.get_dependencies(dedup="yes"))
show("deps positional", lambda: deps_tree.children.get_dependencies(True))
show("deps tag positional", lambda: deps_tree.get_dependencies(False))
show("deps render", lambda: deps_tree.render())
show("deps tl render", lambda: TagList(deps_tree, dep("c", "1")).render())
show("deps empty", lambda: TagList().get_dependencies())
show("deps empty nodedup", lambda: TagList().get_dependencies(dedup=False))
show("deps in lazy", lambda: TagList(Lazy(dep("q", "1"))).get_dependencies())
show("deps in lazy render", lambda: TagList(Lazy(dep("q", "1"))).render())
x1, x2, x3 = dep("a", "1.0"), dep("a", "1.0"), dep("a", "1.0.0")
r = _core._resolve_dependencies([x1, x2, x3])
print("resolve same", r, r[0] is x1)
r = _core._resolve_dependencies([dep("b", "1"), dep("a", "1"), dep("b", "2"), dep("a", "0.5")])
print("resolve order", r)
from packaging.version import Version


class FakeDep:
    def __init__(self, name, version):
        self.name = name
        self.version = version

    def __repr__(self):
        return f"<FakeDep {self.name!r} {self.version!r}>"


show("resolve fake", lambda: _core._resolve_dependencies([FakeDep("a", 1), FakeDep("a", 3), FakeDep(None, 0), FakeDep("a", 2), FakeDep(None, 0)]))
show("resolve fake incomparable", lambda: _core._resolve_dependencies([FakeDep("a", 1), FakeDep("a", "x")]))
show("resolve fake unhashable", lambda: _core._resolve_dependencies([FakeDep([], 1)]))
show("resolve fake noversion", lambda: _core._resolve_dependencies([FakeDep("a", 1), None]))
show("resolve fake first no version attr", lambda: _core._resolve_dependencies([Widget("w")]))
show("resolve versions", lambda: _core._resolve_dependencies([dep("v", "1.10"), dep("v", "1.9"), dep("v", "1.10.0"), dep("w", Version("2")), dep("w", "2.0.1rc1"), dep("w", "2.0.1")]))
show("resolve tuple input", lambda: _core._resolve_dependencies((dep("v", "1"), dep("v", "2"))))
show("resolve generator input", lambda: _core._resolve_dependencies(d for d in [dep("v", "2"), dep("v", "1")]))
show("resolve empty", lambda: _core._resolve_dependencies([]))
show("resolve bad", lambda: _core._resolve_dependencies([1]))
show("resolve none", lambda: _core._resolve_dependencies([None]))
nodup = deps_tree.get_dependencies(dedup=False)
print("nodedup identity", nodup[0] is deps_tree.children[0])
same_list = deps_tree.children.get_dependencies(dedup=False)
print("fresh list", same_list is not deps_tree.children.get_dependencies(dedup=False))
show("doc render", lambda: HTMLDocument(div(dep("a", "1.0", script={"src": "a.js"}, source={"href": "http://x"}), "b")).render())
htmltools.html_dependency_render_mode = "json"
show("json mode str", lambda: str(div(dep("a", "1.0"), "b")))
show("json mode str tl", lambda: str(TagList(dep("a", "1.0"), "b", dep("c", "1"))))
htmltools.html_dependency_render_mode = "none"

# subclasses
class MyTagList(TagList):
    def get_dependencies(self, *, dedup=True):
        LOG.append(("mytl.get_dependencies", dedup))
        return super().get_dependencies(dedup=dedup)

    def get_html_string(self, *args, **kwargs):
        LOG.append(("mytl.get_html_string", args, sorted(kwargs.items())))
        return super().get_html_string(*args, **kwargs)

    def tagify(self):
        LOG.append(("mytl.tagify",))
        return super().tagify()


class MyTag(Tag):
    def get_dependencies(self, dedup=True):
        LOG.append(("mytag.get_dependencies", dedup))
        return super().get_dependencies(dedup=dedup)

    def get_html_string(self, *args, **kwargs):
        LOG.append(("mytag.get_html_string", args, sorted(kwargs.items())))
        return super().get_html_string(*args, **kwargs)

    def tagify(self):
        LOG.append(("mytag.tagify",))
        return super().tagify()


LOG.clear()
mt = MyTag("div", dep("a", "1"), MyTag("span", "x", dep("b", "1")), "y", MyTag("br"), MyTag("p", "z"))
show("mytag render", lambda: mt.render())
print("mytag LOG", LOG)
LOG.clear()
ml = MyTagList(dep("a", "1"), mt, "q", Meta("k"))
show("mytl render", lambda: ml.render())
print("mytl LOG", LOG)
LOG.clear()
show("mytl str", lambda: str(ml))
print("mytl str LOG", LOG)
LOG.clear()
mt.children = MyTagList(*mt.children)
show("mytag w/ mytl children", lambda: mt.get_html_string(1, "\n"))
show("mytag w/ mytl deps", lambda: mt.get_dependencies())
print("LOG", LOG)
LOG.clear()

# ---------------------------------------------------------------------------
# 5. randomized differential check (seeded)
# ---------------------------------------------------------------------------
rng = random.Random(7)
NAMES = ["div", "span", "p", "br", "img", "script", "style", "a", "ul", "pre", "x-y"]


def rand_tree(depth, with_meta):
    """Returns (tree builder args) twice: same structure with/without metadata."""
    n = rng.randint(0, 4)
    kids_plain, kids_meta = [], []
    for _ in range(n):
        k = rng.random()
        if k < 0.3 and depth > 0:
            p, m = rand_tree(depth - 1, with_meta)
        elif k < 0.55:
            s = rng.choice(["", "a", "<&>", "x y", "\n"])
            p, m = s, s
        elif k < 0.7:
            s = HTML(rng.choice(["", "<i>r</i>", "&amp;"]))
            p, m = s, s
        elif k < 0.8:
            w = Widget(rng.choice(["<w/>", ""]), rng.random() < 0.5)
            p, m = w, w
        else:
            v = rng.randint(0, 9)
            p, m = v, v
        kids_plain.append(p)
        kids_meta.append(m)
    # sprinkle metadata
    for _ in range(rng.randint(0, 3)):
        pos = rng.randint(0, len(kids_meta))
        kids_meta.insert(pos, mk_meta(rng.randint(0, 5)))
    name = rng.choice(NAMES)
    add_ws = rng.choice([True, False, None])
    kw = {} if add_ws is None else {"_add_ws": add_ws}
    if rng.random() < 0.15:
        return TagList(*kids_plain), TagList(*kids_meta)
    return Tag(name, *kids_plain, **kw), Tag(name, *kids_meta, **kw)


mismatch = 0
for i in range(150):
    plain, meta = rand_tree(3, True)
    ind = rng.randint(0, 3)
    eol = rng.choice(["\n", "", "\r\n"])
    try:
        hp = plain.get_html_string(ind, eol)
        hm = meta.get_html_string(ind, eol)
        rp = plain.render()
        rm = meta.render()
    except BaseException as e:  # noqa: BLE001
        print("rand", i, "EXC", type(e).__name__, str(e)[:100])
        continue
    if hp != hm or rp["html"] != rm["html"]:
        mismatch += 1
    print("rand", i, repr(hm), rm["dependencies"], rp["dependencies"], type(hm).__name__)
print("rand mismatches", mismatch)
print("final LOG len", len(LOG))
