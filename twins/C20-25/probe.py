"""Deterministic probe for the JSX component code (htmltools/_jsx.py)."""

import copy
import os

import htmltools
from htmltools import HTML, HTMLDependency, HTMLDocument, Tag, TagList, css, div, span, tags
from htmltools import _jsx
from htmltools._jsx import JSXTag, JSXTagAttrDict, jsx, jsx_tag_create


def show(label, fn):
    try:
        res = fn()
        print(label, "=>", repr(res))
    except BaseException as e:  # noqa: BLE001
        print(label, "=> EXC", type(e).__name__, repr(str(e)))


def snap(x, depth=0):
    """Structural snapshot of anything reachable from a component (no ids)."""
    if isinstance(x, JSXTag):
        return (
            "JSX",
            x.name,
            [(k, snap(v)) for k, v in x.attrs.items()],
            [snap(c) for c in x.children],
        )
    if isinstance(x, Tag):
        return (
            "TAG",
            x.name,
            [(k, str(v)) for k, v in x.attrs.items()],
            [snap(c) for c in x.children],
        )
    if isinstance(x, HTMLDependency):
        return ("DEP", x.name, str(x.version), repr(x.script), repr(x.source))
    if isinstance(x, (list, tuple, TagList)):
        return (type(x).__name__, [snap(c) for c in x])
    if isinstance(x, dict):
        return ("dict", [(k, snap(v)) for k, v in x.items()])
    if isinstance(x, Widget):
        return ("Widget", x.label, x.calls)
    return (type(x).__name__, str(x))


class Widget:
    """A Tagifiable that is neither a Tag nor a JSXTag."""

    def __init__(self, label, result):
        self.label = label
        self.result = result
        self.calls = 0

    def __repr__(self):
        return "<Widget %s>" % self.label

    def tagify(self):
        self.calls += 1
        return self.result() if callable(self.result) else self.result


class Named:
    def __init__(self, s):
        self.s = s

    def __str__(self):
        return self.s


class MyInt(int):
    def __str__(self):
        return "myint!"

    __repr__ = __str__


class MyDict(dict):
    pass


def dep(name, version="1.0"):
    return HTMLDependency(name, version, source={"subdir": "x"}, script={"src": name + ".js"})


Foo = jsx_tag_create("Foo")
Bar = jsx_tag_create("Bar")
Lim = jsx_tag_create("Lim", allowedProps=["a", "b_c", "style"])
Emp = jsx_tag_create("Emp", allowedProps=[])

print("== construction / names")
for nm in ["Foo", "foo", "a.B", "A.b", "", "A.", ".", "1x", "_x", "Éa", "éa", "x.Y.Z", "X.y.z"]:
    show("JSXTag(%r)" % nm, lambda nm=nm: (JSXTag(nm).name, str(JSXTag(nm)).count(nm)))
show("create name", lambda: (Foo.__name__, jsx_tag_create("x.Y").__name__))
show("Lim ok", lambda: snap(Lim(a=1, b_c=2, style="x:y")))
show("Lim bad", lambda: Lim(a=1, c=2, d=3))
show("Lim bad2", lambda: Lim(b=1))
show("Lim bad normalised", lambda: Lim(**{"b-c": 1}))
show("Emp anything", lambda: snap(Emp(zzz=1)))
show("tuple allowed", lambda: snap(JSXTag("T", allowedProps=("q",), q=1)))
show("tuple allowed bad", lambda: JSXTag("T", allowedProps=("q",), r=1, q=2))
show("str allowed", lambda: snap(JSXTag("T", allowedProps="abc", a=1, bc=2)))
show("str allowed bad", lambda: JSXTag("T", allowedProps="abc", ac=2))
show("bad name before bad prop", lambda: JSXTag("t", allowedProps=["q"], r=1))
show("non-str name", lambda: JSXTag(3))

print("== attr dict")
d = JSXTagAttrDict(class_="a", data_foo_bar=1, foo__=2, _x=3, **{"_": 4, "": 5, "a-b": 6, "__": 7})
show("init", lambda: list(d.items()))
d["for_"] = "f"
d["aria_label_"] = "l"
d["class_"] = "b"
show("setitem", lambda: list(d.items()))
show("update ret", lambda: d.update({"x_y": 1, "class": "c"}, {"x-y": 2}, MyDict(z_=3), z_z=4))
show("after update", lambda: list(d.items()))
show("update dup", lambda: (d.update({"q_": 1, "q": 2}), list(d.items()))[1])
show("update empty", lambda: (d.update(), d.update({}), len(d)))
show("update bad key", lambda: d.update({1: 2}))
show("after bad key", lambda: list(d.items()))
show("update partial bad", lambda: d.update({"ok_1": 1}, {"ok_2": 2, 3: 3}))
show("after partial bad", lambda: list(d.items()))
show("update non-mapping", lambda: d.update([("a", 1)]))
show("setitem bad", lambda: d.__setitem__(None, 1))
show("norm", lambda: [JSXTagAttrDict._normalize_attr_name(s) for s in ["", "_", "__", "a_", "a__", "_a_b_", "a-b_"]])
show("type", lambda: (type(d).__name__, isinstance(d, dict)))
show("kwargs collide", lambda: list(JSXTagAttrDict(**{"a_": 1, "a": 2, "a__": 3}).items()))

print("== serialize attr")
vals = [
    None, True, False, 0, 1, -5, 2.0, 1e100, float("inf"), float("nan"), MyInt(4),
    "", "plain", 'q"uo"te', "back\\slash", "new\nline", 'mix\\"', "é中",
    jsx("x => x"), jsx(""), jsx('a"b'),
    [], (), [1, "a", None, True], (1, (2, [3, {"k": "v"}])), [[[]]],
    {}, {"a": 1}, {"a": {"b": [1, {"c": None}]}}, {1: 2, None: 3, 'q"': 4, ("t",): 5},
    MyDict(k="v"), b"bytes", Named('na"med'), Named(""), 3 + 4j, {1, }, range(3),
    span(), span("hi", id="a"), div(span("a"), "b", class_="c"), Foo(), Foo("x", a=1),
    Foo(Bar(span()), p=Bar()), tags.script("x"), HTML("<b>"), TagList("a"), dep("d"),
    [span(), Foo()], {"t": span("x"), "j": Foo(k=[Bar()])},
]
for i, v in enumerate(vals):
    show("ser[%d]" % i, lambda v=v: _jsx._serialize_attr(v))

print("== serialize style")
styles = [
    None, "", ";", "color:red", "color:red;", "color: red; font-size : 12px",
    "a:b:c", "a:b;c:d:e", "nocolon", "nocolon;a:b", ":", "::", ":;:", "a:;b:", 'q":"x',
    jsx("a:b"), {}, {"color": "red"}, {"a": 1, "b": None, "c": [1]}, MyDict(a="b"),
    css(color="red", font_size="1px"), css(), 1, 1.5, True, [], ["a:b"], ("a", "b"),
    span(), Foo(), HTML("a:b"), b"a:b", "a:b\n;c:d",
]
for i, v in enumerate(styles):
    show("style[%d]" % i, lambda v=v: _jsx._serialize_style_attr(v))

print("== render_react_js direct")
nodes = [
    "", "s", 'q"q', "b\\s", "n\nl", jsx("e"), dep("m"), span(), Foo(), HTML("h"), TagList(), None, 1,
    Widget("w", span()), span(dep("m")), Foo(dep("m")), Foo(dep("m"), dep("n")), Foo(dep("m"), "x", dep("n")),
    Foo(a=1), Foo("c"), Foo("c", a=1), span(id="i"), span("c"), span("c", id="i", class_="k"),
    Foo(style=None), Foo(style="a:b;c:d"), Foo(style={"a": 1}), Foo(style=1), Foo(Style="a:b"),
    span(style="color:red"), div(span("x", style="a:b"), Foo(style="c:d")),
    Foo("", ""), Foo("a", Bar("b", Bar("c", span("d", Bar()))), "e", x=[Bar(y=span(z="1"))]),
    Foo(HTML("h")), Foo(span(HTML("h"))), Foo(TagList("a")), Foo(a=HTML("h")), Foo(a=TagList("a")),
    Foo(Widget("w", span())), Foo(a=Widget("w", span())),
    Foo(HTML("h"), style=3), Foo(a=Foo(HTML("h")), style=3), Foo(style=3, a=Foo(HTML("h"))),
    Foo("a", span(style="a:b:c"), HTML("h")), Foo(dep("m"), a=[dep("n")], b={"k": dep("o")}),
    Foo(**{"q\"k": 1, "": 2, "style_": "a:b", "Style": "c:d"}), Foo("x", **{"style": {}}),
    span(dep("only")), Foo(dep("only"), k=None), Foo("", dep("m"), ""),
]
for i, n in enumerate(nodes):
    for indent, eol in [(0, "\n"), (2, "\n"), (1, ""), (3, " ")]:
        show("rjs[%d,%d,%r]" % (i, indent, eol), lambda n=n, indent=indent, eol=eol: _jsx._render_react_js(n, indent, eol))

print("== tagify / str / purity")


def big():
    w1 = Widget("w1", lambda: span("from-w1", dep("w1dep")))
    w2 = Widget("w2", lambda: Foo("from-w2", dep("w2dep"), k=span(dep("w2attr"))))
    w3 = Widget("w3", lambda: dep("w3dep"))
    w4 = Widget("w4", lambda: "w4-string")
    w5 = Widget("w5", lambda: Widget("inner", span("never")))
    shared = span("shared", dep("shareddep"))
    return Foo(
        "text",
        'q"uote',
        span("a", dep("childdep"), w1, id="i", class_="c"),
        Bar(dep("nesteddep"), w3, shared, p=shared, q=Bar(dep("attrattr"))),
        [Bar("l1"), [span("l2"), ("l3", None)]],
        TagList("tl", dep("tldep")),
        w2,
        w4,
        dep("childdep"),
        None,
        3,
        4.5,
        jsx("`e`"),
        a=None,
        b=True,
        c_=False,
        data_x=1,
        e=2.5,
        f='s"',
        g=[1, (2, "3"), {"k": None}],
        h={"x": jsx("fn()"), "y": [True]},
        i=jsx("() => 1"),
        j=span("attr-tag", dep("attrdep")),
        k=Bar("attr-comp", dep("attrcompdep"), z=w3),
        l=w1,
        m=dep("depattr"),
        n=[span(dep("hidden-in-list"))],
        style="color:red; margin: 0",
        o=w5,
    )


def describe(tag):
    deps = tag.get_dependencies(dedup=False)
    return (
        tag.name,
        list(tag.attrs.items()),
        [type(c).__name__ for c in tag.children],
        [(d.name, str(d.version)) for d in deps],
        [(d.name, str(d.version)) for d in tag.get_dependencies()],
        str(tag.children[0]),
    )


def pure(make):
    x = make()
    before = snap(x)
    ids_before = ([id(c) for c in x.children], [id(v) for v in x.attrs.values()])
    out = describe(x.tagify())
    s1 = str(x)
    s2 = repr(x)
    s3 = x._repr_html_()
    after = snap(x)
    ids_after = ([id(c) for c in x.children], [id(v) for v in x.attrs.values()])
    return (out, s1 == s2 == s3, s1, before == after, ids_before == ids_after, after)


show("big", lambda: pure(big))
makers = [
    lambda: Foo(),
    lambda: Foo(Bar()),
    lambda: jsx_tag_create("ns.Comp")('na"me'),
    lambda: JSXTag('We"ird'),
    lambda: Foo(dep("a"), dep("a", "2.0"), dep("b")),
    lambda: Foo(x=dep("a")),
    lambda: Foo(Widget("w", lambda: TagList(span("a"), dep("tl")))),
    lambda: Foo(span(Widget("w", lambda: TagList(span("a"), dep("tl"))))),
    lambda: Foo(Widget("w", lambda: HTML("<i>"))),
    lambda: Foo(Widget("w", lambda: None)),
    lambda: Foo(Widget("w", lambda: 1 / 0)),
    lambda: Foo(a=Widget("w", lambda: 1 / 0), b=Widget("w2", lambda: [][0])),
    lambda: Foo(HTML("<i>")),
    lambda: Foo(tags.script("alert(1)"), tags.style("x")),
    lambda: Foo(style=3),
    lambda: Foo(style="a:b:c"),
    lambda: Foo(span(style="a:b:c")),
    lambda: Foo(span(Foo(span(Foo(dep("deep")), deep=Foo(dep("deepattr")))))),
    lambda: Lim("c", a=span(), b_c=[1], style=css(a="b")),
    lambda: Foo(div(HTMLDependency("x", "1", source={"subdir": "s"}, stylesheet={"href": "a.css"}))),
]
for i, m in enumerate(makers):
    show("pure[%d]" % i, lambda m=m: pure(m))

print("== mutation api / copy")
x = Foo("a", p=1)
x.append("b", span("c"), [Bar(), "d"])
x.extend(["e", Bar("f")])
x.extend(iter(["g"]))
x.attrs["new_attr_"] = [1]
x.attrs.update({"u_v": None}, w_=2)
show("mutated", lambda: (snap(x), str(x)))
y = copy.copy(x)
y.append("only-y")
y.attrs["only_y"] = 1
y.name = "Copied"
show("copy indep", lambda: (snap(x), snap(y), x.children is y.children, x.attrs is y.attrs, type(y).__name__, type(y.attrs).__name__))
show("copy shares items", lambda: all(a is b for a, b in zip(x.children, y.children)))
x.weird = [1, 2]
z = copy.copy(x)
show("copy extra field", lambda: (z.weird, z.weird is x.weird))
show("append ret", lambda: (x.append(), x.extend([]), len(x.children)))
show("extend bad", lambda: x.extend(5))


class SubJSX(JSXTag):
    pass


s = SubJSX("Sub", "c", k=1)
show("subclass", lambda: (type(copy.copy(s)).__name__, str(s), str(Foo(s, p=s))))

print("== jsx str class")
show("jsx", lambda: (jsx("a", "b"), type(jsx("a") + jsx("b")).__name__, type(jsx("a") + "b").__name__, jsx(), type(jsx()).__name__))

print("== documents")
show("doc", lambda: HTMLDocument(div(big(), Foo("second"))).render()["html"])
show("doc deps", lambda: [(d.name, str(d.version)) for d in HTMLDocument(big()).render()["dependencies"]])
show("in div", lambda: str(div(Foo("x", a=span()))))
show("taglist", lambda: str(TagList(Foo(dep("z")), Bar())))
show("taglist deps", lambda: [d.name for d in TagList(Foo(dep("z")), Bar()).get_dependencies()])


def files_exist():
    out = []
    for d in Foo().tagify().get_dependencies():
        base = os.path.join(os.path.dirname(htmltools.__file__), d.source["subdir"])
        out.append((d.name, d.source, [(s["src"], os.path.isfile(os.path.join(base, s["src"]))) for s in d.script]))
    return out


show("files", files_exist)
show("lib dep", lambda: snap(_jsx._lib_dependency("react", {"src": "z.js"})))
show("lib dep bad", lambda: _jsx._lib_dependency("nope", {"src": "z.js"}))

print("== walk")
log = []


def fn(v):
    log.append(type(v).__name__ + ":" + (v if isinstance(v, str) else getattr(v, "name", getattr(v, "label", "?"))))
    return v


t = Foo("a", span("b", Bar("c", q="qq"), dep("dd")), Widget("ww", span()), p=span("pp"), r=[Bar()])
show("walk ret", lambda: _jsx._walk_attrs_and_children(t, fn) is t)
show("walk log", lambda: log)
show("walk scalar", lambda: [_jsx._walk_attrs_and_children(v, lambda q: q) for v in [None, 1, "s", [1], HTML("h")]])
show("walk replace", lambda: snap(_jsx._walk_attrs_and_children(Foo("a", span("b"), k="v"), lambda q: q.upper() if isinstance(q, str) else q)))
show("walk to tag", lambda: snap(_jsx._walk_attrs_and_children("root", lambda q: span("x", "y") if q == "root" else q + "!")))


def boom(q):
    if q == "bad":
        raise KeyError("boom")
    return q


bt = Foo("ok", "bad", "later")
show("walk exc", lambda: _jsx._walk_attrs_and_children(bt, boom))
show("walk exc state", lambda: snap(bt))
