import copy
import os
import sys
import tempfile

import htmltools
from htmltools import (
    HTML,
    HTMLDependency,
    HTMLDocument,
    Tag,
    TagList,
    div,
    head_content,
    span,
    tags,
)
from htmltools._core import MetadataNode, _equals_impl, _resolve_dependencies
from htmltools._jsx import JSXTag, jsx_tag_create


def show(label, fn):
    try:
        res = fn()
        print(label, "=>", repr(res))
    except BaseException as e:  # noqa
        print(label, "=> EXC", type(e).__name__, str(e)[:200])


class Tagi:
    """Tagifiable that expands to a Tag and logs calls."""

    log = []

    def __init__(self, name, *kids):
        self.name = name
        self.kids = kids

    def tagify(self):
        Tagi.log.append(self.name)
        return div(self.name, *self.kids, class_="tagi").tagify()


class TagiList:
    def __init__(self, *kids):
        self.kids = kids

    def tagify(self):
        Tagi.log.append("list%d" % len(self.kids))
        return TagList(*self.kids).tagify()


class TagiStr:
    def tagify(self):
        Tagi.log.append("str")
        return "plain <str>"


class TagiHTML:
    def tagify(self):
        Tagi.log.append("html")
        return HTML("<b>raw</b>")


class TagiDep:
    def tagify(self):
        Tagi.log.append("dep")
        return HTMLDependency("fromtagi", "2.0", head="<meta name='t'>")


class Repr:
    def __init__(self, s):
        self.s = s

    def _repr_html_(self):
        return self.s


class ReprBad:
    def _repr_html_(self):
        return 42


class ReprHTMLObj:
    def _repr_html_(self):
        return HTML("<i>&</i>")


class Meta(MetadataNode):
    def __init__(self, v):
        self.v = v

    def __eq__(self, other):
        return isinstance(other, Meta) and self.v == other.v


class MyTag(Tag):
    pass


def dep(name="a", version="1.0", **kw):
    return HTMLDependency(name, version, **kw)


def deps_set():
    return [
        dep("a", "1.0", source={"href": "https://x.y/a"}, script={"src": "a.js"}),
        dep("b", "2.1", source={"subdir": "libdir", "package": "htmltools"},
            stylesheet=[{"href": "b b.css"}, {"href": "c.css", "media": "print"}],
            script=[{"src": "b.js", "defer": True}]),
        dep("a", "1.2", meta={"name": "viewport", "content": "w"}, head="<title>T</title>"),
        dep("a", "1.1", head=tags.link(rel="x", href="y")),
        dep("c", "0.1", head=TagList(tags.title("z"), "txt & more")),
    ]


def trees():
    d = deps_set()
    out = {}
    out["empty_list"] = TagList()
    out["empty_div"] = div()
    out["br"] = tags.br()
    out["br_kid"] = tags.br("x")
    out["br_dep"] = tags.br(d[0])
    out["text"] = div("a < b & c > d")
    out["html"] = div(HTML("<b>&</b>"))
    out["two_text"] = div("x", "y<")
    out["nums"] = div(1, 2.5, True, None, [3, [4, (5,)]], TagList("t", None))
    out["nested"] = div(span("a", _add_ws=False), span("b"), "c", span("d", _add_ws=False), "e", id="n", class_="k")
    out["inline"] = span(span("a", span("b")), "c", tags.em("d"), _add_ws=False)
    out["script1"] = tags.script("if (a < b && c) {}")
    out["script2"] = tags.script("a < b;", "c && d;")
    out["script_html"] = tags.script(HTML("a < b;"), "c && d;", HTML("e<f"))
    out["style1"] = tags.style("p > a { }")
    out["style_html"] = tags.style(HTML("p > a {}"))
    out["attrs"] = div({"class": "a", "data-x": 'q"<>&\''}, {"class": "b"}, id=HTML("<raw&>"), hidden=True, x=None, y=False, z=1.5, class_="c")
    out["deps"] = div(d[0], span(d[1], "in"), d[2], TagList(d[3], d[4]), "tail")
    out["dep_only"] = div(d[0])
    out["meta_only"] = TagList(Meta(1), Meta([2]))
    out["meta_mix"] = div("a", Meta(1), span(Meta({"k": 2}), "b"), _add_ws=False)
    out["repr"] = div(Repr("<r>1</r>"), "s", Repr(""), span("t"))
    out["repr_htmlobj"] = div(ReprHTMLObj(), "s<")
    out["tagi"] = div(Tagi("one"), "mid", Tagi("two", Tagi("three")), TagiList("l1", span("l2"), Tagi("four")), TagiStr(), TagiHTML(), TagiDep(), TagiList())
    out["tagi_list"] = TagList(Tagi("x"), TagiList(TagiList("deep", TagiDep())), "y", Meta(9))
    out["jsx"] = div(jsx_tag_create("Foo")(span("k"), d[0], a=1, b="2"))
    out["mytag"] = MyTag("custom", "a", span("b"), k="v")
    out["headc"] = div(head_content(tags.title("HC"), "x"), head_content(tags.title("HC"), "x"), "body")
    out["html_root"] = tags.html(tags.head(tags.title("t")), tags.body("b", d[0]), lang="en")
    out["html_nohead"] = tags.html(d[2], tags.body("b"))
    out["body_root"] = tags.body(div("in body", d[1]), class_="bd")
    out["list_mixed"] = TagList("a", span("b", _add_ws=False), "c", div("d"), HTML("<e/>"), d[4], Repr("<f/>"), 7)
    out["ws_false_outer"] = div(div("a"), "b", div("c"), _add_ws=False)
    out["newline_text"] = div("a\nb", span("c\r\n"))
    return out


def snapshot(x, depth=0):
    """Structural snapshot including ids are NOT included; only structure."""
    if isinstance(x, Tag):
        return ("Tag", type(x).__name__, x.name, x.add_ws, [(k, type(v).__name__, str(v)) for k, v in x.attrs.items()],
                snapshot(x.children), sorted(k for k in x.__dict__))
    if isinstance(x, TagList):
        return ("TagList", [snapshot(c) for c in x])
    if isinstance(x, HTMLDependency):
        return ("Dep", x.name, str(x.version), repr(x.source), repr(x.script), repr(x.stylesheet), repr(x.meta), x.all_files,
                snapshot(x.head) if x.head is not None else None)
    if isinstance(x, HTML):
        return ("HTML", x.as_string())
    if isinstance(x, str):
        return ("str", x)
    if isinstance(x, Meta):
        return ("Meta", repr(x.v))
    if isinstance(x, JSXTag):
        return ("JSX", x.name, repr(dict(x.attrs)), snapshot(x.children))
    if isinstance(x, HTMLDocument):
        return ("Doc", snapshot(x._content), repr(x._html_attr_args))
    return ("other", type(x).__name__)


def node_ids(x, acc):
    """ids of all container objects reachable (tags, child lists, attr dicts, metadata)."""
    if isinstance(x, Tag):
        acc.add(id(x)); acc.add(id(x.attrs)); acc.add(id(x.children)); acc.add(id(x.children.data))
        for c in x.children:
            node_ids(c, acc)
    elif isinstance(x, TagList):
        acc.add(id(x)); acc.add(id(x.data))
        for c in x:
            node_ids(c, acc)
    elif isinstance(x, MetadataNode):
        acc.add(id(x))
    return acc


def render_dict(r):
    return (r["html"], type(r["html"]).__name__, [(repr(d), snapshot(d)) for d in r["dependencies"]])


def common_main():
    for name, t in trees().items():
        Tagi.log.clear()
        before = snapshot(t)
        show(name + ".str", lambda: str(t))
        show(name + ".repr==str", lambda: repr(t) == str(t) == t._repr_html_())
        show(name + ".get_html_string", lambda: (t.get_html_string(), type(t.get_html_string()).__name__))
        show(name + ".get_html_string(2,'|')", lambda: t.get_html_string(2, "|"))
        show(name + ".render", lambda: render_dict(t.render()))
        show(name + ".deps", lambda: [repr(d) for d in t.get_dependencies()])
        show(name + ".deps_nodedup", lambda: [repr(d) for d in t.get_dependencies(dedup=False)])
        show(name + ".log", lambda: list(Tagi.log))
        Tagi.log.clear()

        def tg():
            cp = t.tagify()
            cp2 = cp.tagify()
            shared = node_ids(t, set()) & node_ids(cp, set())
            return (snapshot(cp), type(cp).__name__, cp == cp2, cp2 == cp, len(shared), list(Tagi.log))

        show(name + ".tagify", tg)
        show(name + ".copy", lambda: (snapshot(copy.copy(t)), copy.copy(t) == t, copy.copy(t) is t))

        def cpind():
            c = copy.copy(t)
            if isinstance(t, Tag):
                return (c.attrs is t.attrs, c.children is t.children, c.children.data is t.children.data, type(c).__name__)
            return (c.data is t.data, type(c).__name__)

        show(name + ".copy_indep", cpind)
        show(name + ".doc", lambda: render_dict(HTMLDocument(t, lang="xx").render()))
        show(name + ".doc_noprefix", lambda: render_dict(HTMLDocument(t).render(lib_prefix=None, include_version=False)))
        show(name + ".unchanged", lambda: snapshot(t) == before)
        show(name + ".eq_self_copy", lambda: (t == t, t == copy.copy(t), t == copy.deepcopy(t), t != copy.copy(t)))

    # json render mode
    old_mode = htmltools.html_dependency_render_mode
    htmltools.html_dependency_render_mode = "json"
    try:
        for name in ["deps", "dep_only", "tagi", "text", "empty_list", "headc"]:
            t = trees()[name]
            show(name + ".json_str", lambda: str(t))
            show(name + ".json_render", lambda: t.render()["html"])
    finally:
        htmltools.html_dependency_render_mode = old_mode

    # non-tagified errors
    show("nontagified_list", lambda: TagList(Tagi("q")).get_html_string())
    show("nontagified_tag", lambda: div(Tagi("q"), "x").get_html_string())
    show("nontagified_single", lambda: div(Tagi("q")).get_html_string())
    show("repr_bad", lambda: div(ReprBad(), "x").get_html_string())
    show("repr_bad_first", lambda: TagList(ReprBad()).get_html_string())
    show("bad_child", lambda: div(object()))
    show("bad_eol", lambda: div(span("a"), span("b")).get_html_string(0, 5))
    show("bad_indent", lambda: div("a", span("b")).get_html_string("x"))
    show("taglist_kw", lambda: TagList("a", div("b"), "c").get_html_string(1, "\n", add_ws=False))
    show("taglist_noescape", lambda: TagList("a<", HTML("b<"), "c<").get_html_string(_escape_strings=False))
    show("taglist_noescape2", lambda: type(TagList("a<", HTML("b<"), "c<").get_html_string(_escape_strings=False)).__name__)

    # equality
    d = deps_set()
    eq_cases = [
        (div("a"), div("a")), (div("a"), span("a")), (div("a"), div("b")), (div("a"), div(HTML("a"))),
        (div("a", _add_ws=False), div("a")), (div(id="x"), div(id="y")), (div(id="x"), div()),
        (div(id="x", k="1"), div(k="1", id="x")), (div("a"), TagList(div("a"))), (TagList("a"), TagList("a")),
        (TagList("a"), ["a"]), (TagList(), TagList()), (TagList("a"), "a"), (div(), None), (div(), 5),
        (MyTag("div"), div()), (div(), MyTag("div")), (d[0], deps_set()[0]), (d[0], d[1]), (d[0], "a"),
        (div(d[0]), div(deps_set()[0])), (div(d[0]), div(d[2])), (div(span("a", span("b"))), div(span("a", span("c")))),
        (div(Meta(1)), div(Meta(1))), (div(Meta(1)), div(Meta(2))), (dep("a", "1.0"), dep("a", "1.0.0")),
        (dep("a", "1.0", head="x"), dep("a", "1.0", head=HTML("x"))), (dep("a", "1.0", head="x"), dep("a", "1.0")),
        (HTMLDocument(div()), HTMLDocument(div())),
    ]
    for i, (a, b) in enumerate(eq_cases):
        show("eq%d" % i, lambda: (a == b, b == a, a != b, _equals_impl(a, b), _equals_impl(b, a)))

    class Half:
        pass

    h1 = Half(); h1.a = 1; h1.b = 2
    h2 = Half(); h2.a = 1
    h3 = Half(); h3.a = 1; h3.b = None
    show("eq_half", lambda: (_equals_impl(h1, h2), _equals_impl(h2, h1), _equals_impl(h2, h3), _equals_impl(h3, h2), _equals_impl(Half(), Half())))

    # dependency methods
    for i, x in enumerate(d):
        before = snapshot(x)
        show("dep%d.repr" % i, lambda: repr(x))
        show("dep%d.str" % i, lambda: str(x))
        show("dep%d.tags" % i, lambda: snapshot(x.as_html_tags()))
        show("dep%d.tags2" % i, lambda: str(x.as_html_tags(lib_prefix=None, include_version=False)))
        show("dep%d.tags3" % i, lambda: str(x.as_html_tags(lib_prefix="", include_version=True)))
        show("dep%d.dict" % i, lambda: x.as_dict())
        show("dep%d.dict2" % i, lambda: x.as_dict(lib_prefix="p/q", include_version=False))
        show("dep%d.spm" % i, lambda: {k: (v if k == "href" else os.path.basename(v)) for k, v in x.source_path_map().items()})
        show("dep%d.spm2" % i, lambda: x.source_path_map(lib_prefix=None, include_version=False)["href"])
        show("dep%d.json" % i, lambda: str(x.serialize_to_script_json()))
        show("dep%d.json2" % i, lambda: str(x.serialize_to_script_json(indent=2)))
        show("dep%d.copy" % i, lambda: (copy.copy(x) == x, copy.copy(x) is x, snapshot(copy.copy(x)) == before))
        show("dep%d.unchanged" % i, lambda: snapshot(x) == before)

    show("resolve", lambda: [repr(x) for x in _resolve_dependencies(d)])
    show("resolve_rev", lambda: [repr(x) for x in _resolve_dependencies(list(reversed(d)))])
    show("resolve_empty", lambda: _resolve_dependencies([]))
    show("resolve_same", lambda: [x is d[0] for x in _resolve_dependencies([d[0], deps_set()[0]])])
    show("resolve_bad", lambda: _resolve_dependencies([1]))

    # mutation independence after tagify
    def mut():
        t = div(span("a", id="i"), deps_set()[0], Meta([1]), "x", class_="c")
        cp = t.tagify()
        cp.children[0].append("NEW")
        cp.children[0].attrs["id"] = "changed"
        cp.add_class("more")
        cp.append("tail")
        cp.children[1].name = "renamed"
        t.children[0].add_class("orig")
        return (str(t), str(cp), repr(t.children[1]), repr(cp.children[1]), cp.children[2] is t.children[2])

    show("mutation_indep", mut)

    # HTMLDocument
    def doc():
        t = div("c", deps_set()[1], head_content(tags.title("T")))
        doc = HTMLDocument(t, tags.meta(name="m"), lang="en", class_="k")
        before = snapshot(doc)
        r1 = doc.render()
        r2 = doc.render()
        c = copy.copy(doc)
        c.append("extra")
        r3 = doc.render(lib_prefix="L", include_version=False)
        return (render_dict(r1) == render_dict(r2), render_dict(r1), r3["html"], snapshot(doc) == before,
                c._content is doc._content, c._html_attr_args is doc._html_attr_args, len(c._content), len(doc._content), type(c).__name__)

    show("doc", doc)

    def save():
        with tempfile.TemporaryDirectory() as tmp:
            t = div("c", dep("a", "1.0", source={"href": "https://x"}, script={"src": "a.js"}))
            f = os.path.join(tmp, "o.html")
            r = t.save_html(f)
            s1 = open(f).read()
            f2 = os.path.join(tmp, "o2.html")
            TagList(t, "z").save_html(f2, libdir=None, include_version=False)
            s2 = open(f2).read()
            f3 = os.path.join(tmp, "o3.html")
            HTMLDocument(t).save_html(f3)
            return (r == f, s1, s2, open(f3).read() == s1, sorted(os.listdir(tmp)))

    show("save", save)
    show("hoist_bad", lambda: HTMLDocument._hoist_head_content(div(), "lib", True))
    show("doc_html_two", lambda: HTMLDocument(tags.html("a"), tags.html("b")).render()["html"])
    show("doc_tagi_html", lambda: HTMLDocument(TagiList(tags.html(tags.body("q"))), lang="z").render()["html"])
    show("doc_tagi_body", lambda: HTMLDocument(TagiList(tags.body("q", id="b"))).render()["html"])
    show("doc_empty", lambda: HTMLDocument().render())
    show("doc_html_head_later", lambda: HTMLDocument(tags.html(deps_set()[0], "txt", tags.head(tags.title("t"), id="h"), tags.head("second"))).render()["html"])

    def doc_html_unchanged():
        h = tags.html(tags.head(tags.title("t")), tags.body("b", deps_set()[2]))
        before = snapshot(h)
        doc = HTMLDocument(h, lang="q")
        a = doc.render()["html"]
        b = doc.render()["html"]
        return (a == b, snapshot(h) == before, a)

    show("doc_html_unchanged", doc_html_unchanged)


def extras():
    import itertools

    class Both:
        def tagify(self):
            return "T"

        def _repr_html_(self):
            return "<both/>"

    class StrRepr(str):
        def _repr_html_(self):
            return "[strrepr:%s]" % str.__str__(self)

    class LogRepr:
        def __init__(self, n):
            self.n = n

        def _repr_html_(self):
            Tagi.log.append("repr%d" % self.n)
            return "<r%d/>" % self.n

    kinds = {
        "T": lambda: div("t<"),
        "I": lambda: span("i&", _add_ws=False),
        "E": lambda: div(),
        "s": lambda: "s<&>",
        "e": lambda: "",
        "H": lambda: HTML("<h&>"),
        "R": lambda: Repr("<r/>"),
        "D": lambda: dep("zz", "1.0"),
        "M": lambda: Meta(0),
        "B": lambda: Both(),
        "S": lambda: StrRepr("sr<"),
        "X": lambda: Tagi("x"),
        "J": lambda: jsx_tag_create("Jx")("c"),
        "O": lambda: ReprHTMLObj(),
        "N": lambda: ReprBad(),
    }

    def build(seq):
        tl = TagList()
        # bypass normalisation so that every kind ends up in the list as is
        tl.data = [kinds[k]() for k in seq]
        return tl

    seqs = [""] + list(kinds) + ["".join(p) for p in itertools.product("TIsHRDXB", repeat=2)]
    seqs += ["".join(p) for p in itertools.product("TIsHD", repeat=3)]
    seqs += ["sON", "OsT", "HsI", "NTs", "XsT", "sXT", "DDs", "MsM", "eTe", "SsS", "JTJ", "IOI", "sssIsT", "TDTDIDsDH"]
    for seq in seqs:
        tl = build(seq)
        for kw in (
            {},
            {"indent": 2, "eol": "|"},
            {"add_ws": False},
            {"indent": 1, "eol": "", "add_ws": False, "_escape_strings": False},
            {"_escape_strings": False},
            {"_escape_strings": 0, "add_ws": 1, "indent": 3},
        ):
            def run():
                r = tl.get_html_string(**kw)
                return (r, type(r).__name__)

            show("ghs[%s|%s]" % (seq, ",".join("%s=%r" % kv for kv in sorted(kw.items()))), run)
        # inside tags (normal / inline / script / style)
        for mk in (lambda c: Tag("div", c), lambda c: Tag("span", c, _add_ws=False), lambda c: Tag("script", c), lambda c: Tag("style", c, _add_ws=False)):
            def run2():
                t = mk(None)
                t.children.data = [kinds[k]() for k in seq]
                r = t.get_html_string(1, "\n")
                return (r, type(r).__name__)

            show("tag[%s]" % seq, run2)

    # order of _repr_html_ calls, and no call after an error
    Tagi.log.clear()
    show("repr_order", lambda: (build("s").__class__(LogRepr(1), "x", LogRepr(2), div(LogRepr(3)), LogRepr(4)).get_html_string(), list(Tagi.log)))
    Tagi.log.clear()
    show("repr_order_err", lambda: TagList(LogRepr(1), Tagi("q"), LogRepr(2)).get_html_string())
    show("repr_order_err_log", lambda: list(Tagi.log))
    Tagi.log.clear()
    show("repr_order_err2", lambda: TagList(LogRepr(1), div("a"), LogRepr(2)).get_html_string(indent=None))
    show("repr_order_err2_log", lambda: list(Tagi.log))
    show("untagified_bad_indent", lambda: TagList(div(), Tagi("q")).get_html_string(indent="x"))
    show("positional", lambda: TagList("a", div("b")).get_html_string(1, "\r\n"))
    show("too_many_positional", lambda: TagList("a").get_html_string(1, "\n", False))


if __name__ == "__main__":
    common_main()
    extras()
