# Probe for refactoring 5: flatten / _flatten_recurse (how nested children are spliced, None dropped)
import collections
import sys

from htmltools import HTML, HTMLDependency, Tag, TagList, div, span, tags
from htmltools import _util
from htmltools._util import flatten

LOG = []


def show(label, fn):
    LOG.clear()
    try:
        r = fn()
        print(label, "->", type(r).__name__, repr(r), "log=%r" % (LOG,) if LOG else "")
    except BaseException as e:  # noqa: BLE001
        print(label, "-> EXC", type(e).__name__, str(e)[:80], "log=%r" % (LOG,) if LOG else "")


class MyList(list):
    pass


class MyTuple(tuple):
    pass


Point = collections.namedtuple("Point", "x y")


class MyTagList(TagList):
    pass


class Falsy:
    def __bool__(self):
        LOG.append("bool")
        return False

    def __eq__(self, other):
        LOG.append("eq")
        return True

    def __hash__(self):
        return 1

    def __repr__(self):
        return "Falsy()"


def gen(*items):
    for it in items:
        LOG.append("yield %s" % (it if isinstance(it, (str, list, tuple)) or it is None else type(it).__name__,))
        yield it


def boom(*items):
    for it in items:
        yield it
    raise ValueError("boom")


dep = HTMLDependency("dep", "1.0")

cases = {
    "empty list": lambda: [],
    "empty tuple": lambda: (),
    "only none": lambda: [None, None],
    "nested none": lambda: [None, [None, (None, [None])], TagList(None)],
    "flat": lambda: ["<a>", "&", 1, 2.5, True],
    "nested": lambda: ["<a>", ["&", ("<b>", [1, [2.5, [None, "deep>"]]])], "end"],
    "tuple top": lambda: ("<a>", ["b"], ("c",)),
    "falsy kept": lambda: [0, 0.0, "", False, HTML(""), b"", Falsy()],
    "empty containers": lambda: [[], (), TagList(), [[]], ([],), "x"],
    "list subclass": lambda: [MyList(["<m>", None, MyList([1])]), "x"],
    "tuple subclass": lambda: [MyTuple(("<t>", None)), Point("<px>", [None, "py&"])],
    "taglist": lambda: [TagList("<tl>", 1, TagList("in&")), "x"],
    "taglist subclass": lambda: [MyTagList("<mtl>", 2), "x"],
    "taglist top": lambda: TagList("<a>", "b"),
    "str items not split": lambda: ["abc", ["de", ("f",)]],
    "str top": lambda: "a<c",
    "html item": lambda: [HTML("<i>"), [HTML("<j>")]],
    "html top": lambda: HTML("<i>"),
    "tag item": lambda: [div("<d>", span("s")), [span("&")]],
    "dict item": lambda: [{"a": 1}, [{"b": [1]}]],
    "dict top": lambda: {"k<": [1], "l": None},
    "set item": lambda: [frozenset(["s"])],
    "range item": lambda: [range(3)],
    "range top": lambda: range(3),
    "generator item": lambda: [gen("g", None)],
    "generator top": lambda: gen("a<", None, ["b", None, ("c",)], gen("inner"), "d"),
    "iter top": lambda: iter([None, ["x", None], "y"]),
    "map top": lambda: map(str.upper, ["a<", "b"]),
    "bytes top": lambda: b"ab",
    "bytearray item": lambda: [bytearray(b"ab")],
    "deque item": lambda: [collections.deque(["q"])],
    "userlist-like dep": lambda: [dep, [dep, None]],
    "objects": lambda: [object, len, 1j, Ellipsis, NotImplemented],
    "boom": lambda: boom("a", ["b"]),
    "boom nested": lambda: ["a", [boom("b")], boom("c")],
    "boom in list": lambda: ["a", list, [1, 2]],
}

for name, mk in cases.items():
    def run():
        x = mk()
        r = flatten(x)
        simple = (str, int, float, bytes, HTML, Tag, dict, frozenset, range, complex, Falsy)
        return [(type(i).__name__, i if isinstance(i, simple) else "-") for i in r]
    show("flatten " + name, run)

for bad in [None, 5, 2.5, True, object(), div("x")]:
    show("flatten(%s)" % type(bad).__name__, lambda: flatten(bad))

# input objects are not modified, result is a fresh list
src = ["a", [None, "b", ("c", None)], None]
out = flatten(src)
print(out, src, out is src, type(out).__name__)
inner = ["only"]
out = flatten([inner])
print(out, out is inner)
tl = TagList("x", "y")
out = flatten(tl)
print(out, out is tl.data)
out = flatten([tl])
print(out, out is tl.data)

# _flatten_recurse appends to the list it is given
acc = ["pre"]
print(_util._flatten_recurse(["a", None, ["b", (None, "c")]], acc), acc)
acc = []
try:
    _util._flatten_recurse(["a", ["b", boom("c")], "never"], acc)
except ValueError as e:
    print("EXC", e, acc)

# deep nesting and self reference
deep = "core<"
for _ in range(400):
    deep = [None, deep]
show("deep 400", lambda: flatten(deep))
show("deep 400 div", lambda: str(div(deep)))
deeper = "core"
for _ in range(sys.getrecursionlimit() + 50):
    deeper = (deeper,)
show("deeper than recursion limit", lambda: flatten(deeper))
loop = ["a"]
loop.append(loop)
show("self reference", lambda: flatten(loop))
show("self reference TagList", lambda: TagList(loop))

# wide input
wide = [[str(i), None, (i, [float(i)])] for i in range(2000)]
r = flatten(wide)
print(len(r), r[:6], r[-3:])

# through the public API
show("div nested", lambda: str(div("<a>", [None, ["&", ("<b>", [1, [2.5, [None, "deep>"]]])]], None, (), [])))
show("TagList nested", lambda: list(TagList(None, ["x<", (None, TagList("y>", [3]))], MyList([4.5]))))
show("append nested", lambda: (lambda t: (t.append(None, ["<p>", (None, 1)], None), list(t))[1])(TagList("s")))
show("extend nested", lambda: (lambda t: (t.extend(gen(None, ["<e>", (2,)])), list(t))[1])(TagList("s")))
show("insert nested", lambda: (lambda t: (t.insert(0, [None, ("<i>", [3.5])]), list(t))[1])(TagList("s")))
show("insert none", lambda: (lambda t: (t.insert(0, None), list(t))[1])(TagList("s")))
show("only none", lambda: (list(TagList(None, [None], (None,))), str(div(None, [None]))))
show("tag.extend", lambda: str(div("a").extend([None, ["<x>", None], ("&",)])))
show("tag.insert", lambda: str(div("a").insert(0, [None, "<y>"])))
show("script nested", lambda: str(tags.script(["a<b", [None, ("c&d",)]])))
show("falsy children", lambda: str(div(0, 0.0, "", False, HTML(""))))
show("bad nested", lambda: div("ok", [None, [b"bytes"]]))
show("dict nested", lambda: div("ok", [None, [{"class": "c"}]]))
show("dict attrs", lambda: str(div({"class": "c<"}, "ok", None, {"id": "i&"})))
