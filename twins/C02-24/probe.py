# Probe for refactoring 4: TagList.get_html_string (leaf handling: ReprHtml objects and strings)
import itertools

from htmltools import HTML, HTMLDependency, Tag, TagList, div, span, tags

LOG = []


def show(label, fn):
    LOG.clear()
    try:
        r = fn()
        print(label, "->", type(r).__name__, repr(r), "log=%r" % (LOG,))
    except BaseException as e:  # noqa: BLE001
        print(label, "-> EXC", type(e).__name__, str(e), "log=%r" % (LOG,))


class Reprish:
    def __init__(self, name="r", ret="<i>r&</i>"):
        self.name = name
        self.ret = ret

    def _repr_html_(self):
        LOG.append("repr:" + self.name)
        return self.ret

    def __repr__(self):
        return "Reprish(%s)" % self.name


class Tagi:
    def __init__(self, name="t"):
        self.name = name

    def tagify(self):
        LOG.append("tagify:" + self.name)
        return "<tagified %s &>" % self.name

    def __repr__(self):
        return "Tagi(%s)" % self.name


class Both(Reprish):
    def tagify(self):
        LOG.append("tagify:" + self.name)
        return span("both<")


class Spy:
    """Records which attributes the protocol checks look up."""

    def __init__(self, has):
        self.__dict__["has"] = has

    def __getattr__(self, name):
        LOG.append("getattr:" + name)
        if name in self.has:
            if name == "_repr_html_":
                return lambda: "<spy-repr &>"
            return lambda: "<spy-tagified>"
        raise AttributeError(name)

    def __repr__(self):
        return "Spy(%s)" % ",".join(self.has)


class MyStr(str):
    def __str__(self):
        return "NEVER"


dep = HTMLDependency("dep", "1.0")


def pieces():
    return {
        "text": "a<b&c>",
        "empty": "",
        "amp": "&amp;",
        "nl": "x\ny",
        "mystr": MyStr("<my>"),
        "html": HTML("<b>raw&</b>"),
        "repr": Reprish("R"),
        "reprHTML": Reprish("RH", HTML("<u>")),
        "reprint": Reprish("RI", 5),
        "div": div("in<div"),
        "span": span("in<span", _add_ws=False),
        "empty_div": div(),
        "script": tags.script("s<", "t>"),
        "dep": dep,
        "both": Both("B"),
    }


def make(keys):
    p = pieces()
    tl = TagList()
    # bypass nothing: all of these are valid TagNodes
    tl.extend([p[k] for k in keys])
    return tl


keys = list(pieces().keys())

# every single piece, every ordered pair, with a few argument combinations
combos = [(k,) for k in keys] + list(itertools.product(keys, repeat=2))
for combo in combos:
    lab = "+".join(combo)
    show(lab, lambda: make(combo).get_html_string())
    show(lab + " [2,|,noaddws]", lambda: make(combo).get_html_string(2, "|", add_ws=False))
    show(lab + " [1,rn,noesc]", lambda: make(combo).get_html_string(1, "\r\n", _escape_strings=False))

# some triples around the interesting transitions
triples = [
    ("text", "div", "text"),
    ("div", "text", "div"),
    ("span", "text", "span"),
    ("text", "repr", "text"),
    ("repr", "text", "repr"),
    ("dep", "text", "dep"),
    ("div", "repr", "html"),
    ("span", "html", "div"),
    ("text", "text", "text"),
    ("div", "dep", "text"),
    ("dep", "dep", "dep"),
    ("empty", "empty", "div"),
]
for combo in triples:
    lab = "+".join(combo)
    for indent in (0, 3):
        for eol in ("\n", ""):
            for add_ws in (True, False):
                for esc in (True, False):
                    show(
                        "%s i=%d eol=%r ws=%r esc=%r" % (lab, indent, eol, add_ws, esc),
                        lambda: make(combo).get_html_string(indent, eol, add_ws=add_ws, _escape_strings=esc),
                    )

# non-tagified objects are rejected (and where), unless they also render themselves
show("tagi", lambda: TagList(Tagi("a")).get_html_string())
show("text+tagi", lambda: TagList("x<", Tagi("a")).get_html_string())
show("repr+tagi+repr", lambda: TagList(Reprish("1"), Tagi("a"), Reprish("2")).get_html_string())
show("tagi noesc", lambda: TagList(Tagi("a")).get_html_string(_escape_strings=False))
show("tagi bad indent", lambda: TagList(Tagi("a")).get_html_string("x"))
def with_spy(has, *before):
    t = TagList(*before)
    t.data.append(Spy(has))
    t.data.append("after<")
    return t


for has in ([], ["tagify"], ["_repr_html_"], ["_repr_html_", "tagify"]):
    show("spy %r" % (has,), lambda: with_spy(has).get_html_string())
    show("spy %r noesc" % (has,), lambda: with_spy(has).get_html_string(_escape_strings=False))
    show("spy %r after div, bad indent" % (has,), lambda: with_spy(has, div()).get_html_string("x"))
show("taglist child", lambda: (lambda t: (t.data.append(TagList("nested<")), t.get_html_string())[1])(TagList("a"))) 
show("render tagi", lambda: TagList("x<", Tagi("a"), Both("b")).render()["html"])
show("str tagi", lambda: str(TagList("x<", Tagi("a"), Both("b"))))
show("div str tagi", lambda: str(div("x<", Tagi("a"), Reprish("r"))))

# odd arguments: order of failure vs. side effects
for indent in [None, "x", 1.5, True, -2]:
    show("repr indent=%r" % (indent,), lambda: TagList(Reprish("a"), Reprish("b")).get_html_string(indent))
    show("div+repr indent=%r" % (indent,), lambda: TagList(div(), Reprish("a")).get_html_string(indent))
    show("text indent=%r" % (indent,), lambda: TagList("t<").get_html_string(indent))
    show("text indent=%r noaddws" % (indent,), lambda: TagList("t<", Reprish("a")).get_html_string(indent, add_ws=False))
    show("empty indent=%r" % (indent,), lambda: TagList().get_html_string(indent))
    show("dep indent=%r" % (indent,), lambda: TagList(dep).get_html_string(indent))
for eol in [None, 5, HTML("<br>"), "EOL"]:
    show("eol=%r" % (eol,), lambda: TagList("a<", div("b"), "c>", Reprish("r"), div()).get_html_string(1, eol))
for esc in [None, 0, "", "yes", [], [0]]:
    show("esc=%r" % (esc,), lambda: TagList("a<", HTML("<h>"), Reprish("r"), "c>").get_html_string(_escape_strings=esc))
for add_ws in [None, 0, "", "yes"]:
    show("add_ws=%r" % (add_ws,), lambda: TagList("a<", div("d"), "c>").get_html_string(1, add_ws=add_ws))

# junk placed directly in .data
for junk in [5, None, 2.5, b"<b>", ["<l>"], object]:
    for esc in (True, False):
        def run():
            t = TagList("ok<", Reprish("r"))
            t.data.append(junk)
            t.data.append(Reprish("after"))
            return t.get_html_string(_escape_strings=esc)
        show("junk %r esc=%r" % (junk, esc), run)

# _repr_html_ of the list itself and nested rendering
tl = TagList("top<", div("mid&", span("deep>", Reprish("x")), "tail<"), HTML("<hr>"), "end>")
show("str", lambda: str(tl))
show("repr", lambda: repr(tl))
show("_repr_html_", lambda: tl._repr_html_())
show("render", lambda: tl.render()["html"])
show("in div", lambda: div(tl, tl).get_html_string(1, "\r\n"))
show("in script", lambda: tags.script(tl).get_html_string())
show("in style", lambda: tags.style("a>b{}", HTML("c>d{}"), Reprish("r")).get_html_string())
