# Probe for HTMLTextDocument.__init__ / _extract_serialized_html_deps / render.
import htmltools as ht
from htmltools import HTMLDependency, HTMLDocument, HTMLTextDocument, TagList, div, tags, HTML


def run(label, f):
    try:
        print(label, "->", f())
    except BaseException as e:  # noqa
        print(label, "!!", type(e).__name__, str(e)[:140])


def mk():
    return [
        HTMLDependency("a", "1.0", source={"subdir": "x"}, script={"src": "a.js"}),
        HTMLDependency("b", "2.1.3", source={"href": "https://x/y"}, stylesheet=[{"href": "b.css"}, {"href": "c d.css", "media": "print"}]),
        HTMLDependency("c", "0.1", head="<script>alert('</script>')</SCRIPT>"),
        HTMLDependency("d<&\"", "3", meta={"name": "</script>", "content": "m"}, all_files=True, head=TagList(tags.title("T"), HTML("<!-- </sCrIpT -->"))),
        HTMLDependency("a", "2.0", source={"subdir": "x"}, script={"src": "a2.js"}),
        HTMLDependency("e", "1", source={"package": "htmltools", "subdir": "lib"}, script=[{"src": "e.js", "defer": ""}]),
    ]


def state(doc):
    return (repr(doc._html), doc._deps, repr(doc._deps_replace_pattern), sorted(doc.__dict__))


def ser(d, indent=None):
    return d.serialize_to_script_json(indent).get_html_string()


D = mk()
body = "<p>x</p>" + ser(D[0]) + "mid" + ser(D[3], 2) + ser(D[0]) + "@@ and @@ again" + ser(D[2])

# Constructor argument combinations.
run("html only", lambda: state(HTMLTextDocument("plain @@")))
run("html only + embedded", lambda: state(HTMLTextDocument(body)))
run("pattern only", lambda: state(HTMLTextDocument(body, deps_replace_pattern="@@")))
run("pattern only kw None deps", lambda: state(HTMLTextDocument(body, deps=None, deps_replace_pattern="@@")))
run("deps without pattern", lambda: state(HTMLTextDocument(body, deps=[D[1]])))
run("empty deps without pattern", lambda: state(HTMLTextDocument(body, deps=[])))
run("deps + None pattern", lambda: state(HTMLTextDocument(body, [D[1]], None)))
run("deps + pattern", lambda: state(HTMLTextDocument(body, [D[1]], "@@")))
run("deps + empty pattern", lambda: state(HTMLTextDocument(body, [D[1]], "")))
run("tuple deps", lambda: state(HTMLTextDocument(body, (D[1],), "@@")))  # type: ignore
run("tuple deps no embedded", lambda: state(HTMLTextDocument("x", (D[1],), "@@")))  # type: ignore
run("deps=0 no pattern", lambda: state(HTMLTextDocument("x", 0)))  # type: ignore
run("deps=0 pattern", lambda: state(HTMLTextDocument("x", 0, "@@")))  # type: ignore
run("html None", lambda: state(HTMLTextDocument(None, [], "@@")))  # type: ignore
run("html None, bad deps", lambda: state(HTMLTextDocument(None, [D[0]])))  # type: ignore
run("html bytes", lambda: state(HTMLTextDocument(b"x")))  # type: ignore
run("no args", lambda: HTMLTextDocument())  # type: ignore
run("bad json", lambda: state(HTMLTextDocument('<script type="application/json" data-html-dependency="">nope</script>', [D[0]], "@@")))

# Caller's list is aliased and extended in place; default lists are independent.
given = [D[1]]
doc = HTMLTextDocument(body, given, "@@")
print("alias", given is doc._deps, given)
d1, d2 = HTMLTextDocument(body), HTMLTextDocument("nothing")
print("fresh", d1._deps is d2._deps, d1._deps, d2._deps)

# A failing extraction leaves the partially initialised object as before.
obj = HTMLTextDocument.__new__(HTMLTextDocument)
g2 = [D[1]]
run("partial init", lambda: obj.__init__(ser(D[0]) + '<script type="application/json" data-html-dependency="">{"name": 1}</script>', g2, "@@"))
print("partial state", repr(obj._html)[:80], obj._deps, g2, obj._deps_replace_pattern)
obj2 = HTMLTextDocument.__new__(HTMLTextDocument)
run("partial init raise", lambda: obj2.__init__("x", g2, None))
print("partial state 2", sorted(obj2.__dict__))

# _extract_serialized_html_deps called again is idempotent on the stripped text.
doc = HTMLTextDocument(body, deps_replace_pattern="@@")
before = state(doc)
doc._extract_serialized_html_deps()
print("idempotent", before == state(doc))
doc._html += ser(D[5])
doc._extract_serialized_html_deps()
print("again", state(doc))

# render(): every parameter combination, repeated calls, result independence.
for pat in ("@@", "", "<p>", "missing", "\n", None, 5):
    for deps in (None, [], [D[1]], [D[4], D[1], D[4]]):
        for kw in ({}, {"lib_prefix": None}, {"lib_prefix": "L/x", "include_version": False}, {"include_version": False}):
            def go():
                if deps is None:
                    doc = HTMLTextDocument(body, deps_replace_pattern=pat)
                else:
                    doc = HTMLTextDocument(body, list(deps), pat)
                r1 = doc.render(**kw)
                r2 = doc.render(**kw)
                same = r1 == r2 and r1["dependencies"] is not r2["dependencies"] and all(
                    x is not y for x, y in zip(r1["dependencies"], doc._deps)
                )
                r1["dependencies"].clear()
                return repr(r1["html"]), r2["dependencies"], same, doc._deps == r2["dependencies"], list(r1)
            run(f"render pat={pat!r} deps={deps!r} kw={kw!r}", go)

run("render positional", lambda: HTMLTextDocument("@@", deps_replace_pattern="@@").render("lib"))  # type: ignore

# Non-str dependency name reaches the listing concatenation.
weird = HTMLDependency(7, "1")  # type: ignore
run("int name", lambda: HTMLTextDocument("@@", [weird], "@@").render())
weird2 = HTMLDependency("w", "1")
weird2.version = None  # type: ignore
run("None version", lambda: HTMLTextDocument("@@", [weird2], "@@").render()["html"])
run("non-dep in deps", lambda: HTMLTextDocument("@@", ["str"], "@@").render())  # type: ignore

# Same head markup as HTMLDocument; JSON mode + post-processing == direct rendering.
old = ht.html_dependency_render_mode
try:
    for ui in (div("hi", D[0], tags.span(D[3], D[2]), D[4], D[1]), TagList(D[5], "t"), div("none")):
        direct = HTMLDocument(tags.html(tags.head(), tags.body(ui))).render()
        ht.html_dependency_render_mode = "json"
        txt = str(ui)
        ht.html_dependency_render_mode = old
        doc = HTMLTextDocument("<!DOCTYPE html>\n<html>\n  <head>@@</head>\n  <body>" + txt + "</body>\n</html>", deps_replace_pattern="@@")
        r = doc.render()
        print(repr(direct["html"]))
        print(repr(r["html"]))
        print(r["dependencies"], direct["dependencies"], r["dependencies"] == direct["dependencies"])
finally:
    ht.html_dependency_render_mode = old
