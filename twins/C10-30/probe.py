# Probe for HTMLDocument.render (doctype + rendered tree + resolved dependencies)
import os, tempfile
from htmltools import HTMLDependency, HTMLDocument, TagList, Tag, div, span, tags, HTML, head_content


def show(label, f):
    try:
        r = f()
        print("==", label)
        print(repr(r))
    except BaseException as e:  # noqa
        print("==", label, "!!", type(e).__name__, str(e)[:200])


def rr(r):
    assert type(r) is dict, type(r)
    return (list(r.keys()), type(r["html"]).__name__, r["html"],
            [(type(d).__name__, d.name, str(d.version)) for d in r["dependencies"]],
            type(r["dependencies"]).__name__)


src = {"href": "https://x.org/l"}
a1 = HTMLDependency("a", "1.0", source=src, script={"src": "a1.js"})
a2 = HTMLDependency("a", "1.10", source=src, script=[{"src": "a2.js"}], stylesheet={"href": "a2.css"})
a3 = HTMLDependency("a", "1.9", source=src, script={"src": "a3.js"})
a4 = HTMLDependency("a", "1.10.0", source=src, script={"src": "a4.js"})
b1 = HTMLDependency("b", "2", source={"subdir": "sub"}, script={"src": "b.js"}, meta={"name": "m", "content": "c"})
b2 = HTMLDependency("b", "2.0", head="<!-- b2 -->")
c1 = HTMLDependency("c", "0.1", source={"package": "htmltools", "subdir": "lib"}, stylesheet=[{"href": "c.css"}])


class Lazy:
    def __init__(self, x): self.x = x
    def tagify(self): return self.x


docs = {
    "empty": lambda: HTMLDocument(),
    "text": lambda: HTMLDocument("a < b"),
    "frag": lambda: HTMLDocument(div(a1, span(a2)), a3, div(div(a4)), b1, div(b2), c1),
    "frag-rev": lambda: HTMLDocument(c1, div(b2), b1, div(div(a4)), a3, div(a1, span(a2))),
    "body": lambda: HTMLDocument(tags.body(a3, div(a2)), lang="en"),
    "html": lambda: HTMLDocument(tags.html(tags.head(tags.title("t")), tags.body(a1), a4), lang="en"),
    "html-nohead": lambda: HTMLDocument(tags.html(tags.body(b1, b2))),
    "lazy": lambda: HTMLDocument(Lazy(tags.html(tags.body(Lazy(div(a2, a1)))))),
    "head_content": lambda: HTMLDocument(div(head_content(tags.title("T"))), head_content(tags.title("T"))),
    "dep-only": lambda: HTMLDocument(a1),
    "ws-inline": lambda: HTMLDocument(span("a", span("b")), "c"),
}
variants = {
    "default": dict(),
    "prefix-None": dict(lib_prefix=None),
    "prefix-empty": dict(lib_prefix=""),
    "prefix-x/y": dict(lib_prefix="x/y"),
    "nover": dict(include_version=False),
    "both": dict(lib_prefix="p", include_version=False),
    "include_version-0": dict(include_version=0),
}
for dn, mk in docs.items():
    for vn, kw in variants.items():
        show(dn + " / " + vn, lambda: rr(mk().render(**kw)))

# positional args are not accepted
show("positional", lambda: HTMLDocument("x").render("lib"))
show("bad-kw", lambda: HTMLDocument("x").render(libdir="lib"))

# rendering twice gives equal, independent results and does not touch the document
doc = docs["frag"]()
before = str(doc._content)
r1 = doc.render(); r2 = doc.render()
print("twice", r1 is r2, r1["html"] == r2["html"], r1["dependencies"] is r2["dependencies"],
      [x.name + str(x.version) for x in r1["dependencies"]] == [x.name + str(x.version) for x in r2["dependencies"]],
      before == str(doc._content))
r1["html"] = "clobbered"; r1["dependencies"].clear()
print("independent", rr(doc.render()) == rr(r2))
print("starts", r2["html"].startswith("<!DOCTYPE html>\n<html>"), r2["html"].count("<!DOCTYPE html>"))

# a user <html> tag of a Tag subclass whose render() adds keys / is consulted
class MyHtml(Tag):
    def render(self):
        r = super().render()
        r["extra"] = 1
        return r
show("subclass-render", lambda: (lambda r: (list(r.items())[2:], rr(r)))(HTMLDocument(MyHtml("html", Tag("body", a1, a2))).render()))

# subclass of HTMLDocument overriding the tree generation is honoured
class MyDoc(HTMLDocument):
    seen = []
    def _gen_html_tag_tree(self, lib_prefix, include_version):
        MyDoc.seen.append((lib_prefix, include_version))
        return Tag("html", Tag("body", "custom", a3))
show("doc-subclass", lambda: rr(MyDoc("ignored").render(lib_prefix="q", include_version=False)))
print("seen", MyDoc.seen)

# errors propagate unchanged
show("bad-child", lambda: HTMLDocument(object()).render())
class Boom:
    def tagify(self): raise KeyError("boom")
show("tagify-raises", lambda: HTMLDocument(div(Boom())).render())

# save_html goes through render
with tempfile.TemporaryDirectory() as td:
    f = os.path.join(td, "o.html")
    out = HTMLDocument(div(a2, b2), lang="en").save_html(f, libdir=None)
    print("save", os.path.basename(out), repr(open(f).read()), sorted(os.listdir(td)))
    out = TagList(div(a1), a2).save_html(os.path.join(td, "p.html"))
    print("save-taglist", repr(open(out).read()))
