"""Probe for refactoring 3: _tagchilds_to_tagnodes (child normalisation used by every constructor path)."""
from htmltools import HTML, HTMLDependency, Tag, TagList, div, span, tags
from htmltools._core import MetadataNode, _tagchilds_to_tagnodes

LOG = []


def show(label, fn):
    try:
        out = fn()
        print(label, "->", type(out).__name__, repr(out))
    except BaseException as e:  # noqa: BLE001
        print(label, "-> EXC", type(e).__name__, str(e))


def kinds(lst):
    return [(type(v).__name__, str(v)) for v in lst]


class LoudInt(int):
    def __str__(self):
        LOG.append(f"str({int(self)})")
        return f"<{int(self)}>"

    __repr__ = __str__


class LoudFloat(float):
    def __str__(self):
        LOG.append(f"str({float(self)})")
        return f"~{float(self)}"


class Tagifies:
    def __str__(self):
        return "Tagifies()"

    def tagify(self):
        return span("tagified")


class ReprOnly:
    def __str__(self):
        return "ReprOnly()"

    def _repr_html_(self):
        return "<u>repr</u>"


class Meta(MetadataNode):
    def __str__(self):
        return "Meta()"


class S(str):
    pass


dep = HTMLDependency("d", "1.0")
inputs = {
    "empty tuple": (),
    "empty list": [],
    "str": "abc",
    "empty str": "",
    "str subclass": S("sub"),
    "HTML": HTML("<b>"),
    "list of str": ["a", "b"],
    "numbers": [1, 2.5, -0.0, True, False, 10**30, float("nan")],
    "nested": ["a", ["b", ("c", [None, "d", [[]]])], None, TagList("e", ["f"])],
    "tags": [div("x"), span(), TagList(div(), "t")],
    "mixed nodes": [Tagifies(), ReprOnly(), Meta(), dep, HTML("<i>"), S("s")],
    "loud": [LoudInt(1), "x", LoudFloat(2.5), LoudInt(3)],
    "generator": (c for c in ["g1", 2, None, ["g3"]]),
    "range": range(3),
    "dict item": ["ok", {"a": 1}],
    "bytes item": ["ok", b"bytes"],
    "object item": [object],
    "set item": [{"a"}],
    "complex item": [1j],
    "loud then bad": [LoudInt(7), LoudInt(8), b"bad", LoudInt(9)],
    "bad then loud": [b"bad", LoudInt(10)],
    "nested bad": ["a", ["b", (LoudInt(11), [3 + 0j])]],
    "dict as iterable": {"k1": 1, "k2": 2},
    "bytes as iterable": b"ab",
    "None": None,
    "int": 5,
    "taglist": TagList("a", 1, div()),
    "tag (iterable?)": div("a"),
}
for label, value in inputs.items():
    LOG.clear()
    show(f"convert[{label}]", lambda: kinds(_tagchilds_to_tagnodes(value)))
    print("   log:", LOG)

# The input object is not altered and the result is a fresh plain list
src = [1, [2, None], "3"]
out = _tagchilds_to_tagnodes(src)
print(src, out, type(out).__name__, out is src)
one = "abc"
out = _tagchilds_to_tagnodes(one)
print(out, type(out).__name__, out[0] is one)
t = div()
out = _tagchilds_to_tagnodes([t, [t]])
print(out[0] is t, out[1] is t)

# Through the public entry points
show("TagList()", lambda: kinds(TagList()))
show("TagList(mixed)", lambda: kinds(TagList("a", 1, None, [2.5, ("b",)], TagList("c"), True)))
show("TagList(bad)", lambda: TagList("a", b"x"))
show("TagList(dict)", lambda: TagList({"a": "b"}))
show("Tag(bad)", lambda: div("a", object()))
show("Tag(dict is attrs)", lambda: str(div("a", {"id": "i"}, 5)))

tl = TagList("a")
show("extend", lambda: tl.extend([1, [None, 2.0], span("s")]))
print(kinds(tl))
show("extend bad", lambda: tl.extend(["ok", 1j]))
print(kinds(tl))
show("extend str", lambda: tl.extend("xyz"))
print(kinds(tl))
show("append", lambda: tl.append(3, None, [4, [5]]))
print(kinds(tl))
show("append bad", lambda: tl.append("fine", set()))
print(kinds(tl))
show("insert", lambda: tl.insert(1, [LoudInt(6), None, "i"]))
print(kinds(tl))
show("insert bad", lambda: tl.insert(0, b"b"))
print(kinds(tl))
show("iadd", lambda: kinds(tl.__iadd__((7, "k"))))
show("add", lambda: kinds(tl + [8, None]))
show("add str", lambda: kinds(tl + "str"))
show("radd", lambda: kinds([9.5] + tl))
show("radd str", lambda: kinds("str" + tl))
show("add bad", lambda: tl + [b""])

d = div("a", 1, [2.5, None, (span("s"), "b")], TagList("c", 3), True, id="x")
print(kinds(d.children))
print(repr(str(d)))
d.append(4, [5])
d.insert(0, 0)
d.extend([HTML("<hr/>"), 6.0])
print(repr(str(d)))
show("tag append bad", lambda: d.append({1, 2}))
print(repr(str(d)))


class ListTagifier:
    def tagify(self):
        return TagList("x", 1, span("z"), None, "y")


class NestedTagifier:
    def tagify(self):
        return TagList("n", Tagifies())


show("tagify list", lambda: str(TagList("pre", ListTagifier(), "post")))
show("tagify in tag", lambda: str(div(ListTagifier(), Tagifies(), ReprOnly(), dep, Meta())))
show("tagify nested (not re-tagified)", lambda: str(TagList(NestedTagifier())))
show("ul", lambda: str(tags.ul([tags.li(i) for i in range(3)])))
