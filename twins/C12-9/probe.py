"""Probe for save_html() on documents, tags and tag lists."""
import hashlib
import os
import re
import shutil
import tempfile
import urllib.parse
from pathlib import Path

import htmltools
from htmltools import HTML, HTMLDependency, HTMLDocument, Tag, TagList, div, tags

PKG_DIR = os.path.dirname(htmltools.__file__)
TMP = os.path.realpath(tempfile.mkdtemp())


def norm(s):
    s = str(s).replace(PKG_DIR, "<PKG>").replace(TMP, "<TMP>")
    return re.sub(r" at 0x[0-9a-fA-F]+", " at 0xADDR", s)


def show(label, fn):
    try:
        out = fn()
        print(label, "->", type(out).__name__, norm(repr(out)))
    except BaseException as e:  # noqa: BLE001
        print(label, "-> EXC", type(e).__name__, norm(e))


def sha(p):
    data = open(p, "rb").read()
    if str(p).endswith(".html"):
        # written pages may mention the (random) temporary directory
        data = data.replace(TMP.encode(), b"<TMP>")
    return hashlib.sha1(data).hexdigest()[:10]


def tree(root):
    out = []
    for dirpath, dirnames, filenames in os.walk(root):
        dirnames.sort()
        rel = os.path.relpath(dirpath, root)
        out.append(("D", rel))
        for fn in sorted(filenames):
            out.append(("F", os.path.join(rel, fn), sha(os.path.join(dirpath, fn))))
    return out


def write(path, data):
    os.makedirs(os.path.dirname(path), exist_ok=True)
    with open(path, "wb") as f:
        f.write(data)


SRC = os.path.join(TMP, "src")
write(os.path.join(SRC, "a.js"), b"alert('a')\n")
write(os.path.join(SRC, "a b.js"), b"space\x00\xff")
write(os.path.join(SRC, "s.css"), b"body{}")
write(os.path.join(SRC, "sub", "x.js"), b"deep")
write(os.path.join(SRC, "extra.bin"), b"\x00\x01")
SRC_SHA = {sha(os.path.join(dp, f)): os.path.relpath(os.path.join(dp, f), SRC) for dp, _, fs in os.walk(SRC) for f in fs}

local = {"subdir": SRC}
d_listed = HTMLDependency("d", "1.0", source=local, script=[{"src": "a.js"}, {"src": "a b.js"}, {"src": "sub/x.js"}], stylesheet={"href": "s.css"})
d_all = HTMLDependency("all", "2.0", source=local, all_files=True, script={"src": "a b.js"})
d_pkg = HTMLDependency("td", "0.1", source={"package": "htmltools", "subdir": "libtest/testdep"}, script={"src": "testdep.js"}, stylesheet={"href": "testdep.css"})
d_url = HTMLDependency("remote", "3", source={"href": "https://cdn/x"}, script={"src": "r.js"})
d_none = HTMLDependency("nosrc", "3", head="<meta name='n'>")
d_old = HTMLDependency("d", "0.9", source=local, script={"src": "extra.bin"})
d_broken = HTMLDependency("zz", "1", source=local, script={"src": "nope.js"})
DEPS = [d_listed, d_all, d_pkg, d_url, d_none, d_old]


def check_saved(file):
    html = open(file).read()
    res = [("doctype", html.startswith("<!DOCTYPE html>\n")), ("sha", hashlib.sha1(norm(html).encode()).hexdigest()[:10])]
    for url in re.findall(r'(?:src|href)="([^"]*)"', html):
        if re.match(r"^[a-z]+://|^//", url):
            res.append((url, "remote"))
            continue
        p = os.path.join(os.path.dirname(os.path.abspath(file)), urllib.parse.unquote(url))
        res.append((norm(url), SRC_SHA.get(sha(p), "other:" + sha(p)) if os.path.isfile(p) else "MISSING"))
    return res


class MyTag(Tag):
    pass


class MyList(TagList):
    pass


class MyDoc(HTMLDocument):
    def render(self, *, lib_prefix="lib", include_version=True):
        print("   MyDoc.render", repr(lib_prefix), include_version)
        return super().render(lib_prefix=lib_prefix, include_version=include_version)


makers = {
    "doc": lambda: HTMLDocument(div("x", *DEPS), lang="en"),
    "mydoc": lambda: MyDoc(div("x", d_listed)),
    "tag": lambda: div("x", *DEPS),
    "mytag": lambda: MyTag("section", d_listed, "y"),
    "html tag": lambda: tags.html(tags.head(tags.title("t")), tags.body(d_listed, "b")),
    "body tag": lambda: tags.body(d_all, "b"),
    "list": lambda: TagList("x", *DEPS, div(d_listed)),
    "mylist": lambda: MyList(d_pkg, "z"),
    "empty list": lambda: TagList(),
    "no deps": lambda: div("plain"),
}
counter = [0]


def fresh():
    counter[0] += 1
    d = os.path.join(TMP, f"out{counter[0]}")
    os.makedirs(d)
    return d


LIBDIRS = ["lib", None, "", "a/b c", "../up", "lib/"]
for mname, maker in makers.items():
    for libdir in LIBDIRS:
        for iv in (True, False):
            root = fresh()
            out = os.path.join(root, "site")
            os.makedirs(out)
            base = os.path.join(out, libdir) if libdir else out
            write(os.path.join(base, "d-1.0" if iv else "d", "stale.txt"), b"stale")
            write(os.path.join(base, "unrelated", "keep.txt"), b"keep")
            file = os.path.join(out, "page.html")
            obj = maker()
            print("== save_html", mname, repr(libdir), iv)
            show("  ret", lambda: obj.save_html(file, libdir=libdir, include_version=iv))
            show("  urls", lambda: check_saved(file))
            print("  tree:", norm(repr(tree(root))))

# defaults, positional forms, argument errors
for mname in ("doc", "tag", "list"):
    out = fresh()
    f = os.path.join(out, "p.html")
    print("== args", mname)
    show("  default", lambda: makers[mname]().save_html(f))
    print("  tree:", norm(repr(tree(out))))
    show("  positional libdir", lambda: makers[mname]().save_html(f, "L2"))
    show("  positional both", lambda: makers[mname]().save_html(f, "L3", False))
    show("  kw file", lambda: makers[mname]().save_html(file=f, libdir="L4"))
    show("  only libdir kw", lambda: makers[mname]().save_html(f, libdir="L5"))
    show("  only iv kw", lambda: makers[mname]().save_html(f, include_version=False))
    show("  no file", lambda: makers[mname]().save_html())
    show("  bad kw", lambda: makers[mname]().save_html(f, lib_dir="x"))
    print("  tree:", norm(repr(tree(out))))

# file argument variants: the given value is returned unchanged
cwd = os.getcwd()
out = fresh()
os.chdir(out)
try:
    for mname in ("doc", "tag", "list"):
        print("== file variants", mname)
        show("  relative", lambda: makers[mname]().save_html("rel.html"))
        show("  dot relative", lambda: makers[mname]().save_html("./sub/../rel2.html"))
        show("  Path", lambda: makers[mname]().save_html(Path(out) / "pathobj.html"))
        show("  in missing dir (deps create it)", lambda: makers[mname]().save_html("newdir/p.html"))
        show("  in missing dir, no deps", lambda: makers["no deps"]().save_html("nodir/p.html"))
        show("  in missing dir, libdir None", lambda: TagList(d_url).save_html("nodir2/p.html", libdir=None))
        show("  file is dir", lambda: makers[mname]().save_html(out))
        show("  int file", lambda: makers[mname]().save_html(5))
        show("  None file", lambda: makers[mname]().save_html(None))
        show("  bytes file", lambda: makers[mname]().save_html(b"bytes.html"))
        show("  abs libdir", lambda: div(d_listed).save_html("abs.html", libdir=os.path.join(out, "abslib")))
        show("  truthy non-str libdir", lambda: makers[mname]().save_html("x.html", libdir=5))
        show("  Path libdir", lambda: div(d_listed).save_html("pl.html", libdir=Path("plib")))
finally:
    os.chdir(cwd)
print("  tree:", norm(repr(tree(out))))

# failing dependency: earlier dependencies are copied, nothing is written
for mname, obj in [("doc", HTMLDocument(d_listed, d_broken, d_pkg)), ("tag", div(d_listed, d_broken, d_pkg)), ("list", TagList(d_listed, d_broken, d_pkg))]:
    out = fresh()
    write(os.path.join(out, "lib", "zz-1", "stale.txt"), b"stale")
    show("broken " + mname, lambda: obj.save_html(os.path.join(out, "p.html")))
    print("  tree:", norm(repr(tree(out))))

# saving twice is idempotent; the object itself is not modified
out = fresh()
t = div("x", d_listed, d_all)
before = repr(t)
f = os.path.join(out, "p.html")
t.save_html(f)
first = tree(out)
t.save_html(f)
print("idempotent", first == tree(out), before == repr(t))
lst = TagList(t)
lst.save_html(f, libdir="other")
print("list len", len(lst), lst[0] is t)

shutil.rmtree(TMP, ignore_errors=True)
