"""Probe for property C05 (no whitespace injected into inline content).

Exercises Tag.get_html_string / TagList.get_html_string / _normalize_text and the
helpers around them on a spread of ordinary and corner-case inputs and prints
repr() of results (or exception type + message) deterministically.
"""
import itertools

import htmltools
from htmltools import HTML, HTMLDependency, Tag, TagList, div, span, tags
from htmltools import _core


def show(label, fn):
    try:
        res = fn()
        print(label, "=>", type(res).__name__, repr(str(res)))
    except Exception as e:  # noqa: BLE001
        print(label, "=> EXC", type(e).__name__, str(e))


class Widget:
    """Self-rendering object (ReprHtml only)."""

    def __init__(self, s):
        self.s = s

    def _repr_html_(self):
        return self.s


class WidgetHTML:
    """_repr_html_ returns an HTML object rather than a str."""

    def _repr_html_(self):
        return HTML("<i>&w</i>")


class WidgetNone:
    def _repr_html_(self):
        return None


class Lazy:
    """Tagifiable only (never tagified before get_html_string)."""

    def tagify(self):
        return span("lazy")


class Both:
    """Both ReprHtml and Tagifiable: ReprHtml branch wins."""

    def _repr_html_(self):
        return "<both/>"

    def tagify(self):
        return span("nope")


dep = HTMLDependency("dep", "1.0", head="<meta name='x'>")

inline_a = span("a")
inline_b = tags.a("l<i>nk", href="u?x=1&y=2")
inline_deep = tags.b(tags.i(span("x", HTML("<y>"), Widget("<w>")), "t"), "u")
block = div("blk")
block_nested = div(span("s1"), span("s2"), div("in"), "tail")
inline_with_block = span("pre", div("mid"), "post")

children_pool = {
    "str": "te<xt & more",
    "empty_str": "",
    "html": HTML("<raw>&</raw>"),
    "empty_html": HTML(""),
    "widget": Widget("<w>1</w>"),
    "inline_a": inline_a,
    "inline_b": inline_b,
    "inline_deep": inline_deep,
    "block": block,
    "block_nested": block_nested,
    "inline_with_block": inline_with_block,
    "dep": dep,
    "br": tags.br(),
    "span_empty": span(),
    "div_empty": div(),
    "both": Both(),
}

print("== single children in span / div / TagList ==")
for name, ch in children_pool.items():
    show(f"span({name})", lambda: span(ch).get_html_string())
    show(f"div({name})", lambda: div(ch).get_html_string())
    show(f"TagList({name})", lambda: TagList(ch).get_html_string())
    show(f"TagList({name}) add_ws=False", lambda: TagList(ch).get_html_string(add_ws=False))

print("== pairs ==")
for (n1, c1), (n2, c2) in itertools.product(children_pool.items(), repeat=2):
    show(f"span({n1},{n2})", lambda: span(c1, c2).get_html_string())
    show(f"div({n1},{n2})", lambda: div(c1, c2).get_html_string())
    show(f"TL({n1},{n2})", lambda: TagList(c1, c2).get_html_string(indent=1, eol="\r\n"))
    show(
        f"TL({n1},{n2}) nows",
        lambda: TagList(c1, c2).get_html_string(indent=2, eol="|", add_ws=False),
    )

print("== triples (subset) ==")
sub = ["str", "html", "widget", "inline_a", "block", "dep", "inline_with_block"]
for trip in itertools.product(sub, repeat=3):
    cs = [children_pool[t] for t in trip]
    show(f"div{trip}", lambda: div(*cs).get_html_string(indent=1))
    show(f"span{trip}", lambda: span(*cs).get_html_string(indent=3, eol="\n\n"))
    show(f"p_nows{trip}", lambda: tags.p(*cs, _add_ws=False).get_html_string())

print("== indent / eol variations ==")
tree = div(span("a", tags.b("b")), "txt", div(span("c"), HTML("<h>")), tags.pre("p", span("q")))
for ind in (0, 1, 2, 5):
    for eol in ("\n", "", "\r\n", "<EOL>"):
        show(f"tree indent={ind} eol={eol!r}", lambda: tree.get_html_string(ind, eol))
        show(
            f"tree.children indent={ind} eol={eol!r}",
            lambda: tree.children.get_html_string(ind, eol),
        )
show("tree indent=-1", lambda: tree.get_html_string(-1))
show("tree indent=True", lambda: tree.get_html_string(True))
show("tree indent='x'", lambda: tree.get_html_string("x"))
show("tree indent=1.5", lambda: tree.get_html_string(1.5))
show("span tree indent='x'", lambda: span(span("a"), "b").get_html_string("x"))
show("tree eol=None", lambda: tree.get_html_string(0, None))
show("inline tree eol=None", lambda: span(span("a"), "b").get_html_string(0, None))
show("tree eol=HTML", lambda: tree.get_html_string(1, HTML("<br>")))

print("== void / no-escape tags ==")
for nm in ("br", "img", "input", "hr", "meta", "link", "script", "style", "p", "span", "pre"):
    show(f"{nm}()", lambda: Tag(nm).get_html_string())
    show(f"{nm}(dep)", lambda: Tag(nm, dep).get_html_string(2))
    show(f"{nm}('a<b')", lambda: Tag(nm, "a<b").get_html_string(1))
    show(f"{nm}(HTML)", lambda: Tag(nm, HTML("a<b")).get_html_string())
    show(f"{nm}('a<b','c&d')", lambda: Tag(nm, "a<b", "c&d").get_html_string())
    show(f"{nm}('a<b',HTML)", lambda: Tag(nm, "a<b", HTML("c&d")).get_html_string())
    show(f"{nm}(span)", lambda: Tag(nm, span("a<b")).get_html_string())
    show(f"{nm}(dep,'x',dep)", lambda: Tag(nm, dep, "x<", dep).get_html_string())
    show(f"{nm}(widget)", lambda: Tag(nm, Widget("<w>")).get_html_string())
    show(f"{nm} nows", lambda: Tag(nm, "a", span("b"), _add_ws=False).get_html_string(1))

print("== attributes ==")
show("attrs plain", lambda: span("x", id="a", class_="c d", title='q"<&>\'').get_html_string())
show("attrs html", lambda: span("x", title=HTML('q"<&>')).get_html_string())
show("attrs num/bool", lambda: span("x", data_n=3, hidden=True, z=None, f=False).get_html_string())
show("attrs dict", lambda: div({"data-x": "1", "class": "k"}, span("y"), class_="m").get_html_string())
show("attrs empty val", lambda: span(id="").get_html_string())
show("attrs on void", lambda: tags.img(src="a&b.png", alt=HTML("<x>")).get_html_string(1))
t = span("x")
dict.__setitem__(t.attrs, "weird key", "v")
show("attrs weird key", lambda: t.get_html_string())
t2 = span("x")
dict.__setitem__(t2.attrs, "n", 5)
show("attrs non-str value", lambda: t2.get_html_string())

print("== odd objects ==")
show("lazy in span", lambda: span(Lazy()).get_html_string())
show("lazy in TL", lambda: TagList("a", Lazy()).get_html_string())
show("widget html", lambda: span("a&", WidgetHTML(), "b&", span("c")).get_html_string())
show("widget html div", lambda: div("a&", WidgetHTML(), "b&", span("c")).get_html_string())
show("widget html only", lambda: div(WidgetHTML()).get_html_string())
show("widget none", lambda: span("a", WidgetNone()).get_html_string())
show("widget none first", lambda: span(WidgetNone(), "a").get_html_string())
show("name HTML", lambda: Tag(HTML("sp<an"), "x", span("y"), id='a"').get_html_string())
show("name HTML empty", lambda: Tag(HTML("x")).get_html_string(1))
show("name int", lambda: Tag(5, "x").get_html_string())
show("name list", lambda: Tag(["x"]).get_html_string())
show("name empty", lambda: Tag("", "x", span("y")).get_html_string())
tl = TagList("a")
tl.data.append(5)
show("TL with int", lambda: tl.get_html_string())
show("TL with int noescape", lambda: tl.get_html_string(_escape_strings=False))
tl2 = TagList()
tl2.data.extend([None, "a"])
show("TL with None", lambda: tl2.get_html_string())
tl3 = TagList("a<", HTML("b<"), span("c<"))
show("TL noescape", lambda: tl3.get_html_string(_escape_strings=False))
show("TL noescape nows", lambda: tl3.get_html_string(_escape_strings=False, add_ws=False))
show("TL add_ws=0", lambda: TagList("a", div("b")).get_html_string(add_ws=0))
show("TL add_ws='y'", lambda: TagList("a", span("b")).get_html_string(add_ws="y"))
sp = span("a", span("b"))
sp.add_ws = "yes"
show("add_ws truthy str", lambda: div(sp, "z").get_html_string())
sp2 = div("a", span("b"))
sp2.add_ws = 0
show("add_ws falsy int", lambda: span(sp2, "z").get_html_string())
show("bad _add_ws", lambda: span("a", _add_ws=1))
one = span("a")
one.children.data.append(7)
show("span with int child", lambda: one.get_html_string())
only = span()
only.children.data.append(7)
show("span only int child", lambda: only.get_html_string())
scr = tags.script("a<b", HTML("c<d"), Widget("<e>"))
show("script multi", lambda: scr.get_html_string())
show("style in div", lambda: div(tags.style("a>b", "c>d"), span("x")).get_html_string())

print("== _normalize_text ==")
for v in ("", "a", "<&>\"'", HTML("<&>\"'"), HTML("")):
    show(f"_normalize_text({v!r})", lambda: _core._normalize_text(v))
for v in (5, None, b"x", ["a"]):
    show(f"_normalize_text({v!r})", lambda: _core._normalize_text(v))

print("== placement invariance (C05) ==")
inl = span("a ", tags.b("b", tags.i(HTML("&amp;"), Widget("<w/>"))), " c", tags.a("d", href="#"))
s = inl.get_html_string()
print(repr(s))
for ctx_name, ctx in {
    "div": lambda x: div(x),
    "div_text": lambda x: div("t", x, "u"),
    "div_div": lambda x: div(div(x)),
    "span_div": lambda x: span(div(x)),
    "taglist": lambda x: TagList("p", x, div("q")),
    "deep": lambda x: div(tags.ul(tags.li(x), tags.li(x, x))),
}.items():
    out = str(ctx(inl))
    print(ctx_name, s in out, repr(out))

print("== str / repr / render ==")
show("str(tree)", lambda: str(tree))
show("repr(tree)", lambda: repr(tree))
show("_repr_html_", lambda: tree._repr_html_())
show("render html", lambda: tree.render()["html"])
show("TagList str", lambda: str(TagList(span("a"), span("b"), div("c"), "d", span("e"))))
show("TagList render", lambda: TagList(span("a"), dep, span("b")).render()["html"])
show("doc", lambda: htmltools.HTMLDocument(div(span("a"), span("b"))).render()["html"])
