"""Probe for property C19: tag functions create their own element with the documented default.

Prints deterministic output; must be byte-identical on the unmodified and the patched tree.
"""
from __future__ import annotations

import inspect
import types

import htmltools
from htmltools import HTML, Tag, TagList, svg, tags

# The project's classification of inline elements (scripts/generate_tags.py).
INLINE = {
    "a", "abbr", "acronym", "audio", "b", "bdi", "bdo", "big", "br", "button", "canvas",
    "cite", "code", "data", "datalist", "del", "dfn", "em", "embed", "i", "iframe", "img",
    "input", "ins", "kbd", "label", "map", "mark", "meter", "noscript", "object", "output",
    "picture", "pre", "progress", "q", "ruby", "s", "samp", "select", "slot", "small",
    "span", "strong", "sub", "sup", "svg", "template", "textarea", "time", "u", "tt",
    "var", "video", "wbr",
}


def attempt(label, fn):
    try:
        res = fn()
    except BaseException as e:  # noqa: BLE001
        print(f"{label}: EXC {type(e).__name__}: {e}")
    else:
        print(f"{label}: {res!r}")


def describe(t):
    return (
        type(t).__name__,
        t.name,
        t.add_ws,
        type(t.add_ws).__name__,
        type(t.attrs).__name__,
        dict(t.attrs),
        [(type(v).__name__) for v in t.attrs.values()],
        type(t.children).__name__,
        [(type(c).__name__, str(c)) for c in t.children],
        t.prev_displayhook,
        sorted(t.__dict__),
        str(t),
    )


def public_functions(mod):
    out = []
    for nm, obj in sorted(vars(mod).items()):
        if nm.startswith("_"):
            continue
        if isinstance(obj, types.FunctionType) and obj.__module__ == mod.__name__:
            out.append((nm, obj))
    return out


class MyDict(dict):
    pass


class Tagifiable:
    def __repr__(self):
        return "<Tagifiable>"

    def tagify(self):
        return Tag("x-t", "tagified")


class ReprHtml:
    def __repr__(self):
        return "<ReprHtml>"

    def _repr_html_(self):
        return "<b>r</b>"


ARGSETS = [
    ("empty", (), {}),
    ("kids", ("hello", 1, 2.5, None, HTML("<i>r</i>"), ["x", ["y", None, Tag("b", "z")]]), {}),
    ("attrs", ({"id": "a", "class": "c1"}, {"class": "c2", "data_x": 3}, MyDict(title_="t")),
     {"class_": "c3", "hidden": True, "skip": None, "off": False, "f": 1.5, "h": HTML("<&>"), "for_": "q", "a_b_": "z"}),
    ("mixed", ("a", {"id": "i"}, Tag("em", "b"), {"id": "j"}, TagList("c", "d"), ("t1", "t2")), {"id": "k"}),
    ("tagifiable", (Tagifiable(), ReprHtml()), {"x": "<\"&'>"}),
    ("emptydict", ({}, "", [], ()), {}),
]


def run_module(mod):
    fns = public_functions(mod)
    print(f"== module {mod.__name__}: {len(fns)} functions")
    print("__all__:", getattr(mod, "__all__", None))
    for nm, fn in fns:
        sig = inspect.signature(fn)
        params = [
            (p.name, p.kind.name, None if p.default is inspect.Parameter.empty else (type(p.default).__name__, p.default), p.annotation)
            for p in sig.parameters.values()
        ]
        print("--", nm, fn.__name__, fn.__qualname__, params, sig.return_annotation, (fn.__doc__ or "")[:40].strip().splitlines()[0])
        t = fn()
        expected_default = nm not in INLINE
        print("   default:", t.name == nm, t.add_ws, t.add_ws is expected_default, fn.__kwdefaults__)
        for label, a, kw in ARGSETS:
            r = fn(*a, **kw)
            ref = Tag(nm, *a, _add_ws=expected_default, **kw)
            same = describe(r) == describe(ref) and r == ref
            # Print full description only for a few representative functions to keep output small
            if nm in ("a", "div", "span", "pre", "svg", "script", "circle", "textPath", "font_face", "title", "br", "html"):
                print("   ", label, same, describe(r))
            else:
                print("   ", label, same, str(r) == str(ref))
        for v in (True, False):
            r = fn("k", {"id": "1"}, _add_ws=v, cls="z")
            print("   explicit", v, r.add_ws is v, r.name, str(r) == str(Tag(nm, "k", {"id": "1"}, _add_ws=v, cls="z")))
        for bad in (None, 0, 1, "True", "", [], 1.0, HTML("x")):
            attempt(f"   bad _add_ws {bad!r}", lambda: fn("k", _add_ws=bad))
        attempt("   _name kw", lambda: fn(_name="zz"))
        attempt("   bad attr", lambda: fn("ok", foo=3j))
        attempt("   bad child", lambda: fn(object))
        attempt("   bad child+attr", lambda: fn(3j, foo=[1]))
        attempt("   bad ws+child+attr", lambda: fn(3j, foo=[1], _add_ws="x"))
        attempt("   non-str key", lambda: fn({1: "x"}))
        attempt("   pos-only misuse", lambda: fn(args=("x",), kwargs={"a": 1}))


run_module(tags)
run_module(svg)

print("== top-level shortcuts")
print("htmltools.__all__:", htmltools.__all__)
for nm in sorted(tags.__all__):
    top = getattr(htmltools, nm)
    print(nm, top is getattr(tags, nm), top.__module__, top.__name__, top().name, top().add_ws)
print("svg is module:", htmltools.svg is svg, "tags is module:", htmltools.tags is tags)
print("top-level public names:", sorted(n for n in vars(htmltools) if not n.startswith("_")))
print("TagFunction checks:", isinstance(tags.div, htmltools.TagFunction), isinstance(svg.circle, htmltools.TagFunction), isinstance(htmltools.span, htmltools.TagFunction))

print("== Tag constructor directly")
for label, a, kw in ARGSETS:
    for ws in (True, False):
        attempt(f"Tag {label} {ws}", lambda: describe(Tag("my-el", *a, _add_ws=ws, **kw)))
attempt("Tag default ws", lambda: describe(Tag("q")))
attempt("Tag no name", lambda: Tag())
attempt("Tag name kw", lambda: describe(Tag(_name="zz")))
attempt("Tag name twice", lambda: Tag("a", _name="zz"))
for bad in (None, 0, 1, "True", "", [], 1.0, HTML("x"), Ellipsis):
    attempt(f"Tag bad _add_ws {bad!r}", lambda: Tag("a", _add_ws=bad))


class BoolLike(int):
    pass


attempt("Tag BoolLike ws", lambda: Tag("a", _add_ws=BoolLike(1)))

# Order of side effects inside the constructor, observed through a subclass.
LOG = []


class LoggingTag(Tag):
    def __setattr__(self, k, v):
        LOG.append(("set", k, type(v).__name__))
        object.__setattr__(self, k, v)


class Spy:
    """Object whose class lookups are logged (isinstance falls back to __class__)."""

    def __init__(self, tag, fake):
        object.__setattr__(self, "_tag", tag)
        object.__setattr__(self, "_fake", fake)

    @property
    def __class__(self):
        LOG.append(("class", self._tag))
        return self._fake

    def items(self):
        LOG.append(("items", self._tag))
        return [("data-spy", self._tag)]

    def tagify(self):
        return Tag("spy", self._tag)


def logged(label, fn):
    del LOG[:]
    attempt(label, fn)
    print("   log:", LOG)


logged("LoggingTag ok", lambda: str(LoggingTag("a", "x", {"id": "1"}, k="v")))
logged("LoggingTag bad ws", lambda: LoggingTag("a", "x", _add_ws=1))
logged("LoggingTag bad attr", lambda: LoggingTag("a", 3j, k=[1]))
logged("LoggingTag bad child", lambda: LoggingTag("a", 3j, k=1))
logged("Spy str", lambda: str(Tag("a", Spy("s1", str), Spy("s2", Spy), "t")))
logged("Spy dict", lambda: str(Tag("a", Spy("s1", dict), "t", Spy("s2", str))))
logged("Spy via div", lambda: str(tags.div(Spy("s1", dict), "t", Spy("s2", Spy))))
logged("Spy via svg.g", lambda: str(svg.g(Spy("s1", dict), "t", Spy("s2", Spy))))
logged("Spy via top-level span", lambda: str(htmltools.span(Spy("s1", Spy), "t", Spy("s2", dict))))

print("== rendering of whitespace defaults")
print(repr(str(tags.div(tags.span("a"), tags.p("b"), tags.pre("c"), "d", tags.ul(tags.li("x"), tags.li(tags.a("y")))))))
print(repr(str(svg.svg(svg.g(svg.circle(r=1), svg.text("t", svg.tspan("u"))), svg.a("l")))))
print(repr(str(tags.div(tags.span("a", _add_ws=True), tags.p("b", _add_ws=False)))))
