"""Probe for refactoring 1: _resolve_dependencies (single lookup per dependency)."""

from htmltools import HTMLDependency, HTMLDocument, TagList, div, span
from htmltools._core import _resolve_dependencies
from packaging.version import Version


def dep(name, version, tag=""):
    d = HTMLDependency(name, version)
    d.tag = tag  # identity marker, so ties can be told apart
    return d


def show(deps):
    return [(d.name, str(d.version), getattr(d, "tag", None)) for d in deps]


def attempt(label, fn):
    try:
        print(label, "->", fn())
    except Exception as e:  # noqa: BLE001
        print(label, "-> EXC", type(e).__name__, e)


cases = {
    "empty": [],
    "single": [dep("a", "1.0", "x")],
    "numeric-not-lexical": [dep("a", "1.9", "old"), dep("a", "1.10", "new")],
    "numeric-not-lexical-rev": [dep("a", "1.10", "new"), dep("a", "1.9", "old")],
    "tie-earliest": [dep("a", "1.0", "first"), dep("a", "1.0.0", "second"), dep("a", "1", "third")],
    "first-occurrence-order": [
        dep("b", "1", "b1"),
        dep("a", "1", "a1"),
        dep("c", "3", "c3"),
        dep("a", "2", "a2"),
        dep("b", "0.5", "b0.5"),
        dep("c", "3.0.1", "c3.0.1"),
        dep("a", "2", "a2-again"),
    ],
    "ups-and-downs": [dep("a", v, v) for v in ["1", "3", "2", "3", "4rc1", "4", "4.0", "3.9"]],
    "prerelease-dev-post": [dep("a", v, v) for v in ["1.0.dev1", "1.0a1", "1.0", "1.0.post1", "1.0rc1"]],
    "empty-name": [dep("", "1", "e1"), dep("", "2", "e2"), dep(" ", "0", "sp")],
}

for label, deps in cases.items():
    res = _resolve_dependencies(deps)
    print(label, show(res))
    # idempotent, and the input list itself is left alone
    print("  again", show(_resolve_dependencies(res)) == show(res), len(deps))
    print("  identity", [any(r is d for d in deps) for r in res])

# same object several times
d1 = dep("a", "1", "same")
res = _resolve_dependencies([d1, d1, d1])
print("same-object", show(res), res[0] is d1)

# Version objects passed straight through, and versions that are not Version at all
attempt("version-objects", lambda: show(_resolve_dependencies([HTMLDependency("a", Version("2")), HTMLDependency("a", "10")])))
attempt("none-version-single", lambda: show(_resolve_dependencies([HTMLDependency("a", None)])))
attempt("none-version-twice", lambda: show(_resolve_dependencies([HTMLDependency("a", None), HTMLDependency("a", None)])))
attempt("none-version-other-names", lambda: show(_resolve_dependencies([HTMLDependency("a", None), HTMLDependency("b", None)])))
attempt("mixed-version-types", lambda: show(_resolve_dependencies([HTMLDependency("a", 1), HTMLDependency("a", "2")])))
attempt("int-versions", lambda: show(_resolve_dependencies([HTMLDependency("a", 1), HTMLDependency("a", 3), HTMLDependency("a", 2)])))
attempt("unhashable-name", lambda: show(_resolve_dependencies([HTMLDependency(["a"], "1")])))
attempt("tuple-and-none-names", lambda: show(_resolve_dependencies([HTMLDependency(("a",), "1"), HTMLDependency(None, "1"), HTMLDependency(("a",), "2"), HTMLDependency(None, "0")])))
attempt("int-1-and-true-names", lambda: show(_resolve_dependencies([HTMLDependency(1, "1"), HTMLDependency(True, "2"), HTMLDependency(1.0, "3")])))
attempt("not-a-dependency", lambda: _resolve_dependencies([object()]))
attempt("name-only-objects", lambda: len(_resolve_dependencies([type("N", (), {"name": "n"})()])))
attempt("name-only-objects-twice", lambda: len(_resolve_dependencies([type("N", (), {"name": "n"})(), type("N", (), {"name": "n"})()])))
attempt("generator-input", lambda: show(_resolve_dependencies(d for d in [dep("a", "1"), dep("a", "2"), dep("b", "1")])))
attempt("none-input", lambda: _resolve_dependencies(None))

# through the public entry points
a1, a2, b1, a2b = dep("a", "1.2", "a1.2"), dep("a", "1.10", "a1.10"), dep("b", "1", "b1"), dep("a", "1.10", "a1.10-late")
tree = div(a1, span(b1, div(a2)), TagList(a2b, span(a1)), "text")
print("tree dedup", show(tree.get_dependencies()))
print("tree nodedup", show(tree.get_dependencies(dedup=False)))
print("taglist dedup", show(TagList(tree, b1).get_dependencies()))
print("render", show(tree.render()["dependencies"]))
print("doc", show(HTMLDocument(tree).render()["dependencies"]))
print(HTMLDocument(tree).render()["html"])
