"""Probe for refactoring 3: Tag.add_class / Tag.add_style attribute merging."""
import copy

from htmltools import HTML, TagList, a, css, div, span, tags
from htmltools import Tag


def state(t):
    return "%s | %r | %s" % (
        str(t).replace("\n", "\\n"),
        {k: (type(v).__name__, str(v)) for k, v in t.attrs.items()},
        list(t.attrs.keys()),
    )


def show(label, make, fn):
    t = make()
    try:
        r = fn(t)
        print(label, "-> same:", r is t, "|", state(t))
    except BaseException as e:  # noqa: BLE001
        print(label, "-> EXC", type(e).__name__, str(e), "|", state(t))


class Truthy:
    def __init__(self, val, log):
        self.val = val
        self.log = log

    def __bool__(self):
        self.log.append("bool")
        return self.val


MAKERS = [
    ("bare", lambda: div()),
    ("cls", lambda: div(class_="a")),
    ("cls2", lambda: div(class_="a b  a")),
    ("cls-empty", lambda: div(class_="")),
    ("cls-true", lambda: div(class_=True)),
    ("cls-html", lambda: div(class_=HTML("h&1 <x>"))),
    ("style", lambda: div(style="color:red;")),
    ("style-html", lambda: span(style=HTML("a:'b';"))),
    ("both", lambda: a("txt", id="i", class_="x y", style="p:q;", href="#")),
    ("order", lambda: div({"data-z": "1"}, style="s:1;", class_="k", title="t")),
]

CLASSES = ["b", "a", "", " ", "b c", " lead", "trail ", "x&y", '"q"', "<i>", "ü", "a\tb", "\n"]
HTML_CLASSES = [HTML("b"), HTML("<&>"), HTML("")]
BAD_CLASSES = [None, True, False, 0, 5, 1.5, ["a"], ("a",), {"a": 1}, b"a", object]

for mname, mk in MAKERS:
    for c in CLASSES + HTML_CLASSES + BAD_CLASSES:
        for prepend in (False, True):
            show(
                "add_class %s %r prepend=%s" % (mname, c, prepend),
                mk,
                lambda t, c=c, prepend=prepend: t.add_class(c, prepend=prepend),
            )

STYLES = ["a:b;", ";", "a:b; c:d;", "a:b", "", " ", "a:b; ", "x:'<&>\";", "a:b;\n", "ü:1;"]
HTML_STYLES = [HTML("a:b;"), HTML("x:'<&>\";"), HTML("a:b"), HTML(""), HTML(";")]
BAD_STYLES = [None, True, False, 0, 5, 2.5, ["a;"], ("a;",), {"a": 1}, b"a;", object]

for mname, mk in MAKERS:
    for s in STYLES + HTML_STYLES + BAD_STYLES:
        for prepend in (False, True):
            show(
                "add_style %s %r prepend=%s" % (mname, s, prepend),
                mk,
                lambda t, s=s, prepend=prepend: t.add_style(s, prepend=prepend),
            )

# non-bool prepend values
for p in [0, 1, "", "x", None, [], [0]]:
    show("add_class prepend=%r" % (p,), lambda: div(class_="a"), lambda t, p=p: t.add_class("z", prepend=p))
    show("add_style prepend=%r" % (p,), lambda: div(style="a:1;"), lambda t, p=p: t.add_style("z:2;", prepend=p))
log = []
show("truthy obj", lambda: div(class_="a"), lambda t: t.add_class("z", prepend=Truthy(True, log)))
show("falsy obj", lambda: div(style="a:1;"), lambda t: t.add_style("z:2;", prepend=Truthy(False, log)))
print("log", log)

# positional prepend is rejected
show("positional class", div, lambda t: t.add_class("a", True))
show("positional style", div, lambda t: t.add_style("a:1;", True))

# chaining, repeated application, interplay
t = div()
r = t.add_class("a").add_class("b").add_class("c", prepend=True).add_style("x:1;").add_style("y:2;", prepend=True)
print(r is t, state(t))
print(t.has_class("a"), t.has_class("c"), t.has_class("d"))
t.remove_class("a").add_class("a", prepend=True)
print(state(t))
t.add_style(css(font_size="1px", marginTop=0)).add_style(css(z=None, q=1), prepend=True)
print(state(t))

# other attributes and children untouched; copies independent
orig = div("child", span("s"), id="i", class_="k")
cp = copy.copy(orig)
cp.add_class("new").add_style("a:b;")
print(state(orig))
print(state(cp))
print(repr(orig.children), repr(cp.children))

# attribute created through attrs directly, mixed-case / underscore keys
t = div()
t.attrs["class_"] = "viaattrs"
t.add_class("more")
t.attrs.update(style_="q:1;")
t.add_style("r:2;")
print(state(t))
t = Tag("custom-el", {"class": "a"}, {"class": "b"}, class_="c")
t.add_class("d", prepend=True).add_class("e")
print(state(t))
t = tags.input(type="checkbox", checked=True)
t.add_class("c1").add_style("w:1;")
print(state(t))

# TagList members
tl = TagList(div(class_="one"), "txt", span())
tl[0].add_class("two")
tl[2].add_style("a:b;")
print(str(tl).replace("\n", "\\n"))
