import copy
from htmltools import (HTML, HTMLDependency, HTMLDocument, Tag, TagList, div, span,
                       head_content, tags)
from htmltools._jsx import JSXTag, jsx, jsx_tag_create
from htmltools._core import MetadataNode


def show(label, fn):
    try:
        print(label, "=>", repr(fn()))
    except Exception as e:  # noqa
        print(label, "=> EXC", type(e).__name__, e)


dep = HTMLDependency("a", "1.0", source={"href": "http://x/"}, script={"src": "a.js"})


class MyTag(Tag):
    def __init__(self, *a, **k):
        super().__init__("mytag", *a, **k)
        self.extra = [1, 2]
        self.zlabel = "z"


class Meta(MetadataNode):
    def __init__(self):
        self.v = [1]

    def __copy__(self):
        m = Meta()
        m.v = list(self.v)
        return m


class BadCopy:
    def __copy__(self):
        raise ValueError("no copy")


def check_copy(name, x):
    cp = copy.copy(x)
    print(name, "type", type(cp).__name__, "is", cp is x)
    print(name, "keys", list(cp.__dict__.keys()) == list(x.__dict__.keys()), list(cp.__dict__.keys()))
    for k, v in x.__dict__.items():
        w = cp.__dict__[k]
        print(name, k, "same-object", v is w, "equal", v == w, type(w).__name__)
    return cp


t = div("a", span("b", dep, id="s"), Meta(), HTML("<i>"), id="x", class_="c", _add_ws=False)
cp = check_copy("tag", t)
print(str(cp) == str(t), cp == t)
cp.append("more")
cp.attrs["id"] = "changed"
print(str(t))
print(str(cp))
print(t.children[1] is cp.children[1])  # shallow

m = MyTag("k", id="q")
cpm = check_copy("mytag", m)
cpm.extra.append(3)
print(m.extra, cpm.extra, cpm.zlabel, cpm == m)

# tagify uses copy
tt = t.tagify()
print(tt == t, tt is t, tt.children is t.children, tt.attrs is t.attrs, tt.children[2] is t.children[2])
print(tt.tagify() == tt)

# context manager field
d = div("ctx")
with d:
    inner = copy.copy(d)
    print("prev_displayhook copied:", inner.prev_displayhook is d.prev_displayhook)
print(d.prev_displayhook, inner.prev_displayhook is None)

# documents
doc = HTMLDocument(div("x", dep), head_content(tags.title("T")), lang="en")
cpd = check_copy("doc", doc)
cpd.append("zzz")
cpd._html_attr_args["lang"] = "fr"
print(doc.render()["html"])
print(cpd.render()["html"])
print(doc.render() == doc.render())


class SubDoc(HTMLDocument):
    pass


sd = SubDoc("a")
sd.note = {"k": 1}
cps = check_copy("subdoc", sd)

# JSX
Foo = jsx_tag_create("Foo")
j = Foo(div("c"), "s", dep, a=1, b=[1, {"x": jsx("y")}], style="color:red;", t=span("q"))
cpj = check_copy("jsx", j)
cpj.append("new")
cpj.attrs["zz"] = 2
print(str(j))
print(str(cpj))
print(str(j) == str(j.tagify()), j.tagify() == j.tagify())
print(str(div(j, Foo())))

# failing copy of a field
b = div()
b.bad = BadCopy()
show("badcopy tag", lambda: copy.copy(b))
jb = Foo()
jb.bad = BadCopy()
show("badcopy jsx", lambda: copy.copy(jb))
db = HTMLDocument()
db.bad = BadCopy()
show("badcopy doc", lambda: copy.copy(db))

# empty __dict__
e = Tag.__new__(Tag)
ce = copy.copy(e)
print(type(ce).__name__, ce.__dict__)
