# Probe for refactoring 3: HTML.__add__ / HTML.__radd__ (text joined to HTML is escaped).
from htmltools import HTML, TagList, div, span, tags

LOG = []


def show(label, fn):
    del LOG[:]
    try:
        r = fn()
        print(label, "->", type(r).__name__, repr(r), repr(str(r)), LOG)
    except BaseException as e:  # noqa: BLE001
        print(label, "-> EXC", type(e).__name__, str(e), LOG)


class Loud:
    def __init__(self, text):
        self.text = text

    def __str__(self):
        LOG.append("str(Loud)")
        return self.text


class BadStr:
    def __str__(self):
        LOG.append("str(BadStr)")
        raise ValueError("no str")


class NotStr:
    def __str__(self):
        LOG.append("str(NotStr)")
        return 5


class MyHTML(HTML):
    def as_string(self):
        LOG.append("as_string(%s)" % self.data)
        return super().as_string()


class S(str):
    pass


class SAdd(str):
    def __add__(self, other):
        LOG.append("SAdd.__add__")
        return NotImplemented


operands = [
    "", "plain", "a<b>&c", "&amp;", "</script>", "<!--", "q\"'\r\n", S("<s>"), SAdd("<sadd>"),
    0, 1.5, True, None, b"<b>", ["<", "&"], ("<",), {"<": ">"}, Loud("<loud&>"), BadStr(), NotStr(),
    HTML(""), HTML("<b>&</b>"), MyHTML("<my>"), div("<x>", id="&"), TagList("<", HTML("<")), object,
]
bases = [HTML(""), HTML("<i>&amp;</i>"), MyHTML("<base>")]

for bi, base in enumerate(bases):
    for oi, other in enumerate(operands):
        tag = "%d/%d %s" % (bi, oi, type(other).__name__)
        show("add  " + tag, lambda: base + other)
        show("radd " + tag, lambda: other + base)
        show("__add__  " + tag, lambda: base.__add__(other))
        show("__radd__ " + tag, lambda: base.__radd__(other))

        def iadd():
            x = base
            x += other
            return x

        def riadd():
            x = other
            x += base
            return x

        show("iadd " + tag, iadd)
        show("riadd " + tag, riadd)
    print(repr(base), repr(base.data))

# results are new objects, the operands keep their value
a = HTML("<a>")
b = HTML("<b>")
c = a + b
print(c is a, c is b, repr(a), repr(b), repr(c), type(c.data).__name__)
d = a + "x"
print(repr(d), repr(a), type(d.data).__name__)
e = "<e>" + a
print(repr(e), repr(a), type(e.data).__name__)
s = sum([HTML("<1>"), "<2>", HTML("<3>")], HTML(""))
print(repr(s))
print(repr("-".join(["a"]) + HTML("<j>") + "&" + HTML("&")))

# the mixed str/HTML accumulation inside <script>/<style> and ordinary tags
for mk in (tags.script, tags.style, div, span):
    print(repr(str(mk("a<b", HTML("<raw>"), "c&d"))))
    print(repr(str(mk(HTML("<raw>"), "c&d", HTML("<raw2>")))))
    print(repr(str(mk("only<"))), repr(str(mk(HTML("only<")))))
print(repr(str(TagList("a<b", HTML("<raw>"), "c&d"))))
