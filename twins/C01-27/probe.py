# Probe for TagAttrDict.__setitem__ / TagAttrDict.update (how an attribute value is stored)
# and the places of the public API that go through them.
import itertools
from collections import OrderedDict

from htmltools import HTML, Tag, div, span, tags
from htmltools._core import TagAttrDict as TAD


def desc(v):
    return (type(v).__name__, str(v))


def dump(d):
    return [(k, desc(v)) for k, v in dict.items(d)]


def show(label, fn):
    try:
        r = fn()
        print(label, "->", repr(r))
    except Exception as e:  # noqa: BLE001
        print(label, "!!", type(e).__name__, str(e))


class IntSub(int):
    def __str__(self):
        return "intsub"


class StrSub(str):
    pass


class LoggingMap:
    """Mapping-like object recording the order in which it is read."""

    def __init__(self, name, pairs, log):
        self.name, self.pairs, self.log = name, pairs, log

    def items(self):
        for k, v in self.pairs:
            self.log.append((self.name, k))
            yield k, v


VALUES = [
    "plain",
    "",
    " ",
    "a&b<c>\"d'e\r\n",
    HTML("raw&<>\"'"),
    HTML(""),
    StrSub("sub<"),
    True,
    False,
    None,
    0,
    1,
    -2.5,
    float("nan"),
    10**25,
    IntSub(4),
]
BAD_VALUES = [b"bytes", [1], ("t",), {"a": 1}, object, 1j, {1}]
NAMES = ["id", "class_", "_x_", "data_a_b", "__", "_", "", "for_", "A_B", "aria-label", "x__", "é_"]

# ---- __setitem__ --------------------------------------------------------------
for nm in NAMES:
    for v in VALUES:
        d = TAD()
        d["keep"] = "k"
        show(f"set[{nm!r}]={v!r}", lambda: (d.__setitem__(nm, v), dump(d))[1])
for v in BAD_VALUES:
    d = TAD(a="1")
    show(f"set bad {type(v).__name__}", lambda: (d.__setitem__("a", v), dump(d))[1])
    print("  after", dump(d))
d = TAD()
show("set non-str name", lambda: (d.__setitem__(5, "v"), dump(d))[1])
show("set non-str name skipped", lambda: (d.__setitem__(5, None), dump(d))[1])
show("set non-str name bad value", lambda: (d.__setitem__(5, []), dump(d))[1])
# overwriting keeps position, no merging on __setitem__
d = TAD(a="1", b="2", c="3")
d["b"] = HTML("<x>")
d["a_"] = 7
d["c"] = None
d["c"] = False
d["d"] = True
print("overwrite", dump(d))

# ---- update: pairs of values for the same name -------------------------------------
for v1, v2 in itertools.product(VALUES, repeat=2):
    d = TAD()
    show(f"upd2 {v1!r}+{v2!r}", lambda: (d.update({"class": v1}, {"class_": v2}), dump(d))[1])
# triples mixing plain and HTML
TRI = ["a<", HTML("b<"), "c'", HTML('d"'), None, 3]
for v1, v2, v3 in itertools.product(TRI, repeat=3):
    d = TAD()
    show(
        f"upd3 {v1!r},{v2!r},{v3!r}",
        lambda: (d.update({"k": v1}, {"k_": v2}, k=v3), dump(d))[1],
    )

# ---- update: existing keys are replaced (not merged), order of insertion ---------------
d = TAD(id="x", class_="c0")
d.update({"class": "c1", "z": 1}, {"class_": HTML("c2"), "a": True}, id="y", class_="c3", n=None)
print("replace", dump(d))
d.update()
print("noop", dump(d))
d.update({})
print("noop2", dump(d))
d.update({}, {}, **{})
print("noop3", dump(d))
show("ctor", lambda: dump(TAD({"a_b": 1}, {"a-b": 2, "c": None}, a_b_=HTML("3"), d=False, e=True)))
show("ctor empty", lambda: dump(TAD()))
show("ctor ordered", lambda: dump(TAD(OrderedDict([("b", 1), ("a", 2)]), OrderedDict([("a", 3)]))))
show("ctor TAD", lambda: dump(TAD(TAD(a="1"), TAD(a="2"))))

# same key twice through kwargs named like a positional mapping key
show("kw only", lambda: dump(TAD(class_="a", id="b")))
show("kw clash", lambda: dump(TAD({"class": "a"}, **{"class": "b", "class_": "c"})))

# ---- update: errors leave the dict untouched -----------------------------------------
for v in BAD_VALUES:
    d = TAD(a="1")
    show(f"upd bad {type(v).__name__}", lambda: d.update({"b": "ok"}, {"c": v}))
    print("  after", dump(d))
d = TAD(a="1")
show("upd non-mapping", lambda: d.update({"b": "2"}, [("c", "3")]))
print("  after", dump(d))
show("upd non-str key", lambda: d.update({"b": "2"}, {5: "x"}))
print("  after", dump(d))
show("upd non-str key skipped", lambda: (d.update({5: None, 6: False}), dump(d))[1])
show("upd None arg", lambda: d.update(None))
show("upd str arg", lambda: d.update("ab"))

# ---- update: order in which the arguments are read -----------------------------------
log = []
d = TAD()
d.update(
    LoggingMap("m1", [("a", "1"), ("b", None), ("a_", "2")], log),
    LoggingMap("m2", [("c", HTML("3")), ("a", HTML("4"))], log),
    z="9",
    a="5",
)
print("order", log, dump(d))
log = []
d = TAD(q="0")
show("order err", lambda: d.update(LoggingMap("m1", [("a", "1"), ("b", []), ("c", "2")], log), LoggingMap("m2", [("d", "3")], log)))
print("order err log", log, dump(d))

# results of merging are the right types
d = TAD({"k": "a"}, {"k": "b"})
print("types", type(d["k"]).__name__, type(TAD({"k": "a"}, {"k": HTML("b")})["k"]).__name__)

# ---- through Tag -------------------------------------------------------------------
show("tag1", lambda: str(div({"class": "a<"}, {"class": HTML("b<")}, class_="c\"", id=1, hidden=True, x=None, y=False)))
show("tag2", lambda: str(span({"data_x": 1.5}, "t", data_x="2")))
show("tag3", lambda: str(tags.input(type="checkbox", checked=True, value="a'b\nc")))
t = div(class_="a")
t.attrs["class"] = "b"
t.attrs["title_"] = HTML("&amp;")
t.attrs.update({"class": "c"}, {"class": "d"})
show("tag4", lambda: str(t))
show("add_class", lambda: str(div(class_="a").add_class("b").add_class("c", prepend=True)))
show("add_class html", lambda: str(div(class_=HTML("a&")).add_class("b<")))
show("add_style", lambda: str(div(style="a:1").add_style("b:2;").add_style("c:3;", prepend=True)))
show("tag bad attr", lambda: div(id=[1]))
show("tag dict bad attr", lambda: div({"id": object()}))
show("Tag()", lambda: str(Tag("p", {"a": "1"}, {"a": "2"}, "txt", a="3", _add_ws=False)))
show("has_class", lambda: div(class_="a b").has_class("b"))
show("remove_class", lambda: str(div({"class": "a b"}, class_="c").remove_class("b")))
