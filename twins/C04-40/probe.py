# Probe for refactoring 5: html_escape (used for text children, attribute values and
# for the plain operands of HTML() concatenation)
import itertools
import htmltools
from htmltools import HTML, div, html_escape, span, tags
from htmltools._util import _html_escape


def show(label, fn):
    try:
        r = fn()
        print(label, "->", type(r).__name__, repr(r))
    except BaseException as e:  # noqa: BLE001
        print(label, "-> EXC", type(e).__name__, str(e)[:90])


class StrSub(str):
    pass


print(_html_escape is html_escape, htmltools.html_escape is html_escape)

alphabet = ["&", "<", ">", '"', "'", "\r", "\n", "|", "a", " ", "&amp;", "&lt;", "\\", "\t", "é", " ", "\x00"]
for n in (0, 1, 2):
    for combo in itertools.product(alphabet, repeat=n):
        s = "".join(combo)
        a, b = html_escape(s), html_escape(s, attr=True)
        print(repr(s), repr(a), repr(b), a is s, b is s, repr(html_escape(a)), repr(html_escape(b, True)))
for combo in itertools.permutations(["&", "<", ">", '"', "'", "\r", "\n"], 4):
    s = "x".join(combo)
    print(repr(s), repr(html_escape(s)), repr(html_escape(s, True)))

long = "<a href=\"x\">&'\r\n</a>" * 200 + "tail"
print(len(html_escape(long)), len(html_escape(long, attr=True)), hash(html_escape(long, attr=True)) == hash(html_escape(long, True)))
clean = "no specials here " * 50
print(html_escape(clean) is clean, html_escape(clean, True) is clean)

# the attr flag is used for its truthiness
for flag in (True, False, 1, 0, None, "", "yes", [], [0], 2.0):
    show(f"flag {flag!r}", lambda: html_escape("<\"'>\n", flag))
show("kw only text", lambda: html_escape(text="<", attr=False))
show("no args", lambda: html_escape())

# str subclasses and non-str arguments
for v in (StrSub("plain"), StrSub("<b>")):
    for flag in (False, True):
        r = html_escape(v, flag)
        print(repr(v), flag, type(r).__name__, repr(r), r is v)
for v in (None, 5, 1.5, b"<b>", bytearray(b"&"), memoryview(b"<"), HTML("<h>"), HTML("plain"), ["<"], ("<",), object):
    for flag in (False, True):
        show(f"arg {type(v).__name__} {flag}", lambda: html_escape(v, flag))

# every use of it in rendering
N = "<i a=\"1\" b='2'>&amp; &\r\n</i>"
show("child", lambda: str(div(N)))
show("children", lambda: str(div(N, span(N), N)))
show("attr", lambda: str(div(title=N)))
show("attr html", lambda: str(div(title=HTML(N))))
show("attr joined", lambda: str(div({"class": N}, class_=HTML(N))))
show("concat", lambda: str(N + HTML(N) + N))
show("concat child", lambda: str(div(N + HTML(N) + N)))
show("script", lambda: str(tags.script(N)))
show("style", lambda: str(tags.style(N, N)))
show("add_class", lambda: str(div().add_class(N).add_class(HTML(N))))
show("numbers", lambda: str(div(1, 2.5, title=3)))
