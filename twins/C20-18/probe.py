from collections import OrderedDict, defaultdict

from htmltools import HTML, div
from htmltools._jsx import _serialize_style_attr, jsx, jsx_tag_create


def show(label, fn):
    try:
        res = fn()
        print(label, "->", repr(res))
    except BaseException as e:  # noqa
        print(label, "-> EXC", type(e).__name__, str(e))


class S(str):
    pass


class D(dict):
    pass


strings = [
    "", ";", ";;", ":", "::", ":;:", "a:b", "a:b;", ";a:b", "a:b;c:d", "a:b;c", "a;b;c",
    "a:b;a:c", "color: red; border: 1px solid", " a : b ; c : d ", "a:b:c", "a:b;c:d:e",
    "x;a:b:c", "a:", ":b", "a:;b:", "a:b\n;c:d", "a\n:b", 'q:"quoted"', "u:é", "a:b;;c:d",
    "background:url(http://x)", "a:b ; background:url(http://x)", "a=b", "a:b;c=d",
    "  ", "a:b;" * 3, "A:B;a:b", "a\\:b", "a:b\\;c:d", "\t:\t", "a:b;c:d;e:f;g:h",
]
for s in strings:
    show("style %r" % s, lambda: _serialize_style_attr(s))
    show("style S %r" % s, lambda: _serialize_style_attr(S(s)))
    show("style jsx %r" % s, lambda: _serialize_style_attr(jsx(s)))

others = [
    None, {}, {"a": "b"}, {"a": 1, "b": None, "c": [1, 2], "d": {"e": True}}, D(a=1),
    OrderedDict([("z", 1), ("a", 2)]), defaultdict(list, k=[1]), {1: 2}, {"k": jsx("f()")},
    {"k": div("x")}, 0, 1, True, False, 1.5, [], [("a", "b")], (("a", "b"),), (), b"a:b",
    HTML("a:b"), div(), object, {"a"}, frozenset(),
]
for o in others:
    show("style %s %r" % (type(o).__name__, o if not isinstance(o, type) else "cls"), lambda: _serialize_style_attr(o))

# through components (style on JSX components and on plain tags inside them)
Foo = jsx_tag_create("Foo")
for s in ["a:b;c:d", "", "a:b:c", None, {"x": 1}, 5, jsx("a:b")]:
    show("Foo style %r" % (s,), lambda: str(Foo(style=s)))
    show("Foo style+more %r" % (s,), lambda: str(Foo("c", a=1, style=s, z=2)))
show("div style", lambda: str(Foo(div(style="color:red;x:y"))))
show("div style 3", lambda: str(Foo(div(style="a:b:c"))))
show("prop tag style", lambda: str(Foo(p=div(style="a:b"))))
show("style_", lambda: str(Foo(style_="a:b")))
show("Style", lambda: str(Foo(Style="a:b")))
