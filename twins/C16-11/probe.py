# Probe for refactoring 1: add_class / add_style through the shared merge helper.
from htmltools import HTML, Tag, TagList, css, div, span, tags


def show(label, fn):
    try:
        r = fn()
        print(label, "->", repr(r))
    except Exception as e:  # noqa: BLE001
        print(label, "-> EXC", type(e).__name__, str(e))


def state(t):
    return (t.name, list(t.attrs.items()), [type(v).__name__ for v in t.attrs.values()], str(t))


class_values = ["a", "b c", "", " ", "a", "<x>", 'q"r', None, True, False, 5, 2.5, HTML("h&"), HTML(""), ["l"], b"by"]
style_values = ["color:red;", "color:red", "", ";", " ; ", HTML("top:1px;"), HTML("top:1px"), HTML("<&>;"),
                "a:'b';", None, True, False, 7, 1.5, ["x;"], b"x;", css(font_size="1px", marginTop=3)]
starts = [
    lambda: div(),
    lambda: div(class_="x"),
    lambda: div(class_="x y  x"),
    lambda: div(class_=HTML("raw&")),
    lambda: div(style="top:0;"),
    lambda: div(style=HTML("top:0;")),
    lambda: div({"class": "k", "style": "s:1;"}, id="i", class_="k2"),
    lambda: span("kid", class_="", style=""),
    lambda: Tag("custom", {"class": True}, style=True),
]

for si, mk in enumerate(starts):
    for prepend in (False, True):
        for v in class_values:
            t = mk()
            before = state(t)

            def run(t=t, v=v, prepend=prepend):
                r = t.add_class(v, prepend=prepend)
                return r is t

            show(f"add_class[{si}] {v!r} prepend={prepend}", run)
            print("   ", state(t), "unchanged" if state(t) == before else "changed")
        for v in style_values:
            t = mk()
            before = state(t)

            def run(t=t, v=v, prepend=prepend):
                r = t.add_style(v, prepend=prepend)
                return r is t

            show(f"add_style[{si}] {v!r} prepend={prepend}", run)
            print("   ", state(t), "unchanged" if state(t) == before else "changed")

# default prepend, positional misuse, chaining, interaction with has_class / remove_class
t = div(id="z")
show("chain", lambda: state(t.add_class("a").add_class("b", prepend=True).add_style("x:1;").add_style("y:2;", prepend=True).add_class("a")))
show("has a", lambda: t.has_class("a"))
show("has c", lambda: t.has_class("c"))
show("rm a", lambda: state(t.remove_class("a")))
show("positional prepend class", lambda: div().add_class("a", True))
show("positional prepend style", lambda: div().add_style("a;", True))
show("truthy prepend", lambda: state(div(class_="a").add_class("b", prepend=1)))
show("falsy prepend", lambda: state(div(class_="a").add_class("b", prepend=0)))
show("truthy prepend style", lambda: state(div(style="a;").add_style("b;", prepend="yes")))
show("key order", lambda: state(div(id="1", style="s;", title="t").add_class("c").add_style("q;")))
show("key order2", lambda: state(div(class_="c", id="1").add_style("q;", prepend=True).add_class("d", prepend=True)))
show("html mix", lambda: state(div(class_="a<").add_class(HTML("<b>")).add_class("c&", prepend=True)))
show("html mix style", lambda: state(div(style=HTML("a:'<';")).add_style("b:\"&\";").add_style(HTML("c:&;"), prepend=True)))
show("css none", lambda: div().add_style(css()))
show("css out", lambda: state(div().add_style(css(a=1, bC="x", d_e=None))))
show("no helper leaked into dir", lambda: [n for n in ("add_class", "add_style", "has_class", "remove_class") if callable(getattr(Tag, n))])
show("tag fn", lambda: state(tags.p("x", class_="m").add_class("n")))
show("taglist untouched", lambda: str(TagList(div(class_="a").add_class("b"))))
