# Probe for refactoring 3: HTML.__add__ / HTML.__radd__.
import itertools
from htmltools import HTML, TagList, div, span, tags

LOG = []


def show(label, thunk):
    del LOG[:]
    try:
        out = thunk()
        print(label, "->", type(out).__name__, repr(out), "| log:", LOG)
    except BaseException as e:  # noqa
        print(label, "-> EXC", type(e).__name__, str(e)[:90], "| log:", LOG)


class S(str):
    pass


class LoudHTML(HTML):
    def __init__(self, html, name="loud"):
        super().__init__(html)
        self.name_ = name

    def as_string(self):
        LOG.append(("as_string", self.name_))
        return super().as_string()


class Loud:
    def __init__(self, s, name="obj"):
        self.s = s
        self.name = name

    def __str__(self):
        LOG.append(("str", self.name))
        if isinstance(self.s, BaseException):
            raise self.s
        return self.s


class Meta(type):
    def __instancecheck__(cls, inst):
        return super().__instancecheck__(inst)


class Sneaky:
    # __class__ lookups are visible: shows when isinstance() runs
    @property
    def __class__(self):
        LOG.append("__class__")
        return Sneaky.__mro__[0]

    def __str__(self):
        LOG.append("str sneaky")
        return "<sneaky>"


RAW = ["", "a", "<b>", "&amp;", "&", "x'y\"z", "\r\n", "<i>&lt;</i>"]

# two operands, every kind
kinds = {
    "s": lambda v: v,
    "h": lambda v: HTML(v),
    "S": lambda v: S(v),
    "hS": lambda v: HTML(S(v)),
}
for (k1, f1), (k2, f2) in itertools.product(kinds.items(), repeat=2):
    for a, b in itertools.product(RAW, repeat=2):
        x, y = f1(a), f2(b)
        show(f"{k1}{k2} {a!r}+{b!r}", lambda: x + y)

# three operands, every grouping, and equality with adjacent children
for a, b, c in itertools.product(["<a>&", "p'q", ""], repeat=3):
    for mask in itertools.product([0, 1], repeat=3):
        if not any(mask):
            continue
        ops = [HTML(v) if m else v for v, m in zip((a, b, c), mask)]
        label = f"{mask} {a!r},{b!r},{c!r}"

        def left():
            return (ops[0] + ops[1]) + ops[2]

        def right():
            return ops[0] + (ops[1] + ops[2])

        show("L " + label, left)
        show("R " + label, right)
        show("children " + label, lambda: span(*ops).get_html_string())
        if mask[0] or mask[1]:
            show("L as child " + label, lambda: span(left()).get_html_string())
        if mask[1] or mask[2]:
            show("R as child " + label, lambda: span(right()).get_html_string())
            show("R as attr " + label, lambda: span(title=right()).get_html_string())
            show("R in script " + label, lambda: tags.script(right()).get_html_string())

# += and sum-like accumulation
def acc():
    h = HTML("")
    for piece in ["<", HTML("<"), 1, 2.5, None, True, S("&")]:
        h += piece
    return h


show("iadd", acc)


def racc():
    h = "<plain>"
    h += HTML("<raw>")
    h += "<plain2>"
    return h


show("iadd from str", racc)
show("sum", lambda: sum([HTML("<a>"), "<b>", HTML("<c>")], HTML("")))
show("sum start 0", lambda: sum([HTML("<a>"), "<b>"]))
show("join", lambda: HTML(", ").join(["<a>", "<b>"]))

# non-string operands
others = [0, 1, -2.5, None, True, b"<b>", ["<l>"], ("<t>",), {"<k>": "<v>"}, div("<d>"), TagList("<t>", HTML("<u>")), object]
for o in others:
    show(f"HTML + {type(o).__name__}", lambda: HTML("<h>") + o)
    show(f"{type(o).__name__} + HTML", lambda: o + HTML("<h>"))

# direct dunder calls (no dispatch)
show("__add__ html", lambda: HTML("<a>").__add__(HTML("<b>")))
show("__add__ str", lambda: HTML("<a>").__add__("<b>"))
show("__radd__ html", lambda: HTML("<a>").__radd__(HTML("<b>")))
show("__radd__ str", lambda: HTML("<a>").__radd__("<b>"))
show("__add__ no arg", lambda: HTML("<a>").__add__())
show("__radd__ no arg", lambda: HTML("<a>").__radd__())
show("result is new", lambda: (lambda h: (h + "") is h)(HTML("<a>")))
show("result data type", lambda: type((HTML(S("<a>")) + S("b")).data).__name__)

# order of side effects / exceptions
show("loud + loud", lambda: LoudHTML("<1>", "one") + LoudHTML("<2>", "two"))
show("loud + str", lambda: LoudHTML("<1>", "one") + "<s>")
show("str + loud", lambda: "<s>" + LoudHTML("<1>", "one"))
show("loud + obj", lambda: LoudHTML("<1>", "one") + Loud("<o>"))
show("obj + loud", lambda: Loud("<o>") + LoudHTML("<1>", "one"))
show("loud + raising obj", lambda: LoudHTML("<1>", "one") + Loud(ValueError("boom")))
show("raising obj + loud", lambda: Loud(KeyError("boom")) + LoudHTML("<1>", "one"))
show("loud + obj str->int", lambda: LoudHTML("<1>", "one") + Loud(5))
show("obj str->int + loud", lambda: Loud(5) + LoudHTML("<1>", "one"))
show("loud + sneaky", lambda: LoudHTML("<1>", "one") + Sneaky())
show("sneaky + loud", lambda: Sneaky() + LoudHTML("<1>", "one"))
show("loud.__radd__(loud)", lambda: LoudHTML("<1>", "one").__radd__(LoudHTML("<2>", "two")))
show("subclass result type", lambda: type(LoudHTML("<1>") + "x").__name__)
h = LoudHTML("<1>", "nodata")
del h.data
show("no data + str", lambda: h + "x")
show("str + no data", lambda: Loud("<o>") + h)
show("html + no data", lambda: HTML("a") + h)
