# Probe for refactoring 2: TagList.get_html_string branch restructuring.
import itertools
from htmltools import Tag, TagList, HTML, HTMLDependency, div, span, tags, MetadataNode

LOG = []


def show(label, f):
    try:
        print(label, "->", repr(f()))
    except Exception as e:  # noqa: BLE001
        print(label, "-> EXC", type(e).__name__, str(e)[:90])


class Repr:
    def __init__(self, s):
        self.s = s

    def _repr_html_(self):
        LOG.append(("repr", self.s))
        return self.s


class Tagif:
    def tagify(self):
        LOG.append("tagify")
        return div("from tagif")


class Both:
    def tagify(self):
        LOG.append("both.tagify")
        return span("both")

    def _repr_html_(self):
        LOG.append("both.repr")
        return "<i>both-as-html</i>"


class BadRepr:
    def _repr_html_(self):
        LOG.append("badrepr")
        raise KeyError("boom")


class Meta(MetadataNode):
    pass


dep = HTMLDependency("d", "1.0", head="<x/>")


def raw_list(*items):
    tl = TagList()
    tl.data = list(items)
    return tl


pool = {
    "str": "a <&> b",
    "empty": "",
    "html": HTML("<b>&</b>"),
    "block": div("blk", span("s")),
    "inline": span("inl", _add_ws=False),
    "repr": Repr("<r>&</r>"),
    "meta": Meta(),
    "dep": dep,
    "void": tags.br(),
}

# all ordered pairs and a selection of triples
names = list(pool)
for a, b in itertools.product(names, repeat=2):
    tl = raw_list(pool[a], pool[b])
    for add_ws in (True, False):
        for esc in (True, False):
            show(f"{a},{b} ws={add_ws} esc={esc}",
                 lambda: tl.get_html_string(2, "\n", add_ws=add_ws, _escape_strings=esc))
for a, b, c in itertools.product(["str", "block", "inline", "repr", "meta", "html"], repeat=3):
    tl = raw_list(pool[a], pool[b], pool[c])
    show(f"{a},{b},{c}", lambda: tl.get_html_string())
    show(f"{a},{b},{c} i1 eol=|", lambda: tl.get_html_string(1, "|", add_ws=False))

show("empty list", lambda: TagList().get_html_string(3, "X"))
show("defaults", lambda: TagList("a", div("b"), "c").get_html_string())
show("in tag", lambda: str(div("a", Repr("<q>"), span("b"), "c", HTML("<h>"))))
show("in inline tag", lambda: str(span("a", Repr("<q>"), div("b"), "c", _add_ws=False)))
show("script", lambda: str(tags.script("a<b", "c&d", HTML("<e>"))))
show("style", lambda: str(tags.style("a<b", Repr("x>y"), "c&d")))
show("nested", lambda: div(div(div("x", "y"), "z"), "w").get_html_string(1, "\r\n"))

# non-tagified objects
LOG.clear()
show("tagifiable raises", lambda: raw_list("a", Tagif(), "b").get_html_string())
show("tagifiable after repr", lambda: raw_list(Repr("r1"), Tagif()).get_html_string())
show("both -> repr wins", lambda: raw_list("a", Both(), div("x")).get_html_string())
show("both in render", lambda: str(TagList("a", Both())))
show("nested taglist data", lambda: raw_list("a", TagList("b")).get_html_string())
show("bad repr", lambda: raw_list(Repr("ok"), BadRepr(), Repr("never")).get_html_string())
print("LOG", LOG)

# invalid arguments / invalid members: order of side effects and exception types
LOG.clear()
show("indent str, add_ws", lambda: raw_list(Repr("r")).get_html_string("i", "\n"))
print("LOG", LOG)
LOG.clear()
show("indent str, no ws", lambda: raw_list(Repr("r"), "s").get_html_string("i", "\n", add_ws=False))
print("LOG", LOG)
show("indent None str child", lambda: raw_list("s").get_html_string(None))
show("indent float after block", lambda: raw_list(span("x", _add_ws=False), "s", div(), "t").get_html_string(1.5))
show("indent bool", lambda: raw_list("s", div("d")).get_html_string(True))
show("indent negative", lambda: raw_list("s", div("d", "e", "f")).get_html_string(-2))
show("eol None", lambda: raw_list("s", "t").get_html_string(0, None))
show("eol None single", lambda: raw_list("s").get_html_string(0, None))
show("int member esc", lambda: raw_list("a", 5).get_html_string())
show("int member noesc", lambda: raw_list("a", 5).get_html_string(_escape_strings=False))
show("None member", lambda: raw_list(None).get_html_string(_escape_strings=False))
show("bytes member", lambda: raw_list(b"x").get_html_string())
show("list member", lambda: raw_list(["x"]).get_html_string(_escape_strings=False))


class S(str):
    def __radd__(self, other):
        return "RADD(" + other + "|" + str(self) + ")"


show("str subclass noesc", lambda: raw_list("p", S("q"), "r").get_html_string(_escape_strings=False))
show("str subclass esc", lambda: raw_list("p", S("q<"), "r").get_html_string())
show("render dict", lambda: TagList("a", dep, div(Repr("<z>"))).render())
