"""Probe for refactoring 4: _walk_attrs_and_children (the tree walker used by JSXTag.tagify)."""
import copy
import sys

from htmltools import HTML, HTMLDependency, Tag, TagList, div, span, tags
from htmltools._jsx import JSXTag, JSXTagAttrDict, _walk_attrs_and_children, jsx, jsx_tag_create


def show(label, fn):
    try:
        out = fn()
        print(label, "->", repr(out))
    except BaseException as e:  # noqa: BLE001
        print(label, "-> EXC", type(e).__name__, str(e)[:120])


def brief(x):
    if isinstance(x, JSXTag):
        return f"JSX:{x.name}"
    if isinstance(x, Tag):
        return f"Tag:{x.name}"
    if isinstance(x, HTMLDependency):
        return f"Dep:{x.name}"
    if isinstance(x, (str, int, float, type(None), bool)):
        return repr(x)
    return type(x).__name__


def tree(x):
    if isinstance(x, JSXTag):
        return ("JSX", x.name, [(k, tree(v)) for k, v in x.attrs.items()], [tree(c) for c in x.children])
    if isinstance(x, Tag):
        return ("Tag", x.name, list(x.attrs.items()), [tree(c) for c in x.children])
    return brief(x)


class Widget:
    def __init__(self, label): self.label = label
    def tagify(self): return div("W" + self.label)


def recording(log, mode):
    def fn(x):
        log.append(brief(x))
        if mode == "identity":
            return x
        if mode == "copy":
            return copy.copy(x)
        if mode == "upper":
            return x.upper() if type(x) is str else copy.copy(x)
        if mode == "tagify":
            if hasattr(x, "tagify") and not isinstance(x, (Tag, JSXTag)):
                return x.tagify()
            return copy.copy(x)
        if mode == "str->tag":
            return span(x) if type(x) is str and x.startswith("!") else copy.copy(x)
        if mode == "jsx->str":
            return "was-" + x.name if isinstance(x, JSXTag) and x.name == "Gone" else copy.copy(x)
        raise AssertionError(mode)
    return fn


class StrSub(str):
    pass


Foo = jsx_tag_create("Foo")
Bar = jsx_tag_create("Bar")
dep = HTMLDependency("d", "1.0")


def cases():
    return {
        "str": "plain",
        "empty-str": "",
        "strsub": StrSub("sub"),
        "jsx-expr": jsx("a + b"),
        "int": 3, "none": None, "float": 1.5, "bool": True,
        "list": ["a", div("b")],
        "dict": {"k": div("b")},
        "html": HTML("<b>"),
        "dep": dep,
        "widget": Widget("x"),
        "taglist": TagList("a", div("b")),
        "tag-empty": div(),
        "tag": div("a", span("b", "c", class_="k"), "d", dep, id="i"),
        "jsx-empty": Foo(),
        "jsx": Foo("a", Bar("b", p="q"), div("c", Bar()), dep, s="str", n=1, t=span("in-prop"), j=Bar("deep", z=div("zz")), l=[div("notwalked")], w=Widget("p"), e=jsx("expr")),
        "jsx-widgets": Foo(Widget("1"), div(Widget("2")), Bar(Widget("3"), w=Widget("4"))),
        "bang": Foo("!a", "b", p="!c", q=Bar("!d")),
        "gone": Foo(JSXTag("Gone", "x"), k=JSXTag("Gone"), m=JSXTag("Kept", "!y")),
    }


for mode in ["identity", "copy", "upper", "tagify", "str->tag", "jsx->str"]:
    for label, x in cases().items():
        log = []
        def run(x=x, log=log, mode=mode):
            r = _walk_attrs_and_children(x, recording(log, mode))
            return tree(r), (r is x), type(r).__name__
        show(f"{mode:9s} {label}", run)
        print("    visited:", log)

# original untouched when fn copies
def untouched():
    inner = Bar("b", p=div("pp"))
    t = Foo("a", inner, div("c", span("e")), k=span("s"))
    before = tree(t)
    ids = [id(c) for c in t.children] + [id(v) for v in t.attrs.values()]
    r = _walk_attrs_and_children(t, recording([], "upper"))
    return before == tree(t), ids == [id(c) for c in t.children] + [id(v) for v in t.attrs.values()], tree(r)
show("untouched", untouched)

# identity fn walks in place and returns the same objects
def inplace():
    t = Foo("a", div("b"), k=span("s"))
    r = _walk_attrs_and_children(t, lambda x: x)
    return r is t, tree(t)
show("inplace", inplace)

# fn raising part-way
def raising():
    seen = []
    def fn(x):
        seen.append(brief(x))
        if x == "boom":
            raise ValueError("boom")
        return copy.copy(x)
    try:
        _walk_attrs_and_children(Foo("a", div("boom", "never"), "never2", p="first"), fn)
    finally:
        print("    seen:", seen)
show("raising", raising)

# attrs dict holding a key that bypassed normalisation
def bypass():
    t = Foo("a", ok=1)
    dict.__setitem__(t.attrs, "raw_key", div("v"))
    return tree(_walk_attrs_and_children(t, lambda x: x))
show("bypass-unnormalised-key", bypass)

# an object that is both a Tag and a JSXTag: treated as a Tag (children only)
class Both(Tag, JSXTag):
    pass
def both():
    b = Both.__new__(Both)
    b.name = "Both"; b.attrs = JSXTagAttrDict(p="attr"); b.children = TagList("kid", div("k2"))
    log = []
    r = _walk_attrs_and_children(b, recording(log, "identity"))
    return log, r is b
show("both", both)

# object exposing tagify only through __getattr__
class Lazy:
    def __getattr__(self, name):
        if name == "tagify":
            return lambda: div("lazy")
        raise AttributeError(name)
def lazy():
    log = []
    r = _walk_attrs_and_children(Foo(Lazy(), p=Lazy()), recording(log, "tagify"))
    return tree(r), log
show("lazy", lazy)

# end to end
show("e2e", lambda: str(Foo("a", Bar("b", p=div("q", dep)), Widget("w"), k=[1], s=span("s"))))

# depth: how deep a nest can be walked under a fixed recursion limit
def nest(n, kind):
    t = "leaf"
    for i in range(n):
        t = div(t) if kind == "tag" or (kind == "mixed" and i % 2) else JSXTag("N", t)
    return t
def max_depth(kind):
    old = sys.getrecursionlimit()
    lo, hi = 1, 400
    try:
        while lo < hi:
            mid = (lo + hi + 1) // 2
            t = nest(mid, kind)
            sys.setrecursionlimit(300)
            try:
                _walk_attrs_and_children(t, lambda x: x)
                ok = True
            except RecursionError:
                ok = False
            finally:
                sys.setrecursionlimit(old)
            if ok: lo = mid
            else: hi = mid - 1
    finally:
        sys.setrecursionlimit(old)
    return lo
for kind in ["tag", "jsx", "mixed"]:
    show("max-depth " + kind, lambda: max_depth(kind))
def max_depth_attr():
    old = sys.getrecursionlimit()
    best = 0
    for n in range(1, 400):
        t = "leaf"
        for _ in range(n):
            t = JSXTag("N", p=t)
        sys.setrecursionlimit(300)
        try:
            _walk_attrs_and_children(t, lambda x: x); best = n
        except RecursionError:
            break
        finally:
            sys.setrecursionlimit(old)
    return best
show("max-depth attr", max_depth_attr)
