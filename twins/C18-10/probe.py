"""Probe for refactoring 5: HTMLTextDocument._static_extract_serialized_html_deps."""
import htmltools
from htmltools import (
    HTML,
    HTMLDependency,
    HTMLTextDocument,
    TagList,
    div,
    head_content,
    tags,
)


def show(label, fn):
    try:
        res = fn()
    except BaseException as e:  # noqa: BLE001
        print(label, "-> EXC", type(e).__name__, str(e)[:100])
    else:
        print(label, "->", repr(res))


def dep_desc(d):
    return (
        d.name,
        str(d.version),
        d.source,
        d.script,
        d.stylesheet,
        d.meta,
        d.all_files,
        None if d.head is None else d.head.get_html_string(),
    )


extract = HTMLTextDocument._static_extract_serialized_html_deps


def run(html):
    out, deps = extract(html)
    return (out, type(out).__name__, type(deps).__name__, [dep_desc(d) for d in deps])


a = HTMLDependency("a", "1.0", source={"subdir": "x"}, script={"src": "a.js"}, all_files=True)
a2 = HTMLDependency("a", "2.0", source={"href": "http://h/"}, stylesheet={"href": "a.css"})
b = HTMLDependency("b", "0.1", meta={"name": "n", "content": "c"}, head=TagList(tags.title("B</script>x"), "t"))
hc = head_content(tags.title("T"))
sa, sa2, sb, shc = (str(d.serialize_to_script_json()) for d in (a, a2, b, hc))
sa_indented = str(a.serialize_to_script_json(indent=2))
OPEN = '<script type="application/json" data-html-dependency="">'

inputs = {
    "empty": "",
    "no deps": "<html><body><script>1</script></body></html>",
    "one": "<p>x</p>" + sa + "<p>y</p>",
    "two distinct": sa + "mid" + sb,
    "duplicates": sa + "1" + sb + "2" + sa + "3" + sa2 + "4" + sb + "5" + shc + shc,
    "order = first occurrence": sb + sa + sb + sa2 + sa,
    "same dep, different text": sa + sa_indented,
    "multiline payload": sa_indented + "\r\n" + sa_indented,
    "adjacent": sa + sa + sa,
    "other script types untouched": '<script type="application/json">{"a": 1}</script>' + sa,
    "attribute order differs (no match)": '<script data-html-dependency="" type="application/json">{}</script>',
    "unterminated": OPEN + '{"name": "q", "version": "1"}',
    "nested-looking": OPEN + OPEN + '{"name": "q", "version": "1"}</script></script>',
    "empty payload": OPEN + "</script>",
    "not json": "x" + OPEN + "nope</script>y",
    "json but not object": OPEN + "[1, 2]</script>",
    "json missing fields": OPEN + '{"name": "q"}</script>',
    "json unknown field": OPEN + '{"name": "q", "version": "1", "zzz": 1}</script>',
    "valid then invalid": sa + OPEN + "nope</script>",
    "invalid twice": OPEN + "nope</script>" + OPEN + "nope</script>",
    "uppercase tag (no match)": sa.replace("script", "SCRIPT"),
    "unicode": "é" + str(HTMLDependency("ü中", "1", head="<!-- é\U0001f600 -->").serialize_to_script_json()) + "中",
}
for label, html in inputs.items():
    show("extract " + label, lambda: run(html))

show("extract HTML obj", lambda: run(HTML(sa)))
show("extract bytes", lambda: run(sa.encode()))
show("extract None", lambda: run(None))

# history independence: same call again, and after unrelated calls
first = run(inputs["duplicates"])
run(inputs["unicode"])
print("repeatable:", first == run(inputs["duplicates"]))
o1, d1 = extract(inputs["one"])
o2, d2 = extract(inputs["one"])
print("fresh objects:", d1 is not d2, d1[0] is not d2[0], d1 == d2)

# Through the constructor / render
tmpl = "<html><head>@@</head><body>" + sb + "<p>text</p>" + sa + sb + sa2 + "</body></html>"
for deps in (None, [], [hc], [a2, hc]):
    def go():
        doc = HTMLTextDocument(tmpl, deps=None if deps is None else list(deps), deps_replace_pattern="@@")
        r = doc.render()
        return (r["html"], [(d.name, str(d.version)) for d in r["dependencies"]], [(d.name, str(d.version)) for d in doc._deps])
    show("textdoc deps=%r" % (None if deps is None else [d.name for d in deps],), go)
show("textdoc bad payload", lambda: HTMLTextDocument(inputs["not json"], deps_replace_pattern="@@"))

# Round trip with the json render mode used by Quarto
htmltools.html_dependency_render_mode = "json"
try:
    text = str(div("hello", a, b, a, hc))
finally:
    htmltools.html_dependency_render_mode = "invisible"
show("json-mode text", lambda: text)
show("json-mode extract", lambda: run(text))
