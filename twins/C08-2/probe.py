# Probe for refactoring 2: TagList.tagify / Tag.tagify / TagList.render / Tag.render.
import copy

from htmltools import HTML, HTMLDependency, MetadataNode, Tag, TagList, div, span, tags
from htmltools import head_content

LOG = []


def show(label, value):
    print(f"{label}: {value!r}")


def attempt(label, fn):
    try:
        show(label, fn())
    except Exception as e:  # noqa: BLE001
        print(f"{label}: raised {type(e).__name__}: {e}")


def dep(name="dep", version="1.0"):
    return HTMLDependency(name, version, source={"href": "https://x.test/" + name},
                          script={"src": name + ".js"})


class W:
    """Tagifiable returning whatever it was given."""

    def __init__(self, label, result):
        self.label = label
        self.result = result

    def tagify(self):
        LOG.append(self.label)
        r = self.result
        return r() if callable(r) else r


class MetaW(MetadataNode):
    """Both a MetadataNode and Tagifiable: the Tagifiable branch must win."""

    def __init__(self, label):
        self.label = label

    def tagify(self):
        LOG.append("meta:" + self.label)
        return span("from-meta-" + self.label)


class PlainMeta(MetadataNode):
    def __init__(self):
        self.payload = ["p"]

    def __copy__(self):
        LOG.append("copy-plainmeta")
        new = PlainMeta()
        new.payload = list(self.payload)
        return new


class ReprOnly:
    def _repr_html_(self):
        return "<i>repr-only</i>"


class Boom:
    def tagify(self):
        LOG.append("boom")
        raise KeyError("boom in tagify")


d1, d2 = dep("d1", "1.0"), dep("d1", "2.0")
pm = PlainMeta()

cases = {
    "empty": lambda: TagList(),
    "text only": lambda: TagList("a", HTML("<b>"), "c"),
    "tags": lambda: TagList(div("a"), span("b", span("c"))),
    "dep": lambda: TagList(d1, div(d2, "x"), d1),
    "widget->tag": lambda: TagList("pre", W("w1", div("W1")), "post"),
    "widget->str": lambda: TagList(W("w2", "just <text>"), W("w3", HTML("<raw/>"))),
    "widget->empty list": lambda: TagList("a", W("w4", TagList()), "b"),
    "widget->list1": lambda: TagList("a", W("w5", TagList(span("one"))), "b"),
    "widget->list3": lambda: TagList(W("w6", TagList("x", span("y"), d1)), "z",
                                      W("w7", TagList("p", "q"))),
    "widget->list w/ widget": lambda: TagList(W("w8", lambda: TagList(W("inner", "i"), "t"))),
    "widget->tag w/ widget": lambda: TagList(W("w9", lambda: div(W("inner2", "i2")))),
    "widget->dep": lambda: TagList(W("w10", d2), "t"),
    "widget->plainmeta": lambda: TagList(W("w11", pm)),
    "adjacent widgets": lambda: TagList(W("a1", "1"), W("a2", TagList("2", "2b")),
                                        W("a3", TagList()), W("a4", "4")),
    "meta+tagifiable": lambda: TagList(MetaW("m1"), "x", MetaW("m2")),
    "plain meta": lambda: TagList(pm, "x", pm),
    "repr-only": lambda: TagList(ReprOnly(), "x"),
    "nested deep": lambda: TagList(div(div(div(W("deep", TagList("d1", span("d2"))), d1)))),
    "head_content": lambda: TagList(head_content(tags.title("T")), div("b")),
    "widget->None": lambda: TagList(W("n", None), "x"),
    "widget->int": lambda: TagList(W("i", 5), "x"),
    "widget->list": lambda: TagList(W("l", ["a", "b"]), "x"),
    "boom": lambda: TagList("a", W("after", "A"), Boom(), W("before", "B")),
}


def structure(x, depth=0):
    """Structural dump not relying on rendering."""
    if isinstance(x, Tag):
        return ("Tag", x.name, x.add_ws, dict(x.attrs), structure(x.children))
    if isinstance(x, TagList):
        return ("TagList", [structure(c) for c in x])
    if isinstance(x, HTMLDependency):
        return ("Dep", x.name, str(x.version))
    if isinstance(x, (str, HTML)):
        return (type(x).__name__, str(x))
    return ("obj", type(x).__name__)


for name, make in cases.items():
    for wrap in ("list", "tag"):
        label = f"[{name}/{wrap}]"
        del LOG[:]
        orig = make() if wrap == "list" else div(make(), id="outer")
        before = structure(orig)
        attempt(label + " tagify", lambda: structure(orig.tagify()))
        show(label + " log", list(LOG))
        show(label + " orig unchanged", structure(orig) == before)
        del LOG[:]

        def check():
            t = orig.tagify()
            kids_o = orig if wrap == "list" else orig.children
            kids_t = t if wrap == "list" else t.children
            return (
                type(t).__name__,
                t is orig,
                kids_t is kids_o,
                kids_t.data is kids_o.data,
                len(kids_t),
                [any(a is b for b in kids_o) and not isinstance(a, str) for a in kids_t],
            )

        attempt(label + " identity", check)
        attempt(label + " fixed point", lambda: orig.tagify().tagify() == orig.tagify())
        attempt(label + " eq orig", lambda: orig.tagify() == orig)
        del LOG[:]
        attempt(label + " render", lambda: orig.render())
        show(label + " render log", list(LOG))
        attempt(label + " render x2 same", lambda: orig.render() == orig.render())
        attempt(label + " str", lambda: str(orig))
        attempt(label + " repr==str==_repr_html_", lambda: repr(orig) == str(orig) == orig._repr_html_() == orig.render()["html"])
        attempt(label + " deps", lambda: [repr(x) + str(x.version) for x in orig.render()["dependencies"]])
        attempt(label + " render keys", lambda: list(orig.render().keys()))

# Mutating the tagified result never affects the original and vice versa
orig = div(span("a", d1, id="s"), d1, "t", W("mw", lambda: span("made")), class_="c")
t = orig.tagify()
t.children[0].append("added")
t.children[0].attrs["id"] = "changed"
t.children[1].name = "renamed-dep"
t.add_class("x")
t.append("more")
show("orig after mutating tagified", structure(orig))
show("tagified", structure(t))
show("d1 name", d1.name)
orig.children[0].add_class("o")
orig.insert(0, "first")
show("tagified after mutating orig", structure(t))

# Dependency copies compare equal by value but are distinct objects
tl = TagList(d1, div(d2))
tt = tl.tagify()
show("dep copies", (tt[0] is d1, tt[0] == d1, tt[1].children[0] is d2, tt[1].children[0] == d2))

# TagList subclass / Tag subclass keep their type through tagify
class MyList(TagList):
    pass


class MyTag(Tag):
    pass


show("subclass types", (type(MyList("a", W("s", "b")).tagify()).__name__,
                        type(MyTag("x", W("s2", "b")).tagify()).__name__,
                        type(MyTag("x", W("s3", "b")).tagify().children).__name__))
