# Probe for refactoring 3: attribute writer of Tag.get_html_string (_attrs_to_html)
from collections import OrderedDict
from htmltools import HTML, HTMLDependency, HTMLDocument, Tag, TagList, div, span, tags
from htmltools._core import TagAttrDict


def show(label, fn):
    try:
        r = fn()
        print(label, "->", type(r).__name__, repr(r))
    except BaseException as e:  # noqa
        print(label, "-> EXC", type(e).__name__)


class MyHTML(HTML):
    def __str__(self):
        return "[" + self.as_string() + "]"


nasty = "a\"b'c<d>e&f\rg\nh"
vals = ["", "v", nasty, HTML(""), HTML("v"), HTML(nasty), MyHTML("<m>"), 1, 2.5, True, False, None, "&amp;", "tab\there"]

for v in vals:
    show(f"one {v!r}", lambda: div(title=v).get_html_string())
    show(f"void {v!r}", lambda: tags.img(src=v, alt="x").get_html_string())
    show(f"two {v!r}", lambda: span({"a": v}, b=v, a=HTML("<>")).get_html_string(indent=2, eol="\r\n"))

# no attributes / many attributes / order
show("none", lambda: div().get_html_string())
show("none void", lambda: tags.br().get_html_string(3))
show("many", lambda: div(**{f"k{i}": f"<{i}>" for i in range(12)}).get_html_string())
show("order", lambda: div(OrderedDict([("z", "1"), ("a", "2")]), m="3").get_html_string())

# children variants around the attribute string
kids = [(), ("t<",), (HTML("<r>"),), ("a", "b"), (span("x", id="'"),), (div(div("deep", title='"'), lang="\n"),), (None,), ([],), (HTMLDependency("d", "1.0", source={"subdir": "."}),)]
for ks in kids:
    for ws in (True, False):
        show(f"kids {len(ks)} {ws}", lambda: Tag("div", *ks, _add_ws=ws, id="<i>", title=HTML("&t;")).get_html_string(indent=1))
        show(f"kids script {len(ks)} {ws}", lambda: Tag("script", *ks, _add_ws=ws, type="a'b").get_html_string())
        show(f"kids void {len(ks)} {ws}", lambda: Tag("hr", *ks, _add_ws=ws, class_="c\"").get_html_string())

# attrs replaced by other mapping types, or filled behind TagAttrDict's back
t = div("x")
t.attrs = {"plain": "<dict>", "h": HTML("<h>")}
show("plain dict attrs", lambda: t.get_html_string())
t.attrs = OrderedDict([("b", "'"), ("a", '"')])
show("ordered dict attrs", lambda: str(t))
t.attrs = None
show("attrs None", lambda: t.get_html_string())
t.attrs = [("a", "b")]
show("attrs list", lambda: t.get_html_string())
t = div("x", ok="1")
dict.__setitem__(t.attrs, "n", 5)
show("raw int value", lambda: t.get_html_string())
t = div("x", ok="1")
dict.__setitem__(t.attrs, "n", None)
show("raw None value", lambda: t.get_html_string())
t = div("x", ok="1")
dict.__setitem__(t.attrs, "n", b"<")
show("raw bytes value", lambda: t.get_html_string())
t = div("x")
dict.__setitem__(t.attrs, 7, "seven'")
dict.__setitem__(t.attrs, None, HTML("<none>"))
dict.__setitem__(t.attrs, ("t", 1), "tuple")
show("raw odd keys", lambda: t.get_html_string())
t = div("x", a="1")
t.name = None
show("name None", lambda: t.get_html_string())
t.name = 5
dict.__setitem__(t.attrs, "n", 5)
show("name int and bad value", lambda: t.get_html_string())
t.name = "we ird>"
show("odd name bad value", lambda: t.get_html_string())
dict.__delitem__(t.attrs, "n")
show("odd name", lambda: t.get_html_string())

# whole-document / other entry points
show("str", lambda: str(div(span("a", title="'"), "b", data_x=nasty)))
show("repr", lambda: repr(tags.a("l", href="?a=1&b=2")))
show("repr_html", lambda: tags.input(value=nasty, disabled=True)._repr_html_())
show("render", lambda: div(title=nasty).render())
show("taglist", lambda: TagList(div(id="<1>"), "x", span(id=HTML("<2>"))).get_html_string(indent=1, eol="|"))
dep = HTMLDependency("n<a>me", "1.0", source={"subdir": "s"}, script={"src": "a'b.js", "data-x": '"q"'}, stylesheet={"href": "s&t.css"}, meta={"name": "m\n", "content": "<c>"}, head="<raw>")
show("dep tags", lambda: str(dep.as_html_tags()))
show("doc", lambda: HTMLDocument(div("x", dep, title=nasty), lang="e'n").render()["html"])
