"""Deterministic probe for HTMLDocument / dependency hoisting (property C11)."""
import os
import tempfile

import htmltools
from htmltools import (
    HTML,
    HTMLDependency,
    HTMLDocument,
    HTMLTextDocument,
    Tag,
    TagList,
    head_content,
    tags,
)
from htmltools import _core


def show(label, fn):
    try:
        res = fn()
    except BaseException as e:  # noqa: BLE001
        print(f"[{label}] EXC {type(e).__name__}: {e}")
        return
    print(f"[{label}] {res!r}")


def rendered(doc, **kw):
    r = doc.render(**kw)
    return (list(r.keys()), r["html"], [repr(d) for d in r["dependencies"]])


dep_a1 = HTMLDependency(
    "a", "1.1", source={"subdir": "libA"}, script={"src": "a 1.js", "defer": ""},
    stylesheet=[{"href": "a.css"}, {"href": "b c.css", "media": "print"}],
    meta={"name": "viewport", "content": "width=device-width"},
    head="<link rel='x'>",
)
dep_a2 = HTMLDependency("a", "1.2", source={"subdir": "libA2"}, script=[{"src": "a2.js"}])
dep_a0 = HTMLDependency("a", "1.0", source={"subdir": "libA0"}, script=[{"src": "a0.js"}])
dep_b = HTMLDependency(
    "b", "2.0", source={"href": "https://cdn.example.com/b"},
    script=[{"src": "b.js"}, {"src": "sub/b2.js", "type": "module"}],
    head=TagList(tags.title("T"), tags.style("p > a {}")),
)
dep_c = HTMLDependency("c", "0.1")
dep_pkg = HTMLDependency(
    "p", "3", source={"package": "htmltools", "subdir": "lib/x"}, stylesheet={"href": "p.css"}
)
dep_badpkg = HTMLDependency(
    "q", "3", source={"package": "no_such_package_xyz", "subdir": "s"}, script={"src": "q.js"}
)
hc1 = head_content(tags.title("hello"), tags.meta(name="k", content="v"))
hc2 = head_content(tags.title("hello"), tags.meta(name="k", content="v"))
hc3 = head_content(HTML("<!-- c -->"))


class Tagi:
    def __init__(self, out):
        self.out = out

    def tagify(self):
        return self.out


class WeirdName:
    """name is not a str"""


cases = {
    "empty": lambda: HTMLDocument(),
    "empty_attrs": lambda: HTMLDocument(lang="en", class_="x y", data_a=True, hidden=None),
    "text": lambda: HTMLDocument("a < b", HTML("<b>raw</b>"), 3, 2.5),
    "div": lambda: HTMLDocument(tags.div("x", dep_a1, tags.span(dep_b, "y")), lang="en"),
    "two_tags": lambda: HTMLDocument(tags.h1("H"), tags.p("P", dep_c)),
    "body_sole": lambda: HTMLDocument(tags.body(tags.p("in body", dep_a1), class_="bd"), lang="fr"),
    "body_plus": lambda: HTMLDocument(tags.body("b"), "tail"),
    "two_bodies": lambda: HTMLDocument(tags.body("b1"), tags.body("b2")),
    "body_plus_dep": lambda: HTMLDocument(tags.body("b"), dep_c),
    "html_sole": lambda: HTMLDocument(
        tags.html(tags.head(tags.title("mine"), tags.meta(name="z", content="1")),
                  tags.body("B", dep_a1, dep_b), id="root"),
        lang="de", id="other",
    ),
    "html_nohead": lambda: HTMLDocument(tags.html(tags.body("B", dep_c))),
    "html_dep_first": lambda: HTMLDocument(tags.html(dep_b, tags.head(tags.title("t")), tags.body("x"))),
    "html_two_heads": lambda: HTMLDocument(
        tags.html(tags.head(tags.title("h1")), tags.head(tags.title("h2")), tags.body(dep_c))
    ),
    "html_nested_head": lambda: HTMLDocument(tags.html(tags.body(tags.head("inner"), dep_c))),
    "html_head_text": lambda: HTMLDocument(tags.html("txt", tags.head("t"), "more")),
    "html_plus": lambda: HTMLDocument(tags.html(tags.body("x")), "after"),
    "html_in_list": lambda: HTMLDocument(TagList(tags.html(tags.body("x", dep_c)))),
    "head_sole": lambda: HTMLDocument(tags.head(tags.title("lonely"))),
    "HTML_upper": lambda: HTMLDocument(Tag("HTML", Tag("body", "x"))),
    "BODY_upper": lambda: HTMLDocument(Tag("BODY", "x")),
    "dedupe": lambda: HTMLDocument(dep_a1, tags.div(dep_a2, dep_b, tags.p(dep_a0, dep_c)), dep_b),
    "dedupe_rev": lambda: HTMLDocument(dep_b, dep_a2, dep_a1, dep_a0, dep_c),
    "same_ver": lambda: HTMLDocument(
        HTMLDependency("s", "1.0", head="<i>first</i>"), HTMLDependency("s", "1.0", head="<i>second</i>")
    ),
    "only_deps": lambda: HTMLDocument(dep_c, dep_b),
    "head_content": lambda: HTMLDocument(tags.div(hc1, "x", hc2), hc3),
    "pkg_dep": lambda: HTMLDocument(tags.div(dep_pkg)),
    "bad_pkg_dep": lambda: HTMLDocument(tags.div(dep_badpkg)),
    "tagifiable_html": lambda: HTMLDocument(Tagi(tags.html(tags.body("t", dep_c)))),
    "tagifiable_body": lambda: HTMLDocument(Tagi(tags.body("t", dep_c))),
    "tagifiable_list": lambda: HTMLDocument(Tagi(TagList(tags.body("t"), "z"))),
    "tagifiable_list1": lambda: HTMLDocument(Tagi(TagList(tags.html(tags.body("t"))))),
    "tagifiable_str": lambda: HTMLDocument(Tagi("just text")),
    "tagifiable_nested": lambda: HTMLDocument(tags.div(Tagi(tags.span(dep_b, Tagi(dep_c))))),
    "tagifiable_empty": lambda: HTMLDocument(Tagi(TagList())),
    "tagifiable_dep": lambda: HTMLDocument(Tagi(dep_c)),
    "none_children": lambda: HTMLDocument(None, [None, [tags.p("deep")]], dep_c),
    "script_style": lambda: HTMLDocument(tags.script("a < b && c"), tags.style("p>a{}")),
    "inline_ws": lambda: HTMLDocument(tags.span("a", tags.b("c"), "d"), tags.div(tags.span("e"))),
}

for label, mk in cases.items():
    for kw in ({}, {"lib_prefix": None}, {"lib_prefix": "my/lib", "include_version": False},
               {"lib_prefix": ""}):
        show(f"{label} {sorted(kw.items())}", lambda: rendered(mk(), **kw))

# _gen_html_tag_tree / _hoist_head_content directly
for label, mk in cases.items():
    show(f"tree {label}", lambda: str(mk()._gen_html_tag_tree("lib", include_version=True)))

show("hoist non-html", lambda: HTMLDocument._hoist_head_content(tags.div("x"), "lib", True))
show("hoist non-html body", lambda: HTMLDocument._hoist_head_content(tags.body("x"), None, False))


def no_mutation():
    head = tags.head(tags.title("orig"))
    html = tags.html(head, tags.body("x", dep_a1, dep_b))
    before = (str(html), str(head), len(html.children), len(head.children))
    out = HTMLDocument._hoist_head_content(html, "lib", True)
    after = (str(html), str(head), len(html.children), len(head.children))
    return (before == after, out is html, out.children[0] is head, str(out))


show("hoist no mutation", no_mutation)


def doc_reuse():
    body = tags.body("x", dep_c)
    doc = HTMLDocument(body, lang="en")
    r1 = doc.render()["html"]
    doc.append(tags.p("more"), dep_b)
    r2 = doc.render()["html"]
    r3 = doc.render()["html"]
    return (r1, r2, r2 == r3, str(body))


show("doc reuse", doc_reuse)


def user_html_not_mutated():
    h = tags.html(tags.head(tags.title("u")), tags.body("x", dep_c), id="a")
    doc = HTMLDocument(h, lang="en", id="b")
    r = doc.render()["html"]
    return (r, str(h), dict(h.attrs), dict(doc._html_attr_args))


show("user html not mutated", user_html_not_mutated)

# Dependency building blocks
for d in (dep_a1, dep_a2, dep_b, dep_c, dep_pkg, hc1, hc3):
    for kw in ({}, {"lib_prefix": None}, {"lib_prefix": "L", "include_version": False}):
        show(f"as_html_tags {d!r} {sorted(kw.items())}", lambda: str(d.as_html_tags(**kw)))
        show(f"as_html_tags type/len {d!r}",
             lambda: (type(d.as_html_tags(**kw)).__name__, len(d.as_html_tags(**kw)),
                      [type(c).__name__ for c in d.as_html_tags(**kw)]))

        def as_dict_no_path():
            res = d.as_dict(**kw)
            if d is dep_pkg:
                return list(res.keys()), res["head"], res["meta"], res["script"]
            return res

        show(f"as_dict {d!r} {sorted(kw.items())}", as_dict_no_path)
show("as_html_tags badpkg", lambda: str(dep_badpkg.as_html_tags()))
show("as_dict badpkg", lambda: dep_badpkg.as_dict())
show("as_dict no mutation", lambda: (dep_a1.as_dict() and None, dep_a1.script, dep_a1.stylesheet, dep_a1.meta))
show("dep no subdir", lambda: HTMLDependency("n", "1", source={"package": "htmltools"},
                                              script={"src": "x.js"}).as_dict())
show("dep untagified head", lambda: HTMLDependency("u", "1", head=Tagi(tags.p("x"))).as_html_tags())
show("doc dep untagified head",
     lambda: rendered(HTMLDocument(HTMLDependency("u", "1", head=Tagi(tags.p("x"))))))
show("dep script non-str src", lambda: HTMLDependency("u", "1", source={"subdir": "s"},
                                                      script={"src": 5}).as_dict())

# Resolution order
R = _core._resolve_dependencies
show("resolve empty", lambda: R([]))
show("resolve order", lambda: R([dep_c, dep_a1, dep_b, dep_a2, dep_a0, dep_c]))
show("resolve identity", lambda: [x is y for x, y in zip(R([dep_a0, dep_b, dep_a2, dep_a1]), [dep_a2, dep_b])])
s1 = HTMLDependency("s", "1.0", head="1")
s2 = HTMLDependency("s", "1.0.0", head="2")
show("resolve equal versions keeps first", lambda: R([s1, s2])[0] is s1)
show("resolve 1.10 vs 1.9", lambda: R([HTMLDependency("v", "1.9"), HTMLDependency("v", "1.10")]))
show("resolve bad item", lambda: R([dep_c, "str"]))
tl = TagList(dep_a1, tags.div(dep_a2, tags.p(dep_b)), "txt", dep_a0)
show("get_dependencies dedup", lambda: tl.get_dependencies())
show("get_dependencies nodedup", lambda: tl.get_dependencies(dedup=False))
show("get_dependencies dedup=0", lambda: tl.get_dependencies(dedup=0))
show("get_dependencies dedup='x'", lambda: tl.get_dependencies(dedup="x"))
show("tag get_dependencies", lambda: (tags.div(tl).get_dependencies(), tags.div(tl).get_dependencies(False)))
show("empty get_dependencies", lambda: (TagList().get_dependencies(), TagList().get_dependencies(dedup=False)))

# HTMLTextDocument shares the metadata-script logic
tmpl = "<html><head>@@</head><body>x</body></html>"
show("textdoc", lambda: HTMLTextDocument(tmpl, deps=[dep_a1, dep_b], deps_replace_pattern="@@").render())
show("textdoc nodeps", lambda: HTMLTextDocument(tmpl, deps=[], deps_replace_pattern="@@").render())
show("textdoc none", lambda: HTMLTextDocument(tmpl, deps_replace_pattern="@@").render(lib_prefix=None))
show("textdoc serialized",
     lambda: HTMLTextDocument(tmpl + str(dep_c.serialize_to_script_json()) + str(dep_b.serialize_to_script_json()),
                              deps_replace_pattern="@@").render(lib_prefix="q", include_version=False))

# Non-str dependency names
odd = HTMLDependency(5, "1.0")  # type: ignore[arg-type]
show("odd name doc", lambda: rendered(HTMLDocument(tags.div(odd))))
show("odd name textdoc", lambda: HTMLTextDocument(tmpl, deps=[odd], deps_replace_pattern="@@").render())
show("odd name tags", lambda: str(odd.as_html_tags()))

# save_html
def save():
    with tempfile.TemporaryDirectory() as d:
        f = os.path.join(d, "out.html")
        ret = HTMLDocument(tags.div("x", dep_b, hc1), lang="en").save_html(f)
        with open(f) as fh:
            return (ret == f, fh.read(), sorted(os.listdir(d)))


show("save_html", save)
show("tag.render", lambda: tags.div("x", dep_a1, tags.p(dep_a2)).render())
show("taglist.render", lambda: TagList("x", dep_a1, tags.p(dep_b)).render())

# Mixed / incomparable versions and hash-less names
show("resolve int version", lambda: R([HTMLDependency("w", "1.0"), HTMLDependency("w", 2)]))  # type: ignore[arg-type]
show("resolve int version first", lambda: R([HTMLDependency("w", 2), HTMLDependency("x", "1")]))  # type: ignore[arg-type]
show("resolve unhashable name", lambda: R([HTMLDependency(["l"], "1.0")]))  # type: ignore[arg-type]
show("doc int version", lambda: rendered(HTMLDocument(HTMLDependency("w", 2), tags.p("x"))))  # type: ignore[arg-type]
show("resolve three-way", lambda: [d.head for d in R([
    HTMLDependency("m", "1.0", head="a"), HTMLDependency("n", "1", head="b"),
    HTMLDependency("m", "2.0", head="c"), HTMLDependency("m", "1.5", head="d"),
    HTMLDependency("m", "2.0", head="e"), HTMLDependency("n", "0.9", head="f")])])


class MyTag(Tag):
    pass


show("subclass html", lambda: rendered(HTMLDocument(MyTag("html", MyTag("head", "h"), MyTag("body", dep_c)))))
show("subclass body", lambda: rendered(HTMLDocument(MyTag("body", dep_c, "z"), lang="en")))
show("subclass type kept", lambda: [
    type(c).__name__ for c in
    HTMLDocument(MyTag("html", MyTag("head", "h"), MyTag("body", dep_c)))._gen_html_tag_tree(None, False).children])
show("tree type", lambda: (type(HTMLDocument(MyTag("html"))._gen_html_tag_tree(None, False)).__name__,
                            type(HTMLDocument("x")._gen_html_tag_tree(None, False)).__name__))
show("html attrs merge", lambda: rendered(HTMLDocument(tags.html(class_="a", lang="x"), class_="b", lang="y")))
show("frag attrs class list", lambda: rendered(HTMLDocument("x", class_="b", style=None, data_x=False)))
