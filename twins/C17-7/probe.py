"""Probe for C17 / refactoring 2: Tag.__init__ / __enter__ / __exit__ (hook save, restore, hand-over)."""
import sys

from htmltools import HTML, TagList, div, span, tags, wrap_displayhook_handler
from htmltools._core import MetadataNode

out = []


def show(label, value):
    print(f"{label}: {value}")


class Repr:
    def __init__(self, s):
        self.s = s

    def _repr_html_(self):
        return self.s


class Tagifiable:
    def tagify(self):
        return span("tagified")


class Both:
    def tagify(self):
        return span("both")

    def _repr_html_(self):
        return "<i>both-html</i>"


class EqAll:
    """Compares equal to everything (so it is `in (None, ...)`)."""

    def __eq__(self, other):
        return True

    __hash__ = None


class EqRaises:
    def __eq__(self, other):
        raise ValueError("ambiguous")


class Meta(MetadataNode):
    pass


class NoneSub:
    def __eq__(self, other):
        return other is None


def desc(x):
    from htmltools import Tag

    if isinstance(x, (str, HTML, Tag, TagList, int, float, list, tuple, dict, bytes)):
        return f"{type(x).__name__}:{str(x)!r}"
    return type(x).__name__


# ---- 1. the wrapper in isolation -------------------------------------------
seen = []
w = wrap_displayhook_handler(seen.append)
values = [
    None,
    ...,
    Ellipsis,
    "text",
    "",
    0,
    1,
    2.5,
    True,
    False,
    HTML("<b>x</b>"),
    div("a"),
    TagList("p", "q"),
    TagList(),
    Repr("<u>r</u>"),
    Tagifiable(),
    Both(),
    EqAll(),
    NoneSub(),
    Meta(),
    [1, 2],
    (),
    {"a": 1},
    object,
    NotImplemented,
    b"bytes",
]
for v in values:
    before = len(seen)
    try:
        r = w(v)
        new = seen[before:]
        show(
            f"wrap({type(v).__name__})",
            f"ret={r!r} n={len(new)} " + ",".join(desc(x) for x in new),
        )
    except Exception as e:
        show(f"wrap({type(v).__name__})", f"EXC {type(e).__name__}: {e}")
try:
    w(EqRaises())
    show("wrap(EqRaises)", "no exc")
except Exception as e:
    show("wrap(EqRaises)", f"EXC {type(e).__name__}: {e}")

# wrapper passes identical objects for pass-through values
d = div("same")
seen.clear()
w(d)
show("identity kept", seen[0] is d)
r = Repr("<x>")
seen.clear()
w(r)
show("repr -> HTML", (type(seen[0]).__name__, str(seen[0])))


# handler that raises propagates
def bad(v):
    raise KeyError("bad handler")


wb = wrap_displayhook_handler(bad)
for v in [None, ..., "x", Repr("r"), div()]:
    try:
        wb(v)
        show(f"bad({type(v).__name__})", "no exc")
    except Exception as e:
        show(f"bad({type(v).__name__})", f"EXC {type(e).__name__}")

# ---- 2. context manager -----------------------------------------------------
top = []
orig = sys.displayhook
base = top.append
sys.displayhook = base
try:
    outer = div(id="outer")
    inner = span(id="inner")
    with outer:
        h_outer = sys.displayhook
        show("hook replaced", h_outer is not base)
        sys.displayhook("a")
        sys.displayhook(None)
        sys.displayhook(...)
        sys.displayhook(1)
        sys.displayhook(2.5)
        sys.displayhook(Repr("<em>e</em>"))
        sys.displayhook(["l1", None, ("l2", [3])])
        with inner:
            show("inner hook differs", sys.displayhook is not h_outer)
            sys.displayhook("in1")
            sys.displayhook(HTML("<hr>"))
            sys.displayhook(Tagifiable())
            sys.displayhook(EqAll())
            try:
                sys.displayhook(object())
            except TypeError as e:
                show("invalid", f"TypeError: {e}")
            try:
                sys.displayhook({"a": 1})
            except TypeError as e:
                show("invalid dict", f"TypeError: {e}")
            try:
                sys.displayhook(b"b")
            except TypeError as e:
                show("invalid bytes", f"TypeError: {e}")
            sys.displayhook("in2")
        show("restored to outer", sys.displayhook is h_outer)
        show("inner prev cleared", inner.prev_displayhook is None)
        sys.displayhook("z")
    show("restored to base", sys.displayhook == base)
    show("top", [str(x) for x in top])
    show("top is outer", len(top) == 1 and top[0] is outer)
    show("outer html", repr(str(outer)))
    show("inner children", [type(c).__name__ for c in inner.children])

    # exception inside the block
    top.clear()
    t = div()
    try:
        with t:
            sys.displayhook("before")
            raise ZeroDivisionError("boom")
    except ZeroDivisionError as e:
        show("exc propagated", repr(e))
    show("after exc hook", sys.displayhook == base)
    show("after exc top", [str(x) for x in top])
    show("after exc prev", t.prev_displayhook)

    # nested exception
    top.clear()
    a, b, c = div(id="a"), div(id="b"), div(id="c")
    try:
        with a:
            with b:
                with c:
                    sys.displayhook("deep")
                    raise IndexError("deep")
    except IndexError:
        pass
    show("nested exc hook", sys.displayhook == base)
    show("nested exc", repr(str(top[0])) if len(top) == 1 else top)

    # re-entry
    top.clear()
    t = div(id="re")
    try:
        with t:
            hk = sys.displayhook
            try:
                with t:
                    show("re-entered", "unexpected")
            except RuntimeError as e:
                show("re-entry", f"RuntimeError: {e}")
            show("chain intact", sys.displayhook is hk)
            show("prev intact", t.prev_displayhook == base)
            sys.displayhook("still works")
    finally:
        pass
    show("re-entry after", (sys.displayhook == base, [str(x) for x in top]))

    # reuse after exit
    top.clear()
    with t:
        sys.displayhook("second time")
    show("reuse", [str(x) for x in top])

    # tag functions from `tags`
    top.clear()
    with tags.ul():
        with tags.li():
            sys.displayhook("one")
        with tags.li():
            sys.displayhook("two")
    show("ul", repr(str(top[0])))

    # __enter__ returns None
    t = div()
    with t as got:
        pass
    show("as-target", got)

    # ---- 3. direct calls of the dunder methods -----------------------------
    from copy import copy

    top.clear()
    t = div(id="manual")
    show("fresh prev", t.prev_displayhook)
    show("instance dict keys", sorted(t.__dict__))
    show("enter ret", t.__enter__())
    show("prev is base", t.prev_displayhook == base)
    for _ in range(3):
        try:
            t.__enter__()
        except RuntimeError as e:
            show("manual re-entry", str(e))
    show("prev still base", t.prev_displayhook == base)
    cp = copy(t)
    show("copy prev kept", cp.prev_displayhook == base)
    try:
        cp.__enter__()
    except RuntimeError as e:
        show("copy re-entry", type(e).__name__)
    sys.displayhook("m1")
    show("exit ret", t.__exit__(None, None, None))
    show("manual", (sys.displayhook == base, [str(x) for x in top], t.prev_displayhook))

    # exit of the copy (which shares the children list? no: shallow copied TagList)
    top.clear()
    show("copy exit ret", cp.__exit__(None, None, None))
    show("copy exit", (sys.displayhook == base, [str(x) for x in top], cp.prev_displayhook))

    # exit without enter: previous hook is None
    t = div(id="noenter")
    try:
        t.__exit__(None, None, None)
        show("exit w/o enter", "no exc")
    except Exception as e:
        show("exit w/o enter", f"{type(e).__name__}: {e}")
    show("hook after exit w/o enter", sys.displayhook)
    sys.displayhook = base

    # enclosing hook raises when handed the tag: hook still restored first
    def angry(v):
        raise LookupError(f"angry about {type(v).__name__}")

    sys.displayhook = angry
    t = div(id="angry")
    try:
        with t:
            sys.displayhook("kid")
    except LookupError as e:
        show("angry", str(e))
    show("angry restored", (sys.displayhook is angry, t.prev_displayhook, str(t)))
    # body raises AND the enclosing hook raises
    try:
        with t:
            raise OSError("body")
    except Exception as e:
        show("angry+body", (type(e).__name__, type(e.__context__).__name__))
    show("angry restored 2", (sys.displayhook is angry, t.prev_displayhook))
    sys.displayhook = base

    # hook swapped by the body: exit still restores the hook saved at entry
    top.clear()
    t = div(id="swap")
    other = []
    with t:
        sys.displayhook = other.append
        sys.displayhook("lost")
    show("swap", (sys.displayhook == base, [str(x) for x in top], other))

    # the error message is stable and a plain str
    t = div()
    t.__enter__()
    try:
        t.__enter__()
    except RuntimeError as e:
        show("args", (e.args, type(e.args[0]).__name__))
    t.__exit__(None, None, None)

    # subclass with a tagify override still works as a context manager
    from htmltools import Tag

    class MyTag(Tag):
        pass

    top.clear()
    with MyTag("x-y", {"data-a": "1"}, "k0", _add_ws=False):
        sys.displayhook("k1")
    show("subclass", (type(top[0]).__name__, str(top[0])))
    show("class annotations has name", "name" in Tag.__annotations__)
finally:
    sys.displayhook = orig
