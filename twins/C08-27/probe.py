"""Probe for HTMLDocument._hoist_head_content (directly and through render/save_html)."""
import os
import tempfile

from htmltools import HTML, HTMLDependency, HTMLDocument, Tag, TagList, div, span, tags

hoist = HTMLDocument._hoist_head_content


def show(label, fn):
    try:
        print(label, "->", repr(fn()))
    except Exception as e:  # noqa: BLE001
        print(label, "!!", type(e).__name__, str(e)[:90])


def dep(name="d", version="1.0", **kw):
    kw.setdefault("source", {"href": "/lib/" + str(name)})
    return HTMLDependency(name, version, **kw)


def snapshot(t):
    return str(t), [id(c) for c in t.children], dict(t.attrs)


def run(label, x, lib_prefix="lib", include_version=True):
    before = snapshot(x)
    kids_before = [snapshot(c) if isinstance(c, Tag) else repr(c) for c in x.children]
    try:
        res = hoist(x, lib_prefix, include_version)
    except Exception as e:  # noqa: BLE001
        print(label, "!!", type(e).__name__, str(e)[:90])
        print(label, "input untouched after error:", snapshot(x) == before)
        return None
    print(label, "->", repr(str(res)))
    print(label, "input untouched:", snapshot(x) == before,
          kids_before == [snapshot(c) if isinstance(c, Tag) else repr(c) for c in x.children])
    print(label, "res is x:", res is x, "children shared:", res.children is x.children,
          "shared nodes:", [any(c is o for o in x.children) for c in res.children])
    again = hoist(x, lib_prefix, include_version)
    print(label, "repeatable:", str(again) == str(res), again == res)
    return res


d1 = dep("alpha", "1.2", script={"src": "a.js"}, stylesheet={"href": "a b.css"})
d2 = dep("beta", "0.1", meta={"name": "viewport", "content": "w"}, head="<title>T</title>")
d1_new = dep("alpha", "1.10", script=[{"src": "n.js", "defer": ""}])
pkg = HTMLDependency("pk", "3", source={"subdir": "/tmp/nowhere/x"}, script={"src": "s.js"})

# no <head> at all / empty html
run("no-head", Tag("html", Tag("body", "hi")))
run("empty", Tag("html"))
# head present, first / not first / with content / two heads
run("head-first", Tag("html", Tag("head", tags.title("t")), Tag("body", "b", d1)))
run("head-later", Tag("html", d2, "text", Tag("head", tags.title("t"), d1), Tag("body", d1_new)))
run("two-heads", Tag("html", Tag("head", "one"), Tag("head", "two"), Tag("body", d2)))
run("head-nested-only", Tag("html", Tag("body", Tag("head", "inner"), d1)))
run("head-attrs", Tag("html", Tag("head", {"data-x": "1"}, _add_ws=False), lang="en"))
# dependencies: dedup, versions, several, inside head, options
run("deps", Tag("html", Tag("head"), Tag("body", d1, div(d2, span(d1_new)), d1)))
run("no-version", Tag("html", Tag("body", d1, pkg)), "static/lib", False)
run("no-prefix", Tag("html", Tag("body", d1, pkg)), None, True)
run("empty-prefix", Tag("html", Tag("body", pkg)), "", True)
# not an html tag
run("wrong-tag", Tag("body", "x"))
run("wrong-case", Tag("HTML", "x"))
# non-string dependency name makes the label fail
badname = dep(7, "1")
run("bad-name", Tag("html", Tag("head", "keep"), Tag("body", badname)))
# stylesheet without href makes as_html_tags fail
badsheet = dep("bs", "1")
badsheet.stylesheet.append({"rel": "x"})
run("bad-sheet", Tag("html", Tag("body", d1, badsheet)))


# Tag subclass as <head>, html subclass
class MyTag(Tag):
    pass


r = run("subclass", MyTag("html", MyTag("head", "h"), Tag("body", d2)))
print("subclass types:", type(r).__name__, [type(c).__name__ for c in r.children])

# head child is the very same object twice
h = Tag("head", "same")
r = run("same-head-twice", Tag("html", h, h))
print("second still original:", r.children[1] is h, r.children[0] is h)

# --- through the public API -------------------------------------------------
doc = HTMLDocument(div("body text", d1, d2), tags.p(d1_new), lang="fr")
out1 = doc.render()
out2 = doc.render(lib_prefix=None, include_version=False)
print("render:", repr(out1["html"]))
print("render2:", repr(out2["html"]))
print("deps:", [(d.name, str(d.version)) for d in out1["dependencies"]])
print("render repeat:", doc.render() == out1, doc.render()["html"] == out1["html"])

full = HTMLDocument(Tag("html", Tag("body", "x", d2), Tag("head", tags.title("late"))), id="root")
print("full html:", repr(full.render()["html"]))
bodyonly = HTMLDocument(Tag("body", "only", d1, class_="c"))
print("body only:", repr(bodyonly.render()["html"]))
print("empty doc:", repr(HTMLDocument().render()["html"]))

with tempfile.TemporaryDirectory() as tmp:
    f = os.path.join(tmp, "index.html")
    HTMLDocument(div("saved", d2)).save_html(f)
    print("saved:", repr(open(f).read()), sorted(os.listdir(tmp)))
