# Probe for refactoring 5: _equals_impl (Tag/TagList/HTMLDependency ==),
# TagList.get_dependencies / _resolve_dependencies, _render_tag_or_taglist,
# HTMLDocument._gen_html_tag_tree / _hoist_head_content.
import copy
import os
import tempfile

import htmltools as ht
from htmltools import HTML, HTMLDependency, HTMLDocument, Tag, TagList, div, span, tags
from htmltools import head_content


def show(label, value):
    print(f"{label}: {value!r}")


def attempt(label, fn):
    try:
        show(label, fn())
    except Exception as e:  # noqa: BLE001
        print(f"{label}: raised {type(e).__name__}: {e}")


def dep(name="d", version="1.0", **kw):
    kw.setdefault("source", {"href": "https://x.test/" + name})
    kw.setdefault("script", {"src": name + ".js"})
    return HTMLDependency(name, version, **kw)


# ------------------------------------------------------------------ equality
class SubTag(Tag):
    pass


class SubList(TagList):
    pass


class Widget:
    def __init__(self, n):
        self.n = n

    def tagify(self):
        return span("w", self.n)

    def __eq__(self, other):
        return isinstance(other, Widget) and other.n == self.n


w = Widget(1)
objs = {
    "div()": div(),
    "div() again": div(),
    "span()": span(),
    "div(a)": div("a"),
    "div(a) again": div("a"),
    "div(b)": div("b"),
    "div(a,b)": div("a", "b"),
    "div(ab)": div("ab"),
    "div(HTML a)": div(HTML("a")),
    "div(id=1)": div(id="1"),
    "div(id=1) num": div(id=1),
    "div(id=2)": div(id="2"),
    "div(id=1,x=2)": div(id="1", x="2"),
    "div(x=2,id=1)": div(x="2", id="1"),
    "div(id=HTML 1)": div(id=HTML("1")),
    "div no ws": div(_add_ws=False),
    "div(span)": div(span("x")),
    "div(span) again": div(span("x")),
    "div(span y)": div(span("y")),
    "div(span no ws)": div(span("x", _add_ws=False)),
    "div(dep)": div(dep()),
    "div(dep) again": div(dep()),
    "div(dep v2)": div(dep(version="2.0")),
    "div(widget)": div(w),
    "div(widget eq)": div(Widget(1)),
    "div(widget ne)": div(Widget(2)),
    "SubTag div": SubTag("div"),
    "Tag div": Tag("div"),
    "TagList()": TagList(),
    "TagList() again": TagList(),
    "SubList()": SubList(),
    "TagList(a)": TagList("a"),
    "TagList(a) nested": TagList(["a"], None),
    "TagList(a,b)": TagList("a", "b"),
    "TagList(div a)": TagList(div("a")),
    "TagList(div a) again": TagList(div("a")),
    "TagList(1)": TagList(1),
    "TagList('1')": TagList("1"),
    "dep": dep(),
    "dep again": dep(),
    "dep v1.0.0": dep(version="1.0.0"),
    "dep v2": dep(version="2.0"),
    "dep other name": dep("e"),
    "dep w/ head": dep(head="<x>"),
    "dep w/ head again": dep(head="<x>"),
    "dep all_files": dep(all_files=True),
    "dep no source": HTMLDependency("d", "1.0"),
    "head_content": head_content("h"),
    "str a": "a",
    "HTML a": HTML("a"),
    "None": None,
    "int": 1,
    "list [a]": ["a"],
    "list []": [],
    "tuple": ("a",),
    "dict": {},
    "doc": HTMLDocument(div("a")),
}

keys = list(objs)
for a in keys:
    row_eq, row_ne = [], []
    for b in keys:
        try:
            row_eq.append("1" if objs[a] == objs[b] else "0")
        except Exception as e:  # noqa: BLE001
            row_eq.append("E:" + type(e).__name__)
        try:
            row_ne.append("1" if objs[a] != objs[b] else "0")
        except Exception as e:  # noqa: BLE001
            row_ne.append("E:" + type(e).__name__)
    print(f"eq {a:22s} {''.join(row_eq)}")
    print(f"ne {a:22s} {''.join(row_ne)}")

# extra / missing instance fields
a, b = div("x"), div("x")
a.extra = 1
show("extra field on left", (a == b, b == a))
b.extra = 1
show("extra field both", (a == b, b == a))
b.extra = 2
show("extra field differs", (a == b, b == a))
a, b = div("x"), div("x")
del b.add_ws
show("missing add_ws on right", (a == b, b == a))
a, b = div("x"), div("x")
a.prev_displayhook = print
show("displayhook differs", (a == b, b == a))
show("eq returns bool", [type(div() == div()).__name__, type(div() == 1).__name__,
                         type(TagList() == []).__name__, type(dep() == dep()).__name__])


class Raiser:
    def __eq__(self, other):
        raise ValueError("eq boom")

    def __ne__(self, other):
        raise ValueError("ne boom")


a, b = div("x"), div("x")
a.r = Raiser()
b.r = Raiser()
attempt("raising field", lambda: a == b)
attempt("raising field different kinds", lambda: a == TagList())
show("tagify eq", (div(span("a"), dep()).tagify() == div(span("a"), dep()),
                   TagList(span("a"), dep()).tagify() == TagList(span("a"), dep())))

# -------------------------------------------------------------- dependencies
a1, a2, a3 = dep("a", "1.0"), dep("a", "2.0"), dep("a", "1.5")
b1, b1b = dep("b", "1.0"), dep("b", "1.0", script={"src": "other.js"})
c1 = dep("c", "0.1")


def ids(deps):
    pool = {"a1": a1, "a2": a2, "a3": a3, "b1": b1, "b1b": b1b, "c1": c1}
    return [next(k for k, v in pool.items() if v is d) for d in deps]


trees = {
    "none": TagList("x", div("y")),
    "single": TagList(a1),
    "dup same": TagList(a1, a1),
    "newer later": TagList(a1, b1, a2),
    "newer first": TagList(a2, b1, a1),
    "middle": TagList(a1, a3, c1, a2, a3),
    "equal version keeps first": TagList(b1, b1b),
    "equal version keeps first rev": TagList(b1b, b1),
    "nested": TagList(div(a1, span(b1, div(a2))), c1, span(a3)),
    "deep then shallow": TagList(div(div(div(c1))), a1, div(c1, b1)),
}
for k, t in trees.items():
    attempt(f"deps {k} dedup", lambda: ids(t.get_dependencies()))
    attempt(f"deps {k} raw", lambda: ids(t.get_dependencies(dedup=False)))
    attempt(f"deps {k} tag", lambda: ids(div(t).get_dependencies()))
    attempt(f"deps {k} tag raw", lambda: ids(div(t).get_dependencies(dedup=False)))
    attempt(f"deps {k} tag positional", lambda: ids(div(t).get_dependencies(False)))
    attempt(f"deps {k} render", lambda: [d.name + str(d.version) for d in t.render()["dependencies"]])
    attempt(f"deps {k} result is fresh list", lambda: t.get_dependencies() is t.get_dependencies())
attempt("taglist dedup positional", lambda: TagList(a1).get_dependencies(False))

# Tag subclass overriding get_dependencies
class OddTag(Tag):
    def get_dependencies(self, dedup=True):
        return (a1, a2)


attempt("odd tag in list", lambda: ids(TagList(OddTag("p"), a3).get_dependencies()))
attempt("odd tag in doc", lambda: HTMLDocument(tags.html(OddTag("p"))).render()["html"])

# ----------------------------------------------------- _render_tag_or_taglist
t = div("a", a1, span(b1, head_content(tags.title("T"))))
for mode in ("files", "json", "files", "other"):
    ht.html_dependency_render_mode = mode
    attempt(f"mode {mode} tag", lambda: str(t))
    attempt(f"mode {mode} list", lambda: repr(TagList("x", t, c1)))
    attempt(f"mode {mode} nodeps", lambda: div("n")._repr_html_())
    attempt(f"mode {mode} empty list", lambda: str(TagList()))
    attempt(f"mode {mode} dep str", lambda: str(a1))
ht.html_dependency_render_mode = "files"


class ModeSwitcher:
    """Changes the global render mode while being tagified."""

    def tagify(self):
        ht.html_dependency_render_mode = "json"
        return span("switched")


attempt("mode switched during render", lambda: str(div(ModeSwitcher(), a1)))
show("mode now", ht.html_dependency_render_mode)
ht.html_dependency_render_mode = "files"

# ------------------------------------------------------------- HTMLDocument
hc = head_content(tags.title("HC"))
docs = {
    "empty": lambda: HTMLDocument(),
    "text": lambda: HTMLDocument("just text"),
    "div": lambda: HTMLDocument(div("a"), lang="en"),
    "two": lambda: HTMLDocument(div("a"), span("b")),
    "deps": lambda: HTMLDocument(div("a", a1, b1), a2, hc),
    "body": lambda: HTMLDocument(tags.body(div("a", a1), class_="bd"), lang="fr"),
    "body + other": lambda: HTMLDocument(tags.body("x"), "y"),
    "html no head": lambda: HTMLDocument(tags.html(tags.body("x", a1)), lang="de"),
    "html head first": lambda: HTMLDocument(tags.html(tags.head(tags.title("t")), tags.body("x", c1, hc))),
    "html head second": lambda: HTMLDocument(tags.html(a1, tags.head(tags.title("t")), tags.body("x"))),
    "html two heads": lambda: HTMLDocument(tags.html(tags.head("h1"), tags.head("h2"), tags.body("x", b1))),
    "html nested head": lambda: HTMLDocument(tags.html(tags.body(tags.head("inner")))),
    "html text first": lambda: HTMLDocument(tags.html("txt", tags.body("x"))),
    "html empty": lambda: HTMLDocument(tags.html()),
    "html attrs": lambda: HTMLDocument(tags.html(tags.body(), lang="a", class_="c"), lang="b", class_="d"),
    "html + other": lambda: HTMLDocument(tags.html(tags.body("x")), "tail"),
    "widget->html": lambda: HTMLDocument(type("W", (), {"tagify": lambda self: tags.html(tags.body("from widget", a1))})()),
    "widget->body": lambda: HTMLDocument(type("W", (), {"tagify": lambda self: tags.body("from widget")})()),
    "widget->list": lambda: HTMLDocument(type("W", (), {"tagify": lambda self: TagList(tags.body("b1"))})()),
    "HEAD upper": lambda: HTMLDocument(tags.html(Tag("HEAD"), tags.body("x"))),
    "list of html": lambda: HTMLDocument([tags.html(tags.body("x"))]),
    "subtag html": lambda: HTMLDocument(SubTag("html", tags.body("x"))),
}
for k, make in docs.items():
    doc = make()
    before = copy.deepcopy(doc._content)
    attempt(f"doc {k}", lambda: doc.render()["html"])
    attempt(f"doc {k} deps", lambda: [d.name + str(d.version) for d in doc.render()["dependencies"]])
    attempt(f"doc {k} opts", lambda: doc.render(lib_prefix=None, include_version=False)["html"])
    attempt(f"doc {k} repeat", lambda: doc.render() == doc.render())
    attempt(f"doc {k} content unchanged", lambda: doc._content == before)
    attempt(f"doc {k} tree type", lambda: type(doc._gen_html_tag_tree("lib", True)).__name__)

attempt("hoist non-html", lambda: HTMLDocument._hoist_head_content(div(), "lib", True))
h = tags.html(tags.head(tags.title("t")), tags.body("x", a1))
r = HTMLDocument._hoist_head_content(h, "lib", True)
show("hoist leaves arg", (str(h), r is h, r.children is h.children, r.children[0] is h.children[0],
                          r.children[1] is h.children[1]))
show("hoist result", str(r))

with tempfile.TemporaryDirectory() as tmp:
    f = os.path.join(tmp, "out.html")
    doc = HTMLDocument(div("saved", a1))
    res = doc.save_html(f)
    show("save_html returns arg", res == f)
    show("saved file", open(f).read())
    show("saved dir", sorted(os.listdir(tmp)))
    f2 = os.path.join(tmp, "t.html")
    div("via tag", b1).save_html(f2, libdir=None)
    show("tag save", open(f2).read())
    TagList("via list").save_html(f2, include_version=False)
    show("list save", open(f2).read())
