"""Deterministic probe for property C09 (tagifiable objects render as their expansion).

Prints repr() of outputs / exception types only; no addresses, no timing.
"""
import copy
import sys

import htmltools
from htmltools import (
    HTML,
    HTMLDependency,
    HTMLDocument,
    Tag,
    TagList,
    div,
    span,
    tags,
)
from htmltools._core import MetadataNode
from htmltools._jsx import JSXTag, jsx, jsx_tag_create

LOG = []


def show(label, fn):
    del LOG[:]
    try:
        res = fn()
        out = repr(res)
    except BaseException as e:  # noqa: BLE001
        out = "EXC " + type(e).__name__ + ": " + str(e)
    print("== " + label)
    print(out)
    if LOG:
        print("   log: " + repr(LOG))


def dep(name="d", version="1.0"):
    return HTMLDependency(name, version, source={"subdir": "/x"}, script={"src": name + ".js"})


def rendered(r):
    return (r["html"], [(d.name, str(d.version)) for d in r["dependencies"]])


class T:
    """Tagifiable returning whatever it is given."""

    def __init__(self, name, result):
        self.name = name
        self.result = result

    def tagify(self):
        LOG.append("tagify:" + self.name)
        r = self.result
        if callable(r):
            r = r()
        return r


class TR(T):
    """Both tagifiable and self-rendering."""

    def _repr_html_(self):
        LOG.append("repr_html:" + self.name)
        return "<r>" + self.name + "</r>"


class R:
    def __init__(self, name, ret=None):
        self.name = name
        self.ret = ret

    def _repr_html_(self):
        LOG.append("repr_html:" + self.name)
        if self.ret is not None:
            return self.ret
        return "<r>" + self.name + "</r>"


class Meta(MetadataNode):
    def __init__(self, name):
        self.name = name

    def __copy__(self):
        LOG.append("copy-meta:" + self.name)
        return Meta(self.name)


class BadTagify:
    def tagify(self):
        LOG.append("tagify:bad")
        raise KeyError("boom")


class LoggingTagList(TagList):
    def __setitem__(self, i, item):
        LOG.append("set:" + repr(i) + ":" + type(item).__name__)
        super().__setitem__(i, item)


def mk_cases():
    """Fresh trees each call (name -> tree)."""
    return [
        ("empty-taglist", TagList()),
        ("plain", TagList("a", div("b"), span("c"), "d")),
        ("t->tag", TagList("a", T("x", lambda: div("X")), "z")),
        ("t->inline-tag", TagList(span("a"), T("x", lambda: span("X")), span("z"))),
        ("t->str", TagList("a", T("x", "<&>"), "z")),
        ("t->html", TagList("a", T("x", HTML("<b>h</b>")), "z")),
        ("t->empty-taglist", TagList("a", T("x", lambda: TagList()), "z")),
        ("t->taglist3", TagList("a", T("x", lambda: TagList("p", div("q"), "r")), "z")),
        ("t->taglist-only", TagList(T("x", lambda: TagList("p", span("q")))),),
        ("t->dep", TagList("a", T("x", lambda: dep("dx", "2.0")), "z")),
        (
            "t->taglist-with-dep",
            TagList(T("x", lambda: TagList(dep("d1"), div("q", dep("d2", "3.1")))), dep("d1", "0.5")),
        ),
        ("t->meta", TagList("a", T("x", lambda: Meta("m")), Meta("n"), "z")),
        (
            "many-order",
            TagList(T("1", "one"), T("2", lambda: TagList("two", "TWO")), T("3", lambda: div("three")), T("4", lambda: TagList())),
        ),
        (
            "nested-in-tags",
            div(T("o", lambda: span(T("i", lambda: TagList("deep", dep("dd"))))), div(div(T("p", "P")))),
        ),
        ("t->t (one level only)", TagList(T("outer", lambda: T("inner", "never")))),
        ("t->taglist-with-t", TagList(T("outer", lambda: TagList("a", T("inner", "in"), "b")))),
        ("tr-both", TagList("a", TR("x", lambda: div("from-tagify")), "z")),
        ("repr-only", TagList(div("a"), R("r1"), "s", R("r2"), div("b"))),
        ("tag-root", div("a", T("x", lambda: TagList("p", div("q"))), id="root")),
        ("script", tags.script(T("x", "a<b"), "c<d")),
        ("style-one", tags.style(T("x", "a>b"))),
        ("void", tags.br(T("x", lambda: TagList()))),
        ("void-nonempty", tags.br(T("x", "k"))),
        ("bad", TagList("a", BadTagify(), T("after", "never?"))),
        ("bad-first", TagList(T("before", "yes"), BadTagify())),
    ]


def section_render():
    for name, tree in mk_cases():
        show("render " + name, lambda tree=tree: rendered(tree.render()))
    for name, tree in mk_cases():
        show("str " + name, lambda tree=tree: str(tree))
    for name, tree in mk_cases():
        show("tagify-twice " + name, lambda tree=tree: rendered(tree.tagify().tagify().render()))


def section_tagify_structure():
    def describe(x):
        if isinstance(x, Tag):
            return ("Tag", x.name, [describe(c) for c in x.children])
        if isinstance(x, TagList):
            return (type(x).__name__, [describe(c) for c in x])
        if isinstance(x, HTMLDependency):
            return ("Dep", x.name)
        if isinstance(x, (str, HTML)):
            return (type(x).__name__, str(x))
        return (type(x).__name__, getattr(x, "name", None))

    for name, tree in mk_cases():
        def run(tree=tree):
            before = describe(tree)
            t = tree.tagify()
            after = describe(tree)
            return (describe(t), before == after, t is tree)

        show("tagify " + name, run)

    # identity of copies
    m = Meta("keep")
    d = dep("same")
    tl = TagList(m, d, "s", div("x"))
    t = tl.tagify()
    show("copies", lambda: (t[0] is m, t[1] is d, t[1] == d, t[2] is tl[2], t[3] is tl[3], t[3] == tl[3]))

    # subclass keeps its class, and the writes it sees
    show(
        "logging-subclass",
        lambda: describe(
            LoggingTagList("a", T("x", lambda: TagList("p", "q")), Meta("m"), T("y", "Y"), T("e", lambda: TagList())).tagify()
        ),
    )
    show("logging-subclass-empty", lambda: describe(LoggingTagList().tagify()))
    show("logging-subclass-one", lambda: describe(LoggingTagList(T("y", lambda: div())).tagify()))


def section_untagified():
    trees = [
        ("top", TagList("a", T("x", "X"), "z")),
        ("nested", div(div(T("x", "X")))),
        ("after-text", TagList("emitted?", div("k"), T("x", "X"))),
        ("tr-both", TagList("a", TR("x", "X"), div(TR("y", "Y")))),
        ("repr-only", TagList("a", R("x"))),
        ("repr-nonstr", TagList("a", R("x", ret=5))),
        ("inline-ctx", span(span("a"), T("x", "X"))),
        ("script", tags.script("a", T("x", "X"))),
    ]
    for name, tree in trees:
        show("get_html_string " + name, lambda tree=tree: tree.get_html_string())
        show("get_html_string(2,'|') " + name, lambda tree=tree: tree.get_html_string(2, "|"))
    tl = TagList("a<", R("r"), span("s"), "b", div("d"), R("q"), HTML("<i>"), Meta("m"), "c")
    for kw in [
        dict(),
        dict(indent=3),
        dict(eol=""),
        dict(add_ws=False),
        dict(add_ws=False, indent=2, eol="\r\n"),
        dict(_escape_strings=False),
        dict(indent="x"),
        dict(indent="x", add_ws=False),
        dict(indent=None),
        dict(eol=None),
        dict(eol=None, add_ws=False),
        dict(indent=-1),
        dict(indent=True),
    ]:
        show("TagList.get_html_string " + repr(sorted(kw.items(), key=repr)), lambda kw=kw: tl.get_html_string(**kw))
    tl2 = TagList(T("x", "X"), R("never"))
    show("raise-before-indent-typeerror", lambda: tl2.get_html_string(indent="x"))
    tl3 = TagList(TR("x", "X"))
    show("tr indent typeerror order", lambda: tl3.get_html_string(indent="x"))
    tl4 = TagList(R("x"))
    show("r indent typeerror order", lambda: tl4.get_html_string(indent="x"))
    show("r no-ws indent typeerror skipped", lambda: tl4.get_html_string(indent="x", add_ws=False))
    show("int child smuggled", lambda: _smuggle(7).get_html_string())
    show("int child smuggled noescape", lambda: _smuggle(7).get_html_string(_escape_strings=False))
    show("None child smuggled", lambda: _smuggle(None).get_html_string())


def _smuggle(v):
    tl = TagList("a")
    tl.data.append(v)
    return tl


def section_document():
    def doc_cases():
        return [
            ("empty", HTMLDocument()),
            ("fragment", HTMLDocument("a", div("b"))),
            ("fragment-attrs", HTMLDocument(div("b"), lang="en", class_="k")),
            ("body", HTMLDocument(tags.body("x", id="b"), lang="fr")),
            ("html", HTMLDocument(tags.html(tags.head(tags.title("t")), tags.body("x")), lang="de")),
            ("html-nohead", HTMLDocument(tags.html(dep("hd"), tags.body("x", dep("bd", "2"))))),
            ("html-head-second", HTMLDocument(tags.html(dep("hd"), tags.head("h"), tags.body("x")))),
            ("two-html", HTMLDocument(tags.html("a"), tags.html("b"))),
            ("html+text", HTMLDocument(tags.html("a"), "t")),
            ("t->html", HTMLDocument(T("x", lambda: tags.html(tags.body(T("i", "I")))), lang="en")),
            ("t->body", HTMLDocument(T("x", lambda: tags.body(T("i", lambda: TagList("I", dep("id")))))) ),
            ("t->taglist-of-html", HTMLDocument(T("x", lambda: TagList(tags.html("h"))))),
            ("t->taglist-of-body+more", HTMLDocument(T("x", lambda: TagList(tags.body("h"), "more")))),
            ("t->empty", HTMLDocument(T("x", lambda: TagList()))),
            ("t->div-deps", HTMLDocument(div(T("x", lambda: TagList(dep("a", "1.0"), dep("b", "2.0"), dep("a", "1.5")))))),
            ("single-str", HTMLDocument("only")),
            ("single-dep", HTMLDocument(dep("solo"))),
            ("single-div", HTMLDocument(div("only"))),
            ("single-repr", HTMLDocument(R("r"))),
            ("single-tr", HTMLDocument(TR("x", lambda: tags.body("B")))),
            ("jsx", HTMLDocument(JSXTag("Foo", T("x", lambda: span("S")), dep("jd"), a=1))),
            ("bad", HTMLDocument(div(BadTagify()))),
            ("head_content", HTMLDocument(div(htmltools.head_content(tags.title("T"), tags.meta(name="n"))))),
        ]

    for name, d in doc_cases():
        show("doc.render " + name, lambda d=d: rendered(d.render()))
    for name, d in doc_cases():
        show(
            "doc.render(lib_prefix=None, include_version=False) " + name,
            lambda d=d: rendered(d.render(lib_prefix=None, include_version=False)),
        )
    # rendering does not alter the document, twice gives the same
    d = HTMLDocument(T("x", lambda: tags.body(T("i", "I"), dep("k"))), lang="en")
    show("doc twice", lambda: rendered(d.render()) == rendered(d.render()))
    show("doc copy", lambda: rendered(copy.copy(d).render()))
    d.append(T("more", "M"))
    show("doc appended", lambda: rendered(d.render()))

    hoist = HTMLDocument._hoist_head_content
    show("hoist non-html", lambda: hoist(div("x"), "lib", True))
    h = tags.html(tags.body(dep("z", "9")), tags.head("first"), tags.head("second"))
    show("hoist two heads", lambda: (str(hoist(h, "p", False)), str(h)))
    h2 = tags.html("no head at all")
    show("hoist no head no deps", lambda: (str(hoist(h2, None, True)), str(h2)))
    h3 = tags.html(div(tags.head("nested head is not it")), dep("q"))
    show("hoist nested head", lambda: (str(hoist(h3, "lib", True)), str(h3)))
    h4 = tags.html(T("x", "untagified"))
    show("hoist untagified content", lambda: str(hoist(h4, "lib", True).get_html_string()))


def section_jsx():
    Foo = jsx_tag_create("Foo")
    cases = [
        ("simple", lambda: Foo()),
        ("children", lambda: Foo("a", div("b"), Foo("c"))),
        ("tagifiable-child", lambda: Foo(T("x", lambda: span("S")), "z")),
        ("tagifiable-child-str", lambda: Foo(T("x", "S"))),
        ("tagifiable-attr", lambda: Foo(a=T("x", lambda: span("S")), b=div(T("y", "Y")))),
        ("tr-child", lambda: Foo(TR("x", lambda: div("D")))),
        ("dep-child", lambda: Foo(dep("j1"), div(dep("j2")), x=dep("j3"))),
        ("meta-child", lambda: Foo(Meta("m1"), div(Meta("m2")))),
        ("nested-jsx-in-tag", lambda: div(Foo(T("x", lambda: span("S"))), T("y", "Y"))),
        ("tagifiable-taglist", lambda: Foo(T("x", lambda: TagList("a", "b")))),
        ("tagifiable->jsx", lambda: div(T("x", lambda: Foo("inner")))),
        ("bad", lambda: Foo("a", BadTagify())),
        ("jsx-expr", lambda: Foo(f=jsx("() => 1"), style={"color": "red"})),
        ("repr-child", lambda: Foo(R("r"))),
    ]
    for name, mk in cases:
        show("jsx render " + name, lambda mk=mk: rendered(mk().render()) if not isinstance(mk(), JSXTag) else rendered(TagList(mk()).render()))
        show("jsx str " + name, lambda mk=mk: str(mk()))

    def unchanged():
        inner = T("x", lambda: span("S"))
        f = Foo(inner, div("k"), a=inner)
        t1 = str(f.tagify())
        return (f.children[0] is inner, f.attrs["a"] is inner, t1 == str(f.tagify()))

    show("jsx original untouched", unchanged)


def section_misc():
    # json render mode
    old = htmltools.html_dependency_render_mode
    try:
        htmltools.html_dependency_render_mode = "json"
        show("json-mode", lambda: str(div("a", T("x", lambda: TagList(dep("j"), "t")))))
        show("json-mode nodeps", lambda: str(TagList("a", T("x", "t"))))
    finally:
        htmltools.html_dependency_render_mode = old
    show("repr tag", lambda: repr(div(T("x", lambda: TagList("p", "q")))))
    show("_repr_html_ taglist", lambda: TagList(T("x", lambda: div("p")))._repr_html_())

    class MyTag(Tag):
        def tagify(self):
            LOG.append("MyTag.tagify")
            return super().tagify()

        def get_dependencies(self, dedup=True):
            LOG.append("MyTag.get_dependencies")
            return super().get_dependencies(dedup=dedup)

        def get_html_string(self, indent=0, eol="\n"):
            LOG.append("MyTag.get_html_string")
            return super().get_html_string(indent, eol)

    show("subclass order", lambda: rendered(MyTag("my", T("x", lambda: dep("md")), "t").render()))
    show("subclass in list", lambda: rendered(TagList(MyTag("my", T("x", "X"))).render()))
    show("save_html", _save)


def _save():
    import os
    import tempfile

    with tempfile.TemporaryDirectory() as td:
        f = os.path.join(td, "index.html")
        TagList("a", T("x", lambda: div("D"))).save_html(f)
        with open(f) as fh:
            return fh.read()


def main():
    section_render()
    section_tagify_structure()
    section_untagified()
    section_document()
    section_jsx()
    section_misc()


if __name__ == "__main__":
    main()
