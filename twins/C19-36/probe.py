"""Probe for property C19: tag functions / Tag constructor pass-through."""
import inspect

import htmltools
from htmltools import HTML, Tag, TagList, svg, tags
from htmltools._core import TagAttrDict


def show(label, fn):
    try:
        r = fn()
    except Exception as e:  # noqa: BLE001
        print(label, "->", "EXC", type(e).__name__, str(e))
    else:
        print(label, "->", repr(r))


def describe(t):
    return (
        type(t).__name__,
        t.name,
        t.add_ws,
        list(t.attrs.items()),
        [type(v).__name__ for v in t.attrs.values()],
        [(type(c).__name__, str(c)) for c in t.children],
        str(t),
    )


def tag_functions(mod):
    out = []
    for nm, fn in sorted(vars(mod).items()):
        if inspect.isfunction(fn) and fn.__module__ == mod.__name__ and not nm.startswith("_"):
            out.append((nm, fn))
    return out


class OD(dict):
    """dict subclass: must be treated as attributes."""


class Weird:
    def __repr__(self):
        return "<Weird>"


# 1. every tag function: name, defaults, signature, pass-through equals Tag(...)
for mod in (tags, svg):
    fns = tag_functions(mod)
    print(mod.__name__, len(fns))
    for nm, fn in fns:
        t0 = fn()
        sig = inspect.signature(fn)
        default = sig.parameters["_add_ws"].default
        args = ("x", {"class": "a", "id": None}, 3, OD(class_="b"), [None, "y", (1.5,)])
        kw = dict(data_foo=True, hidden=False, title_="T", class_=HTML("<k>"))
        t1 = fn(*args, **kw)
        ref = Tag(t0.name, *args, _add_ws=default, **kw)
        t2 = fn(*args, _add_ws=not default, **kw)
        print(
            nm,
            t0.name,
            repr(default),
            t0.add_ws,
            str(sig),
            t1 == ref,
            describe(t1) == describe(ref),
            t2.add_ws,
            fn.__name__,
            fn.__qualname__,
            len(fn.__doc__ or ""),
        )
    show(mod.__name__ + " sample", lambda: describe(fns[0][1]("c", {"a": 1}, b=2)))

# 2. top-level shortcuts are the tags functions
for nm in ("a br code div em h1 h2 h3 h4 h5 h6 hr img p pre span strong").split():
    print(nm, getattr(htmltools, nm) is getattr(tags, nm), nm in htmltools.__all__)
print(htmltools.__all__)
print(tags.__all__)

# 3. _add_ws validation
for bad in (None, 0, 1, "True", "", 1.0, [], Weird()):
    show(f"div(_add_ws={bad!r})", lambda: tags.div("x", _add_ws=bad))
    show(f"span(_add_ws={bad!r})", lambda: tags.span("x", _add_ws=bad))
    show(f"svg.a(_add_ws={bad!r})", lambda: svg.a("x", _add_ws=bad))
    show(f"Tag(_add_ws={bad!r})", lambda: Tag("q", "x", _add_ws=bad))
for good in (True, False):
    show(f"div(_add_ws={good})", lambda: describe(tags.div("x", tags.span("y"), _add_ws=good)))
    show(f"span(_add_ws={good})", lambda: describe(tags.span("x", tags.div("y"), _add_ws=good)))

# 4. constructor corner cases
cases = {
    "empty": lambda: Tag("div"),
    "only_dicts": lambda: Tag("div", {"a": "1"}, {"a": "2"}, {"b": None}),
    "dict_order": lambda: Tag("div", "k1", {"z": 1}, "k2", {"a": 2}, "k3", z="3", a=HTML("&")),
    "dict_subclass": lambda: Tag("div", OD(x="1"), "child", OD(x="2")),
    "tagattrdict_arg": lambda: Tag("div", TagAttrDict(class_="q"), "c"),
    "nested_lists": lambda: Tag("div", [["a", None], ("b", [1, 2.5])], None, TagList("t", 7)),
    "list_with_dict": lambda: Tag("div", [{"a": 1}]),
    "bad_child": lambda: Tag("div", Weird()),
    "bad_child_after_attr_error": lambda: Tag("div", Weird(), {"a": Weird()}),
    "bad_attr": lambda: Tag("div", {"a": Weird()}, "x"),
    "bad_attr_kw": lambda: Tag("div", "x", a=Weird()),
    "bad_attr_key": lambda: Tag("div", {1: "x"}),
    "bool_attrs": lambda: Tag("div", {"a": True, "b": False}, c=True, d=False, e=None),
    "num_attrs": lambda: Tag("div", {"a": 1, "b": 2.5}, c=0, d=-1.0),
    "name_underscore": lambda: Tag("div", for_="x", data_a_b="y", _x_="z", class_="k"),
    "html_merge": lambda: Tag("div", {"class": HTML("<a>")}, class_='"q"'),
    "html_merge2": lambda: Tag("div", {"class": '<a>'}, class_=HTML('"q"')),
    "kw__name": lambda: tags.div(_name="x"),
    "kw_self": lambda: tags.div(self="x"),
    "svg_kw__name": lambda: svg.circle(_name="x"),
    "svg_kw_self": lambda: svg.circle(self="x"),
    "str_child_iter": lambda: Tag("div", "abc", "def"),
    "generator_child": lambda: Tag("div", (c for c in "ab")),
    "bytes_child": lambda: Tag("div", b"ab"),
    "tag_children": lambda: tags.div(tags.span("a"), tags.p("b"), svg.svg(svg.circle(r=1))),
    "name_nonstr": lambda: Tag(5, "x").name,
    "missing_name": lambda: Tag(),
}
for label, fn in cases.items():
    def run(fn=fn):
        r = fn()
        return describe(r) if isinstance(r, Tag) else r
    show(label, run)

# 5. re-initialising an existing Tag: partial state on failure
t = tags.div("orig", id="i")
show("reinit_bad_ws", lambda: t.__init__("span", "n", _add_ws=1))
print(describe(t))
show("reinit_bad_attr", lambda: t.__init__("b", "n", {"a": Weird()}, _add_ws=False))
print(t.name, t.add_ws, list(t.attrs.items()), [str(c) for c in t.children])
show("reinit_bad_child", lambda: t.__init__("i", Weird(), {"ok": 1}, _add_ws=True))
print(t.name, t.add_ws, list(t.attrs.items()), [str(c) for c in t.children])

# 6. TagAttrDict / TagList directly
show("tad_update", lambda: (lambda d: (d.update({"a": "1"}, {"a": HTML("2")}, a="3", b=None), list(d.items()), [type(v).__name__ for v in d.values()]))(TagAttrDict(a="0", c_="x")))
show("tad_update_empty", lambda: (lambda d: (d.update(), d.update({}), d.update({}, **{}), list(d.items())))(TagAttrDict(a="0")))
show("tad_nonmapping", lambda: TagAttrDict([("a", "b")]))
show("tad_kw_only", lambda: list(TagAttrDict(x=1, y_=2.0, z__=True).items()))
show("taglist", lambda: [(type(c).__name__, str(c)) for c in TagList("a", [1, None, (2.0, HTML("<b>"))], tags.br())])
show("taglist_bad", lambda: TagList("a", {"x": 1}))
show("taglist_str", lambda: list(TagList("abc")))
show("taglist_extend_str", lambda: (lambda l: (l.extend("xy"), list(l)))(TagList()))
show("taglist_insert", lambda: (lambda l: (l.insert(0, [1, "b"]), list(l)))(TagList("z")))

# 7. merging of repeated attributes (plain / HTML combinations, three-way, across kwargs)
P, H = 'p<"&\'>', HTML('h<"&\'>')
combos = {
    "pp": ({"a": P}, {"a": P}),
    "ph": ({"a": P}, {"a": H}),
    "hp": ({"a": H}, {"a": P}),
    "hh": ({"a": H}, {"a": H}),
    "php": ({"a": P}, {"a": H}, {"a": P}),
    "hph": ({"a": H}, {"a": P}, {"a": H}),
    "pph": ({"a": P}, {"a_": P}, {"a": H}),
    "num_h": ({"a": 1}, {"a": H}, {"a": 2.5}),
    "true_h": ({"a": True}, {"a": H}),
    "h_true": ({"a": H}, {"a": True}),
    "none_between": ({"a": P}, {"a": None}, {"a": False}, {"a": H}),
    "same_dict_alias": ({"a_b": P, "a-b": H},),
    "empty_str": ({"a": ""}, {"a": ""}),
}
for label, maps in combos.items():
    def run(maps=maps):
        t = tags.div(*maps)
        t2 = tags.span(*maps[:-1], **{k.replace("-", "_"): v for k, v in maps[-1].items()})
        d = TagAttrDict({"a": "old", "keep": "k"})
        d.update(*maps)
        return (
            [(k, type(v).__name__, str(v)) for k, v in t.attrs.items()],
            str(t),
            [(k, type(v).__name__, str(v)) for k, v in t2.attrs.items()],
            str(t2),
            [(k, type(v).__name__, str(v)) for k, v in d.items()],
        )
    show("merge_" + label, run)
show("merge_kw_last", lambda: str(tags.div({"class": "a"}, {"id": "i"}, class_=HTML("<b>"), id=None)))
show("helper_names", lambda: sorted(n for n in vars(TagAttrDict) if not n.startswith("__")) and None)

# 8. public surface of the modules (what `from module import *` gives)
for modname in ("htmltools.tags", "htmltools.svg", "htmltools"):
    ns = {}
    exec(f"from {modname} import *", ns)
    ns.pop("__builtins__", None)
    print(modname, len(ns), sorted(ns))
import htmltools.tags as _t, htmltools.svg as _s
print(sorted(n for n in vars(_t) if not n.startswith("_")) == sorted(set(n for n, _ in tag_functions(_t)) | {"Tag", "TagAttrs", "TagAttrValue", "TagChild", "annotations"}))
print(sorted(n for n in vars(_s) if not n.startswith("_")))
print(sorted(n for n in vars(htmltools) if not n.startswith("_")))

# 9. child normalisation details
import enum
from htmltools import HTMLDependency, MetadataNode


class MyInt(int):
    def __str__(self):
        return "myint!"


class Color(enum.IntEnum):
    RED = 1


class Tf:
    def tagify(self):
        return tags.b("tf")


class Rh:
    def _repr_html_(self):
        return "<rh/>"


class IntTf(int):
    def tagify(self):
        return "never"


kids_cases = {
    "bools": (True, False, None, 0, 0.0, -0.0, 1e100, float("nan"), float("inf")),
    "int_subclasses": (MyInt(3), Color.RED, IntTf(4)),
    "tagifiable_reprhtml": (Tf(), Rh(), HTML("<x>")),
    "num_then_bad": (1, 2, Weird(), 3),
    "bad_then_bad": (b"x", Weird()),
    "complex": (1j,),
    "deep": ([[[[1]]], ((), [], [None])],),
    "set_child": ({1},),
    "dep": (HTMLDependency("d", "1.0"),),
    "taglist_in_list": ([TagList(1, "a"), TagList()],),
}
for label, kids in kids_cases.items():
    def run(kids=kids):
        t = tags.div(*kids)
        l = TagList("pre")
        l.extend(kids)
        l.insert(1, kids)
        l.append(*kids)
        u = tags.span("z")
        u.append(*kids)
        u.insert(0, kids)
        u.extend(kids)
        return (
            [(type(c).__name__, c if isinstance(c, str) else type(c).__name__) for c in t.children],
            [type(c).__name__ for c in l],
            [type(c).__name__ for c in u.children],
            str(t.tagify()) if not any(isinstance(c, MetadataNode) for c in t.children) else "dep",
        )
    show("kids_" + label, run)
x = TagList(1, 2)
y = TagList(x)
print(x is y, x == y, type(y[0]).__name__)
show("taglist_add", lambda: list(TagList("a") + [1, None, (2,)]))
show("taglist_radd", lambda: list([1, 2.5] + TagList("a")))
show("taglist_add_bad", lambda: TagList("a") + [Weird()])
show("tagify_flatten", lambda: str(tags.div(type("X", (), {"tagify": lambda self: TagList(1, tags.i("q"), None)})()).tagify()))
