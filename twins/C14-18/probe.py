# Probe for refactoring 3: TagList.__add__ / __radd__ (and __iadd__ for contrast)
from htmltools import TagList, Tag, div, span, HTML, HTMLDependency, is_tag_node

LOG = []


def desc(v):
    if isinstance(v, TagList):
        return type(v).__name__ + "<" + ", ".join(desc(i) for i in v.data) + ">"
    if isinstance(v, (list, tuple)):
        return type(v).__name__ + "[" + ", ".join(desc(i) for i in v) + "]"
    if isinstance(v, (str, int, float, Tag)) or v is None:
        return type(v).__name__ + ":" + repr(str(v))
    return type(v).__name__


def show(label, fn):
    try:
        print(label, "->", desc(fn()))
    except BaseException as e:  # noqa
        print(label, "!!", type(e).__name__, str(e))


class MyStr(str):
    pass


class MyTL(TagList):
    pass


class ExpandAll(TagList):
    """Subclass that expands strings, too."""

    def _should_not_expand(self, x):
        LOG.append("ExpandAll._should_not_expand:" + type(x).__name__)
        return False


class ExpandNone(TagList):
    """Subclass that never expands the other operand."""

    def _should_not_expand(self, x):
        LOG.append("ExpandNone._should_not_expand:" + type(x).__name__)
        return True


class Truthy(TagList):
    """_should_not_expand returns a truthy non-bool."""

    def _should_not_expand(self, x):
        return "yes" if isinstance(x, (str, int)) else 0


class Raises(TagList):
    def _should_not_expand(self, x):
        raise KeyError("nope")


def gen():
    LOG.append("gen-start")
    yield 1
    LOG.append("gen-mid")
    yield [2, None]
    LOG.append("gen-end")


def badgen():
    yield "a"
    raise ValueError("boom")


class Loud(list):
    def __iter__(self):
        LOG.append("Loud.__iter__")
        return list.__iter__(self)


dep = HTMLDependency("d", "1.0")


def operands():
    return [
        ("str", "abc"),
        ("empty-str", ""),
        ("mystr", MyStr("xy")),
        ("HTML", HTML("<b>&</b>")),
        ("list", [1, None, "b", [2.5, (span("s"),)]]),
        ("empty-list", []),
        ("tuple", ("t", 3)),
        ("empty-tuple", ()),
        ("taglist", TagList("q", div("r"))),
        ("empty-taglist", TagList()),
        ("mytl", MyTL("m")),
        ("gen", gen()),
        ("badgen", badgen()),
        ("loud", Loud(["l", 1])),
        ("range", range(2)),
        ("dict", {"k": "v"}),
        ("set-of-one", {"only"}),
        ("bytes", b"xy"),
        ("tag", div("d")),
        ("dep", dep),
        ("int", 5),
        ("float", 1.5),
        ("none", None),
        ("object", object()),
        ("list-with-bad", ["ok", object()]),
        ("list-with-dict", [{"a": 1}]),
        ("nested-str-list", [["ab", "cd"], "ef"]),
    ]


for cls in (TagList, MyTL, ExpandAll, ExpandNone, Truthy, Raises):
    print("=====", cls.__name__)
    for name, _ in operands():
        for op in ("add", "radd", "iadd"):
            other = dict(operands())[name]
            base = cls("x", 0)
            LOG.clear()
            if op == "add":
                fn = lambda: base + other
            elif op == "radd":
                fn = lambda: base.__radd__(other)
            else:
                fn = lambda: base.__iadd__(other)
            res = None

            def run():
                global res
                res = fn()
                return res

            show(f"{name}.{op}", run)
            print(
                "     base:", desc(base),
                "same-obj:", res is base,
                "nodes-ok:", all(is_tag_node(i) for i in base)
                and (res is None or all(is_tag_node(i) for i in res)),
                "log:", LOG,
            )
            res = None

# real reflected operator dispatch and augmented assignment
show("list+TagList", lambda: ["a", 1] + TagList("z"))
show("tuple+TagList", lambda: ("a", 1) + TagList("z"))
show("str+TagList", lambda: "abc" + TagList("z"))
show("HTML+TagList", lambda: HTML("<i>") + TagList("z"))
show("int+TagList", lambda: 3 + TagList("z"))
show("None+TagList", lambda: None + TagList("z"))
show("TagList+TagList", lambda: TagList("a") + TagList("z"))
show("MyTL+TagList", lambda: MyTL("a") + TagList("z"))
show("TagList+MyTL", lambda: TagList("a") + MyTL("z"))
show("sum", lambda: sum([TagList("a"), TagList("b", 1)], TagList()))
show("sum-list-start", lambda: sum([TagList("a"), TagList("b", 1)], []))
show("chain", lambda: TagList("a") + "bc" + ["d", None] + ("e",) + TagList(1.5))
t = TagList("a")
u = t
t += "bcd"
t += [1, None, (2,)]
print("iadd-aliasing", desc(t), u is t)
a = TagList("a", div("shared"))
b = a + ["n"]
b[1].append("!")
print("shallow", desc(a), desc(b), a[1] is b[1], type(b).__name__)
m = MyTL("a") + ["n"]
print("result-type", type(m).__name__, type(["n"] + MyTL("a")).__name__)
