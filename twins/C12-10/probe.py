"""Probe for HTMLDocument rendering: <html>/<body>/fragment selection and hoisting of
dependency tags (with their URLs) into <head>."""
import hashlib
import os
import re
import shutil
import tempfile
import urllib.parse

import htmltools
from htmltools import HTML, HTMLDependency, HTMLDocument, Tag, TagList, div, head_content, tags

PKG_DIR = os.path.dirname(htmltools.__file__)
TMP = os.path.realpath(tempfile.mkdtemp())


def norm(s):
    s = str(s).replace(PKG_DIR, "<PKG>").replace(TMP, "<TMP>")
    return re.sub(r" at 0x[0-9a-fA-F]+", " at 0xADDR", s)


def show(label, fn):
    try:
        out = fn()
        print(label, "->", norm(repr(out)))
    except BaseException as e:  # noqa: BLE001
        print(label, "-> EXC", type(e).__name__, norm(e))


def write(path, data):
    os.makedirs(os.path.dirname(path), exist_ok=True)
    with open(path, "wb") as f:
        f.write(data)


SRC = os.path.join(TMP, "src")
write(os.path.join(SRC, "a.js"), b"alert('a')\n")
write(os.path.join(SRC, "a b.js"), b"space")
write(os.path.join(SRC, "s.css"), b"body{}")

local = {"subdir": SRC}
d1 = HTMLDependency("d", "1.0", source=local, script=[{"src": "a.js"}, {"src": "a b.js", "defer": ""}], stylesheet={"href": "s.css"})
d1new = HTMLDependency("d", "1.1", source=local, script={"src": "a.js"})
d2 = HTMLDependency("td", "0.1", source={"package": "htmltools", "subdir": "libtest/testdep"}, script={"src": "testdep.js"}, stylesheet={"href": "testdep.css"}, meta={"name": "m", "content": "c"})
d3 = HTMLDependency("remote", "3", source={"href": "https://cdn/x"}, script={"src": "r.js"}, head=tags.title("from dep"))
d4 = HTMLDependency("nosrc", "3", head="<meta name='n'>")


class Widget:
    """Tagifiable object expanding to something chosen at construction."""

    def __init__(self, out):
        self.out = out

    def tagify(self):
        return self.out


class MyHtml(Tag):
    pass


class LoudHead(Tag):
    def insert(self, index, x):
        print("   head.insert", index, str(x))
        super().insert(index, x)

    def append(self, *args):
        print("   head.append", [str(a) for a in args])
        super().append(*args)

    def extend(self, x):
        x = list(x)
        print("   head.extend", len(x))
        super().extend(x)


CONTENTS = {
    "empty": lambda: (),
    "text": lambda: ("just text",),
    "div": lambda: (div("x", d1),),
    "two divs": lambda: (div("x", d1), div("y", d2, d1new)),
    "dep only": lambda: (d1,),
    "deps only": lambda: (d3, d4, d2),
    "body": lambda: (tags.body("b", d1, class_="bc"),),
    "body + dep": lambda: (tags.body("b", d1), d2),
    "two bodies": lambda: (tags.body("b1"), tags.body("b2", d1)),
    "html no head": lambda: (tags.html(tags.body("b", d1)),),
    "html empty": lambda: (tags.html(),),
    "html with head": lambda: (tags.html(tags.head(tags.title("t")), tags.body(d1, d3)),),
    "html head second": lambda: (tags.html(d2, tags.head(tags.title("t"), tags.meta(name="x")), tags.body(d1)),),
    "html head last": lambda: (tags.html(tags.body(d1), "txt", tags.head()),),
    "html two heads": lambda: (tags.html(tags.head("h1"), tags.head("h2"), tags.body(d4)),),
    "html nested head only": lambda: (tags.html(tags.body(tags.head("inner"), d1)),),
    "html + sibling": lambda: (tags.html(tags.body("b")), d1),
    "html in list": lambda: (TagList(tags.html(tags.head(), tags.body(d2))),),
    "html in nested list": lambda: ([[tags.html(tags.body(d2))]],),
    "html attrs": lambda: (tags.html(tags.body("b"), lang="fr", class_="c"),),
    "myhtml subclass": lambda: (MyHtml("html", tags.body(d1)),),
    "HTML tag upper": lambda: (Tag("HTML", tags.body(d1)),),
    "widget->html": lambda: (Widget(tags.html(tags.head(), tags.body(d1))),),
    "widget->body": lambda: (Widget(tags.body("wb", d3)),),
    "widget->div": lambda: (Widget(div(d1)),),
    "widget->list(html)": lambda: (Widget(TagList(tags.html(tags.body(d1)))),),
    "widget->list(two)": lambda: (Widget(TagList(tags.body("a"), tags.body("b"))),),
    "widget in html": lambda: (tags.html(tags.body(Widget(div(d2)))),),
    "widget head in html": lambda: (tags.html(Widget(tags.head("wh")), tags.body(d1)),),
    "head_content": lambda: (div(head_content(tags.title("hc")), d1),),
    "loud head": lambda: (tags.html(LoudHead("head", "lh"), tags.body(d1, d4)),),
    "loud head no deps": lambda: (tags.html(LoudHead("head"), tags.body("nodeps")),),
    "HTML string": lambda: (HTML("<p>raw</p>"), d1),
    "none and nums": lambda: (None, 1, 2.5, d4),
    "dup deps": lambda: (div(d1, d1, d1new, d1),),
}
PREFIX = [("lib", True), (None, True), ("", False), ("p/q r", False)]

for cname, content in CONTENTS.items():
    for attrs in ({}, {"lang": "en", "data_x": "1"}):
        print("==", cname, attrs)
        holder = {}

        def make():
            holder["doc"] = HTMLDocument(*content(), **attrs)
            return type(holder["doc"]).__name__

        show("  make", make)
        doc = holder.get("doc")
        if doc is None:
            continue
        for prefix, iv in PREFIX:
            show(f"  render[{prefix!r},{iv}]", lambda: (lambda r: (r["html"], [repr(d) for d in r["dependencies"]]))(doc.render(lib_prefix=prefix, include_version=iv)))
        show("  render default", lambda: doc.render()["html"])
        # rendering twice gives the same answer and does not touch the stored content
        show("  stable", lambda: doc.render() == doc.render())

# the stored tags are not modified by rendering (top node and <head> are copied)
h = tags.head(tags.title("t"))
root = tags.html(h, tags.body(d1))
doc = HTMLDocument(root, lang="xx")
before = (str(root), str(h), len(h.children), dict(root.attrs))
doc.render()
print("unmodified", before == (str(root), str(h), len(h.children), dict(root.attrs)))

# append() after construction
doc = HTMLDocument(div("first"))
doc.append(d1, div("second", d2))
show("appended", lambda: doc.render(lib_prefix="L")["html"])

# Tag / TagList entry points go through a document as well
for libdir in ("lib", None, "x y"):
    for iv in (True, False):
        for mname, obj in (("doc", HTMLDocument(tags.html(tags.head(tags.title("t")), tags.body(d1, d2, d3)))), ("tag", tags.body(d1, d2, d3)), ("list", TagList(d1, "t", d2, d3, d4))):
            out = os.path.join(TMP, "out", f"{mname}-{libdir}-{iv}")
            os.makedirs(out)
            file = os.path.join(out, "index.html")
            if mname == "doc":
                show(f"save[{mname},{libdir!r},{iv}]", lambda: obj.save_html(file, libdir, iv))
            else:
                show(f"save[{mname},{libdir!r},{iv}]", lambda: obj.save_html(file, libdir=libdir, include_version=iv))
            html = open(file).read()
            print("  html:", norm(repr(html)))
            res = []
            for url in re.findall(r'(?:src|href)="([^"]*)"', html):
                if re.match(r"^[a-z]+://", url):
                    res.append((url, "remote"))
                    continue
                p = os.path.join(out, urllib.parse.unquote(url))
                res.append((url, hashlib.sha1(open(p, "rb").read()).hexdigest()[:10] if os.path.isfile(p) else "MISSING"))
            print("  urls:", res)
            listing = sorted(os.path.relpath(os.path.join(dp, f), out) for dp, _, fs in os.walk(out) for f in fs)
            print("  files:", listing)

shutil.rmtree(TMP, ignore_errors=True)
