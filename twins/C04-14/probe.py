# Probe for refactoring 4: wrap_displayhook_handler() and Tag.__enter__/__exit__.
import sys
from htmltools import HTML, Tag, TagList, div, span, tags, HTMLDependency
from htmltools._core import wrap_displayhook_handler

LOG = []


def show(label, fn):
    try:
        r = fn()
        print(label, "->", type(r).__name__, repr(r if isinstance(r, (bool, int, list, tuple)) else str(r)))
    except Exception as e:  # noqa: BLE001
        print(label, "-> EXC", type(e).__name__, str(e)[:90])


class Repr:
    def __init__(self, s):
        self.s = s

    def __repr__(self):
        return f"Repr({self.s!r})"

    def _repr_html_(self):
        LOG.append("repr")
        return self.s


class OnlyTagifiable:
    def __repr__(self):
        return "OnlyTagifiable()"

    def tagify(self):
        return span("<tagified & more>")


class Both(OnlyTagifiable):
    def __repr__(self):
        return "Both()"

    def _repr_html_(self):
        LOG.append("both.repr")
        return "<never used>"


class BadRepr:
    def __repr__(self):
        return "BadRepr()"

    def _repr_html_(self):
        raise KeyError("boom")


class AlwaysEq:
    def __repr__(self):
        return "AlwaysEq()"

    def __eq__(self, other):
        LOG.append("eq:" + repr(other))
        return True

    __hash__ = None


class NeverEq(AlwaysEq):
    def __repr__(self):
        return "NeverEq()"

    def __eq__(self, other):
        LOG.append("neq:" + repr(other))
        return False


class AmbiguousEq:
    def __repr__(self):
        return "AmbiguousEq()"

    def __eq__(self, other):
        class B:
            def __bool__(self):
                raise ValueError("ambiguous truth value")
        return B()


values = [
    None, ..., NotImplemented, 0, 1, 2.5, True, False, "", "a < b & 'c'", b"<by>", [], ["<x>", 1], (), {"k": "<v>"},
    HTML("<i>&amp;</i>"), HTML(""), div("<d>", class_="c&"), tags.script("1<2"), TagList("<t>", HTML("<u>")),
    TagList(), Repr("<r & r>"), Repr(""), Repr(HTML("<rh>")), Repr(None), Repr(5), OnlyTagifiable(), Both(), BadRepr(),
    AlwaysEq(), NeverEq(), AmbiguousEq(), HTMLDependency("d", "1.0", head="<h>"), object, len,
]


def describe(x):
    if isinstance(x, (Tag, TagList, HTML)):
        return (type(x).__name__, str(x))
    return (type(x).__name__, repr(x))


# 1. the wrapper with a recording handler
for v in values:
    got = []
    wrapped = wrap_displayhook_handler(lambda x: got.append(x))

    def call():
        r = wrapped(v)
        same = [g is v for g in got]
        return [r, [describe(g) for g in got], same]
    show(f"wrap {describe(v)}", call)


def raising_handler(x):
    raise OSError("handler failed")
for v in [None, ..., "s", Repr("<r>"), div()]:
    show(f"raising {describe(v)}", lambda: wrap_displayhook_handler(raising_handler)(v))

# 2. inside a `with tag:` block, driving sys.displayhook by hand
for v in values:
    def block():
        orig = sys.displayhook
        t = div(id="outer")
        try:
            with t:
                inside = sys.displayhook is not orig
                sys.displayhook(v)
        finally:
            restored = sys.displayhook is orig
            sys.displayhook = orig
        return [inside, restored, t.prev_displayhook is None, str(t), len(t.children)]
    shown = []
    real = sys.displayhook
    sys.displayhook = lambda x: shown.append(describe(x))
    try:
        show(f"with {describe(v)}", block)
    finally:
        sys.displayhook = real
    print("   shown:", shown)


# 3. nesting, re-entry, exit without enter, exception inside the block
def nested():
    shown = []
    real = sys.displayhook
    sys.displayhook = lambda x: shown.append(describe(x))
    try:
        outer = div(id="o")
        with outer:
            sys.displayhook("a<")
            inner = tags.script()
            with inner:
                sys.displayhook("1<2")
                sys.displayhook(HTML("</x>"))
                sys.displayhook(Repr("<r&>"))
            sys.displayhook(span("s&"))
            with tags.style():
                sys.displayhook("a>b")
                sys.displayhook("c>d")
        return [str(outer), shown, sys.displayhook.__name__ if hasattr(sys.displayhook, "__name__") else "?"]
    finally:
        sys.displayhook = real
show("nested", nested)


def reenter():
    real = sys.displayhook
    sys.displayhook = lambda x: None
    try:
        t = div()
        with t:
            with t:
                pass
    finally:
        sys.displayhook = real
show("reenter", reenter)


def exit_without_enter():
    real = sys.displayhook
    try:
        t = div()
        try:
            t.__exit__(None, None, None)
        except Exception as e:  # noqa: BLE001
            return [type(e).__name__, str(e), sys.displayhook is None, t.prev_displayhook is None]
    finally:
        sys.displayhook = real
show("exit-without-enter", exit_without_enter)


def exc_inside():
    shown = []
    real = sys.displayhook
    mine = lambda x: shown.append(describe(x))  # noqa: E731
    sys.displayhook = mine
    try:
        t = div()
        try:
            with t:
                sys.displayhook("before<")
                raise ZeroDivisionError("zd")
        except ZeroDivisionError as e:
            return [type(e).__name__, shown, sys.displayhook is mine, t.prev_displayhook is None, str(t)]
    finally:
        sys.displayhook = real
show("exc-inside", exc_inside)


def failing_outer_hook():
    real = sys.displayhook

    def bad(x):
        raise OSError("outer hook failed")
    sys.displayhook = bad
    try:
        t = div()
        try:
            with t:
                sys.displayhook("x<")
        except OSError as e:
            return [str(e), sys.displayhook is bad, t.prev_displayhook is None, str(t)]
    finally:
        sys.displayhook = real
show("failing-outer-hook", failing_outer_hook)


def eq_after_with():
    real = sys.displayhook
    sys.displayhook = lambda x: None
    try:
        a, b = div("x"), div("x")
        with a:
            pass
        return [a == b, sorted(a.__dict__) == sorted(b.__dict__)]
    finally:
        sys.displayhook = real
show("eq-after-with", eq_after_with)
print(LOG)
