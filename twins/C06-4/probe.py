"""Probe for property C06 (block layout / indentation rules).

Prints repr() of rendered output, or the exception type, for a spread of trees and
(indent, eol, add_ws, _escape_strings) settings. Deterministic; no timing/ids.
"""
import htmltools
from htmltools import HTML, HTMLDependency, Tag, TagList, div, span, tags
from htmltools._core import _normalize_text

LOG = []


class Widget:
    """ReprHtml (not Tagifiable) child that logs when it is rendered."""

    def __init__(self, label):
        self.label = label

    def _repr_html_(self):
        LOG.append("render:" + self.label)
        return "<w>" + self.label + "</w>"


class Lazy:
    """Tagifiable but not ReprHtml: must trigger RuntimeError if left untagified."""

    def tagify(self):
        LOG.append("tagify")
        return span("lazy")


class Both:
    """Both ReprHtml and Tagifiable: ReprHtml branch must win."""

    def _repr_html_(self):
        LOG.append("render:both")
        return "<both/>"

    def tagify(self):
        return span("both")


class StrSub(str):
    pass


def show(label, fn):
    del LOG[:]
    try:
        res = fn()
        out = "%s(%r)" % (type(res).__name__, res if isinstance(res, str) else str(res))
    except BaseException as e:  # noqa
        out = "EXC " + type(e).__name__
    print("%-40s %s   log=%r" % (label, out, LOG))


dep = HTMLDependency("dep", "1.0", source={"subdir": "."}, script={"src": "x.js"})


def raw_list(*items):
    """TagList whose .data is set directly (bypasses flattening/coercion)."""
    tl = TagList()
    tl.data = list(items)
    return tl


def raw_tag(name, *items, **kw):
    t = Tag(name, **kw)
    t.children.data = list(items)
    return t


TREES = {
    "empty_div": lambda: div(),
    "empty_span": lambda: span(),
    "void_br": lambda: tags.br(),
    "void_img_attrs": lambda: tags.img(src="a&b.png", alt='q"<>'),
    "void_with_text": lambda: tags.br("x"),
    "void_with_kids": lambda: tags.br(span("a"), "b"),
    "void_only_dep": lambda: tags.br(dep),
    "div_only_dep": lambda: div(dep),
    "div_dep_text": lambda: div(dep, "t"),
    "one_text": lambda: div("a < b & c"),
    "one_empty_text": lambda: div(""),
    "one_html": lambda: div(HTML("<i>x</i>")),
    "one_number": lambda: div(3.5),
    "one_strsub": lambda: raw_tag("div", StrSub("s<1>")),
    "two_text": lambda: div("a", "b<"),
    "text_html": lambda: div("a<", HTML("<b>")),
    "script_one": lambda: tags.script("if (a < b) { x = '&'; }"),
    "script_one_html": lambda: tags.script(HTML("a<b")),
    "script_two": lambda: tags.script("a < b;", "c > d;"),
    "script_kid": lambda: tags.script("a<b", span("x<y"), "c&d"),
    "style_two": lambda: tags.style("p > a {}", HTML("b < c {}")),
    "block_in_block": lambda: div(div(div("deep")), div()),
    "inline_run": lambda: div("a", span("b"), "c", tags.em("d"), HTML("<!--e-->")),
    "mixed": lambda: div(
        "t1", span("s1"), div("b1"), "t2", tags.p("p1", tags.strong("x"), "p2"),
        span(span("in"), "tail"), div(span(), tags.br(), "z"), id="m", class_="c d",
    ),
    "block_first_last": lambda: div(div("x"), "mid", div("y")),
    "inline_first_last": lambda: div(span("x"), div("mid"), span("y")),
    "noaddws_parent": lambda: div("a", span("b"), div("c"), "d", _add_ws=False),
    "noaddws_parent_blockfirst": lambda: div(div("c"), "d", div("e"), _add_ws=False),
    "noaddws_nested": lambda: div(div("a", "b", _add_ws=False), span(div("x"), "y")),
    "inline_holds_block": lambda: span(div("x"), "y", div("z")),
    "widget_kids": lambda: div(Widget("1"), "t", div(Widget("2")), Widget("3")),
    "widget_only": lambda: div(Widget("solo")),
    "both_kid": lambda: div(Both(), "x"),
    "lazy_kid": lambda: raw_tag("div", Widget("pre"), Lazy(), Widget("post")),
    "lazy_only": lambda: raw_tag("div", Lazy()),
    "int_raw_kid": lambda: raw_tag("div", "a", 5),
    "none_raw_kid": lambda: raw_tag("div", span(), None),
    "head_body": lambda: tags.html(tags.head(tags.title("T"), tags.meta(charset="utf-8")),
                                   tags.body(tags.h1("H"), tags.p("x", tags.a("l", href="#"), "y"))),
    "pre_code": lambda: tags.pre(tags.code("line1\nline2")),
    "attrs_html_val": lambda: div("a", "b", title=HTML("<&>"), data_x="<&>\"'"),
    "list_empty": lambda: TagList(),
    "list_only_dep": lambda: TagList(dep),
    "list_text": lambda: TagList("a<", "b"),
    "list_mixed": lambda: TagList("a", span("b"), div("c", div("d")), dep, "e", div(), span(), "f"),
    "list_blocks": lambda: TagList(div("a"), div(div("b"), "c"), tags.br()),
    "list_inline": lambda: TagList(span("a"), tags.em("b"), HTML("<x>")),
    "list_dep_first": lambda: TagList(dep, div("a"), dep, "b", dep),
    "list_widget": lambda: TagList(Widget("a"), div("x"), Widget("b"), Widget("c")),
    "list_lazy": lambda: raw_list(Widget("a"), div("x"), Lazy(), Widget("z")),
    "list_int_raw": lambda: raw_list("a", 7),
    "list_strsub": lambda: raw_list(StrSub("<s>"), div()),
    "name_int": lambda: Tag(5, "a", "b"),
    "name_strsub": lambda: Tag(StrSub("div"), span("a"), "b"),
    "name_strsub_br": lambda: Tag(StrSub("br")),
}

print("== default rendering: str(), get_html_string(), render()['html'] ==")
for name, mk in TREES.items():
    show(name + " str", lambda: str(mk()))
    show(name + " ghs", lambda: mk().get_html_string())

for name in ["mixed", "list_mixed", "lazy_kid", "script_kid", "widget_kids"]:
    show(name + " render", lambda: TREES[name]().render()["html"])

print("== indent / eol variations ==")
SETTINGS = [
    (0, "\n"), (1, "\n"), (3, "\n"), (2, "\r\n"), (1, ""), (0, "<EOL>"), (-1, "\n"),
    (True, "\n"), (None, "\n"), ("x", "\n"), (1.5, "\n"), (1, None), (0, 5), (1, StrSub("|")),
]
for name in [
    "empty_div", "void_br", "one_text", "two_text", "mixed", "noaddws_parent",
    "noaddws_nested", "inline_holds_block", "widget_kids", "lazy_kid", "script_two",
    "list_empty", "list_only_dep", "list_text", "list_mixed", "list_blocks",
    "list_inline", "list_widget", "list_lazy", "name_int", "int_raw_kid", "div_only_dep",
]:
    for ind, eol in SETTINGS:
        show("%s i=%r e=%r" % (name, ind, eol),
             lambda: TREES[name]().get_html_string(ind, eol))
        show("%s kw i=%r e=%r" % (name, ind, eol),
             lambda: TREES[name]().get_html_string(indent=ind, eol=eol))

print("== TagList keyword-only options ==")
for name in ["list_empty", "list_only_dep", "list_text", "list_mixed", "list_blocks",
             "list_inline", "list_widget", "list_lazy", "list_int_raw", "list_strsub",
             "list_dep_first"]:
    for add_ws in [True, False, 1, 0, None, [], "y"]:
        for esc in [True, False, 0, "y"]:
            for ind, eol in [(0, "\n"), (2, "|"), (None, "\n"), (1, None)]:
                show("%s ws=%r esc=%r i=%r e=%r" % (name, add_ws, esc, ind, eol),
                     lambda: TREES[name]().get_html_string(
                         ind, eol, add_ws=add_ws, _escape_strings=esc))

print("== children lists rendered directly ==")
for name in ["mixed", "noaddws_parent", "script_kid", "widget_kids", "lazy_kid"]:
    for add_ws in [True, False]:
        show("%s.children ws=%r" % (name, add_ws),
             lambda: TREES[name]().children.get_html_string(2, "\n", add_ws=add_ws))

print("== _normalize_text ==")
for v in ["", "a<b>&\"'", HTML("a<b>&\"'"), HTML(""), StrSub("<"), 5, None, b"x", ["<"]]:
    show("normalize %r" % (v,), lambda: _normalize_text(v))

print("== mutated add_ws attribute (non-bool set after construction) ==")
for val in [True, False, 1, 0, None, "", "y"]:
    def mk(val=val):
        t = div("a", span("b"), div("c"))
        t.add_ws = val
        return TagList("x", t, "y", div(t))
    show("add_ws=%r" % (val,), lambda: mk().get_html_string(1, "|"))

print("== HTMLDocument / repr paths ==")
show("doc", lambda: htmltools.HTMLDocument(div("a", span("b"), div("c"))).render()["html"])
show("repr tag", lambda: repr(TREES["mixed"]()))
show("repr list", lambda: repr(TREES["list_mixed"]()))
show("_repr_html_ tag", lambda: TREES["mixed"]()._repr_html_())
show("_repr_html_ list", lambda: TREES["list_mixed"]()._repr_html_())

print("== order of side effects (attribute reads, mutation during rendering) ==")


class SpyTag(Tag):
    """Tag whose .name and .add_ws reads are logged (order/count of reads)."""

    @property
    def name(self):
        LOG.append("name")
        return self.__dict__["_n"]

    @name.setter
    def name(self, v):
        self.__dict__["_n"] = v

    @property
    def add_ws(self):
        LOG.append("add_ws")
        return self.__dict__["_w"]

    @add_ws.setter
    def add_ws(self, v):
        self.__dict__["_w"] = v


class Mutator:
    """ReprHtml child that mutates something when rendered."""

    def __init__(self, action):
        self.action = action

    def _repr_html_(self):
        LOG.append("mutate")
        self.action()
        return "<m/>"


class BoolSpy:
    def __init__(self, val, label):
        self.val, self.label = val, label

    def __bool__(self):
        LOG.append("bool:" + self.label)
        return self.val


class EolSpy(str):
    def __radd__(self, other):
        LOG.append("eol.__radd__")
        return str(other) + str(self)

    def __add__(self, other):
        LOG.append("eol.__add__")
        return str(self) + str(other)


for nm in ["div", "span", "br", "script"]:
    for kids in [(), ("a",), ("a", "b"), (span("x"), div("y")), (dep,), (Widget("w"),)]:
        for ws in [True, False]:
            show("spy %s %d kids ws=%r" % (nm, len(kids), ws),
                 lambda: SpyTag(nm, *kids, _add_ws=ws).get_html_string(1, "|"))
            show("spy-in-list %s %d kids ws=%r" % (nm, len(kids), ws),
                 lambda: TagList("t", SpyTag(nm, *kids, _add_ws=ws), "u",
                                 SpyTag(nm, *kids, _add_ws=ws)).get_html_string(1, "|"))


def mut_parent_ws():
    t = div("a")
    t.append(Mutator(lambda: setattr(t, "add_ws", False)))
    t.append(div("b"))
    return t.get_html_string(1, "|")


def mut_list_append():
    tl = TagList("a")
    tl.append(Mutator(lambda: tl.data.append(div("late")) if len(tl.data) < 5 else None))
    tl.append(div("b"))
    return tl.get_html_string(1, "|")


def mut_list_clear():
    tl = TagList("a")
    tl.append(Mutator(lambda: tl.data.clear()))
    tl.append(div("b"))
    return tl.get_html_string(1, "|")


def mut_tag_children_append():
    t = div("a")
    t.append(Mutator(lambda: t.children.data.append(div("late")) if len(t.children.data) < 5 else None))
    return t.get_html_string(0, "|")


show("mutator parent add_ws", mut_parent_ws)
show("mutator list append", mut_list_append)
show("mutator list clear", mut_list_clear)
show("mutator tag children append", mut_tag_children_append)

for val in [True, False]:
    for name in ["list_empty", "list_only_dep", "list_text", "list_mixed", "list_widget", "list_lazy"]:
        show("boolspy add_ws=%r %s" % (val, name),
             lambda: TREES[name]().get_html_string(1, "|", add_ws=BoolSpy(val, "ws")))
        show("boolspy esc=%r %s" % (val, name),
             lambda: TREES[name]().get_html_string(1, "|", _escape_strings=BoolSpy(val, "esc")))

for name in ["mixed", "list_mixed", "noaddws_parent", "two_text", "empty_div"]:
    show("eolspy %s" % name, lambda: TREES[name]().get_html_string(1, EolSpy("|")))

print("== exotic indent values: where/when the indentation string is computed ==")


class IndentSpy:
    """Non-int indent: logs each time an indentation string is requested from it."""

    def __init__(self, n):
        self.n = n

    def __rmul__(self, other):
        LOG.append("rmul:%r*%d" % (other, self.n))
        return other * self.n

    def __add__(self, k):
        LOG.append("add:%d+%d" % (self.n, k))
        return IndentSpy(self.n + k)


class IntSub(int):
    pass


import fractions
import decimal

for name in ["empty_div", "one_text", "mixed", "noaddws_parent", "inline_holds_block",
             "widget_kids", "lazy_kid", "list_empty", "list_only_dep", "list_text",
             "list_mixed", "list_inline", "list_widget", "list_lazy"]:
    for ind in [IndentSpy(0), IndentSpy(2), IntSub(2), False, 10 ** 3, -5, 2.0,
                fractions.Fraction(2), decimal.Decimal(1), [1], (), b"1"]:
        show("%s indent=%s" % (name, type(ind).__name__ + ":" + str(getattr(ind, "n", ind))),
             lambda: TREES[name]().get_html_string(ind, "|"))
