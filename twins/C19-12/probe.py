"""Probe for refactoring 2: attribute name/value normalisation shared by
TagAttrDict.__setitem__ and TagAttrDict.update (reached from every tag function)."""
import htmltools
from htmltools import HTML, Tag, a, div, img, span, svg, tags
from htmltools._core import TagAttrDict


def show(label, fn):
    try:
        res = fn()
    except Exception as e:  # noqa: BLE001
        print(label, "->", "EXC", type(e).__name__, str(e))
    else:
        print(label, "->", repr(res))


def desc(t):
    return (t.name, t.add_ws, [(k, type(v).__name__, str(v)) for k, v in t.attrs.items()], str(t))


VALUES = [
    "s", "", "a&b\"'<>\n", HTML("<i>&"), HTML(""), 0, 1, -2, 1.5, float("inf"), True, False, None,
]
NAMES = ["id", "class_", "data_foo_bar", "_", "__", "_x_", "for_", "aria_label_", "camelCase", "", "a-b", "x__y"]

for fn_label, f in [("div", div), ("span", span), ("a", a), ("img", img), ("tags.input", tags.input),
                    ("tags.object", tags.object), ("svg.circle", svg.circle), ("svg.text", svg.text)]:
    for nm in NAMES:
        show(f"{fn_label} kw {nm!r}", lambda: desc(f(**{nm: "v"})))
        show(f"{fn_label} dict {nm!r}", lambda: desc(f({nm: "v"})))
    for v in VALUES:
        show(f"{fn_label} kw val {v!r}", lambda: desc(f(x_y_=v)))
        show(f"{fn_label} dict val {v!r}", lambda: desc(f({"x_y_": v}, "kid")))

# merging of repeated names (after normalisation) across dicts and kwargs
for v1 in VALUES:
    for v2 in VALUES:
        show(f"merge {v1!r} {v2!r}", lambda: desc(div({"class": v1}, {"class_": v2}, class_="kw")))
show("merge same dict aliases", lambda: desc(div({"data_a": "1", "data-a": "2", "data_a_": "3"})))

# invalid values / names: exception types and ordering
for bad in ([1], (1,), {"a": 1}, object, b"x", 1j):
    show(f"bad value kw {bad!r}", lambda: div(k=bad))
    show(f"bad value dict {bad!r}", lambda: div({"k": bad}))
    show(f"bad value setitem {bad!r}", lambda: TagAttrDict().__setitem__("k", bad))
show("int key, str val", lambda: div({1: "x"}))
show("int key, None val", lambda: desc(div({1: None}, {2: False})))
show("int key, bad val", lambda: div({1: [1]}))
show("None key True", lambda: div({None: True}))
show("setitem int key", lambda: TagAttrDict().__setitem__(1, "x"))
show("setitem int key None", lambda: TagAttrDict().__setitem__(1, None))

# __setitem__ directly, and on the attrs of tags made by tag functions
t = span("x", id="i")
for nm in NAMES:
    for v in VALUES:
        t.attrs[nm] = v
print(desc(t))
t.attrs["id"] = None  # dropped value does not delete nor overwrite
t.attrs["id_"] = False
print(desc(t))
t.attrs.update({"id": "j"}, {"id_": HTML("k")}, id="l")
print(desc(t))
t.attrs.update()
t.attrs.update({})
t.attrs.update({"zz": None})
print(desc(t), type(t.attrs).__name__)
d = TagAttrDict({"a_b": 1}, {"a-b": HTML("<")}, c=True, d=None)
print(d, type(d["a-b"]).__name__)
show("update non-mapping", lambda: TagAttrDict().update([("a", "b")]))
show("ctor non-mapping", lambda: TagAttrDict(5))


# subclasses that override the normalisers are still honoured by both entry points
class Upper(TagAttrDict):
    calls = []

    @staticmethod
    def _normalize_attr_name(x):
        Upper.calls.append(("name", x))
        return x.upper()

    @staticmethod
    def _normalize_attr_value(x):
        Upper.calls.append(("value", x))
        return None if x == "drop" else str(x) + "!"


u = Upper({"a_b": "1", "c": "drop"}, a_b="2")
u["e_"] = "3"
u["f"] = "drop"
u.update({"A_B": "4"})
print(dict(u), Upper.calls)


class Inst(TagAttrDict):
    def _normalize_attr_name(self, x):  # plain method instead of staticmethod
        return "p-" + x

    def _normalize_attr_value(self, x):
        return x


i = Inst(a="1")
i["b"] = None
i["c"] = "2"
print(dict(i))

# top-level shortcuts agree with htmltools.tags
for nm in tags.__all__:
    f = getattr(htmltools, nm)
    show("top " + nm, lambda: desc(f({"data_a_": 1, "class": "x"}, class_="y", hidden=True, skip=False)))
show("Tag", lambda: desc(Tag("custom", {"data_a_": 1.25}, data_a=HTML("<>"))))
