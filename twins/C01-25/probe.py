# Probe for refactoring 5: html_escape / _normalize_text (text and attribute escaping)
import html
import itertools
from htmltools import HTML, Tag, TagList, div, span, tags, html_escape
from htmltools._core import _normalize_text
from htmltools import _util


def show(label, fn):
    try:
        r = fn()
        print(label, "->", type(r).__name__, repr(r if isinstance(r, str) else str(r)))
    except Exception as e:  # noqa
        print(label, "-> EXC", type(e).__name__)


SPECIALS = ["&", "<", ">", '"', "'", "\r", "\n"]
texts = ["", "plain", " ", "a b  c", "é☃  ", "&amp;", "&amp;lt;", "&#10;", "&&&", "<<>>", "a&b<c>d\"e'f\rg\nh",
         "\r\n", "\n\r", "\t\x00\x0b", "|", "a|b", ".*", "[&]", "\\n", "&;", ";&", "x" * 50 + "&" + "y" * 50]
texts += SPECIALS
texts += [a + b for a, b in itertools.product(SPECIALS, repeat=2)]
texts += ["t" + a + "u" + b + "v" + c for a, b, c in itertools.product(SPECIALS[:5], repeat=3)][::3]

for t in texts:
    for attr in (False, True):
        show(f"escape {t!r} attr={attr}", lambda: html_escape(t, attr=attr))
    show(f"escape {t!r} default", lambda: html_escape(t))
    show(f"normalize {t!r}", lambda: _normalize_text(t))
    show(f"normalize HTML {t!r}", lambda: _normalize_text(HTML(t)))
    r1, r2 = html_escape(t), html_escape(t, True)
    print("   roundtrip", html.unescape(r1) == t, html.unescape(r2) == t, r1 is t, r2 is t)

# identity of the returned object when nothing needs escaping
s = "nothing special here"
print("identity", html_escape(s) is s, html_escape(s, True) is s, _normalize_text(s) is s)
h = HTML("raw <b>")
print("html identity", _normalize_text(h) is h.data, _normalize_text(h) == h.data, type(_normalize_text(h)).__name__)

# attr flag given as other truthy / falsy objects, positionally and by keyword
for flag in (0, 1, None, "", "x", [], [0], 0.0, -1):
    show(f"flag {flag!r}", lambda: html_escape("<a href='x'>\n", flag))


class S(str):
    pass


class R(str):
    def replace(self, old, new, count=-1):
        return R("[" + str.replace(self, old, new) + "]")


class HS(HTML):
    pass


show("str subclass clean", lambda: html_escape(S("abc")))
show("str subclass clean type", lambda: type(html_escape(S("abc"))).__name__)
show("str subclass dirty", lambda: html_escape(S("a&b")))
show("str subclass dirty type", lambda: type(html_escape(S("a&b"))).__name__)
show("replace override clean", lambda: html_escape(R("abc"), True))
show("replace override dirty", lambda: html_escape(R("a'b"), True))
show("replace override dirty text", lambda: html_escape(R("a'b"), False))
show("normalize HTML subclass", lambda: _normalize_text(HS("<x>")))
show("normalize str subclass", lambda: _normalize_text(S("<x>")))

# wrong types
for bad in (None, 5, 2.5, b"a&b", bytearray(b"<"), ["<"], ("&",), {"&": 1}, HTML("a&b"), HTML("plain"), object(), True):
    show(f"escape bad {type(bad).__name__}", lambda: html_escape(bad))
    show(f"escape bad attr {type(bad).__name__}", lambda: html_escape(bad, True))
    if not isinstance(bad, HTML):
        show(f"normalize bad {type(bad).__name__}", lambda: _normalize_text(bad))
show("no args", lambda: html_escape())
show("kw text", lambda: html_escape(text="<", attr=True))
show("alias", lambda: _util._html_escape("<'>", True))

# through rendering: text children, attribute values, HTML + str concatenation
for t in texts[:40]:
    show(f"div child {t!r}", lambda: str(div(t)))
    show(f"div children {t!r}", lambda: str(div(t, span(t), t)))
    show(f"div attr {t!r}", lambda: str(div(title=t)))
    show(f"div html child {t!r}", lambda: str(div(HTML(t))))
    show(f"script {t!r}", lambda: str(tags.script(t)))
    show(f"HTML + str {t!r}", lambda: HTML("<i>") + t)
    show(f"str + HTML {t!r}", lambda: t + HTML("<i>"))
    show(f"merge attr {t!r}", lambda: str(div({"class": HTML("<h>")}, class_=t)))
    show(f"taglist {t!r}", lambda: TagList(t, HTML(t)).get_html_string())
