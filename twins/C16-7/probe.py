"""Probe for refactoring 2: TagAttrDict.update() merge path (constructor, class_/style merging)."""
from collections import OrderedDict

from htmltools import HTML, div, span, tags
from htmltools._core import TagAttrDict


def desc(d):
    return [(k, type(v).__name__, str(v)) for k, v in d.items()]


def show(label, fn):
    try:
        out = fn()
        print(label, "->", repr(out))
    except Exception as e:  # noqa: BLE001
        print(label, "-> EXC", type(e).__name__, str(e))


def mk(*args, **kwargs):
    return desc(TagAttrDict(*args, **kwargs))


class Obj:
    pass


show("empty", lambda: mk())
show("empty dict", lambda: mk({}))
show("empty dicts", lambda: mk({}, {}))
show("kw only", lambda: mk(class_="a", id="x"))
show("arg only", lambda: mk({"class": "a"}))
show("arg+kw merge", lambda: mk({"class": "a"}, class_="b"))
show("3-way", lambda: mk({"class": "a"}, {"class_": "b", "id": "i"}, {"class": "c"}, class_="d"))
show("none skipped", lambda: mk({"class": None}, {"class": "a"}, {"class": None}))
show("false skipped", lambda: mk({"class": False}, {"class": "a"}))
show("true", lambda: mk({"hidden": True}, {"hidden": True}))
show("true+str", lambda: mk({"class": True}, {"class": "a"}))
show("numbers", lambda: mk({"w": 1}, {"w": 2.5}, w=0))
show("html+str", lambda: mk({"class": HTML("<a>")}, {"class": "<b>&\"'"}))
show("str+html", lambda: mk({"class": "<b>&\"'\n"}, {"class": HTML("<a>")}))
show("html+html", lambda: mk({"class": HTML("<a>")}, {"class": HTML("<b>")}))
show("str+str+html", lambda: mk({"c": "<1>"}, {"c": "<2>"}, {"c": HTML("<3>")}))
show("html+str+str", lambda: mk({"c": HTML("<1>")}, {"c": "<2>"}, {"c": "<3>"}))
show("str+html+str", lambda: mk({"c": "<1>"}, {"c": HTML("<2>")}, {"c": "<3>"}))
show("name normalisation merge", lambda: mk({"data_x": "1", "data-x": "2", "data_x_": "3"}))
show("same dict dup after norm", lambda: mk({"a_": "1", "a": "2"}))
show("key order", lambda: mk({"b": "1", "a": "2"}, {"c": "3", "b": "4"}))
show("empty strings", lambda: mk({"class": ""}, {"class": ""}))
show("bad type", lambda: mk({"a": "ok"}, {"b": Obj()}))
show("bad type list", lambda: mk(a=["x"]))
show("non mapping", lambda: mk([("a", "b")]))
show("non mapping none", lambda: mk(None))
show("ordereddict", lambda: mk(OrderedDict([("z", "1"), ("y", "2")]), OrderedDict([("y", "3")])))
show("tagattrdict arg", lambda: mk(TagAttrDict(class_="a"), TagAttrDict(class_=HTML("b"))))


def upd():
    d = TagAttrDict(class_="a", id="i", style="x:y;")
    d.update({"class": "b"}, {"class": "c"}, id="j")
    return desc(d)


show("update replaces existing", upd)


def upd_fail():
    d = TagAttrDict(class_="a")
    try:
        d.update({"class": "b", "id": "z"}, {"x": Obj()})
    except TypeError as e:
        return ("TypeError", desc(d))
    return desc(d)


show("update failing leaves dict untouched", upd_fail)


def upd_noop():
    d = TagAttrDict(class_="a")
    r1 = d.update()
    r2 = d.update({})
    r3 = d.update({"class": None}, id=False)
    return (r1, r2, r3, desc(d))


show("update no-ops", upd_noop)


def upd_html_existing():
    d = TagAttrDict(class_=HTML("<a>"))
    d.update({"class": d.get("class")}, {"class": "<b>"})
    return desc(d)


show("update html existing", upd_html_existing)

# Through Tag constructor and rendering
show("div merge", lambda: str(div({"class": "a"}, {"class": "b"}, class_="c", style="x:1;")))
show("div html merge", lambda: str(div({"class": HTML("&amp;")}, class_="<&>")))
show("div str+html merge", lambda: str(div({"class": "<&>'"}, class_=HTML("&amp;"))))
show("span bool", lambda: str(span(hidden=True, disabled=False, title=None)))
show("add_class chain", lambda: str(div(class_="a").add_class("b").add_class(HTML("<c>")).add_class("<d>", prepend=True)))
show("add_style chain", lambda: str(div().add_style("a:1;").add_style(HTML("b:'2';")).add_style("c:\"3\";", prepend=True)))
show("tags.a", lambda: str(tags.a({"href": "x", "class": "l1"}, "t", class_="l2", data_foo_="1")))
