# Deterministic probe for property C14 (TagList / Tag child normalisation).
import copy
from collections import UserList, deque

import htmltools
from htmltools import HTML, HTMLDependency, Tag, TagList, div, span, is_tag_child, is_tag_node
from htmltools._core import _tagchilds_to_tagnodes
from htmltools._util import flatten


def show(label, fn):
    try:
        r = fn()
        print(label, "->", type(r).__name__, repr(r))
    except BaseException as e:  # noqa: BLE001
        print(label, "-> EXC", type(e).__name__, str(e))


def desc(x):
    """Structure description that does not depend on object ids."""
    if isinstance(x, TagList):
        return ("TL", type(x).__name__, [desc(c) for c in x.data])
    if isinstance(x, Tag):
        return ("TAG", x.name, sorted(x.attrs.items()), desc(x.children))
    if isinstance(x, HTMLDependency):
        return ("DEP", x.name, str(x.version))
    return (type(x).__name__, repr(x))


class MyInt(int):
    def __str__(self):
        return "myint!"


class MyFloat(float):
    def __str__(self):
        return "myfloat!"


class MyStr(str):
    pass


class Tagif:
    def tagify(self):
        return span("tagified")

    def __repr__(self):
        return "<Tagif>"


class ReprH:
    def _repr_html_(self):
        return "<b>r</b>"

    def __repr__(self):
        return "<ReprH>"


class Weird:
    def __repr__(self):
        return "<Weird>"


class SubTL(TagList):
    pass


class LogIter:
    """Iterable that logs iteration, to observe order of side effects."""

    def __init__(self, items, log):
        self.items = items
        self.log = log

    def __iter__(self):
        for it in self.items:
            self.log.append(("yield", repr(it)))
            yield it


dep = HTMLDependency("dep", "1.0", source={"subdir": "."}, script={"src": "a.js"})

VALUES = [
    None, "", "abc", MyStr("ms"), HTML("<i>x</i>"), 0, 1, -3, True, False, 1.5, float("nan"),
    float("inf"), MyInt(7), MyFloat(2.5), 10**30, [], (), [None], [[], [None, [()]]],
    ["a", ["b", ("c", None, 4)], 5.0], TagList(), TagList("x", 1, None, ["y"]), SubTL("s", 2),
    div(), div("k", 1, id="a"), dep, Tagif(), ReprH(), Weird(), object, b"bytes", bytearray(b"ba"),
    {"a": 1}, {1, }, frozenset(), range(3), deque(["d"]), UserList(["u", 1]), 3 + 4j,
    iter(["it"]), (x for x in "ge"), [Weird()], ["ok", [1, Weird()]], [b"b"], ("t", {"k": "v"}),
    {"k": "v"}.keys(), memoryview(b"mv"),
]


def fresh(i):
    # regenerate one-shot iterators each time
    v = VALUES[i]
    if i == VALUES.index(VALUES[40]) and False:
        return v
    return v


def regen():
    global VALUES
    VALUES[40] = iter(["it"])
    VALUES[41] = (x for x in "ge")


print("== predicates")
for i, v in enumerate(VALUES):
    regen()
    v = VALUES[i]
    show(f"is_tag_node[{i}]", lambda: is_tag_node(v))
    show(f"is_tag_child[{i}]", lambda: is_tag_child(v))

print("== flatten / _tagchilds_to_tagnodes")
for i, v in enumerate(VALUES):
    regen(); v = VALUES[i]
    show(f"flatten[{i}]", lambda: [desc(c) for c in flatten(v)])
    regen(); v = VALUES[i]
    show(f"t2n[{i}]", lambda: [desc(c) for c in _tagchilds_to_tagnodes(v)])
    regen(); v = VALUES[i]
    show(f"t2n-wrapped[{i}]", lambda: [desc(c) for c in _tagchilds_to_tagnodes([v, "z", v])])

# flatten does not alter input and returns a fresh list
src = ["a", [1, None], ("b",)]
out = flatten(src)
print("flatten fresh", out is src, src, out)
src2 = [1, "a"]
out2 = _tagchilds_to_tagnodes(src2)
print("t2n fresh", out2 is src2, src2, out2)
s = "whole"
print("t2n str", _tagchilds_to_tagnodes(s), _tagchilds_to_tagnodes(MyStr("q")), _tagchilds_to_tagnodes(""))
show("t2n None", lambda: _tagchilds_to_tagnodes(None))
show("t2n int", lambda: _tagchilds_to_tagnodes(5))
show("flatten None", lambda: flatten(None))

print("== order of side effects")
log = []
show("t2n logiter", lambda: _tagchilds_to_tagnodes(LogIter(["a", MyInt(1), Weird(), MyFloat(2.0)], log)))
print(log)


class LoudInt(int):
    def __str__(self):
        LOG.append("str(LoudInt)")
        return "loud"


LOG = []
show("t2n loud then bad", lambda: _tagchilds_to_tagnodes([LoudInt(1), LoudInt(2), Weird(), LoudInt(3)]))
print(LOG)

print("== constructors")
show("TagList()", lambda: desc(TagList()))
show("TagList().data", lambda: TagList().data)
show("SubTL()", lambda: desc(SubTL()))
show("TagList(None)", lambda: desc(TagList(None)))
show("TagList([])", lambda: desc(TagList([])))
a = TagList(); b = TagList()
print("distinct data", a.data is b.data, a == b, a.data == [])
a.append("x"); print("after append", a.data, b.data)
for i, v in enumerate(VALUES):
    regen(); v = VALUES[i]
    show(f"TagList(v)[{i}]", lambda: desc(TagList(v)))
    regen(); v = VALUES[i]
    show(f"TagList(1,v,'e')[{i}]", lambda: desc(TagList(1, v, "e")))
    regen(); v = VALUES[i]
    show(f"div(v)[{i}]", lambda: desc(div(v, "e")))
    regen(); v = VALUES[i]
    show(f"Tag('x', v)[{i}]", lambda: desc(Tag("x", v, {"class": "c"}, v if not hasattr(v, "__next__") else None, _add_ws=False)))
show("Tag no args", lambda: desc(Tag("p")))
show("Tag attrs only", lambda: desc(Tag("p", {"a": "1"}, {"a": "2"}, b="3")))
show("Tag bad add_ws", lambda: Tag("p", Weird(), _add_ws=1))
show("Tag bad child", lambda: Tag("p", "a", Weird()))
show("Tag mixed", lambda: desc(Tag("p", "a", {"x": "1"}, ["b", {"y": "2"}])))

print("== mutation ops (unchanged on failure)")
for i, v in enumerate(VALUES):
    for opname in ("append", "extend", "insert0", "insert1", "insert-1", "insert99", "iadd", "add", "radd",
                   "tag.append", "tag.extend", "tag.insert"):
        regen(); v = VALUES[i]
        tl = TagList("p", div("q"), 3)
        tg = div("p", span(), 3)
        before = desc(tl), desc(tg)
        try:
            if opname == "append":
                r = tl.append(v)
            elif opname == "extend":
                r = tl.extend(v)
            elif opname == "insert0":
                r = tl.insert(0, v)
            elif opname == "insert1":
                r = tl.insert(1, v)
            elif opname == "insert-1":
                r = tl.insert(-1, v)
            elif opname == "insert99":
                r = tl.insert(99, v)
            elif opname == "iadd":
                old = tl
                tl += v
                r = tl is old
            elif opname == "add":
                r = desc(tl + v)
            elif opname == "radd":
                r = desc(v + tl)
            elif opname == "tag.append":
                r = tg.append(v, v if not hasattr(v, "__next__") else "n")
            elif opname == "tag.extend":
                r = tg.extend(v)
            elif opname == "tag.insert":
                r = tg.insert(1, v)
            print(f"{opname}[{i}] ->", repr(r), desc(tl), desc(tg), all(is_tag_node(c) for c in tl), all(is_tag_node(c) for c in tg.children))
        except BaseException as e:  # noqa: BLE001
            print(f"{opname}[{i}] -> EXC", type(e).__name__, str(e), "unchanged:", (desc(tl), desc(tg)) == before)

print("== multi-arg append")
tl = TagList()
show("append()", lambda: tl.append())
show("append many", lambda: (tl.append(1, None, ["a", [2.5]], TagList("z")), desc(tl))[1])
show("append bad last", lambda: tl.append("ok", Weird()))
print(desc(tl))

print("== add/radd result types and identity")
base = SubTL("a", 1)
r1 = base + ["b"]
r2 = ["b"] + base
r3 = base + "str"
r4 = "str" + base
r5 = base + TagList("t")
r6 = ("x", None, 2) + base
r7 = base + MyStr("ms")
r8 = MyStr("ms") + base
for n, r in [("r1", r1), ("r2", r2), ("r3", r3), ("r4", r4), ("r5", r5), ("r6", r6), ("r7", r7), ("r8", r8)]:
    print(n, type(r).__name__, desc(r), r is base, desc(base))
show("add int", lambda: base + 5)
show("radd int", lambda: 5 + base)
show("add None", lambda: base + None)
show("radd None", lambda: None + base)
show("add dict", lambda: desc(base + {"k": 1}))
show("add tag", lambda: desc(base + div("x")))
show("radd HTML", lambda: desc(HTML("<b>") + base))
show("add HTML", lambda: desc(base + HTML("<b>")))
show("add gen", lambda: desc(base + (c for c in ["g", 1])))
show("__radd__ direct list", lambda: desc(base.__radd__([1, [2]])))
show("__add__ direct bad", lambda: base.__add__([Weird()]))
log = []
show("add logiter", lambda: desc(base + LogIter(["l", 1, None], log)))
show("radd logiter", lambda: desc(base.__radd__(LogIter(["l", Weird()], log))))
print(log)

print("== slicing / repetition / copy")
tl = TagList("a", 1, div("d"), None, [2.5, "z"])
show("slice", lambda: (type(tl[1:3]).__name__, desc(tl[1:3])))
show("slice empty", lambda: (type(tl[5:]).__name__, desc(tl[5:])))
show("index", lambda: tl[1])
show("mul", lambda: desc(tl * 2))
show("rmul", lambda: desc(2 * tl))
show("mul0", lambda: desc(tl * 0))
def imul():
    t = TagList("a", 1); t *= 2; return desc(t)
show("imul", imul)
show("copy", lambda: desc(copy.copy(tl)))
show("copy()", lambda: desc(tl.copy()))
show("sub slice", lambda: (type(SubTL("a", "b")[0:1]).__name__))
show("tagify", lambda: desc(TagList("a", Tagif(), dep, TagList("n"), div(Tagif())).tagify()))


class TLTagif:
    def tagify(self):
        return TagList("x", span("y"), HTML("h"))


show("tagify splice", lambda: desc(TagList("a", TLTagif(), "b").tagify()))
show("tag.tagify", lambda: desc(div("a", TLTagif(), Tagif()).tagify()))
show("render", lambda: str(TagList("a", 1, 2.5, None, [div("x", [True, MyInt(3)])])))
from htmltools._jsx import JSXTag
show("jsx", lambda: desc(JSXTag("Foo", "a", 1, None, ["b", MyInt(2)]).children))
show("jsx empty", lambda: desc(JSXTag("Foo").children))
show("jsx bad", lambda: JSXTag("Foo", Weird()))

print("== deep nesting")
deep = "leaf"
for _ in range(200):
    deep = [deep, None]
show("deep200", lambda: desc(TagList(deep)))
for depth in (900, 990, 2000):
    d = "leaf"
    for _ in range(depth):
        d = [d]
    # only the exception type / success is compared (message constant)
    show(f"deep{depth}", lambda: len(TagList(d)))

print("== extra (refactoring 3): attribute-lookup order inside is_tag_child")
from collections.abc import Sequence as _Seq


class Spy:
    def __init__(self):
        self.seen = []

    def __getattr__(self, name):
        object.__getattribute__(self, "seen").append(name)
        raise AttributeError(name)


sp = Spy()
print(is_tag_child(sp), sp.seen)
sp = Spy()
print(is_tag_node(sp), sp.seen)


class VirtualSeq:
    pass


_Seq.register(VirtualSeq)
print(is_tag_child(VirtualSeq()), is_tag_node(VirtualSeq()))
show("TagList(VirtualSeq())", lambda: TagList(VirtualSeq()))
for v in (None, True, 0, 0.0, "", (), [], TagList(), SubTL(), div(), dep, HTML(""), Weird(), b"", range(0), {}, set()):
    r = is_tag_child(v)
    print(type(v).__name__, r, type(r).__name__, r is True or r is False)
