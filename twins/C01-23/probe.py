# Probe for refactoring 3: _tagchilds_to_tagnodes (child normalisation used by TagList/Tag constructors,
# extend/append/insert/+ and tagify)
from htmltools import HTML, Tag, TagList, div, span, HTMLDependency
from htmltools._core import _tagchilds_to_tagnodes

LOG = []


def desc(v):
    if isinstance(v, (Tag, TagList)):
        return type(v).__name__ + ":" + repr(str(v))
    if isinstance(v, HTML):
        return "HTML:" + repr(str(v))
    if isinstance(v, HTMLDependency):
        return "Dep:" + v.name
    if isinstance(v, str):
        return type(v).__name__ + ":" + repr(str.__str__(v))
    return type(v).__name__


def show(label, fn):
    del LOG[:]
    try:
        r = fn()
        if isinstance(r, TagList):
            out = "TagList[" + ", ".join(desc(v) for v in r.data) + "]"
        elif isinstance(r, list):
            out = "list[" + ", ".join(desc(v) for v in r) + "]"
        else:
            out = desc(r)
        print(label, "->", out, LOG)
    except Exception as e:  # noqa
        print(label, "-> EXC", type(e).__name__, str(e), LOG)


class Rep:
    def _repr_html_(self):
        return "<i>rep</i>"


class Tfy:
    def tagify(self):
        return TagList("t1", span("t2"), 3)


class TfyBad:
    def tagify(self):
        return 7


class NoneRep:
    _repr_html_ = None


class AttrTfy:
    tagify = 5


class InstRep:
    def __init__(self):
        self._repr_html_ = lambda: "<inst/>"


class S(str):
    pass


class I(int):
    pass


class F(float):
    def __str__(self):
        return "F!"


dep = HTMLDependency("d", "1")
d1 = div("x")

inputs = {
    "empty": (),
    "strs": ("a", "", "b<"),
    "nums": (0, 1, -1, 2.5, -0.0, 1e20, 1e-7, float("inf"), float("nan"), 10**30),
    "bools": (True, False),
    "nones": (None, "a", None, [None, [None]], (None,)),
    "nested": (["a", ["b", ("c", [1, [2.0, [None, "d"]]])]], ("e",), [], (), [[]]),
    "taglists": (TagList("a", 1), TagList(), TagList(TagList("b"), [TagList("c")])),
    "tags": (d1, span(), Tag("br")),
    "html": (HTML("<b>"), HTML("")),
    "dep": (dep, "a", dep),
    "rep": (Rep(), "a"),
    "tfy": (Tfy(), TfyBad()),
    "subcls": (S("s<"), I(4), F(1.5)),
    "mixed": ("a", 1, None, [d1, 2.5, (HTML("h"), [dep, Rep()])], TagList("z", 9)),
    "bytes": ("a", b"x"),
    "dict": ("a", {"k": "v"}),
    "set": ({"k"},),
    "obj": ("a", 1, object(), "never"),
    "complex": (1j,),
    "gen inside": ((c for c in "ab"),),
    "range inside": (range(3),),
    "late bad": (1, 2, [3, [object()]], 4),
    "two bad": (b"x", object()),
    "none rep": ("a", NoneRep()),
    "attr tfy": ("a", AttrTfy()),
    "inst rep": ("a", InstRep()),
}

for label, args in inputs.items():
    show(f"fn {label}", lambda: _tagchilds_to_tagnodes(args))
    show(f"fn-list {label}", lambda: _tagchilds_to_tagnodes(list(args)))
    show(f"fn-gen {label}", lambda: _tagchilds_to_tagnodes(a for a in args))
    show(f"TagList {label}", lambda: TagList(*args))
    show(f"div {label}", lambda: div(*args).children)
    show(f"extend {label}", lambda: (lambda t: (t.extend(args), t)[1])(TagList("pre")))
    show(f"append {label}", lambda: (lambda t: (t.append(*args), t)[1])(TagList("pre")) if args else "n/a")
    show(f"insert {label}", lambda: (lambda t: (t.insert(1, args), t)[1])(TagList("p0", "p1")))
    show(f"add {label}", lambda: TagList("pre") + args)
    show(f"radd {label}", lambda: args + TagList("post"))
    show(f"iadd {label}", lambda: TagList("pre").__iadd__(args))
    show(f"tag.append {label}", lambda: (lambda t: (t.append(*args), t.children)[1])(div("k")))
    show(f"render {label}", lambda: str(div(*args)))

# non-iterable / string / odd top-level arguments
show("fn str", lambda: _tagchilds_to_tagnodes("abc"))
show("fn str subclass", lambda: _tagchilds_to_tagnodes(S("abc")))
show("fn HTML", lambda: _tagchilds_to_tagnodes(HTML("abc")))
show("fn int", lambda: _tagchilds_to_tagnodes(5))
show("fn None", lambda: _tagchilds_to_tagnodes(None))
show("fn bytes", lambda: _tagchilds_to_tagnodes(b"ab"))
show("fn dict", lambda: _tagchilds_to_tagnodes({"a": 1}))
show("fn tag", lambda: _tagchilds_to_tagnodes(div("a", "b")))
show("fn taglist", lambda: _tagchilds_to_tagnodes(TagList("a", 1)))
show("extend str", lambda: (lambda t: (t.extend("abc"), t)[1])(TagList()))
show("add str", lambda: TagList("a") + "bc")
show("radd str", lambda: "bc" + TagList("a"))
show("add int", lambda: TagList("a") + 5)

# identity and aliasing
src = ["a", d1, [dep]]
out = _tagchilds_to_tagnodes(src)
print("identity", out is src, out[1] is d1, out[2] is dep, src == ["a", d1, [dep]], len(src))
out2 = _tagchilds_to_tagnodes(src)
print("fresh", out2 is out, out2 == out)
tl = TagList("a", 1)
out3 = _tagchilds_to_tagnodes(tl)
out3.append("zzz")
print("taglist untouched", tl.data, out3)
nums = [1, 2.5, True]
_tagchilds_to_tagnodes(nums)
print("input not mutated", nums)

# tagify flattening goes through the same helper
show("tagify", lambda: TagList("a", Tfy(), "b").tagify())
show("tagify bad", lambda: TagList(TfyBad()).tagify())
show("tagify nested", lambda: div(Tfy(), div(Tfy())).tagify().children)
