"""Probe for HTMLDependency.as_dict / as_html_tags (and source_path_map, which feeds them)."""
from copy import deepcopy

from htmltools import HTML, HTMLDependency, HTMLDocument, Tag, TagList, div, span, tags


def show(label, fn):
    try:
        print(label, "->", repr(fn()))
    except Exception as e:  # noqa: BLE001
        print(label, "!!", type(e).__name__, str(e)[:90])


def state(dep):
    return deepcopy((dep.name, str(dep.version), dep.source, dep.script, dep.stylesheet, dep.meta,
                     dep.all_files, None if dep.head is None else str(dep.head)))


OPTIONS = [
    {},
    {"lib_prefix": None},
    {"lib_prefix": ""},
    {"lib_prefix": "static/libs", "include_version": False},
    {"lib_prefix": None, "include_version": False},
]


def run(label, dep):
    before = state(dep)
    ids_before = [id(x) for x in dep.script + dep.stylesheet + dep.meta]
    for i, opts in enumerate(OPTIONS):
        tag = f"{label}[{i}]"
        show(tag + " path_map", lambda: dep.source_path_map(**opts))
        show(tag + " as_dict", lambda: dep.as_dict(**opts))
        show(tag + " dict keys", lambda: [list(x.keys()) for x in dep.as_dict(**opts)["stylesheet"] + dep.as_dict(**opts)["script"]])
        show(tag + " as_html_tags", lambda: str(dep.as_html_tags(**opts)))
        show(tag + " tag types", lambda: [type(x).__name__ for x in dep.as_html_tags(**opts)])
    show(label + " repeat", lambda: (dep.as_dict() == dep.as_dict(), dep.as_html_tags() == dep.as_html_tags()))
    show(label + " json", lambda: str(dep.serialize_to_script_json()))
    print(label, "unchanged:", state(dep) == before,
          ids_before == [id(x) for x in dep.script + dep.stylesheet + dep.meta])


def fresh_items(label, dep):
    d = dep.as_dict()
    print(label, "fresh script dicts:", [a is b for a, b in zip(d["script"], dep.script)],
          "fresh sheet dicts:", [a is b for a, b in zip(d["stylesheet"], dep.stylesheet)],
          "meta is self.meta:", d["meta"] is dep.meta)
    for s in d["script"] + d["stylesheet"]:
        s["mutated"] = "yes"
    print(label, "after mutating result:", dep.script, dep.stylesheet)


url = HTMLDependency(
    "url dep", "1.2.3",
    source={"href": "https://cdn.example.com/lib/"},
    script=[{"src": "a b.js"}, {"src": "sub/ü.js", "defer": "", "type": "module"}],
    stylesheet=[{"href": "c&d.css"}, {"media": "print", "href": "p.css", "rel": "preload"}],
    meta=[{"name": "viewport", "content": "width=device-width"}, {"name": "x", "content": "<&>"}],
    head=TagList(tags.title("T"), HTML("<!-- c -->")),
)
run("url", url)
fresh_items("url", url)

local = HTMLDependency(
    "local", "0.0.1", source={"subdir": "/tmp/does/not/exist/"},
    script={"src": "/abs.js"}, stylesheet={"href": "../up.css"}, head="<link rel='x'>", all_files=True,
)
run("local", local)

pkg = HTMLDependency("pkg", "4", source={"package": "htmltools", "subdir": "lib/shiny"}, script={"src": "x.js"})
show("pkg href", lambda: pkg.source_path_map()["href"])
show("pkg source tail", lambda: pkg.source_path_map()["source"].split("htmltools")[-1])
show("pkg tags", lambda: str(pkg.as_html_tags(lib_prefix="L", include_version=False)))
badpkg = HTMLDependency("bp", "1", source={"package": "no_such_pkg_xyz", "subdir": "s"}, script={"src": "x.js"})
show("badpkg dict", badpkg.as_dict)
show("badpkg tags", badpkg.as_html_tags)

run("bare", HTMLDependency("bare", "1"))
run("nosource", HTMLDependency("ns", "2.0", script={"src": "only.js"}, stylesheet={"href": "only.css"}))
run("head-only", HTMLDependency("ho", "1", head=div("in head", span("x"))))
run("numeric-name", HTMLDependency(5, "1", source={"subdir": "s"}, script={"src": "n.js"}))

# items changed after construction
late = HTMLDependency("late", "1", source={"href": "/l"}, script={"src": "ok.js"}, stylesheet={"href": "ok.css"})
del late.stylesheet[0]["rel"]
late.stylesheet[0]["title"] = "t"
run("no-rel", late)
late.stylesheet.append({"rel": "stylesheet"})
run("sheet-without-href", late)
late.stylesheet.pop()
late.script.append({"defer": ""})
run("script-without-src", late)
late.script[-1] = {"src": None}
run("script-src-none", late)
late.script[-1] = {"src": 3}
run("script-src-int", late)
late.script[-1] = {"src": b"bytes.js"}
run("script-src-bytes", late)
late.script.pop()
late.meta.append({"name": "m", "content": "c", "_add_ws": False})
run("meta-add-ws", late)
late.meta[-1] = {"_name": "clash"}
run("meta-name-clash", late)
late.meta[-1] = "not a dict"
run("meta-not-dict", late)
late.meta.pop()

# the very same dict listed twice
one = {"href": "twice.css"}
twice = HTMLDependency("twice", "1", source={"href": "/t"}, stylesheet=[one, one])
run("same-dict-twice", twice)
sc = {"src": "s s.js"}
twice_s = HTMLDependency("twice-s", "1", source={"subdir": "x"}, script=[sc, sc, {"src": "other.js"}])
run("same-script-twice", twice_s)


# dict subclass items survive the deep copy
class Rec(dict):
    pass


rec = HTMLDependency("rec", "1", source={"href": "/r"}, script=Rec(src="r.js"), stylesheet=Rec(href="r.css"))
run("dict-subclass", rec)
print("subclass kept:", [type(x).__name__ for x in rec.as_dict()["script"] + rec.as_dict()["stylesheet"]])

# through rendering
page = div("x", url, span(local))
print("render:", repr(HTMLDocument(page).render(lib_prefix="lp")["html"]))
print("render deps:", [(d.name, str(d.version)) for d in page.render()["dependencies"]], str(page) == page.render()["html"])
print("equality:", url == deepcopy(url), url == local, url.as_html_tags() == deepcopy(url).as_html_tags())
