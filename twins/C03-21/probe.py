"""Probe for refactoring 1: html_escape (htmltools/_util.py)."""
from htmltools import HTML, div, html_escape, tags
from htmltools._util import _html_escape


class MyStr(str):
    pass


def show(label, fn):
    try:
        res = fn()
        print(label, "->", type(res).__name__, repr(res))
    except Exception as e:  # noqa: BLE001
        print(label, "-> EXC", type(e).__name__, str(e))


SPECIALS = ["&", "<", ">", '"', "'", "\r", "\n"]
TEXTS = [
    "",
    "plain",
    "a&b",
    "&amp;",
    "&&&&",
    "<script>alert('x')</script>",
    'x" onclick="evil()',
    "x' y",
    "line1\nline2\r\nline3\r",
    "tab\tand\x00nul\x0b\x0c",
    "  \x85 unicode seps",
    "café \U0001f600 &",
    "|",
    "a|b",
    "&#13;&#10;&quot;&apos;",
    "".join(SPECIALS),
    "".join(SPECIALS) * 3,
    " leading and trailing ",
    "><",
    "\\n \\r",
]

for t in TEXTS:
    for attr in (False, True, 0, 1, None, "", "yes"):
        show(f"html_escape({t!r}, attr={attr!r})", lambda: html_escape(t, attr))
    show(f"html_escape({t!r})", lambda: html_escape(t))
    show(f"_html_escape({t!r}, attr=True)", lambda: _html_escape(t, attr=True))

# every single special char, each mode, plus identity when nothing to escape
for c in SPECIALS + ["x", "|", ";", "#"]:
    show(f"single {c!r} text", lambda: html_escape(c))
    show(f"single {c!r} attr", lambda: html_escape(c, attr=True))

for t in ["nothing to escape", "quote ' only", "", "amp & here"]:
    print("identity text", repr(t), html_escape(t) is t)
    print("identity attr", repr(t), html_escape(t, attr=True) is t)

# str subclasses
for t in [MyStr("safe"), MyStr("a<b"), MyStr("it's"), MyStr("")]:
    r1 = html_escape(t)
    r2 = html_escape(t, attr=True)
    print("subclass", repr(t), type(r1).__name__, repr(r1), r1 is t, type(r2).__name__, repr(r2), r2 is t)

# non-str inputs
for bad in [None, 1, 1.5, b"a<b", b"abc", bytearray(b"a&b"), HTML("a<b"), ["<"], ("&",), True, object]:
    show(f"bad {bad!r} text", lambda: html_escape(bad))
    show(f"bad {bad!r} attr", lambda: html_escape(bad, attr=True))

# Through the library: attribute rendering, children, HTML + str
for t in TEXTS:
    show(f"div(title={t!r})", lambda: str(div(title=t)))
    show(f"div({t!r})", lambda: str(div(t)))
    show(f"div(a, b children {t!r})", lambda: str(div(t, tags.span(t))))
    show(f"HTML + {t!r}", lambda: HTML("<b>") + t)
    show(f"{t!r} + HTML", lambda: t + HTML("<b>"))
    show(f"merged {t!r}", lambda: str(div({"class": t}, class_=HTML("<k>"))))
    show(f"merged2 {t!r}", lambda: str(div({"class": HTML("<k>")}, class_=t)))
    show(f"script child {t!r}", lambda: str(tags.script(t)))
