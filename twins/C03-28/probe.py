import sys
from collections import OrderedDict, UserString

import htmltools
from htmltools import HTML, Tag, TagList, div, span, tags, html_escape
from htmltools._core import TagAttrDict
from htmltools import _util


def show(label, fn):
    try:
        r = fn()
        print(label, "->", type(r).__name__, repr(r))
    except BaseException as e:  # noqa
        print(label, "-> EXC", type(e).__name__, str(e))


class MyStr(str):
    pass


class MyInt(int):
    pass


class MyHTML(HTML):
    pass


class Weird:
    def __str__(self):
        return "weird<&>"


# ---------------- escape tables -----------------
print("TABLE", list(_util.HTML_ESCAPE_TABLE.items()))
print("ATTRTABLE", list(_util.HTML_ATTRS_ESCAPE_TABLE.items()))
print("types", type(_util.HTML_ESCAPE_TABLE).__name__, type(_util.HTML_ATTRS_ESCAPE_TABLE).__name__)
print("distinct", _util.HTML_ESCAPE_TABLE is not _util.HTML_ATTRS_ESCAPE_TABLE)
print("alias", _util._html_escape is _util.html_escape, htmltools.html_escape is _util.html_escape)

# ---------------- html_escape -----------------
texts = [
    "", "plain", "&", "&&", "&amp;", "<>", "<a href='x'>\"q\"</a>", "a\rb\nc\r\n",
    "'", '"', "\r", "\n", "\t tab", "&#10;", "&lt;&gt;", "unicode é   \x00 \x85",
    "a|b", "x" * 50 + "&" + "y" * 50, MyStr("sub<class>&'\""),
    "mixed & < > \" ' \r \n end", "\\ backslash", "&apos;&quot;",
]
for t in texts:
    for a in (False, True, 0, 1, None, "yes", "", [], [0]):
        show(f"esc({t!r},attr={a!r})", lambda: html_escape(t, a))
    show(f"esc({t!r})", lambda: html_escape(t))
    show(f"esc(kw {t!r})", lambda: html_escape(text=t, attr=True))
# identity on nothing-to-escape
s = "nothing to escape here"
print("same-object", html_escape(s) is s, html_escape(s, True) is s)
s2 = MyStr("sub no escape")
print("same-object-sub", html_escape(s2) is s2, type(html_escape(s2)).__name__, type(html_escape(MyStr("a&b"))).__name__)
for bad in (None, 1, 1.5, b"a&b", HTML("a&b"), ["a"], UserString("a&b"), Weird()):
    show(f"esc(bad {type(bad).__name__})", lambda: html_escape(bad))
    show(f"esc(bad {type(bad).__name__},attr)", lambda: html_escape(bad, attr=True))
show("esc()", lambda: html_escape())
show("esc(3 args)", lambda: html_escape("a", True, 1))

# mutated tables are read at call time
_util.HTML_ESCAPE_TABLE["z"] = "&zed;"
show("mut plain", lambda: html_escape("az&z"))
show("mut attr", lambda: html_escape("az&z", True))
del _util.HTML_ESCAPE_TABLE["z"]
_util.HTML_ATTRS_ESCAPE_TABLE["y"] = "&why;"
show("mut2 plain", lambda: html_escape("ay&y'"))
show("mut2 attr", lambda: html_escape("ay&y'", True))
del _util.HTML_ATTRS_ESCAPE_TABLE["y"]
show("restored", lambda: html_escape("zy&'", True))

# ---------------- _normalize_attr_value -----------------
vals = [
    None, False, True, "", "a", "<&>", 0, 1, -1, 2.5, 0.0, -0.0, float("nan"), float("inf"), 10**30,
    1e100, MyStr("ms"), MyInt(7), MyInt(0), MyInt(1), HTML(""), HTML("<b>"), MyHTML("x&"),
    b"bytes", [], ["a"], ("a",), {}, {"a": 1}, set(), 1j, object, Weird(), UserString("us"),
    div("x"), TagList("a"), Ellipsis, NotImplemented, range(2),
]
for v in vals:
    lab = f"{type(v).__name__}:{v!r}" if not isinstance(v, (Weird,)) else "Weird"
    show(f"norm({lab})", lambda: TagAttrDict._normalize_attr_value(v))
    show(f"norm-inst({lab})", lambda: TagAttrDict()._normalize_attr_value(v))
for v in ("s", MyStr("m"), HTML("h"), MyHTML("mh")):
    print("norm identity", type(v).__name__, TagAttrDict._normalize_attr_value(v) is v)
print("norm int type", type(TagAttrDict._normalize_attr_value(MyInt(3))).__name__)
show("norm()", lambda: TagAttrDict._normalize_attr_value())
show("norm(kw)", lambda: TagAttrDict._normalize_attr_value(x=5))

# ---------------- __setitem__ -----------------
names = ["a", "class_", "data_foo_bar", "_", "", "__", "_x_", "for_", "A_B", "a-b", "x y", MyStr("sub_n_")]
for n in names:
    for v in vals:
        d = TagAttrDict(keep="1")
        lab = "Weird" if isinstance(v, Weird) else repr(v)
        def f():
            d[n] = v
            return [(k, type(x).__name__, str(x)) for k, x in d.items()]
        show(f"set[{n!r}]={lab}", f)
        print("   after", [(k, type(x).__name__, str(x)) for k, x in dict.items(d)])
for n in (None, 1, b"a_", ("a",), 2.5):
    for v in ("v", None, False, True, [], 3):
        d = TagAttrDict()
        def f():
            d[n] = v
            return list(d.items())
        show(f"set[{n!r}]={v!r}", f)
# overwrite / keep ordering
d = TagAttrDict(a="1", b="2")
d["a"] = "3"; d["c_"] = 4; d["b"] = None; d["d"] = False; d["e"] = True; d["a_"] = HTML("<h>")
print("order", list(d.items()), [type(v).__name__ for v in d.values()])
d["class"] = "x"; d["class_"] = "y"
print("class", list(d.items()))
# values kept by identity
hv = HTML("<i>")
d = TagAttrDict(); d["k"] = hv
print("setitem identity", d["k"] is hv)
sv = MyStr("zz"); d["k2"] = sv
print("setitem identity str", d["k2"] is sv, type(d["k2"]).__name__)

# subclass hooks are honoured
class Sub(TagAttrDict):
    log = []
    @staticmethod
    def _normalize_attr_value(x):
        Sub.log.append(("val", x))
        return TagAttrDict._normalize_attr_value(x)
    @staticmethod
    def _normalize_attr_name(x):
        Sub.log.append(("name", x))
        return TagAttrDict._normalize_attr_name(x)

s = Sub(a_b=1, c=None)
s["d_"] = 2
s["e_"] = None
show("sub bad", lambda: s.__setitem__("f_", []))
s.update({"a_b": HTML("<x>"), "g": "'"}, {"g": HTML("&")}, h_=False, i_=True)
show("sub bad upd", lambda: s.update({"ok_": "1", "bad_": {}, "never_": "2"}))
print("sub", list(s.items()))
print("sublog", Sub.log)

# ---------------- update / constructor merging -----------------
def dump(d):
    return [(k, type(v).__name__, str(v)) for k, v in d.items()]

cases = [
    ((), {}),
    (({},), {}),
    (({}, {}), {}),
    (({"a": "1"},), {}),
    (({"a": "1"}, {"a": "2"}), {}),
    (({"a": "1"}, {"a": "2"}), {"a": "3"}),
    (({"class": "a<b"}, {"class_": "c'd"}), {"class_": 'e"f'}),
    (({"class": "a<b"}, {"class_": HTML("c'd&")}), {}),
    (({"class": HTML("a<b")}, {"class_": "c'd&\r\n\""}), {}),
    (({"class": HTML("a<b")}, {"class_": HTML("c'd&")}), {}),
    (({"class": HTML("a")}, {"class_": "b&"}, {"class": HTML("c")}, {"class": "d<"}), {"class_": "e>"}),
    (({"class": "a&"}, {"class_": "b<"}, {"class": HTML("c>")}, {"class": "d'"}), {}),
    (({"x": None}, {"x": "1"}, {"x": False}, {"x": True}, {"x": 2}, {"x": 2.5}), {}),
    (({"x": True}, {"x": True}), {"x": True}),
    (({"x": True}, {"x": HTML("")}), {}),
    (({"x": HTML("")}, {"x": True}), {}),
    (({"x": ""}, {"x": ""}), {}),
    (({"x": 0}, {"x": HTML("<0>")}, {"x": 1.5}), {}),
    (({"x": MyStr("m&")}, {"x": MyHTML("<h>")}), {"x": MyInt(3)}),
    (({"a_": "1", "a": "2", "a__": "3", "_a": "4"},), {"a_": "5"}),
    ((OrderedDict([("z", "1"), ("y", "2")]), {"z": "3"}), {"y": "4", "w": "5"}),
    (({"b": "1", "a": "2"}, {"a": "3", "c": None}), {"c": "4", "b": None}),
    (({"a": "<"},), {"a": ">"}),
    (({"style": "color:red;"}, {"style": HTML("a:b;")}, {"style": "\n"}), {}),
    (({"q": "'"}, {"q": '"'}, {"q": HTML("&amp;")}, {"q": "\r"}), {}),
    (({"ok": "1", "bad": []},), {}),
    (({"ok": "1"}, {"bad": object()}), {"later": "2"}),
    (({"ok": "1"},), {"bad": b"x"}),
    (({1: "x"},), {}),
    (({None: None},), {}),
    (({None: "v"},), {}),
    (("notamapping",), {}),
    ((None,), {}),
    (([("a", "1")],), {}),
    ((TagAttrDict(a="1", b=HTML("<b>")), TagAttrDict(a=HTML("2"), b="3&")), {}),
]
for i, (a, k) in enumerate(cases):
    # constructor
    def f():
        return dump(TagAttrDict(*a, **k))
    show(f"ctor[{i}]", f)
    # update onto existing (existing keys are overwritten, not merged)
    d = TagAttrDict({"class": "pre", "x": HTML("<pre>"), "a": "0"})
    def g():
        r = d.update(*a, **k)
        return (r, dump(d))
    show(f"upd[{i}]", g)
    print("   after", dump(d))
    # via Tag rendering
    def h():
        t = Tag("div", *[x for x in a], **k)
        return str(t)
    show(f"tag[{i}]", h)

# kwargs named like parameters / self
show("kw self-ish", lambda: dump(TagAttrDict({"args": "1"}, args="2", kwargs="3", name="4", value=5)))
# input mappings untouched
src1 = {"class_": "a", "k": None}; src2 = {"class": HTML("<b>")}
d = TagAttrDict(src1, src2)
print("src untouched", src1, src2, dump(d))
# merged result types and identity for non-merged
h1 = HTML("<one>"); s1 = MyStr("one")
d = TagAttrDict({"h": h1, "s": s1})
print("upd identity", d["h"] is h1, d["s"] is s1)
d = TagAttrDict({"h": h1}, {"h": HTML("two")})
print("merged HTML", type(d["h"]).__name__, repr(d["h"]), h1.data)
d = TagAttrDict({"h": MyHTML("<one>")}, {"h": "t'wo"})
print("merged sub HTML", type(d["h"]).__name__, repr(d["h"]))
d = TagAttrDict({"s": s1}, {"s": MyStr("two")})
print("merged str", type(d["s"]).__name__, repr(d["s"]))

# a mapping with only items()
class ItemsOnly:
    def __init__(self, pairs):
        self.pairs = pairs
        self.calls = 0
    def items(self):
        self.calls += 1
        return iter(self.pairs)

io = ItemsOnly([("a_", "1"), ("a", HTML("<2>")), ("a", "3'"), ("b", None)])
show("itemsonly", lambda: dump(TagAttrDict(io)))
print("itemsonly calls", io.calls)

# atomicity: an error part-way leaves the dict untouched
d = TagAttrDict(a="1")
show("atomic", lambda: d.update({"b": "2"}, {"c": []}))
print("atomic after", dump(d))

# ---------------- end to end rendering -----------------
evil = ['"><script>alert(1)</script>', "' onclick='x", "a\nb\rc", "&amp;", "x > y < z & w", "", "é中", "tab\there"]
for e in evil:
    show(f"render({e!r})", lambda: str(div(id=e)))
    show(f"render-merge({e!r})", lambda: str(div({"class": e}, class_=e)))
    show(f"render-merge-html({e!r})", lambda: str(div({"class": HTML("<raw>")}, class_=e)))
    show(f"render-html-merge({e!r})", lambda: str(div({"class": e}, class_=HTML("<raw>"))))
    show(f"render-html({e!r})", lambda: str(span(title=HTML(e))))
    show(f"child({e!r})", lambda: str(span(e, HTML(e))))
    def f():
        t = div()
        t.attrs["data_x"] = e
        t.attrs.update(data_y=e)
        t.add_class(e)
        t.add_style(e) if e.endswith(";") else None
        return str(t)
    show(f"attrs-set({e!r})", f)
show("bools", lambda: str(tags.input(disabled=True, checked=False, hidden=None, value=0, step=0.5, max=MyInt(3))))
show("html+str", lambda: repr(HTML("<a>") + "<b>&'"))
show("str+html", lambda: repr("<b>&'" + HTML("<a>")))
show("has_class", lambda: (div(class_="a b").has_class("a"), div(class_="a b").has_class("c")))
show("tagify", lambda: str(TagList(div(id="'")).tagify()))
