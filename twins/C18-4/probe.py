"""Probe for refactoring 4: TagList.get_dependencies, TagList.render, Tag.render."""
from htmltools import (
    HTML,
    HTMLDependency,
    HTMLDocument,
    MetadataNode,
    Tag,
    TagList,
    div,
    head_content,
    span,
    tags,
)


def show(label, fn):
    try:
        res = fn()
    except BaseException as e:  # noqa: BLE001
        print(label, "-> EXC", type(e).__name__)
    else:
        print(label, "->", repr(res))


tagmap = {}


def mk(tag, name, version, **kw):
    d = HTMLDependency(name, version, **kw)
    tagmap[id(d)] = tag
    return d


def ids(deps):
    return (type(deps).__name__, [(d.name, str(d.version), tagmap.get(id(d), "?")) for d in deps])


a1 = mk("a1", "a", "1.0")
a2 = mk("a2", "a", "2.0")
a2b = mk("a2b", "a", "2.0")
b1 = mk("b1", "b", "1.0", script={"src": "b.js"}, source={"subdir": "s"})
b0 = mk("b0", "b", "0.5")
c1 = mk("c1", "c", "1")
hcT = head_content(tags.title("T"))
hcT2 = head_content(tags.title("T"))
hcU = head_content(tags.title("U"))
tagmap[id(hcT)] = "hcT"
tagmap[id(hcT2)] = "hcT2"
tagmap[id(hcU)] = "hcU"


class Other(MetadataNode):
    pass


class ReprThing:
    def _repr_html_(self):
        return "<i>repr</i>"


trees = {
    "empty": TagList(),
    "strings only": TagList("a", HTML("<b>"), 1, None),
    "flat deps": TagList(a1, b1, c1),
    "flat dup": TagList(a1, a1, a2, a2b, a1),
    "dep first then tag": TagList(b0, div(a1, b1), a2),
    "tag first then dep": TagList(div(a2, span(b1, "t")), a1, b0),
    "deep": TagList(div(div(div(c1, div(b1)), a1), "x", span(a2))),
    "depth-first order": TagList(div(a1, div(b1), c1), div(div(c1), b0, a2)),
    "head contents": TagList(hcT, div(hcU, span(hcT2)), hcT),
    "other metadata ignored": TagList(Other(), a1, div(Other(), b1)),
    "repr html child": TagList(ReprThing(), a1),
    "deps inside dep head not collected": TagList(head_content(div(a1)), b1),
    "nested lists flattened": TagList([a1, [b1, [div(c1)]]], (a2,)),
}
for label, t in trees.items():
    show("TL dedup " + label, lambda: ids(t.get_dependencies()))
    show("TL raw   " + label, lambda: ids(t.get_dependencies(dedup=False)))
    show("TL render " + label, lambda: (t.render()["html"], ids(t.render()["dependencies"])))
    w = div(t, id="w")
    show("Tag dedup " + label, lambda: ids(w.get_dependencies()))
    show("Tag raw   " + label, lambda: ids(w.get_dependencies(dedup=False)))
    show("Tag render " + label, lambda: (w.render()["html"], ids(w.render()["dependencies"])))
    show("Doc " + label, lambda: HTMLDocument(t).render(lib_prefix="lib")["html"])

t = trees["depth-first order"]
show("fresh list each call", lambda: t.get_dependencies(dedup=False) is not t.get_dependencies(dedup=False))
show("render keys order", lambda: list(t.render().keys()))
show("render type", lambda: type(t.render()).__name__)
show("Tag render keys order", lambda: list(div(t).render().keys()))

# dedup flag truthiness
for flag in (True, False, 1, 0, None, "", "no", [], [0]):
    show("dedup=%r" % (flag,), lambda: ids(t.get_dependencies(dedup=flag)))


class BadBool:
    def __bool__(self):
        print("   __bool__ called")
        raise ZeroDivisionError


show("dedup raising bool", lambda: ids(t.get_dependencies(dedup=BadBool())))
show("TagList positional dedup", lambda: t.get_dependencies(False))
show("Tag positional dedup", lambda: ids(div(t).get_dependencies(False)))


# Tag subclasses that override get_dependencies: TagList must go through the method
class LoggingTag(Tag):
    def get_dependencies(self, dedup=True):
        print("   LoggingTag.get_dependencies dedup=%r name=%s" % (dedup, self.name))
        return super().get_dependencies(dedup=dedup)


class ExtraDepTag(Tag):
    def get_dependencies(self, dedup=True):
        return [c1, *super().get_dependencies(dedup=dedup), c1]


class TupleDepTag(Tag):
    def get_dependencies(self, dedup=True):
        return (d for d in (b0, a1))


class NoneDepTag(Tag):
    def get_dependencies(self, dedup=True):
        return None


lt = TagList(a1, LoggingTag("x-log", b1, LoggingTag("x-inner", a2)), b0)
show("logging raw", lambda: ids(lt.get_dependencies(dedup=False)))
show("logging dedup", lambda: ids(lt.get_dependencies()))
show("logging render", lambda: ids(lt.render()["dependencies"]))
show("extra", lambda: ids(TagList(ExtraDepTag("x", a1), b1).get_dependencies(dedup=False)))
show("extra dedup", lambda: ids(TagList(ExtraDepTag("x", a1), b1).get_dependencies()))
show("generator result", lambda: ids(TagList(TupleDepTag("x"), a2).get_dependencies()))
show("None result", lambda: ids(TagList(a1, NoneDepTag("x")).get_dependencies()))


# A dependency that is also tag-like must be treated as a dependency (first branch)
class DepAndTag(HTMLDependency, Tag):
    def __init__(self):
        HTMLDependency.__init__(self, "both", "1")

    def get_dependencies(self, dedup=True):
        print("   DepAndTag.get_dependencies must not be called")
        return [c1]


both = DepAndTag()
tagmap[id(both)] = "both"
tl_both = TagList()
tl_both.data.append(both)  # bypass child normalisation
show("dep-and-tag raw", lambda: ids(tl_both.get_dependencies(dedup=False)))


# Order of operations inside render(): tagify -> get_dependencies -> get_html_string
class Spy(TagList):
    def tagify(self):
        print("   Spy.tagify")
        cp = super().tagify()
        return cp

    def get_dependencies(self, *, dedup=True):
        print("   Spy.get_dependencies dedup=%r" % (dedup,))
        return super().get_dependencies(dedup=dedup)

    def get_html_string(self, *a, **k):
        print("   Spy.get_html_string", a, sorted(k.items()))
        return super().get_html_string(*a, **k)


show("spy render", lambda: (lambda r: (r["html"], ids(r["dependencies"])))(Spy(a1, div(b1, "x")).render()))


class SpyTag(Tag):
    def tagify(self):
        print("   SpyTag.tagify")
        return super().tagify()

    def get_dependencies(self, dedup=True):
        print("   SpyTag.get_dependencies dedup=%r" % (dedup,))
        return super().get_dependencies(dedup=dedup)

    def get_html_string(self, *a, **k):
        print("   SpyTag.get_html_string", a, sorted(k.items()))
        return super().get_html_string(*a, **k)


show("spytag render", lambda: (lambda r: (r["html"], ids(r["dependencies"])))(SpyTag("x-spy", a1, div(b1, "x")).render()))


# Tagifiable children contributing dependencies at render time
class Widget:
    def __init__(self, label, dep):
        self.label, self.dep = label, dep

    def tagify(self):
        return TagList(span(self.label), self.dep)


class Exploding:
    def tagify(self):
        raise KeyError("explode")


wt = TagList(Widget("w1", a1), div(Widget("w2", a2), Widget("w3", b1)), hcT)
show("untagified get_dependencies", lambda: ids(wt.get_dependencies()))
show("tagifiable render", lambda: (wt.render()["html"], ids(wt.render()["dependencies"])))
show("tagifiable tag render", lambda: (div(wt).render()["html"], ids(div(wt).render()["dependencies"])))
show("exploding render", lambda: TagList(a1, Exploding()).render())
show("exploding tag render", lambda: div(a1, Exploding()).render())
show("untagified html string", lambda: TagList(Widget("w", a1)).get_html_string())

# incomparable versions: raw works, dedup raises, render raises
bad = TagList(mk("v1", "v", 1), mk("v2", "v", "2.0"))
show("incomparable raw", lambda: ids(bad.get_dependencies(dedup=False)))
show("incomparable dedup", lambda: ids(bad.get_dependencies()))
show("incomparable render", lambda: bad.render())
show("incomparable tag render", lambda: div(bad).render())

# history independence
before = ids(trees["depth-first order"].get_dependencies())
for t2 in trees.values():
    t2.render()
show("stable after history", lambda: ids(trees["depth-first order"].get_dependencies()) == before)
