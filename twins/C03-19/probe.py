# Probe for refactoring 4: HTML.__add__ / HTML.__radd__
import itertools
from collections import UserString
from htmltools import HTML, Tag, TagList, div, span
from htmltools._core import TagAttrDict

LOG = []


def show(label, fn):
    del LOG[:]
    try:
        r = fn()
        print(label, "->", type(r).__name__, repr(r), "data=", repr(getattr(r, "data", None)), "log=", LOG)
    except BaseException as e:  # noqa
        print(label, "-> EXC", type(e).__name__, "log=", LOG)


class Loud(HTML):
    """Records the order in which as_string() is called."""

    def as_string(self):
        LOG.append("as_string:" + self.data)
        return self.data + ""


class Talker:
    def __init__(self, s, fail=False):
        self.s, self.fail = s, fail

    def __str__(self):
        LOG.append("str:" + self.s)
        if self.fail:
            raise ValueError("no str")
        return self.s


class BadStr:
    def __str__(self):
        return 5


class S(str):
    pass


nasty = "a\"b'c<d>e&f\rg\nh"
others = [
    "", "x", nasty, "&amp;", S("<s>"), HTML(""), HTML("<h>"), HTML(nasty), Loud("<l>"),
    UserString("<u>"), 0, 1, 2.5, None, True, b"<b>", ["<"], ("<", ">"), {"<": ">"},
    Talker("<t>"), Talker("<t>", fail=True), BadStr(), Tag("b", "x<", title="'"), TagList("<", HTML("<")),
]
lefts = [HTML(""), HTML("<p>"), HTML("&"), Loud("<L>")]

for h in lefts:
    for o in others:
        show(f"{h.data!r} + {type(o).__name__}", lambda: h + o)
        show(f"{type(o).__name__} + {h.data!r}", lambda: o + h)
        show(f"{h.data!r}.__add__({type(o).__name__})", lambda: h.__add__(o))
        show(f"{h.data!r}.__radd__({type(o).__name__})", lambda: h.__radd__(o))


def iadd(h, o):
    h += o
    return h


for o in others[:12]:
    show(f"iadd {type(o).__name__}", lambda: iadd(HTML("<i>"), o))
    show(f"iadd str-left {type(o).__name__}", lambda: iadd("<'\">", HTML("<i>")))

# chains, sum, identity of operands
h1, h2 = HTML("<a>"), HTML("<b>")
r = h1 + h2
print("operands unchanged", h1.data, h2.data, r is h1, r is h2, type(r).__name__)
show("chain", lambda: "1<" + HTML("2<") + "3<" + HTML("4<") + 5 + None)
show("chain2", lambda: HTML("a") + " " + "b&" + " " + HTML("c&"))
show("sum", lambda: sum([HTML("<a>"), "<b>", HTML("<c>")], HTML("")))
show("sum0", lambda: sum([HTML("<a>"), "<b>"]))
show("loud both", lambda: Loud("1") + Loud("2"))
show("loud talker", lambda: Loud("1") + Talker("2"))
show("talker loud", lambda: Talker("2") + Loud("1"))
show("loud fail", lambda: Loud("1") + Talker("2", fail=True))
show("fail loud", lambda: Talker("2", fail=True) + Loud("1"))
show("loud radd loud", lambda: Loud("1").__radd__(Loud("<2>")))
show("subclass result type", lambda: type(Loud("1") + "x").__name__)
show("mul", lambda: HTML("<a>") * 2)
show("mod", lambda: HTML("<%s>") % "x<")
show("join", lambda: HTML(" ").join(["<a>", "<b>"]))
show("eq", lambda: (HTML("a") + "b" == "ab", HTML("a") + "<" == HTML("a&lt;")))

# attribute merges use `prev + " " + val`
for a, b in itertools.product(["p'", HTML("h'"), Loud("l'"), 3, True], repeat=2):
    show(f"merge {a!r} {b!r}", lambda: [(k, type(v).__name__, v.data if isinstance(v, HTML) else v) for k, v in TagAttrDict({"k": a}, k=b).items()])
    show(f"render {a!r} {b!r}", lambda: str(div({"class": a}, class_=b)))
show("add_class html", lambda: str(div(class_=HTML("<a>")).add_class("b'").add_class(HTML("<c>"), prepend=True)))
show("add_style html", lambda: str(span(style="a:'1';").add_style(HTML('b:"2";')).add_style("c:<3>;", prepend=True)))
