"""Probe for refactoring 4: Tag.get_html_string() attribute writer + text-escaping flag."""
import itertools

from htmltools import HTML, HTMLDependency, Tag, TagList, div, head_content, span, tags


def show(label, fn):
    try:
        res = fn()
        print(label, "->", type(res).__name__, repr(res))
    except Exception as e:  # noqa: BLE001
        print(label, "-> EXC", type(e).__name__)


class Repr:
    def __init__(self, s):
        self.s = s

    def _repr_html_(self):
        return self.s


dep = HTMLDependency("probe-dep", "1.0", source={"subdir": "."}, script={"src": "x.js"})

TEXTS = ["", "t", "a<b", "x&y", "</script>", "'q\" ", "l1\nl2", "&lt;"]
NAMES = ["div", "span", "script", "style", "SCRIPT", "Style", "br", "img", "input", "title", "textarea", "x-custom"]

# 1. attributes: every kind of value, order kept, each escaped once
ATTRS = [
    {},
    {"id": "a"},
    {"title": "a<b & 'c' \"d\"\n\r"},
    {"title": HTML("a<b & 'c' \"d\"\n")},
    {"b": "2", "a": "1", "c": HTML("<3>")},
    {"hidden": True, "skip": False, "none": None, "n": 5, "f": 1.5},
    {"data_x_y": "<", "class_": "k&", "for_": HTML("&")},
    {"class": "a<", "class_": HTML("<b>")},
    {"empty": "", "emptyh": HTML("")},
]
for name, attrs in itertools.product(["div", "br", "script", "style"], ATTRS):
    show(f"attrs {name} {attrs!r}", lambda: Tag(name, attrs).get_html_string())
    show(f"attrs+child {name} {attrs!r}", lambda: Tag(name, attrs, "c<d").get_html_string())
    show(f"attrs indent {name} {attrs!r}", lambda: Tag(name, attrs, "c<d", span("e")).get_html_string(2, "\r\n"))

# attribute values smuggled in without normalisation (bypassing TagAttrDict.__setitem__)
t = div()
dict.__setitem__(t.attrs, "n", 5)
show("raw int attr", lambda: t.get_html_string())
t = div(a="ok<")
dict.__setitem__(t.attrs, "z", None)
show("raw None attr", lambda: t.get_html_string())
t = div()
dict.__setitem__(t.attrs, 7, "v<")
show("raw int key", lambda: t.get_html_string())

# 2. children: zero / one / many, for every kind of tag name
CHILDSETS = [
    (),
    ("",),
    (HTML(""),),
    (None,),
    (dep,),
    ("only<", dep),
    (dep, HTML("<only>")),
    (head_content("hc"), "x<y"),
]
for txt in TEXTS:
    CHILDSETS += [
        (txt,),
        (HTML(txt),),
        (txt, txt),
        (txt, HTML(txt)),
        (HTML(txt), txt, dep),
        (Repr(txt),),
        (Repr(txt), txt),
        (span(txt),),
        (txt, span(txt), HTML(txt)),
        ([txt, [HTML(txt)]],),
        (TagList(txt, HTML(txt)),),
        (3, txt, 1.5),
    ]

for name, kids in itertools.product(NAMES, CHILDSETS):
    lab = f"{name} {[type(k).__name__ + ':' + str(getattr(k, 's', k) if not isinstance(k, HTMLDependency) else 'dep') for k in kids]!r}"
    show("ghs   " + lab, lambda: Tag(name, *kids).get_html_string())
    show("ghs2  " + lab, lambda: Tag(name, *kids, _add_ws=False).get_html_string(1, "|"))
    show("str   " + lab, lambda: str(Tag(name, *kids, title="t<")))
    show("nest  " + lab, lambda: str(div(Tag(name, *kids), "after<")))
    show("tl    " + lab, lambda: str(TagList("before<", Tag(name, *kids))))

# 3. bad parameters / names: exception types unchanged
show("indent str", lambda: div("a").get_html_string("x"))
show("indent None", lambda: div("a", "b").get_html_string(None))
show("eol None single", lambda: div("a").get_html_string(0, None))
show("eol None multi", lambda: div("a", "b").get_html_string(0, None))
show("eol int script", lambda: tags.script("a", "b").get_html_string(0, 3))
t = div("a<")
t.name = 5
show("name int", lambda: t.get_html_string())
t = div("a<", "b")
t.name = None
show("name None", lambda: t.get_html_string())
t = tags.script("a<", "b<")
t.name = "style"
show("renamed", lambda: t.get_html_string())
t.name = "p"
show("renamed p", lambda: t.get_html_string())
t.children.append(HTML("<raw>"))
show("appended", lambda: t.get_html_string())
t.children[:] = ["one<"]
show("single after edit", lambda: t.get_html_string())
t.children[:] = []
show("empty after edit", lambda: t.get_html_string())

# untagified child
class Tg:
    def tagify(self):
        return span("tg<")


raw = div("x")
raw.children.append(Tg())
show("untagified", lambda: raw.get_html_string())
show("tagified", lambda: str(raw))
