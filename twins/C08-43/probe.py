import sys, copy
from htmltools import (Tag, TagList, HTML, HTMLDependency, HTMLDocument, div, span,
                       tags, head_content)

captured = []
def hook(v):
    captured.append(type(v).__name__)
sys.displayhook = hook

def show(label, fn):
    try:
        r = fn()
    except BaseException as e:
        r = "EXC %s: %s" % (type(e).__name__, e)
    print(label, "->", r)

def dep(name="a", version="1.0", **kw):
    return HTMLDependency(name, version, **kw)

class MyTag(Tag):
    pass

def mk():
    return {
        "div0": div(),
        "div0b": div(),
        "span0": span(),
        "divA": div("x", id="a"),
        "divA2": div("x", id="a"),
        "divAcls": div("x", id="a", class_="c"),
        "divB": div("y", id="a"),
        "divIdB": div("x", id="b"),
        "divNoWs": div("x", id="a", _add_ws=False),
        "nested": div(span("a", div("b")), "t", HTML("<b>"), 3, 1.5, None),
        "nested2": div(span("a", div("b")), "t", HTML("<b>"), 3, 1.5, None),
        "nested3": div(span("a", div("c")), "t", HTML("<b>"), 3, 1.5, None),
        "nestedEsc": div(span("a", div("b")), "t", "<b>", 3, 1.5, None),
        "withdep": div("x", dep()),
        "withdep2": div("x", dep()),
        "withdepV": div("x", dep(version="2.0")),
        "mytag": MyTag("div"),
        "tagdiv": Tag("div"),
        "tl0": TagList(),
        "tl1": TagList("a", div("b")),
        "tl1b": TagList("a", div("b")),
        "tl2": TagList("a", div("c")),
        "tl3": TagList("a", div("b"), "c"),
        "tlnest": TagList(["a", [div("b")]]),
        "depA": dep(),
        "depA2": dep(),
        "depV": dep(version="1.1"),
        "depN": dep(name="b"),
        "depS": dep(source={"subdir": "lib"}, script={"src": "a.js"}),
        "depS2": dep(source={"subdir": "lib"}, script={"src": "a.js"}),
        "depS3": dep(source={"subdir": "lib"}, script={"src": "b.js"}),
        "depH": dep(head="<meta>"),
        "depAF": dep(all_files=True),
        "html": HTML("x"),
        "str": "x",
        "strdiv": "<div></div>",
        "none": None,
        "int": 3,
        "list": ["a"],
        "listdiv": [div("b")],
        "dict": {"name": "div"},
        "doc": HTMLDocument(div("x", id="a")),
        "headc": head_content(tags.title("t")),
    }

objs = mk()
names = list(objs)
print("== pairwise ==")
for a in names:
    row = []
    for b in names:
        try:
            e = objs[a] == objs[b]
            n = objs[a] != objs[b]
            row.append("%s%s" % ("T" if e is True else "F" if e is False else repr(e),
                                 "t" if n is True else "f" if n is False else repr(n)))
        except BaseException as ex:
            row.append("X" + type(ex).__name__)
    print(a, " ".join(row))

print("== copies / tagify ==")
for a in names:
    o = objs[a]
    show(a + " copy==", lambda: copy.copy(o) == o)
    show(a + " ==copy", lambda: o == copy.copy(o))
    show(a + " deepcopy==", lambda: copy.deepcopy(o) == o)
    if hasattr(o, "tagify"):
        show(a + " tagify==", lambda: o.tagify() == o)
        show(a + " ==tagify", lambda: o == o.tagify())
        show(a + " tagify fixed", lambda: o.tagify().tagify() == o.tagify())
        show(a + " tagify copy keys", lambda: list(vars(o.tagify())) == list(vars(o)))
    if isinstance(o, (Tag, TagList, HTMLDependency)):
        show(a + " vars", lambda: sorted(vars(o)))
        show(a + " copy vars", lambda: list(vars(copy.copy(o))))
        show(a + " str", lambda: str(o))

print("== context manager histories ==")
t = div("x", id="a")
u = div("x", id="a")
show("fresh eq", lambda: t == u)
show("fresh prev", lambda: t.prev_displayhook)
with t:
    show("inside hook is mine", lambda: sys.displayhook is hook)
    show("inside prev is mine", lambda: t.prev_displayhook is hook)
    show("inside t==u", lambda: t == u)
    show("inside u==t", lambda: u == t)
    show("inside t==t", lambda: t == t)
    c_in = copy.copy(t)
    show("inside copy==t", lambda: c_in == t)
    show("inside copy==u", lambda: c_in == u)
    show("inside copy prev is mine", lambda: c_in.prev_displayhook is hook)
    tg_in = t.tagify()
    show("inside tagify==t", lambda: tg_in == t)
    show("inside tagify==u", lambda: tg_in == u)
    show("inside tagify prev is mine", lambda: tg_in.prev_displayhook is hook)
    show("inside str", lambda: str(t))
    def reenter():
        with t:
            pass
    show("re-enter", reenter)
    show("after failed re-enter prev is mine", lambda: t.prev_displayhook is hook)
    sys.displayhook("child")
    sys.displayhook(span("s"))
    sys.displayhook(None)
show("after hook restored", lambda: sys.displayhook is hook)
show("after prev", lambda: t.prev_displayhook)
show("captured", lambda: list(captured))
show("after str", lambda: str(t))
show("after t==u", lambda: t == u)
show("after t==expected", lambda: t == div("x", "child", span("s"), id="a"))
show("after expected==t", lambda: div("x", "child", span("s"), id="a") == t)
show("copy taken inside, later eq t", lambda: c_in == t)
show("copy taken inside, later eq u", lambda: c_in == u)
show("copy taken inside children", lambda: str(c_in))
def enter_copy():
    with c_in:
        pass
show("enter copy taken inside", enter_copy)
show("tagify taken inside eq u", lambda: tg_in == u)
show("tagify taken inside prev is mine", lambda: tg_in.prev_displayhook is hook)

print("== nested with ==")
captured.clear()
outer = div(id="o")
inner = span()
with outer:
    with inner:
        show("inner prev is wrapper", lambda: inner.prev_displayhook is not hook and inner.prev_displayhook is not None)
        show("outer==div", lambda: outer == div(id="o"))
        show("inner==span", lambda: inner == span())
        sys.displayhook("deep")
    show("inner after", lambda: inner == span("deep"))
    show("inner prev after", lambda: inner.prev_displayhook)
show("outer str", lambda: str(outer))
show("outer == expected", lambda: outer == div(span("deep"), id="o"))
show("captured", lambda: list(captured))
show("hook restored", lambda: sys.displayhook is hook)

print("== reuse, exception in body, exit without enter ==")
captured.clear()
r = div()
for i in range(3):
    with r:
        sys.displayhook(i)
    show("reuse %d" % i, lambda: (str(r), r.prev_displayhook, r == div(*range(i + 1))))
def body_raises():
    with r:
        raise ValueError("boom")
show("body raises", body_raises)
show("after raise prev", lambda: r.prev_displayhook)
show("after raise hook", lambda: sys.displayhook is hook)
show("captured", lambda: list(captured))
w = div()
show("exit without enter", lambda: w.__exit__(None, None, None))
show("hook after bad exit", lambda: sys.displayhook)
show("w prev after bad exit", lambda: w.prev_displayhook)
show("w == div()", lambda: w == div())
sys.displayhook = hook
show("enter returns", lambda: w.__enter__())
show("w prev is mine", lambda: w.prev_displayhook is hook)
show("exit returns", lambda: w.__exit__(None, None, None))
show("w str", lambda: str(w))

print("== odd fields ==")
p = div("x"); q = div("x")
p.extra = 1
show("extra on left", lambda: p == q)
show("extra on right", lambda: q == p)
q.extra = 1
show("extra both", lambda: p == q)
q.extra = 2
show("extra differ", lambda: p == q)
del q.extra; q.extra = None
p.extra = None
show("extra none both", lambda: p == q)
del q.extra
show("extra none vs missing L", lambda: p == q)
show("extra none vs missing R", lambda: q == p)
m = div("x"); del m.prev_displayhook
show("missing prev L", lambda: m == div("x"))
show("missing prev R", lambda: div("x") == m)
show("missing prev enter", lambda: m.__enter__())
sys.displayhook = hook
m2 = div("x"); del m2.children
show("missing children L", lambda: m2 == div("x"))
show("missing children R", lambda: div("x") == m2)
show("missing children copy", lambda: sorted(vars(copy.copy(m2))))
nan = float("nan")
n1 = div("x"); n2 = div("x"); n1.f = nan; n2.f = nan
show("same nan field", lambda: n1 == n2)
n2.f = float("nan")
show("diff nan field", lambda: n1 == n2)
class Weird:
    def __eq__(self, o): return "yes"
    def __ne__(self, o): return ""
    __hash__ = None
n1.f = Weird(); n2.f = Weird()
show("weird field", lambda: n1 == n2)
class Weird2:
    def __ne__(self, o): raise KeyError("ne")
n1.f = Weird2(); n2.f = Weird2()
show("raising field", lambda: n1 == n2)
class Weird3:
    def __eq__(self, o): return True
    def __ne__(self, o): return True
    __hash__ = None
n1.f = Weird3(); n2.f = Weird3()
show("eq and ne both true", lambda: n1 == n2)
class NoDict:
    __slots__ = ()
show("tag == slots obj", lambda: div() == NoDict())
show("slots obj == tag", lambda: NoDict() == div())
show("subclass L", lambda: MyTag("div") == Tag("div"))
show("subclass R", lambda: Tag("div") == MyTag("div"))
show("taglist vs list", lambda: (TagList("a") == ["a"], ["a"] == TagList("a")))
show("taglist order", lambda: TagList("a", "b") == TagList("b", "a"))
show("attrs order", lambda: div(id="a", title="t") == div(title="t", id="a"))
show("class merge", lambda: div({"class": "a"}, class_="b") == div(class_="a b"))
show("in list", lambda: (div("x") in [span(), div("x")], [span(), div("x")].index(div("x"))))
show("count", lambda: TagList(div(), span(), div()).count(div()))
show("hashable tag", lambda: hash(div()))
show("hashable dep", lambda: hash(dep()))
show("doc render twice", lambda: HTMLDocument(div("x", dep())).render()["html"] == HTMLDocument(div("x", dep())).render()["html"])
show("render deps eq", lambda: div(dep()).render()["dependencies"] == [dep()])
show("get_dependencies eq", lambda: div(dep(), dep(), dep(name="z")).get_dependencies() == [dep(), dep(name="z")])
