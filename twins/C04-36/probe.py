# Probe for refactoring 1: HTML.__add__ / HTML.__radd__
import itertools
from htmltools import HTML, div, span, tags, TagList

LOG = []


def show(label, fn):
    try:
        r = fn()
        print(label, "->", type(r).__name__, repr(str(r)) if isinstance(r, HTML) else repr(r))
    except BaseException as e:  # noqa: BLE001
        print(label, "-> EXC", type(e).__name__, str(e)[:80])


class Loud:
    def __init__(self, name, text, fail=False):
        self.name, self.text, self.fail = name, text, fail

    def __repr__(self):
        return "Loud(" + self.name + ")"

    def __str__(self):
        LOG.append("str:" + self.name)
        if self.fail:
            raise ValueError("boom " + self.name)
        return self.text


class LoudHTML(HTML):
    def as_string(self):
        LOG.append("as_string:" + self.data)
        return super().as_string()


class StrSub(str):
    pass


plain = ["", "a", "<b>&\"'</b>", "&amp;", "x > y\n", "é<☃>", StrSub("<s>")]
raw = [HTML(""), HTML("<i>&amp;</i>"), HTML("&<>\"'"), LoudHTML("<l>")]
others = [0, 1.5, None, True, b"<by>", ["<l>"], ("<t>",), {"<k>": 1}, Loud("o", "<o&>")]

for a in raw:
    for b in plain + raw + others:
        LOG.clear()
        show(f"{a.data!r} + {b!r:.30}", lambda: a + b)
        print("   log", LOG)
        LOG.clear()
        show(f"{b!r:.30} + {a.data!r}", lambda: b + a)
        print("   log", LOG)

# grouping / order: result equals adjacent children
ops = ["<p>", HTML("<q>&amp;"), "&", HTML("'"), '"x"']
for perm in itertools.permutations(ops, 3):
    if not any(isinstance(x, HTML) for x in perm[:2]):
        continue
    x, y, z = perm
    left = (x + y) + z
    sep = str(TagList(x, y, z).get_html_string(add_ws=False))
    line = [type(left).__name__, str(div(left)), str(div(left)) == "<div>" + sep.replace("\n", "") + "</div>" or sep]
    if any(isinstance(v, HTML) for v in (y, z)):
        right = x + (y + z)
        line += [type(right).__name__, str(right) == str(left)]
    print([str(p) for p in perm], line)

# augmented assignment, sum, attribute position
h = HTML("<a>")
h += "<b>"
h += HTML("<c>")
s = "<z>"
s += HTML("<y>")
print(type(h).__name__, repr(str(h)), type(s).__name__, repr(str(s)))
show("sum", lambda: sum([HTML("<a>"), "<b>", HTML("&")], HTML("")))
show("sum0", lambda: sum([HTML("<a>"), "<b>"]))
show("attr", lambda: str(div(class_=HTML("<a>") + "\"q\" & 'r'")))
show("attr2", lambda: str(div({"class": "a\"b"}, class_=HTML("&amp;") + "<c>")))
show("script", lambda: str(tags.script("if (a<b)" + HTML("&&c"))))
show("child", lambda: str(span("<x>" + HTML("<y>") + "<z>", HTML("<w>") + 3)))

# side effect order and exceptions
for a in (LoudHTML("<h>"),):
    for o in (Loud("ok", "<v>"), Loud("bad", "", fail=True)):
        LOG.clear()
        show("loud add", lambda: a + o)
        print("   log", LOG)
        LOG.clear()
        show("loud radd", lambda: o + a)
        print("   log", LOG)

broken = HTML("x")
broken.data = 5
LOG.clear()
show("broken add", lambda: broken + Loud("n", "<n>"))
print("   log", LOG)
LOG.clear()
show("broken radd", lambda: Loud("n", "<n>") + broken)
print("   log", LOG)
LOG.clear()
show("add broken", lambda: LoudHTML("<k>") + broken)
print("   log", LOG)
show("direct __add__", lambda: HTML.__add__(HTML("a"), "<"))
show("direct __radd__ html", lambda: HTML.__radd__(HTML("a"), HTML("<")))
