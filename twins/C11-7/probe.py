"""Probe for property C11 (HTMLDocument head/body construction and dependency hoisting).

Prints deterministic reprs of rendered documents / exception types.
"""
import os
import sys
import tempfile
from copy import copy

import htmltools
from htmltools import (
    HTML,
    HTMLDependency,
    HTMLDocument,
    HTMLTextDocument,
    Tag,
    TagList,
    div,
    head_content,
    span,
    tags,
)
from htmltools._core import _resolve_dependencies

CALL_PRIVATE_POSITIONALLY = True


def show(label, fn):
    try:
        res = fn()
    except Exception as e:  # noqa: BLE001
        print(f"[{label}] EXC {type(e).__name__}: {e}")
        return
    print(f"[{label}] {res!r}")


def rend(doc, **kw):
    r = doc.render(**kw)
    return (list(r.keys()), r["html"], [(d.name, str(d.version)) for d in r["dependencies"]])


def dep(name, version, **kw):
    return HTMLDependency(name, version, **kw)


a1 = dep("a", "1.0", source={"subdir": "libtest/a"}, script={"src": "a.js"})
a2 = dep(
    "a",
    "1.2",
    source={"href": "https://cdn.example/a"},
    script=[{"src": "a 2.js", "defer": ""}, {"src": "extra.js"}],
    stylesheet={"href": "a.css"},
    meta={"name": "viewport", "content": "width=device-width"},
    head="<link rel='x' href='y'>",
)
a2b = dep("a", "1.2", script={"src": "other.js"}, source={"href": "/o"})
b1 = dep("b", "0.1", stylesheet=[{"href": "b.css", "media": "print"}], source={"subdir": "b"})
c1 = dep("c", "3", head=TagList(tags.title("T"), tags.script("var x = '</a>' & 1;")))
nohead = dep("n", "1", head=None)
hc = head_content(tags.style("p {color: red}"), HTML("<!-- hc -->"))
hc_dup = head_content(tags.style("p {color: red}"), HTML("<!-- hc -->"))


class Tagif:
    def __init__(self, out):
        self.out = out

    def tagify(self):
        return self.out


class MyTag(Tag):
    pass


class ReprH:
    def _repr_html_(self):
        return "<i>repr</i>"


cases = {
    "empty": lambda: HTMLDocument(),
    "none": lambda: HTMLDocument(None),
    "text": lambda: HTMLDocument("a < b & c"),
    "html_text": lambda: HTMLDocument(HTML("<b>x</b>"), "y", 3, 1.5),
    "div": lambda: HTMLDocument(div("x", a1)),
    "two_tags": lambda: HTMLDocument(div("x"), span("y"), lang="en"),
    "attrs": lambda: HTMLDocument(div("x"), lang="en", class_="k", data_x=True, hidden=None),
    "sole_body": lambda: HTMLDocument(tags.body(div("x", b1), class_="bd"), lang="fr"),
    "sole_body_in_list": lambda: HTMLDocument(TagList(tags.body("x", a1))),
    "sole_body_in_pylist": lambda: HTMLDocument([tags.body("x")], None),
    "two_bodies": lambda: HTMLDocument(tags.body("x"), tags.body("y")),
    "body_and_text": lambda: HTMLDocument(tags.body("x"), "t"),
    "body_and_dep": lambda: HTMLDocument(tags.body("x"), a1),
    "dep_only": lambda: HTMLDocument(a1),
    "sole_head": lambda: HTMLDocument(tags.head(tags.title("t"))),
    "sole_html_empty": lambda: HTMLDocument(tags.html()),
    "sole_html": lambda: HTMLDocument(
        tags.html(tags.head(tags.title("t"), tags.meta(name="m")), tags.body(div(a2), "z")),
        lang="en",
    ),
    "sole_html_attrs_merge": lambda: HTMLDocument(
        tags.html(tags.body("z"), class_="one", lang="de"), class_="two", lang="en"
    ),
    "sole_html_nohead": lambda: HTMLDocument(tags.html(tags.body(a1, "z", b1))),
    "sole_html_head_later": lambda: HTMLDocument(
        tags.html(a1, "txt", tags.body("b"), tags.head(tags.title("late")), tags.head("second"))
    ),
    "sole_html_head_nested_only": lambda: HTMLDocument(
        tags.html(tags.body(tags.head("inner")))
    ),
    "sole_html_head_dep": lambda: HTMLDocument(tags.html(tags.head(b1, tags.title("q")), hc)),
    "sole_html_noaddws": lambda: HTMLDocument(
        Tag("html", Tag("head", "h"), Tag("body", "b", a1), _add_ws=False)
    ),
    "html_not_sole": lambda: HTMLDocument(tags.html(tags.body("x")), "y"),
    "html_nested": lambda: HTMLDocument(div(tags.html(tags.head("h"), tags.body("x", a1)))),
    "mytag_html": lambda: HTMLDocument(MyTag("html", MyTag("head", "hh"), MyTag("body", a1))),
    "mytag_body": lambda: HTMLDocument(MyTag("body", "in", c1, id="b")),
    "upper_html": lambda: HTMLDocument(Tag("HTML", Tag("body", "x"))),
    "tagif_html": lambda: HTMLDocument(Tagif(tags.html(tags.body("via", a1))), lang="x"),
    "tagif_body": lambda: HTMLDocument(Tagif(tags.body("via", b1))),
    "tagif_list_body": lambda: HTMLDocument(Tagif(TagList(tags.body("via")))),
    "tagif_list_two": lambda: HTMLDocument(Tagif(TagList(tags.body("via"), "more", a2))),
    "tagif_empty": lambda: HTMLDocument(Tagif(TagList())),
    "tagif_str": lambda: HTMLDocument(Tagif("plain <s>")),
    "tagif_nested": lambda: HTMLDocument(div(Tagif(TagList(span("in"), c1)), Tagif(a1))),
    "tagif_in_html": lambda: HTMLDocument(
        tags.html(tags.head(Tagif(tags.title("tt"))), tags.body(Tagif(TagList("p", b1))))
    ),
    "reprhtml": lambda: HTMLDocument(ReprH(), div(ReprH())),
    "deps_conflict": lambda: HTMLDocument(div(a1, b1), span(a2, c1), a2b, a1, nohead),
    "deps_order": lambda: HTMLDocument(c1, b1, a2, a1, b1),
    "deps_eq_version": lambda: HTMLDocument(a2b, a2),
    "head_content": lambda: HTMLDocument(div("x", hc), hc_dup, head_content("raw & text")),
    "deep": lambda: HTMLDocument(div(div(div(span(a1, "deep"), b1)), [c1, [hc]])),
    "script_style": lambda: HTMLDocument(tags.script("a < b"), tags.style("p > q {}")),
    "jsx": lambda: HTMLDocument(__import__("htmltools._jsx")._jsx.jsx_tag_create("Foo")(div("c"), x=1)),
}

render_kwargs = [
    {},
    {"lib_prefix": None},
    {"lib_prefix": ""},
    {"lib_prefix": "my/libs", "include_version": False},
    {"include_version": False},
]

for label, mk in cases.items():
    for kw in render_kwargs:
        show(f"{label} {kw}", lambda: rend(mk(), **kw))

# Rendering does not mutate the inputs, and can be repeated.
body = tags.body("x", a1)
html = tags.html(tags.head(tags.title("t")), body)
doc = HTMLDocument(html, lang="en")
r1 = doc.render()
r2 = doc.render()
print("repeat same:", r1["html"] == r2["html"], r1["dependencies"] == r2["dependencies"])
print("input html after:", repr(str(html)), dict(html.attrs))
print("dependency identity:", [d is a1 for d in r1["dependencies"]])
print("deps list fresh:", r1["dependencies"] is not r2["dependencies"])

# copy / append
doc = HTMLDocument(div("x"), lang="en")
cp = copy(doc)
cp.append(span("added"), b1)
show("copy original", lambda: rend(doc))
show("copy appended", lambda: rend(cp))
print("copy type:", type(cp).__name__, sorted(cp.__dict__), cp._html_attr_args is doc._html_attr_args)
doc2 = HTMLDocument()
show("append nothing", lambda: doc2.append())
doc2.append(tags.body("late body"))
show("append body", lambda: rend(doc2))
doc2.append("more")
show("append body+more", lambda: rend(doc2))
show("bad child", lambda: HTMLDocument(object()))
show("bad append", lambda: HTMLDocument().append({"a": 1}))
show("bad positional kw", lambda: HTMLDocument("x").render("lib"))

# _resolve_dependencies / get_dependencies
show("resolve empty", lambda: _resolve_dependencies([]))
show("resolve one", lambda: _resolve_dependencies([a1]))
show("resolve many", lambda: _resolve_dependencies([a1, b1, a2, a2b, c1, a1, b1]))
show("resolve rev", lambda: _resolve_dependencies([a2b, a2, a1]))
res = _resolve_dependencies([a2b, a2, a1])
print("resolve keeps first of equal:", res[0] is a2b)
tl = TagList(div(a1, span(b1, a2)), a1, "txt", c1)
show("taglist deps", lambda: tl.get_dependencies())
show("taglist deps nodedup", lambda: tl.get_dependencies(dedup=False))
show("tag deps", lambda: div(tl).get_dependencies())
show("tag deps nodedup", lambda: div(tl).get_dependencies(False))
show("taglist deps positional", lambda: tl.get_dependencies(False))
show("empty deps", lambda: (TagList().get_dependencies(), div().get_dependencies(dedup=False)))
show("tagifiable not counted", lambda: TagList(Tagif(a1)).get_dependencies())

# as_html_tags
for d in (a1, a2, b1, c1, nohead, hc):
    for kw in render_kwargs:
        show(f"as_html_tags {d.name[:12]} {kw}", lambda: str(d.as_html_tags(**kw)))
show("bad dep name", lambda: rend(HTMLDocument(dep(5, "1"))))

# HTMLTextDocument shares the dependency metadata script logic
tmpl = "<html><head>@@DEPS@@</head><body>@@DEPS@@</body></html>"
for deps in ([], [a1], [a1, a2, b1, hc]):
    for kw in render_kwargs:
        show(
            f"textdoc {len(deps)} {kw}",
            lambda: rend(HTMLTextDocument(tmpl, deps=list(deps), deps_replace_pattern="@@DEPS@@"), **kw),
        )
show("textdoc nodeps", lambda: rend(HTMLTextDocument("<html></html>")))

# Direct use of the hoisting helper
if CALL_PRIVATE_POSITIONALLY:
    show("hoist non-html", lambda: HTMLDocument._hoist_head_content(div("x"), "lib", True))
    show("hoist body", lambda: HTMLDocument._hoist_head_content(tags.body(), None, False))
    t = tags.html(tags.body(a2, hc), tags.head("orig"))
    show("hoist html", lambda: str(HTMLDocument._hoist_head_content(t, "L", False)))
    show("hoist html input untouched", lambda: str(t))
    res = HTMLDocument._hoist_head_content(t, "L", True)
    print("hoist copies:", res is not t, res.children[1] is not t.children[1], res.children[0] is t.children[0])
    show("hoist empty html", lambda: str(HTMLDocument._hoist_head_content(Tag("html"), None, True)))
    show("gen tree", lambda: str(HTMLDocument(div(a1))._gen_html_tag_tree("p", False)))
    show("gen tree kw", lambda: str(HTMLDocument(div(a1))._gen_html_tag_tree("p", include_version=True)))

# save_html
with tempfile.TemporaryDirectory() as td:
    os.makedirs(os.path.join(td, "srcdep"))
    with open(os.path.join(td, "srcdep", "s.js"), "w") as f:
        f.write("// js")
    sd = dep("sd", "2.0", source={"subdir": os.path.join(td, "srcdep")}, script={"src": "s.js"})
    for i, (obj, kw) in enumerate(
        [
            (HTMLDocument(div("x", sd), lang="en"), {}),
            (HTMLDocument(tags.body("x", sd)), {"libdir": "deps", "include_version": False}),
            (HTMLDocument(tags.html(tags.body(sd))), {"libdir": None}),
            (div("tag", sd), {"libdir": "tl"}),
            (TagList("list", sd), {}),
        ]
    ):
        out = os.path.join(td, f"o{i}", "index.html")
        os.makedirs(os.path.dirname(out))
        ret = obj.save_html(out, **kw)
        print("save", i, ret == out, repr(open(out).read()))
        listing = []
        for root, dirs, files in os.walk(os.path.dirname(out)):
            dirs.sort()
            for fn in sorted(files):
                listing.append(os.path.relpath(os.path.join(root, fn), os.path.dirname(out)))
        print("files", i, listing)

# Order of user-visible side effects while the head items are built.
LOG = []


class LogVersion:
    def __init__(self, v):
        self.v = v

    def __str__(self):
        LOG.append(("str(version)", self.v))
        return self.v

    def __gt__(self, other):
        LOG.append(("gt", self.v, other.v))
        return self.v > other.v


class LogDep(HTMLDependency):
    def as_html_tags(self, *, lib_prefix="lib", include_version=True):
        LOG.append(("as_html_tags", self.name, lib_prefix, include_version))
        if self.name == "boom":
            raise RuntimeError("boom in as_html_tags")
        return super().as_html_tags(lib_prefix=lib_prefix, include_version=include_version)


def logdep(name, v):
    d = LogDep(name, "0", head=ReprLog(name))
    d.version = LogVersion(v)
    return d


class ReprLog:
    def __init__(self, n):
        self.n = n

    def _repr_html_(self):
        LOG.append(("repr_html", self.n))
        return f"<!-- {self.n} -->"


for names in (["p", "q"], ["p", "boom", "q"], [7, "q"], []):
    for kind in ("doc", "htmldoc", "textdoc"):
        LOG.clear()
        deps = [logdep(n, "1." + str(i)) for i, n in enumerate(names)]
        if kind == "doc":
            mk = lambda: HTMLDocument(div(*deps), "t")
        elif kind == "htmldoc":
            mk = lambda: HTMLDocument(tags.html(tags.head("h"), tags.body(*deps)))
        else:
            mk = lambda: HTMLTextDocument("<head>@@</head>", deps=deps, deps_replace_pattern="@@")
        show(f"order {kind} {names}", lambda: rend(mk(), lib_prefix="LP", include_version=False))
        print("   log:", LOG)

# Deep nesting: the deepest tree that still renders must not change (no extra stack frames).
def nest(depth, leaf):
    t = leaf
    for _ in range(depth):
        t = div(t)
    return t


def max_ok_depth(make):
    lo, hi = 1, 1200
    while lo < hi:
        mid = (lo + hi + 1) // 2
        try:
            make(mid)
            lo = mid
        except RecursionError:
            hi = mid - 1
    return lo


sys.setrecursionlimit(1000)
print("max depth body dep:", max_ok_depth(lambda n: HTMLDocument(nest(n, a1)).render()))
print("max depth get_dependencies:", max_ok_depth(lambda n: nest(n, a1).get_dependencies()))
print(
    "max depth dep head:",
    max_ok_depth(lambda n: HTMLDocument(dep("deep", "1", head=nest(n, "x"))).render()),
)
print(
    "max depth textdoc dep head:",
    max_ok_depth(
        lambda n: HTMLTextDocument(
            "@@", deps=[dep("deep", "1", head=nest(n, "x"))], deps_replace_pattern="@@"
        ).render()
    ),
)
print("max depth as_html_tags:", max_ok_depth(lambda n: dep("deep", "1", head=nest(n, "x")).as_html_tags()))
