"""Probe for HTML.__add__ / HTML.__radd__ (and += / sum / grouping)."""
import itertools
from collections import UserString
from htmltools import HTML, Tag, TagList, div, span, tags


def show(label, fn):
    try:
        out = fn()
        print(label, "=>", type(out).__name__, repr(out), "| str:", repr(str(out)))
    except BaseException as e:  # noqa
        print(label, "=> EXC", type(e).__name__)


class SubHTML(HTML):
    pass


class LoudHTML(HTML):
    def as_string(self):
        return "[" + self.data + "]"


class StrSub(str):
    pass


class Obj:
    def __str__(self):
        return "<obj&>"


class BadStr:
    def __str__(self):
        raise KeyError("boom")


class AddsItself:
    def __add__(self, other):
        return "AddsItself.__add__"

    def __radd__(self, other):
        return "AddsItself.__radd__"

    def __repr__(self):
        return "<AddsItself & co>"


class Declines:
    def __add__(self, other):
        return NotImplemented

    def __str__(self):
        return "<declines>"


PLAIN = ["", "a", "<b>&\"'</b>", "&amp;", "&lt;", "'", '"', "é<", "\n<\t>"]
OTHERS = [
    None, 0, 1.5, True, b"<b>", ("<",), ["<", "&"], {"<": ">"}, Obj(), StrSub("<s>"),
    UserString("<us>"), Declines(), AddsItself(), BadStr(), ..., div("<x>"), TagList("<", HTML("<")),
]

# HTML + x and x + HTML for plain strings
for i, s in enumerate(PLAIN):
    for j, h in enumerate(PLAIN):
        show(f"H{j}+s{i}", lambda: HTML(h) + s)
        show(f"s{i}+H{j}", lambda: s + HTML(h))
        show(f"H{j}+H{i}", lambda: HTML(h) + HTML(s))

# other operand types
for k, o in enumerate(OTHERS):
    show(f"H+other{k}", lambda: HTML("<h>") + o)
    show(f"other{k}+H", lambda: o + HTML("<h>"))
    show(f"H.__add__(other{k})", lambda: HTML("<h>").__add__(o))
    show(f"H.__radd__(other{k})", lambda: HTML("<h>").__radd__(o))

# direct dunder calls with HTML on the "wrong" side
show("radd direct HTML", lambda: HTML("<a>").__radd__(HTML("<b>")))
show("radd direct Sub", lambda: HTML("<a>").__radd__(SubHTML("<b>")))
show("add direct", lambda: HTML("<a>").__add__(HTML("<b>")))

# subclasses
for a, b in itertools.product([HTML("<a>"), SubHTML("<sa>"), LoudHTML("<la>"), "<p>"], repeat=2):
    show(f"{type(a).__name__}+{type(b).__name__}", lambda: a + b)

# grouping / chains / += / sum
parts = [HTML("<i>"), "a<b", HTML("&amp;"), "&", "", HTML("")]
for perm in itertools.permutations(range(len(parts)), 3):
    x, y, z = (parts[q] for q in perm)
    show(f"left {perm}", lambda: (x + y) + z)
    show(f"right {perm}", lambda: x + (y + z))


def iadd1():
    h = HTML("<h>")
    h += "<s>"
    h += HTML("<h2>")
    return h


def iadd2():
    s = "<s>"
    s += HTML("<h>")
    s += "<t>"
    return s


show("iadd1", iadd1)
show("iadd2", iadd2)
show("sum HTML start", lambda: sum(["<a>", HTML("<b>"), "<c>"], HTML("")))
show("sum int start", lambda: sum([HTML("<b>"), "<c>"]))
show("join", lambda: HTML("<,>").join(["<a>", HTML("<b>")]))

# as children: concatenation equals adjacent children
for perm in itertools.permutations(range(len(parts)), 2):
    x, y = (parts[q] for q in perm)
    show(f"child concat {perm}", lambda: str(span(x + y)) if isinstance(x + y, HTML) else "n/a")
    show(f"child adjacent {perm}", lambda: str(span(x, y, _add_ws=False)))
    show(f"script concat {perm}", lambda: str(tags.script(x + y)) if isinstance(x + y, HTML) else "n/a")
    show(f"attr concat {perm}", lambda: str(div(title=x + y)))

# operands are left untouched
a, b = HTML("<a>"), "<b>"
c = a + b
d = b + a
print("untouched", repr(a), repr(b), repr(c), repr(d), type(a.data).__name__, type(c.data).__name__)
print("identity", (a + "") is a, ("" + a) is a, (a + HTML("")) == a, (a + "") == a)

# other UserString operators unaffected
show("mul", lambda: HTML("<a>") * 2)
show("mod", lambda: HTML("<%s>") % "&")
show("getitem", lambda: HTML("<abc>")[1:3])
show("eq", lambda: (HTML("<a>") == "<a>", HTML("a") + "<" == "a&lt;"))
show("has helper names", lambda: sorted(n for n in ("__add__", "__radd__", "__iadd__") if n in HTML.__dict__))
