import copy
import os
import sys
import tempfile

import htmltools
from htmltools import (
    HTML,
    HTMLDependency,
    HTMLDocument,
    Tag,
    TagList,
    a,
    consolidate_attrs,
    div,
    h1,
    head_content,
    p,
    span,
    tags,
)
from htmltools._core import wrap_displayhook_handler


def show(label, fn):
    try:
        res = fn()
        print(label, "->", type(res).__name__, repr(res))
    except BaseException as e:  # noqa: BLE001
        print(label, "-> EXC", type(e).__name__, str(e)[:120])


class Repr:
    def __init__(self, s):
        self.s = s

    def _repr_html_(self):
        return self.s


class ReprReturnsHTML:
    def _repr_html_(self):
        return HTML("<i>x</i>")


class ReprRaises:
    def _repr_html_(self):
        raise ValueError("boom")


class Tagif:
    def __init__(self, x):
        self.x = x

    def tagify(self):
        return self.x


class Both:
    def tagify(self):
        return span("tagified")

    def _repr_html_(self):
        return "<b>both</b>"


dep = HTMLDependency("dep", "1.0", source={"subdir": "."}, script={"src": "x.js"})
dep2 = HTMLDependency("dep", "2.0", source={"subdir": "."}, script={"src": "y.js"})


def trees():
    yield "empty_div", div()
    yield "empty_span", span()
    yield "void_br", tags.br()
    yield "void_img_attr", tags.img(src="a&b.png")
    yield "void_with_child", tags.br("x")
    yield "void_with_two", tags.br("x", "y")
    yield "void_only_dep", tags.br(dep)
    yield "div_only_dep", div(dep)
    yield "single_text", div("hello <world> & 'q' \"d\"")
    yield "single_html", div(HTML("<b>raw</b>"))
    yield "single_empty_text", div("")
    yield "single_num", div(3.5)
    yield "text_and_dep", div("t", dep)
    yield "dep_text_dep", div(dep, "t", dep2)
    yield "two_text", div("a", "b")
    yield "text_html", div("a<", HTML("<b>"))
    yield "inline_run", div("a", span("b"), "c", a("d", href="#"))
    yield "block_kids", div(div("x"), p("y"), div())
    yield "mixed", div("t1", span("i1"), div("b1"), "t2", span("i2"), span("i3"), p(), "t3")
    yield "nested3", div(div(div("deep"), span("s")), p("a", span("b", span("c"))))
    yield "inline_multi", span("a", span("b"), "c")
    yield "inline_in_block_single_tag", div(span("only"))
    yield "block_single_block", div(div())
    yield "inline_contains_block", span(div("x"), "y")
    yield "inline_contains_block2", div(span(div("x"), span("z")), "y")
    yield "ws_false_block", Tag("div", "a", div("b"), _add_ws=False)
    yield "ws_true_inline", Tag("span", "a", span("b"), _add_ws=True)
    yield "repr_child", div(Repr("<em>r</em>"))
    yield "repr_siblings", div(Repr("<em>r</em>"), "t", Repr("r2"), div("b"), Repr("r3"))
    yield "repr_after_inline", div(span("s"), Repr("r"))
    yield "script_single", tags.script("if (a < b) {}")
    yield "script_single_html", tags.script(HTML("if (a < b) {}"))
    yield "script_two", tags.script("a < b;", "c > d;")
    yield "script_two_html", tags.script(HTML("a<b;"), HTML("c>d;"))
    yield "script_str_html", tags.script("a<b;", HTML("c>d;"))
    yield "script_html_str", tags.script(HTML("a<b;"), "c>d;")
    yield "script_attr_dep", tags.script("a<b", dep, type="text/javascript")
    yield "style_single", tags.style("a > b {}")
    yield "style_two", tags.style("a > b {}", "c < d {}")
    yield "style_in_div", div(tags.style("a > b {}", "c{}"), tags.script("x"), "t")
    yield "attrs", div("x", span("y"), id="i", class_="c d", data_x='q"<>&', hidden=True, no=None)
    yield "attrs_html", div(div(), title=HTML("<raw&>"), class_="k")
    yield "custom_name", Tag("my-elem", Tag("inner", "t", _add_ws=False), "u")
    yield "list_in_children", div(["a", [span("b"), None, div("c")]], None, TagList("d", p("e")))
    yield "head", tags.head(tags.title("T"), tags.meta(charset="utf-8"))
    yield "html_doc_like", tags.html(tags.head(tags.title("T")), tags.body(h1("H"), p("x", a("l"))))
    yield "tagifiable_str", div(Tagif("plain<"), "z")
    yield "tagifiable_tag", div(Tagif(div("in")), Tagif(span("sp")), "z")
    yield "tagifiable_list", div("a", Tagif(TagList("x", div("y"), dep)), "b")
    yield "tagifiable_nested", div(Tagif(Tagif(p("pp"))))
    yield "both", div(Both(), "t")
    yield "taglist_empty", TagList()
    yield "taglist_text", TagList("a")
    yield "taglist_texts", TagList("a", "b<")
    yield "taglist_mixed", TagList("a", span("b"), div("c"), "d", div(), span(), dep, "e")
    yield "taglist_blocks", TagList(div("a"), div(span("x"), "y"), p())
    yield "taglist_dep_first", TagList(dep, "a", div("b"))
    yield "taglist_only_dep", TagList(dep, dep2)
    yield "taglist_repr", TagList(Repr("r"), div(), Repr("s"), "t")
    yield "taglist_inline_first", TagList(span("s"), span("t"), div("u"), span("v"))
    yield "taglist_tagifiable", TagList(Tagif(TagList("q", div("w"))), "e")


INDENTS = [0, 1, 2, 3, 7, 15, 16, 17, 40, -1, True, False]
EOLS = ["\n", "\r\n", "", "|", " <eol> "]


def section_layout():
    for name, t in trees():
        show(f"str:{name}", lambda: str(t))
        show(f"repr:{name}", lambda: repr(t))
        show(f"_repr_html_:{name}", lambda: t._repr_html_())
        show(f"render:{name}", lambda: t.render())
        show(f"ghs:{name}", lambda: t.get_html_string())
        tg = None
        try:
            tg = t.tagify()
        except BaseException as e:  # noqa: BLE001
            print(f"tagify:{name} -> EXC", type(e).__name__)
        if tg is None:
            continue
        for ind in INDENTS:
            show(f"ghs:{name}:indent={ind!r}", lambda: tg.get_html_string(ind))
        for eol in EOLS:
            show(f"ghs:{name}:eol={eol!r}", lambda: tg.get_html_string(2, eol))
            show(f"ghs:{name}:kw:eol={eol!r}", lambda: tg.get_html_string(eol=eol, indent=1))
        if isinstance(tg, TagList):
            for add_ws in (True, False):
                for esc in (True, False):
                    show(
                        f"ghs:{name}:add_ws={add_ws}:esc={esc}",
                        lambda: tg.get_html_string(3, "\n", add_ws=add_ws, _escape_strings=esc),
                    )
                    show(
                        f"ghs:{name}:i0:add_ws={add_ws}:esc={esc}",
                        lambda: tg.get_html_string(add_ws=add_ws, _escape_strings=esc),
                    )


def section_errors():
    t = div("a", span("b"), div("c"))
    tl = TagList("a", span("b"), div("c"))
    for bad in ("x", 1.5, None, [1], 2**70):
        if bad == 2**70:
            continue
        show(f"bad_indent_tag:{bad!r}", lambda: t.get_html_string(bad))
        show(f"bad_indent_taglist:{bad!r}", lambda: tl.get_html_string(bad))
        show(f"bad_indent_empty_taglist:{bad!r}", lambda: TagList().get_html_string(bad))
        show(f"bad_indent_tagonly_taglist:{bad!r}", lambda: TagList(div()).get_html_string(bad))
        show(f"bad_indent_empty_tag:{bad!r}", lambda: div().get_html_string(bad))
    for bad in (None, 3, b"\n", HTML("<br>")):
        show(f"bad_eol_tag:{bad!r}", lambda: t.get_html_string(1, bad))
        show(f"bad_eol_taglist:{bad!r}", lambda: tl.get_html_string(1, bad))
        show(f"bad_eol_single:{bad!r}", lambda: div("x").get_html_string(1, bad))
        show(f"bad_eol_one_item_list:{bad!r}", lambda: TagList("x").get_html_string(1, bad))
    show("untagified_in_tag", lambda: div(Tagif("x")).get_html_string())
    show("untagified_in_list", lambda: TagList("a", Tagif("x")).get_html_string())
    show("untagified_bad_indent", lambda: TagList(Tagif("x")).get_html_string("bad"))
    show("both_untagified", lambda: TagList(Both()).get_html_string(2))
    show("repr_raises", lambda: TagList("a", ReprRaises()).get_html_string(1))
    show("repr_raises_bad_indent", lambda: TagList(ReprRaises()).get_html_string("bad"))
    show("repr_returns_html", lambda: TagList("a<", ReprReturnsHTML(), "b<").get_html_string(1))
    show("repr_returns_html_in_div", lambda: div("a<", ReprReturnsHTML()).get_html_string(1))
    show("repr_returns_nonstr", lambda: TagList(Repr(5)).get_html_string())
    show("bad_add_ws", lambda: Tag("div", _add_ws="yes"))
    show("bad_add_ws_none", lambda: Tag("div", _add_ws=None))
    show("bad_add_ws_int", lambda: Tag("div", _add_ws=1))
    show("bad_child", lambda: div(object()))
    show("bad_child_and_attr", lambda: div(object(), {"a": object()}))
    show("bad_attr", lambda: div(foo=object()))
    show("html_name", lambda: Tag(HTML("x"), "a", "b").get_html_string())
    show("add_ws_mutated", lambda: _mutated())


def _mutated():
    t = div("a", div("b"))
    t.add_ws = False
    s1 = t.get_html_string(1)
    u = span("a", span("b"))
    u.add_ws = True
    return s1, u.get_html_string(1), TagList(t, u).get_html_string(1)


def section_json_mode():
    old = htmltools.html_dependency_render_mode
    try:
        htmltools.html_dependency_render_mode = "json"
        show("json:div_dep", lambda: str(div("a", dep, div("b"))))
        show("json:list_deps", lambda: str(TagList(dep, "a", dep2, div(dep))))
        show("json:nodeps", lambda: str(div("a", span())))
        show("json:empty", lambda: str(TagList()))
    finally:
        htmltools.html_dependency_render_mode = old


def section_documents():
    show("doc:frag", lambda: HTMLDocument(div("a", span("b")), "t", lang="en").render())
    show("doc:body", lambda: HTMLDocument(tags.body(p("x"), dep)).render())
    show("doc:html", lambda: HTMLDocument(tags.html(tags.body("x")), class_="k").render())
    show("doc:headcontent", lambda: HTMLDocument(div(head_content(tags.title("T"), "x"))).render())
    show("doc:empty", lambda: HTMLDocument().render(lib_prefix=None, include_version=False))
    show("head_content", lambda: head_content("a", div("b"), span()).name)


def main(extra=()):
    section_layout()
    section_errors()
    section_json_mode()
    section_documents()
    for fn in extra:
        fn()


# ---- extras for refactoring 2: branch structure of both get_html_string methods ----
class SpyTag(Tag):
    calls = []

    def get_html_string(self, *args, **kwargs):
        SpyTag.calls.append((self.name, args, kwargs))
        return super().get_html_string(*args, **kwargs)


class StrSub(str):
    pass


class StrWithRepr(str):
    def _repr_html_(self):
        return "<u>" + str.__str__(self) + "</u>"


class ReprMutatesParent:
    def __init__(self):
        self.parent = None

    def _repr_html_(self):
        self.parent.add_ws = not self.parent.add_ws
        return "<m/>"


def section_branches():
    tl = TagList(
        "a<", SpyTag("span", "i"), SpyTag("div", "b", SpyTag("em", "x", "y", _add_ws=False)),
        SpyTag("b", _add_ws=False), SpyTag("i", "t", _add_ws=False), Repr("<r>"), SpyTag("p"),
    )
    for add_ws in (True, False, 1, 0, "", "yes", None):
        for esc in (True, False, 1, 0, "", None):
            SpyTag.calls.clear()
            show(f"spy:{add_ws!r}:{esc!r}", lambda: tl.get_html_string(2, "~", add_ws=add_ws, _escape_strings=esc))
            print("  calls:", SpyTag.calls)
    show("strsub", lambda: div(StrSub("a<b"), "c").get_html_string())
    show("strsub_single", lambda: div(StrSub("a<b")).get_html_string())
    show("strsub_script", lambda: tags.script(StrSub("a<b"), "c").get_html_string())
    show("str_with_repr", lambda: div(StrWithRepr("a<b"), "c").get_html_string())
    show("str_with_repr_single", lambda: div(StrWithRepr("a<b")).get_html_string())
    show("str_with_repr_script", lambda: tags.script(StrWithRepr("a<b")).get_html_string())
    show("str_with_repr_script2", lambda: tags.script(StrWithRepr("a<b"), "x<").get_html_string())
    show("html_single_script", lambda: tags.style(HTML("a<b")).get_html_string(2))
    show("html_single_div", lambda: div(HTML("a<b")).get_html_string(2))
    show("void_single_text", lambda: tags.hr("t<").get_html_string(1))
    show("void_single_tag", lambda: tags.hr(span()).get_html_string(1))
    show("void_meta_then_text", lambda: tags.hr(dep, "t<", dep).get_html_string(1))
    show("single_tag_inline_parent", lambda: span(span()).get_html_string(1))
    show("single_tag_block_parent", lambda: div(span()).get_html_string(1))
    show("single_repr", lambda: div(Repr("<r>")).get_html_string(1))
    show("single_both", lambda: div(Both()).get_html_string(1))
    show("single_tagifiable", lambda: div(Tagif("x")).get_html_string(1))

    def mut():
        m = ReprMutatesParent()
        d = div("a", m, div("b"))
        m.parent = d
        return d.get_html_string(1), d.add_ws, d.get_html_string(1), d.add_ws

    show("repr_mutates_parent", mut)

    def raw_items():
        tl = TagList("a")
        tl.data.extend([5, None, b"x"])
        out = []
        for esc in (True, False):
            try:
                out.append(tl.get_html_string(1, _escape_strings=esc))
            except BaseException as e:  # noqa: BLE001
                out.append(type(e).__name__)
        return out

    show("raw_items", raw_items)


if __name__ == "__main__":
    main(extra=[section_branches])
