"""Deterministic probe for property C02 (plain-text children are inert data).

Prints repr of outputs / exception types for a spread of inputs that go through
html_escape, the escape tables, _normalize_text, HTML.__add__/__radd__,
Tag.get_html_string and TagList.get_html_string.
"""
import htmltools
from htmltools import HTML, Tag, TagList, div, span, tags, html_escape
from htmltools import _core, _util


def show(label, fn):
    try:
        out = fn()
        print(label, "->", type(out).__name__, repr(out))
    except BaseException as e:  # noqa: BLE001
        print(label, "!!", type(e).__name__, str(e))


class LoudStr(str):
    """str subclass with its own __str__ and a logging replace."""

    log = []

    def __str__(self):
        return "LOUD"

    def replace(self, old, new, count=-1):
        LoudStr.log.append((old, new))
        return str.replace(self, old, new, count)


class Obj:
    def __str__(self):
        return "<obj & 'q'>"


class Tgf:
    def __init__(self, v):
        self.v = v

    def tagify(self):
        return self.v


class Rep:
    def __init__(self, v):
        self.v = v

    def _repr_html_(self):
        return self.v


TEXTS = [
    "",
    "plain",
    "&",
    "<",
    ">",
    "a&b<c>d",
    "&amp;",
    "&lt;script&gt;",
    "<!-- c -->",
    "<!DOCTYPE x>",
    "</div><script>alert(1)</script>",
    "\"quoted\" 'single'",
    "line1\nline2\r\nline3",
    "&#38; &#x26;",
    "é中\U0001f600 & \x00 \t",
    "<<<>>>&&&",
    "|",
    "a|b",
    "x" * 50 + "<" + "y" * 50,
]

print("== tables ==")
print(repr(_util.HTML_ESCAPE_TABLE), list(_util.HTML_ESCAPE_TABLE))
print(repr(_util.HTML_ATTRS_ESCAPE_TABLE), list(_util.HTML_ATTRS_ESCAPE_TABLE))
print(type(_util.HTML_ESCAPE_TABLE).__name__, type(_util.HTML_ATTRS_ESCAPE_TABLE).__name__)
print(_util._html_escape is _util.html_escape, htmltools.html_escape is _util.html_escape)
print(_core.html_escape is _util.html_escape)

print("== html_escape ==")
for t in TEXTS:
    show("esc %r" % t, lambda: html_escape(t))
    show("esc kw False %r" % t, lambda: html_escape(t, attr=False))
    show("esc attr %r" % t, lambda: html_escape(t, attr=True))
    show("esc pos True %r" % t, lambda: html_escape(t, True))
    show("esc truthy %r" % t, lambda: html_escape(t, attr="yes"))
    show("esc falsy %r" % t, lambda: html_escape(t, attr=0))
    show("identity %r" % t, lambda: html_escape(t) is t)

for bad in [None, 5, 1.5, b"a<b", b"", bytearray(b"<"), ["<"], ("&",), {"<": 1}, HTML("<b>"), Obj(), object]:
    show("esc bad %s" % type(bad).__name__, lambda: html_escape(bad))
    show("esc bad attr %s" % type(bad).__name__, lambda: html_escape(bad, attr=True))
show("esc no args", lambda: html_escape())
show("esc 3 args", lambda: html_escape("a", True, 1))
show("esc kw text", lambda: html_escape(text="<k>", attr=False))
show("esc bad kw", lambda: html_escape("a", escape=True))

for raw in ["a<b", "plain", "", "&\"'"]:
    LoudStr.log.clear()
    s = LoudStr(raw)
    show("esc LoudStr %r" % raw, lambda: html_escape(s))
    show("esc LoudStr type %r" % raw, lambda: type(html_escape(s)).__name__)
    show("esc LoudStr attr %r" % raw, lambda: html_escape(s, attr=True))
    print("   replace log:", LoudStr.log)

print("== _normalize_text ==")
for t in TEXTS:
    show("norm %r" % t, lambda: _core._normalize_text(t))
    show("norm HTML %r" % t, lambda: _core._normalize_text(HTML(t)))
for bad in [None, 5, b"<", ["<"], Obj(), LoudStr("<l>")]:
    show("norm bad %s" % type(bad).__name__, lambda: _core._normalize_text(bad))
show("norm no args", lambda: _core._normalize_text())
show("norm kw txt", lambda: _core._normalize_text(txt="<"))

print("== HTML + / radd ==")
for t in TEXTS[:12]:
    show("HTML+str %r" % t, lambda: HTML("<i>") + t)
    show("str+HTML %r" % t, lambda: t + HTML("<i>"))
    show("HTML+HTML %r" % t, lambda: HTML("<i>") + HTML(t))
    show("radd HTML %r" % t, lambda: HTML("<i>").__radd__(HTML(t)))
for other in [None, 5, 1.5, Obj(), b"<b>", ["<"], LoudStr("<l>"), div("<x>"), TagList("<", "y")]:
    show("HTML+%s" % type(other).__name__, lambda: HTML("<i>") + other)
    show("%s+HTML" % type(other).__name__, lambda: other + HTML("<i>"))
EVENTS = []


class LogHTML(HTML):
    def as_string(self):
        EVENTS.append("as_string:" + self.data)
        return HTML.as_string(self)


class LogObj:
    def __init__(self, v, fail=False):
        self.v = v
        self.fail = fail

    def __str__(self):
        EVENTS.append("str:" + self.v)
        if self.fail:
            raise ValueError("no str")
        return self.v


for mk in (lambda: LogObj("<o>"), lambda: LogObj("<o>", True), lambda: LogHTML("<lh>"), lambda: "<s>", lambda: HTML("<h>")):
    del EVENTS[:]
    show("LogHTML + x", lambda: LogHTML("<a>") + mk())
    print("   events:", EVENTS)
    del EVENTS[:]
    show("x + LogHTML", lambda: LogHTML("<a>").__radd__(mk()))
    print("   events:", EVENTS)
    del EVENTS[:]
    show("HTML + x", lambda: HTML("<a>") + mk())
    print("   events:", EVENTS)
h = HTML("&")
h += "<t>"
print(type(h).__name__, repr(h))
h += HTML("<t>")
print(type(h).__name__, repr(h))

print("== single child ==")
for t in TEXTS:
    show("div %r" % t, lambda: str(div(t)))
    show("div HTML %r" % t, lambda: str(div(HTML(t))))
    show("script %r" % t, lambda: str(tags.script(t)))
    show("style HTML %r" % t, lambda: str(tags.style(HTML(t))))
    show("div attr %r" % t, lambda: str(div(t, title=t, data_x=HTML(t))))
show("div num", lambda: str(div(5)))
show("div float", lambda: str(div(1.5)))
show("div negative", lambda: str(div(-0.0)))
show("div bool", lambda: str(div(True)))
show("div None", lambda: str(div(None)))
show("div LoudStr", lambda: str(div(LoudStr("<l>"))))
show("script LoudStr", lambda: str(tags.script(LoudStr("<l>"))))
show("style LoudStr", lambda: str(tags.style(LoudStr("<l>"))))
show("div Obj", lambda: str(div(Obj())))
show("div bytes", lambda: str(div(b"<")))
show("br text", lambda: str(tags.br("<")))
show("div indent", lambda: div("<a>").get_html_string(2, "\r\n"))
show("script indent", lambda: tags.script("<a>").get_html_string(3, "|"))

def raw_children(items, **kw):
    tl = TagList()
    tl.data.extend(items)
    return tl.get_html_string(**kw)


print("== multiple children ==")
for t in TEXTS:
    show("div multi %r" % t, lambda: str(div(t, t)))
    show("div mixed %r" % t, lambda: str(div(t, HTML(t), span(t), t, [t, [HTML(t), 7]], 1.5)))
    show("span inline %r" % t, lambda: str(span(t, span(t), HTML(t), t)))
    show("script multi %r" % t, lambda: str(tags.script(t, t)))
    show("style multi HTML %r" % t, lambda: str(tags.style(t, HTML(t))))
    show("script HTML first %r" % t, lambda: str(tags.script(HTML(t), t)))
    show("taglist %r" % t, lambda: TagList(t, HTML(t), div(t), t).get_html_string())
    show("taglist noesc %r" % t, lambda: TagList(t, div(t), t).get_html_string(_escape_strings=False))
    show("taglist noesc HTML %r" % t, lambda: TagList(t, HTML(t), t).get_html_string(_escape_strings=False))
    show("taglist args %r" % t, lambda: TagList(t, div(t), t, span(t), t).get_html_string(2, "~", add_ws=False))

show("rep", lambda: str(div(Rep("<r>"), "<t>", Rep("<r2>"))))
show("rep only", lambda: TagList(Rep("<r>")).get_html_string(3))
show("rep none", lambda: TagList("a", Rep(None)).get_html_string())
show("rep HTML", lambda: TagList("a<", Rep(HTML("<h>"))).get_html_string())
show("rep HTML type", lambda: type(TagList("a<", Rep(HTML("<h>"))).get_html_string()).__name__)
show("rep int", lambda: TagList(Rep(5)).get_html_string())


class Both(Rep):
    def tagify(self):
        return "tagified"


show("both raw", lambda: raw_children(["<", Both("<both>"), div(), Both("<b2>"), "&"]))
show("both raw noesc", lambda: raw_children([div(), Both("<both>"), "&"], _escape_strings=False, indent=2))
show("both tagified", lambda: str(div("<", Both("<both>")).tagify()))
show("LoudStr multi", lambda: str(div(LoudStr("<l>"), LoudStr("<m>"))))
show("LoudStr script multi", lambda: str(tags.script(LoudStr("<l>"), LoudStr("<m>"))))
show("nums", lambda: str(div(1, 2.5, -3, 1e100, float("inf"), float("nan"), True)))
show("untagified", lambda: TagList("a", Tgf("<")).get_html_string())
show("untagified in div", lambda: str(div("a", Tgf("<"))))
show("tagify str", lambda: str(div("a", Tgf("<b>&")).tagify()))
show("tagify HTML", lambda: str(div("a", Tgf(HTML("<b>&"))).tagify()))
show("tagify single", lambda: str(div(Tgf("<b>&")).tagify()))
show("tagify list", lambda: str(TagList(Tgf(TagList("<", HTML("<"), 3))).tagify()))
show("render", lambda: div("<", Tgf("&")).render())
show("taglist render", lambda: TagList("<", Tgf(">")).render())
show("bad indent", lambda: TagList(div(), "a").get_html_string(None))
show("bad indent rep", lambda: TagList(div(), Rep("r")).get_html_string("x"))
show("neg indent", lambda: TagList(div(), "a<", Rep("r")).get_html_string(-2))
show("bad eol", lambda: TagList(div(), "a").get_html_string(0, None))
show("empty taglist", lambda: TagList().get_html_string())
show("empty strings", lambda: TagList("", "", div(), "").get_html_string(1))


for items in ([5], ["a", 5], [None], [b"<"], ["<", b"<"], [["<"]], [Obj()], [div(), 5], [div(), None]):
    show("raw %r" % [type(i).__name__ for i in items], lambda: raw_children(items))
    show("raw noesc %r" % [type(i).__name__ for i in items], lambda: raw_children(items, _escape_strings=False))


def raw_tag(name, items):
    t = Tag(name)
    t.children.data.extend(items)
    return t.get_html_string()


for name in ("div", "script", "style", "br"):
    for items in ([5], [None], [b"<"], ["<", 5], [HTML("<h>")], [HTML("<h>"), "<"], [LoudStr("<")], [Obj()]):
        show("rawtag %s %r" % (name, [type(i).__name__ for i in items]), lambda: raw_tag(name, items))

print("== mutation API ==")
d = div("<a>")
d.append("<b>", HTML("<c>"))
d.extend(["&d", 4])
d.insert(0, "<first>")
show("mutated", lambda: str(d))
d.children.append("<tl>")
d.children.insert(1, ["&x", HTML("&y")])
d.children.extend(TagList("<e>", 9))
d.children[0] = "<zero>"
d.children += ["<plus>"]
show("mutated2", lambda: str(d))
show("mutated children", lambda: list(map(repr, d.children)))
s = tags.script("a<b")
s.append("c>d", HTML("<e>"))
show("script mutated", lambda: str(s))
show("doc", lambda: htmltools.HTMLDocument(div("<t>", title="<'a'>")).render()["html"])
show("repr", lambda: repr(div("<", span("&"))))
show("repr_html", lambda: div("<", span("&"))._repr_html_())
show("eq", lambda: div("<") == div("<"))
