# Probe for refactoring 1: attribute writer (Tag.get_html_string) and the
# HTML()/plain merge path of TagAttrDict.update.
import copy
import htmltools
from htmltools import HTML, Tag, TagList, div, span, tags, consolidate_attrs
from htmltools._core import TagAttrDict


def show(label, fn):
    try:
        out = fn()
        print(label, "=>", type(out).__name__, repr(out))
    except Exception as e:  # noqa: BLE001
        print(label, "=> EXC", type(e).__name__)


NASTY = [
    "",
    "plain",
    "a&b",
    "<script>alert(1)</script>",
    'say "hi"',
    "it's",
    "line1\nline2",
    "cr\rlf\r\n",
    "&amp;",
    "&#10;",
    "\t tab and unicode \u00e9\u2028\x00",
    "\" onmouseover=\"x",
    "'><img src=x>",
]

for v in NASTY:
    show(f"div(title={v!r})", lambda: str(div(title=v)))
    show(f"div(title=HTML({v!r}))", lambda: str(div(title=HTML(v))))
    show(f"merge plain+plain {v!r}", lambda: str(div({"class": v}, class_=v)))
    show(f"merge plain+HTML {v!r}", lambda: str(div({"class": v}, class_=HTML(v))))
    show(f"merge HTML+plain {v!r}", lambda: str(div({"class": HTML(v)}, class_=v)))
    show(f"merge HTML+HTML {v!r}", lambda: str(div({"class": HTML(v)}, class_=HTML(v))))
    show(
        f"merge 3-way {v!r}",
        lambda: str(div({"class": v}, {"class": HTML(v)}, class_=v)),
    )
    show(f"attrs dict {v!r}", lambda: dict(div({"x": v}, x=HTML(v)).attrs))
    show(
        f"attrs type {v!r}",
        lambda: [type(x).__name__ for x in div({"x": v}, x=HTML(v)).attrs.values()],
    )

for v in [True, False, None, 0, 1, -1.5, 1e100, float("nan"), 2**70]:
    show(f"div(data_x={v!r})", lambda: str(div(data_x=v)))
    show(f"div(a=1, data_x={v!r}, b='<')", lambda: str(div(a=1, data_x=v, b="<")))
    show(f"merge {v!r} + 'z'", lambda: str(div({"data-x": v}, data_x="z")))
    show(f"merge {v!r} + HTML('<z>')", lambda: str(div({"data-x": v}, data_x=HTML("<z>"))))

for v in [[], {}, object(), b"bytes", ("a",), 1j]:
    show(f"bad value {type(v).__name__}", lambda: str(div(x=v)))

# Many attributes, order, void tags, indentation, children
show("many", lambda: str(tags.input(type="text", value='"<&>\'', disabled=True, hidden=False, x=None)))
show("no attrs", lambda: str(div()))
show("no attrs void", lambda: str(tags.br()))
show("void attrs", lambda: str(tags.img(src="a&b.png", alt="x\ny")))
show("indent", lambda: div(span("a", title="<"), id="o\n").get_html_string(indent=2, eol="\r\n"))
show("nested", lambda: str(div(div(span("x", class_="a'b"), title='"'), id="&")))
show("script tag", lambda: str(tags.script("a<b", type="text/javascript", data_x="</script>")))
show("taglist", lambda: str(TagList(div(id="<"), span(id=">"))))
show("render", lambda: div(id="a\nb").render())
show("repr_html", lambda: div(id="a\nb")._repr_html_())
show("name is HTML", lambda: str(Tag(HTML("div"), id="a&b<\"", title=HTML("a&b<\""))))
show("name is HTML no attrs", lambda: str(Tag(HTML("div"))))

# Direct TagAttrDict usage
d = TagAttrDict({"a_b_": "x&y"}, {"a-b": HTML("<i>")}, c=True, d=None, e=False, f=3)
show("TagAttrDict", lambda: (dict(d), [type(x).__name__ for x in d.values()]))
d.update({"a-b": "'q'"}, {"a_b": HTML("&")})
show("TagAttrDict.update", lambda: (dict(d), [type(x).__name__ for x in d.values()]))
d["a_b"] = "\n"
show("TagAttrDict.setitem", lambda: dict(d))
d.update()
show("TagAttrDict.update()", lambda: dict(d))
show("TagAttrDict bad", lambda: TagAttrDict(a=[1]))
show("TagAttrDict bad key", lambda: TagAttrDict({1: "a"}))
show("TagAttrDict bad key None", lambda: dict(TagAttrDict({1: None})))

# add_class / add_style go through update()
show("add_class", lambda: str(div(class_="a").add_class("b<").add_class("c&", prepend=True)))
show("add_class HTML", lambda: str(div(class_=HTML("a&")).add_class("b<")))
show("add_style", lambda: str(div(style="a:b;").add_style(HTML("c:'d';")).add_style("e:\"f\";", prepend=True)))
show("add_style bad", lambda: str(div().add_style("a:b")))

# Values stored behind the back of TagAttrDict
t = div()
dict.__setitem__(t.attrs, "n", 5)
show("raw int value", lambda: str(t))
t2 = div()
t2.attrs = {"k": "a\"b", "h": HTML("<")}
show("plain dict attrs", lambda: str(t2))

# copy / consolidate_attrs
t3 = div({"class": "a"}, class_=HTML("<b>"), id="x'")
show("copy", lambda: str(copy.copy(t3)))
show("consolidate", lambda: consolidate_attrs({"class": "a&"}, "kid", class_=HTML("<b>"), id=None))
show("consolidate types", lambda: [type(v).__name__ for v in consolidate_attrs({"class": "a&"}, class_=HTML("<b>"))[0].values()])
