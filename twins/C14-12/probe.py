# Probe for refactoring 2: type tables behind is_tag_node / is_tag_child /
# _tagchilds_to_tagnodes.
import collections
import collections.abc
import decimal
import enum
import fractions
from collections import UserList, UserString, deque

import htmltools
from htmltools import (
    HTML,
    HTMLDependency,
    HTMLDocument,
    Tag,
    TagList,
    div,
    is_tag_child,
    is_tag_node,
    span,
)
from htmltools._core import MetadataNode, _tagchilds_to_tagnodes


def desc(c):
    if isinstance(c, (str, Tag, HTMLDependency)):
        return type(c).__name__ + ":" + str(c)
    return "<" + type(c).__name__ + ">"


def show(label, fn):
    try:
        r = fn()
    except BaseException as e:  # noqa: BLE001
        print(label, "->", "EXC", type(e).__name__, str(e))
        return
    if isinstance(r, (TagList, list)):
        print(label, "->", type(r).__name__, [desc(c) for c in r])
    else:
        print(label, "->", type(r).__name__, repr(r))


class Rep:
    def _repr_html_(self):
        return "<b>rep</b>"


class Tagif:
    def tagify(self):
        return span("tagified")


class TagifyAttrOnly:
    tagify = 1


class MySeq(collections.abc.Sequence):
    def __init__(self, *xs):
        self.xs = xs

    def __getitem__(self, i):
        return self.xs[i]

    def __len__(self):
        return len(self.xs)


class MyStr(str):
    pass


class MyInt(int):
    pass


class MyFloat(float):
    pass


class Color(enum.IntEnum):
    RED = 1


class MyMeta(MetadataNode):
    pass


class SubList(TagList):
    pass


def gen():
    yield "g"


dep = HTMLDependency("a", "1.0", source={"subdir": "."}, script={"src": "a.js"})

values = {
    "str": "s",
    "empty_str": "",
    "mystr": MyStr("ms"),
    "html": HTML("<i>"),
    "userstring": UserString("us"),
    "tag": div("x"),
    "taglist": TagList("a", 1),
    "empty_taglist": TagList(),
    "sublist": SubList("q"),
    "userlist": UserList(["u"]),
    "doc": HTMLDocument("d"),
    "dep": dep,
    "meta": MetadataNode(),
    "mymeta": MyMeta(),
    "rep": Rep(),
    "tagif": Tagif(),
    "tagify_attr": TagifyAttrOnly(),
    "none": None,
    "int": 3,
    "zero": 0,
    "negint": -7,
    "bigint": 10**30,
    "bool_t": True,
    "bool_f": False,
    "myint": MyInt(4),
    "intenum": Color.RED,
    "float": 2.5,
    "nan": float("nan"),
    "inf": float("-inf"),
    "negzero": -0.0,
    "exp": 1e22,
    "myfloat": MyFloat(1.25),
    "complex": 1 + 2j,
    "decimal": decimal.Decimal("1.5"),
    "fraction": fractions.Fraction(1, 3),
    "list": ["a", [1, None]],
    "empty_list": [],
    "tuple": ("t", 2.0),
    "range": range(2),
    "myseq": MySeq("m", 1),
    "deque": deque(["dq"]),
    "bytes": b"by",
    "bytearray": bytearray(b"ba"),
    "memoryview": memoryview(b"mv"),
    "dict": {"k": "v"},
    "set": {"only"},
    "frozenset": frozenset(),
    "gen": gen(),
    "object": object(),
    "type": str,
    "class_Tag": Tag,
    "func": len,
    "ellipsis": ...,
    "notimpl": NotImplemented,
}

for name, v in values.items():
    print(name, "is_tag_node:", repr(is_tag_node(v)), "is_tag_child:", repr(is_tag_child(v)))

print("top-level exports same objects:", htmltools.is_tag_child is is_tag_child, htmltools.is_tag_node is is_tag_node)

for name, v in values.items():
    if name == "gen":
        v = gen()
    show(f"TagList({name})", lambda: TagList(v))
    show(f"TagList('p', [{name}], 'q')", lambda: TagList("p", [v], "q"))
    show(f"_tagchilds_to_tagnodes([{name}])", lambda: _tagchilds_to_tagnodes([v]))
    show(f"_tagchilds_to_tagnodes({name})", lambda: _tagchilds_to_tagnodes(v))

    tl = TagList("keep")
    show(f"append({name})", lambda: (tl.append(v), tl)[1])
    print("   after append:", [desc(c) for c in tl.data], all(is_tag_node(c) for c in tl.data))
    tl = TagList("keep", "tail")
    show(f"insert(1, {name})", lambda: (tl.insert(1, v), tl)[1])
    print("   after insert:", [desc(c) for c in tl.data], all(is_tag_node(c) for c in tl.data))
    tl = TagList("keep")
    show(f"extend(['x', {name}])", lambda: (tl.extend(["x", v]), tl)[1])
    print("   after extend:", [desc(c) for c in tl.data], all(is_tag_node(c) for c in tl.data))
    show(f"div({name})", lambda: div(v).children)
    # accepted by the operations  =>  accepted by is_tag_child
    try:
        TagList(v)
        ok = True
    except TypeError:
        ok = False
    print("   accepted:", ok, "is_tag_child:", is_tag_child(v))

# rendering of numbers
print(str(TagList(1, 2.50, -0.0, True, 1e22, [float("inf")], MyInt(4), Color.RED)))
print(repr(div(0, 1.0, None, False)))
