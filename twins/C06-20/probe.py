"""Deterministic probe of the block-layout code paths (Tag/TagList.get_html_string & co)."""
import itertools

import htmltools
from htmltools import (
    HTML,
    HTMLDependency,
    HTMLDocument,
    Tag,
    TagList,
    a,
    br,
    code,
    div,
    em,
    h1,
    hr,
    img,
    p,
    pre,
    span,
    strong,
    tags,
)
from htmltools import _core


def show(label, fn):
    try:
        res = fn()
        print(label, "->", type(res).__name__, repr(res))
    except BaseException as e:  # noqa: BLE001
        print(label, "-> EXC", type(e).__name__, str(e)[:80])


class Rep:
    """Only has _repr_html_ (ReprHtml branch)."""

    log = []

    def __init__(self, s):
        self.s = s

    def _repr_html_(self):
        Rep.log.append(self.s)
        return self.s


class RepHTML(Rep):
    """_repr_html_ gives back an HTML object rather than a str."""

    def _repr_html_(self):
        Rep.log.append(self.s)
        return HTML(self.s)


class Boom:
    def _repr_html_(self):
        Rep.log.append("boom")
        raise KeyError("boom")


class Lazy:
    """Tagifiable but without _repr_html_."""

    def tagify(self):
        return div("lazy")


dep = HTMLDependency("dep", "1.0", source={"subdir": "."}, script={"src": "x.js"})

trees = {
    "empty_div": lambda: div(),
    "empty_span": lambda: span(),
    "void_br": lambda: br(),
    "void_hr_attrs": lambda: hr(class_="x", data_y="<&>\"'"),
    "void_with_child": lambda: br("x"),
    "void_with_tag": lambda: Tag("img", span()),
    "void_only_dep": lambda: Tag("input", dep),
    "div_only_dep": lambda: div(dep),
    "single_text": lambda: div("a < b & c"),
    "single_empty_text": lambda: div(""),
    "single_html": lambda: div(HTML("<b>x</b>")),
    "single_text_plus_dep": lambda: div(dep, "t<", dep),
    "two_texts": lambda: div("a", "b"),
    "text_html": lambda: div("a<", HTML("<i>")),
    "single_span": lambda: div(span("x")),
    "single_div": lambda: div(div("x")),
    "mixed": lambda: div("a", span("b"), "c", div("d"), "e", em("f"), p("g"), p("h")),
    "nested3": lambda: div(div(div("x", span()), "t"), span("s", strong("u"))),
    "inline_in_inline": lambda: span(span("a"), "b", a("c", href="#")),
    "inline_two_texts": lambda: span("a", "b"),
    "block_addws_false": lambda: div("x", div("y"), span("z"), _add_ws=False),
    "inline_addws_true": lambda: div(span("a", _add_ws=True), span("b"), "c"),
    "pre_code": lambda: pre(code("x\n  y")),
    "script_single": lambda: tags.script("a < b && c"),
    "script_html": lambda: tags.script(HTML("a < b")),
    "script_multi": lambda: tags.script("a < b;", "c > d;", HTML("<e>")),
    "style_multi": lambda: tags.style("a > b {}", span("<"), "x"),
    "script_in_div": lambda: div(tags.script("1<2"), tags.style("a>b{}", "c>d{}")),
    "rep_single": lambda: div(Rep("<r/>")),
    "rep_mixed": lambda: div(Rep("<r1/>"), "t", Rep("<r2/>"), div(), Rep("<r3/>"), span()),
    "rep_in_span": lambda: span(Rep("<r/>"), "x"),
    "rep_html_first": lambda: div(RepHTML("<q>"), "a<b", span("c")),
    "rep_html_later": lambda: div("a<b", div("k"), RepHTML("<q>"), "z>"),
    "rep_in_script": lambda: tags.script("x<y", Rep("<r/>")),
    "deps_between": lambda: div("a", dep, "b", dep, div("c"), dep),
    "dep_first_then_block": lambda: div(dep, div("c"), dep, span("s")),
    "numbers": lambda: div(1, 2.5, None, [3, ["x", None]], ("y",)),
    "attrs_html": lambda: div("a", "b", title=HTML("<&>"), id="i\n\"d"),
    "unicode": lambda: div("é", span("中"), "\n", "\r\n"),
    "ws_text": lambda: div(" ", span(" "), "\t"),
    "taglist_child": lambda: div(TagList("a", span("b")), TagList(), TagList(div())),
    "html_name": lambda: Tag(HTML("x-y"), "a", "b"),
    "custom_tag": lambda: Tag("my-el", Tag("area"), Tag("wbr"), Tag("command"), "t"),
    "upper_void": lambda: Tag("BR"),
    "svg": lambda: htmltools.svg.svg(htmltools.svg.g(htmltools.svg.text("t"), htmltools.svg.a("l"))),
}

lists = {
    "tl_empty": lambda: TagList(),
    "tl_one_text": lambda: TagList("a<"),
    "tl_texts": lambda: TagList("a", "b"),
    "tl_blocks": lambda: TagList(div("a"), div("b")),
    "tl_inline": lambda: TagList(span("a"), span("b"), "c"),
    "tl_mixed": lambda: TagList("a", span("b"), div("c"), "d", em("e"), div(span("f"), "g"), "h"),
    "tl_deps": lambda: TagList(dep, "a", dep, div("b"), dep),
    "tl_only_deps": lambda: TagList(dep, dep),
    "tl_rep": lambda: TagList(Rep("<r1/>"), div(), Rep("<r2/>"), "x", HTML("<h>")),
    "tl_rep_html": lambda: TagList("a<", RepHTML("<q>"), "b>", div("c<")),
    "tl_nested": lambda: TagList(TagList("a", div("b")), [span("c"), [div(div("d"))]]),
}

INDENTS = [0, 1, 3]
EOLS = ["\n", "\r\n", "", "<EOL>"]


def layout_section():
    print("== Tag.get_html_string ==")
    for name, mk in trees.items():
        for ind, eol in itertools.product(INDENTS, EOLS):
            show(f"{name} indent={ind} eol={eol!r}", lambda: mk().get_html_string(ind, eol))
        show(f"{name} default", lambda: mk().get_html_string())
        show(f"{name} kw", lambda: mk().get_html_string(eol="|", indent=2))
        show(f"{name} str", lambda: str(mk()))
        show(f"{name} repr", lambda: repr(mk()))
        show(f"{name} _repr_html_", lambda: mk()._repr_html_())
        show(f"{name} render", lambda: mk().render()["html"])
        show(f"{name} children.ghs", lambda: mk().children.get_html_string(2, "|", add_ws=False))

    print("== TagList.get_html_string ==")
    for name, mk in lists.items():
        for ind, eol, add_ws, esc in itertools.product(INDENTS, EOLS, [True, False], [True, False]):
            show(
                f"{name} indent={ind} eol={eol!r} add_ws={add_ws} esc={esc}",
                lambda: mk().get_html_string(ind, eol, add_ws=add_ws, _escape_strings=esc),
            )
        show(f"{name} default", lambda: mk().get_html_string())
        show(f"{name} str", lambda: str(mk()))
        show(f"{name} repr", lambda: repr(mk()))
        show(f"{name} render", lambda: mk().render()["html"])
    print("rep log size", len(Rep.log))


def error_section():
    print("== errors / odd arguments ==")
    del Rep.log[:]
    show("untagified in div", lambda: div("a", Lazy()).get_html_string())
    show("untagified in list", lambda: TagList(Rep("<r/>"), Lazy(), Rep("<never/>")).get_html_string())
    print("log", Rep.log)
    del Rep.log[:]
    show("untagified str()", lambda: str(div("a", Lazy(), span(Lazy()))))
    show("raising rep", lambda: div(Rep("<1/>"), Boom(), Rep("<2/>")).get_html_string())
    print("log", Rep.log)
    del Rep.log[:]
    show("indent None tag", lambda: div("a", "b").get_html_string(None))
    show("indent None list text", lambda: TagList(Rep("<1/>"), Rep("<2/>")).get_html_string(None))
    print("log", Rep.log)
    del Rep.log[:]
    show("indent None list add_ws False", lambda: TagList(Rep("<1/>"), Rep("<2/>")).get_html_string(None, add_ws=False))
    print("log", Rep.log)
    del Rep.log[:]
    show("indent str", lambda: div("a", div()).get_html_string("x"))
    show("indent float", lambda: div(div()).get_html_string(1.0))
    show("indent negative", lambda: div("a", div("b", div())).get_html_string(-2))
    show("indent True", lambda: div("a", div("b", div())).get_html_string(True))
    show("eol None block", lambda: div("a", "b").get_html_string(0, None))
    show("eol None single", lambda: div("a").get_html_string(0, None))
    show("eol None inline", lambda: span("a", "b").get_html_string(0, None))
    show("eol None list", lambda: TagList(Rep("<1/>"), div(), Rep("<2/>")).get_html_string(0, None))
    print("log", Rep.log)
    del Rep.log[:]
    show("eol HTML", lambda: div("a<", div("b")).get_html_string(1, HTML("<br>")))
    show("eol bytes", lambda: div("a", div()).get_html_string(0, b"\n"))
    show("positional add_ws", lambda: TagList("a").get_html_string(0, "\n", True))
    show("_add_ws 1", lambda: Tag("div", _add_ws=1))
    show("_add_ws None", lambda: Tag("div", _add_ws=None))
    show("_add_ws 'x'", lambda: div(_add_ws="x"))
    show("name None", lambda: Tag(None, "a").get_html_string())
    show("name list", lambda: Tag(["a"]).get_html_string())
    show("name int", lambda: Tag(1).get_html_string())

    # manual mutation after construction
    t = div("a", span("b"))
    t.add_ws = False
    show("mutated add_ws False", lambda: t.get_html_string(1, "|"))
    t.add_ws = 1
    show("mutated add_ws 1", lambda: t.get_html_string(1, "|"))
    s = span("b", "c")
    s.add_ws = "yes"
    show("child add_ws str", lambda: TagList("x", s, "y").get_html_string(1, "|", add_ws=False))
    t2 = div("a")
    t2.children.data.append(5)
    show("raw int child", lambda: t2.get_html_string())
    t3 = div()
    t3.children.data.append(5)
    show("raw single int child", lambda: t3.get_html_string())
    t4 = div("a", "b")
    t4.attrs = {"k": "v<", "h": HTML("<")}
    show("plain dict attrs", lambda: t4.get_html_string())
    t5 = div()
    t5.children = ["a"]
    show("plain list children single", lambda: t5.get_html_string())
    t5.children = []
    show("plain list children empty", lambda: t5.get_html_string())
    t5.children = ["a", "b"]
    show("plain list children two", lambda: t5.get_html_string())


def entry_section():
    print("== entry points ==")
    doc = HTMLDocument(div("a", span("b")), dep, "c", lang="en")
    show("doc render", lambda: doc.render()["html"])
    show("doc html", lambda: HTMLDocument(tags.html(tags.body("x", div()))).render()["html"])
    show("doc body", lambda: HTMLDocument(tags.body(span("x"), "y")).render()["html"])
    show("doc empty", lambda: HTMLDocument().render()["html"])
    old = htmltools.html_dependency_render_mode
    try:
        htmltools.html_dependency_render_mode = "json"
        show("json str tag", lambda: str(div("a", dep, div("b"), dep)))
        show("json str list", lambda: str(TagList(dep, "a", dep)))
        show("json str nodeps", lambda: str(div("a", "b")))
        show("json str two deps", lambda: str(TagList(dep, HTMLDependency("o", "2", source={"subdir": "."}, stylesheet={"href": "s.css"}), span())))
        show("json repr", lambda: repr(div(dep)))
        show("json untagified", lambda: str(div(Lazy())))
    finally:
        htmltools.html_dependency_render_mode = old
    show("mode other", lambda: str(div(dep, "x", "y")))
    show("normalize str", lambda: _core._normalize_text("<a&b>\"'"))
    show("normalize HTML", lambda: _core._normalize_text(HTML("<a&b>")))
    show("normalize empty", lambda: _core._normalize_text(""))
    show("normalize int", lambda: _core._normalize_text(5))
    show("normalize None", lambda: _core._normalize_text(None))
    show("normalize bytes", lambda: _core._normalize_text(b"<"))

    class MyStr(str):
        pass

    show("normalize strsub", lambda: _core._normalize_text(MyStr("<x>")))
    show("void br", lambda: "br" in _core._VOID_TAG_NAMES)
    show("void sorted", lambda: sorted(_core._VOID_TAG_NAMES))
    show("noescape sorted", lambda: sorted(_core._NO_ESCAPE_TAG_NAMES))
    show("void len", lambda: len(_core._VOID_TAG_NAMES))
    show("void unhashable", lambda: ["br"] in _core._VOID_TAG_NAMES)
    show("void set key", lambda: {"br"} in _core._VOID_TAG_NAMES)
    for nm in sorted(_core._VOID_TAG_NAMES) + ["div", "span", "script", "style", "Br", " br", ""]:
        show(f"empty <{nm}>", lambda: Tag(nm).get_html_string(1, "|"))
        show(f"full <{nm}>", lambda: Tag(nm, "<", ">").get_html_string(1, "|"))


def main():
    layout_section()
    error_section()
    entry_section()


if __name__ == "__main__":
    main()


# ---------------------------------------------------------------------------
# Extra checks aimed at Tag.get_html_string (opening tag / content / closing tag)
# ---------------------------------------------------------------------------
def tag_extras():
    print("== Tag extras ==")
    names = ["div", "span", "br", "img", "script", "style", "x-y", "BR", HTML("h-n"), HTML("br"), HTML("script")]
    contents = {
        "none": lambda: [],
        "dep": lambda: [dep],
        "txt": lambda: ["a<b"],
        "empty_txt": lambda: [""],
        "html": lambda: [HTML("<i>")],
        "txt_dep": lambda: [dep, "a<b", dep],
        "two_txt": lambda: ["a<", "b>"],
        "txt_html": lambda: ["a<", HTML("<i>")],
        "rep": lambda: [Rep("<r/>")],
        "inl": lambda: [span("s<")],
        "blk": lambda: [div("d<")],
        "mix": lambda: ["a<", span("s"), div("d"), HTML("<h>"), dep, "z"],
        "nested": lambda: [div(div("x", span("y")), "t"), "u"],
        "taglist": lambda: [TagList("a")],
        "taglist2": lambda: [TagList("a", "b")],
        "empty_taglist": lambda: [TagList()],
        "number": lambda: [3],
        "none_child": lambda: [None],
    }
    for nm in names:
        for cname, mk in contents.items():
            for add_ws in (True, False):
                for ind, eol in [(0, "\n"), (2, "|"), (1, "")]:
                    show(
                        f"<{nm!r}> {cname} add_ws={add_ws} indent={ind} eol={eol!r}",
                        lambda: Tag(nm, *mk(), _add_ws=add_ws, id="i<", title=HTML("<t>")).get_html_string(ind, eol),
                    )

    class MyTag(Tag):
        def get_html_string(self, indent=0, eol="\n"):
            return "{" + super().get_html_string(indent, eol) + "}"

    show("subclass empty", lambda: MyTag("div").get_html_string(1))
    show("subclass nested", lambda: div(MyTag("div", "a", MyTag("span", "b")), "c").get_html_string(1, "|"))
    show("subclass str", lambda: str(MyTag("p", "a", "b")))

    # single text child that is a str subclass with its own __str__
    class Shout(str):
        def __str__(self):
            return "SHOUT"

    show("strsub in div", lambda: div(Shout("a<b")).get_html_string())
    show("strsub in script", lambda: tags.script(Shout("a<b")).get_html_string())
    show("strsub x2 in script", lambda: tags.script(Shout("a<b"), Shout("c<d")).get_html_string())

    # odd eol / indent on each of the four exits
    for label, mk in [("void", lambda: br()), ("empty", lambda: div()), ("single", lambda: div("t")), ("general", lambda: div("t", "u"))]:
        show(f"{label} eol None", lambda: mk().get_html_string(0, None))
        show(f"{label} eol HTML", lambda: mk().get_html_string(1, HTML("<e>")))
        show(f"{label} indent None", lambda: mk().get_html_string(None))
        show(f"{label} indent 2.0", lambda: mk().get_html_string(2.0))
        show(f"{label} indent big", lambda: len(mk().get_html_string(1000)))

    # attributes that disappear/appear, and missing instance attributes
    t = div("a", "b")
    del t.add_ws
    show("no add_ws general", lambda: t.get_html_string())
    t1 = div("a")
    del t1.add_ws
    show("no add_ws single", lambda: t1.get_html_string())
    t2 = div()
    del t2.add_ws
    show("no add_ws empty", lambda: t2.get_html_string())
    t3 = div("a", "b")
    t3.children = None
    show("children None", lambda: t3.get_html_string())
    t4 = div()
    t4.name = ["x"]
    show("list name", lambda: t4.get_html_string())


tag_extras()


# ---------------------------------------------------------------------------
# Extra checks aimed at the opening-tag writer (indent + name + attributes)
# ---------------------------------------------------------------------------
def open_tag_extras():
    print("== open tag extras ==")
    attr_sets = {
        "none": {},
        "plain": {"id": "a", "class_": "b c"},
        "escape": {"title": "<&>\"'\n\r", "data_x": "it's"},
        "html": {"title": HTML("<&>\"'"), "style": HTML("a:b;")},
        "bool_num": {"hidden": True, "skip": False, "none": None, "n": 3, "f": 1.5},
        "camel": {"className": "x", "for_": "y", "http_equiv": "z", "aria_label": "<l>"},
        "empty_val": {"value": ""},
    }
    for aname, attrs in attr_sets.items():
        for mk_name, mk in [
            ("void", lambda **kw: Tag("br", **kw)),
            ("empty", lambda **kw: Tag("div", **kw)),
            ("single", lambda **kw: Tag("div", "t<", **kw)),
            ("general", lambda **kw: Tag("div", "t<", span("s", **kw), **kw)),
            ("inline", lambda **kw: Tag("span", "a", "b", _add_ws=False, **kw)),
        ]:
            for ind in (0, 2):
                show(f"attrs={aname} {mk_name} indent={ind}", lambda: mk(**attrs).get_html_string(ind, "|"))
    show("dict attrs merge", lambda: div({"class": "a", "id": "<"}, {"class": "b"}, "x", "y", class_="c").get_html_string(1))

    t = div("a", "b")
    t.attrs = {"k": 5}
    show("raw int attr value", lambda: t.get_html_string())
    t.attrs = {5: "v"}
    show("raw int attr key", lambda: t.get_html_string())
    t.attrs = {"k": None}
    show("raw None attr value", lambda: t.get_html_string())
    t.attrs = None
    show("attrs None", lambda: t.get_html_string())
    t.attrs = [("k", "v")]
    show("attrs list", lambda: t.get_html_string())
    del t.attrs
    show("attrs missing", lambda: t.get_html_string())
    t2 = div("a")
    del t2.name
    show("name missing", lambda: t2.get_html_string())
    t3 = div(id="x")
    t3.name = None
    t3.attrs = None
    show("name None before attrs None", lambda: t3.get_html_string())
    show("indent None before name", lambda: t3.get_html_string(None))


open_tag_extras()


# ---------------------------------------------------------------------------
# Extra checks aimed at the str()/repr() entry point and the text helper
# ---------------------------------------------------------------------------
def entry_extras():
    print("== entry extras ==")
    dep2 = HTMLDependency("other", "2.1", source={"subdir": "."}, stylesheet={"href": "s.css"}, head="<meta name='x'>")
    samples = {
        "tag_nodeps": lambda: div("a", span("b"), div("c")),
        "tag_one_dep": lambda: div("a", dep, span("b")),
        "tag_two_deps": lambda: div(dep, div(dep2, "x"), dep),
        "list_nodeps": lambda: TagList("a", div("b")),
        "list_deps": lambda: TagList(dep2, "a", dep, div("b", dep2)),
        "list_only_deps": lambda: TagList(dep, dep2),
        "list_empty": lambda: TagList(),
        "tag_rep": lambda: div(Rep("<r/>"), dep, "t"),
        "tag_rephtml": lambda: div(RepHTML("<q>"), dep, "t<"),
        "html_name": lambda: Tag(HTML("x-y"), "a", dep, "b"),
        "lazy": lambda: div(Lazy(), dep),
    }
    old = htmltools.html_dependency_render_mode
    try:
        for mode in ["legacy", "json", "JSON", "", None, 0, ("json",)]:
            htmltools.html_dependency_render_mode = mode
            for name, mk in samples.items():
                show(f"mode={mode!r} {name} str", lambda: str(mk()))
                show(f"mode={mode!r} {name} repr", lambda: repr(mk()))
                show(f"mode={mode!r} {name} _repr_html_", lambda: mk()._repr_html_())
                show(f"mode={mode!r} {name} helper", lambda: _core._render_tag_or_taglist(mk()))
                show(f"mode={mode!r} {name} format", lambda: f"{mk()}")

        # the mode is looked up on every call, after rendering
        del htmltools.html_dependency_render_mode
        del Rep.log[:]
        try:  # (message contains the install path, so print the type only)
            print("mode missing ->", repr(str(div(Rep("<seen/>"), dep))))
        except BaseException as e:  # noqa: BLE001
            print("mode missing -> EXC", type(e).__name__)
        print("log", Rep.log)
    finally:
        htmltools.html_dependency_render_mode = old

    htmltools.html_dependency_render_mode = "json"
    try:
        del Rep.log[:]
        show("json raising rep", lambda: str(div(dep, Rep("<1/>"), Boom())))
        print("log", Rep.log)

        class BadDep(HTMLDependency):
            def serialize_to_script_json(self, indent=None):
                Rep.log.append("ser:" + self.name)
                if self.name == "bad":
                    raise ValueError("bad dep")
                return super().serialize_to_script_json(indent)

        d1 = BadDep("good", "1", source={"subdir": "."})
        d2 = BadDep("bad", "1", source={"subdir": "."})
        d3 = BadDep("after", "1", source={"subdir": "."})
        del Rep.log[:]
        show("json failing dep", lambda: str(TagList(d1, "x", d2, d3)))
        print("log", Rep.log)
        del Rep.log[:]
        show("json good deps", lambda: str(TagList(d1, "x", d3)))
        print("log", Rep.log)

        class FakeRender:
            def __init__(self, html, deps):
                self._r = {"html": html, "dependencies": deps}

            def render(self):
                return self._r

        show("fake html HTML", lambda: _core._render_tag_or_taglist(FakeRender(HTML("<a>"), [dep])))
        show("fake html HTML nodeps", lambda: _core._render_tag_or_taglist(FakeRender(HTML("<a>"), [])))
        show("fake html None", lambda: _core._render_tag_or_taglist(FakeRender(None, [])))
        show("fake html int", lambda: _core._render_tag_or_taglist(FakeRender(5, [dep])))
        show("fake deps None", lambda: _core._render_tag_or_taglist(FakeRender("x", None)))
        show("fake no html key", lambda: _core._render_tag_or_taglist(type("R", (), {"render": lambda self: {}})()))
    finally:
        htmltools.html_dependency_render_mode = old
    show("fake html HTML legacy", lambda: _core._render_tag_or_taglist(FakeRender(HTML("<a>"), [dep])))
    show("fake html None legacy", lambda: _core._render_tag_or_taglist(FakeRender(None, [dep])))
    show("fake no html key legacy", lambda: _core._render_tag_or_taglist(type("R", (), {"render": lambda self: {}})()))

    class SubHTML(HTML):
        def as_string(self):
            return "[" + self.data + "]"

    class StrSub(str):
        def replace(self, *a):
            return "replaced"

    for label, val in [
        ("plain", "a<b>&\"'\n\r"),
        ("clean", "nothing to escape"),
        ("empty", ""),
        ("html", HTML("<&>")),
        ("html_empty", HTML("")),
        ("subhtml", SubHTML("<&>")),
        ("strsub", StrSub("<&>")),
        ("userstring", __import__("collections").UserString("<u>")),
        ("int", 1),
        ("none", None),
        ("bytes", b"<"),
        ("list", ["<"]),
        ("tag", span("<")),
    ]:
        show(f"normalize {label}", lambda: _core._normalize_text(val))
        show(f"in div {label}", lambda: div(val).get_html_string())
        show(f"in list {label}", lambda: TagList("x", val).get_html_string())
    show("normalize kw", lambda: _core._normalize_text(txt="<"))
    show("normalize noargs", lambda: _core._normalize_text())
    show("normalize name", lambda: (_core._normalize_text.__name__, _core._normalize_text.__module__, _core._normalize_text.__doc__))
    show("render helper name", lambda: (_core._render_tag_or_taglist.__name__, _core._render_tag_or_taglist.__doc__))


entry_extras()
