"""Probe for refactoring 5: HTML.__add__/__radd__, _normalize_text and the str()/repr() render wrapper."""
import itertools

import htmltools
from htmltools import HTML, HTMLDependency, Tag, TagList, div, span, tags
from htmltools._core import _normalize_text, _render_tag_or_taglist

LOG = []


def show(label, fn):
    try:
        out = fn()
        print(label, "->", type(out).__name__, repr(str(out)) if isinstance(out, HTML) else repr(out))
    except BaseException as e:  # noqa: BLE001
        print(label, "-> EXC", type(e).__name__)


class S(str):
    pass


class Loud:
    def __init__(self, tag):
        self.tag = tag

    def __str__(self):
        LOG.append(f"str({self.tag})")
        return f"<{self.tag}&>"


class LoudHTML(HTML):
    def as_string(self):
        LOG.append(f"as_string({self.data})")
        return super().as_string()


class BadStr:
    def __str__(self):
        raise ValueError("no str")


# --- HTML + x, x + HTML ---------------------------------------------------------------
operands = ["", "plain", "a<b>&\"'", S("s<"), HTML(""), HTML("<i>&amp;</i>"), 5, 2.5, None, True, b"by<",
            ["<"], ("t",), Loud("L"), LoudHTML("<lh>")]
for a, b in itertools.product(operands, repeat=2):
    if not isinstance(a, HTML) and not isinstance(b, HTML):
        continue
    LOG.clear()
    show(f"{type(a).__name__}({a!s:.12}) + {type(b).__name__}({b!s:.12})", lambda: a + b)
    print("   log:", LOG)

for h, o in itertools.product([HTML("<h>"), LoudHTML("<lh>")], operands):
    LOG.clear()
    show(f"{type(h).__name__}.__add__({type(o).__name__})", lambda: h.__add__(o))
    show(f"{type(h).__name__}.__radd__({type(o).__name__})", lambda: h.__radd__(o))
    print("   log:", LOG)

show("HTML + BadStr", lambda: HTML("x") + BadStr())
show("BadStr + HTML", lambda: BadStr() + HTML("x"))
LOG.clear()
show("LoudHTML + BadStr", lambda: LoudHTML("x") + BadStr())
show("BadStr + LoudHTML", lambda: BadStr() + LoudHTML("x"))
print("   log:", LOG)

h = HTML("<a>")
h2 = h
h += "<b>"
print(type(h).__name__, str(h), str(h2), h is h2)
h += HTML("<c>")
print(type(h).__name__, str(h))
s = "pre&"
s += HTML("<d>")
print(type(s).__name__, str(s))
print(str(sum([HTML("<1>"), "<2>", HTML("<3>")], HTML(""))))
print(str(HTML("<x>") + " " + "y&z" + " " + HTML("<w>")))
print(str("y&z" + " " + HTML("<w>") + " " + "q'"))
r = HTML("same")
print((r + "") is r, type(r + "").__name__, type("" + r).__name__, (r + "") == r, str(r + ""))

# --- _normalize_text ----------------------------------------------------------------
for v in ["", "plain", "a<b>&\"'\n", S("s&"), HTML("<raw>&"), HTML(""), LoudHTML("<l>")]:
    LOG.clear()
    show(f"normalize({type(v).__name__} {str(v)!r})", lambda: _normalize_text(v))
    print("   log:", LOG)
for bad in [None, 5, b"b", ["x"], Loud("n")]:
    show(f"normalize({type(bad).__name__})", lambda: _normalize_text(bad))
same = "nothing to escape"
print(_normalize_text(same) is same)

# --- str()/repr()/_repr_html_ in both dependency render modes -----------------------
d1 = HTMLDependency("dep-a", "1.0", head="<meta name='a&b'>")
d2 = HTMLDependency("dep-b", "2.1", head=tags.meta(name="m"))
d1_newer = HTMLDependency("dep-a", "1.5")
trees = [
    div(),
    div("t<", d1),
    TagList(),
    TagList("x&", span("y", d2), d1),
    TagList(d1, d1_newer, d2),
    div(span(d2, "a"), d1, HTML("<hr/>"), class_=HTML("c&d") ),
    tags.script("a<b", d1),
    TagList(d2),
]
print("default mode:", htmltools.html_dependency_render_mode)
for mode in ["invisible", "json", "JSON", "", None, "invisible"]:
    htmltools.html_dependency_render_mode = mode
    print("== mode", repr(mode))
    for t in trees:
        show("str", lambda: str(t))
        show("repr", lambda: repr(t))
        show("_repr_html_", lambda: t._repr_html_())
        show("wrapper", lambda: _render_tag_or_taglist(t))
        show("render", lambda: t.render()["html"])


class NotTagified:
    def tagify(self):
        return self


class FakeRenderable:
    def __init__(self, rendered):
        self.rendered = rendered

    def render(self):
        LOG.append("render")
        return self.rendered


class FakeDep:
    def __init__(self, n, fail=None):
        self.n, self.fail = n, fail

    def serialize_to_script_json(self):
        LOG.append(f"serialize({self.n})")
        if self.fail:
            raise self.fail
        return span(f"dep{self.n}")


for mode in ["invisible", "json"]:
    htmltools.html_dependency_render_mode = mode
    print("== fake, mode", mode)
    show("not tagified", lambda: str(TagList(NotTagified())))
    cases = {
        "ok": {"html": "H", "dependencies": [FakeDep(1), FakeDep(2)]},
        "no deps": {"html": "H", "dependencies": []},
        "missing html": {"dependencies": [FakeDep(1)]},
        "missing deps": {"html": "H"},
        "html HTML": {"html": HTML("<h>"), "dependencies": [FakeDep(1)]},
        "html int": {"html": 5, "dependencies": [FakeDep(1)]},
        "html None": {"html": None, "dependencies": []},
        "second fails": {"html": "H", "dependencies": [FakeDep(1), FakeDep(2, KeyError("k")), FakeDep(3)]},
        "stop iteration": {"html": "H", "dependencies": [FakeDep(1, StopIteration())]},
        "deps not iterable": {"html": "H", "dependencies": 5},
    }
    for label, rendered in cases.items():
        LOG.clear()
        show(label, lambda: _render_tag_or_taglist(FakeRenderable(rendered)))
        print("   log:", LOG)
htmltools.html_dependency_render_mode = "invisible"
