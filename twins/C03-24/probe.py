"""Probe for refactoring 4: TagAttrDict._normalize_attr_value (htmltools/_core.py)."""
import enum
from decimal import Decimal
from fractions import Fraction
from unittest import mock

from htmltools import HTML, TagList, div, tags
from htmltools._core import TagAttrDict


class MyStr(str):
    pass


class MyInt(int):
    def __str__(self):
        return "MyInt<" + int.__repr__(self) + ">"


class MyFloat(float):
    pass


class SubHTML(HTML):
    pass


class Color(enum.IntEnum):
    RED = 1


class Flag(enum.IntFlag):
    A = 1
    B = 2


class StrEnum(str, enum.Enum):
    X = "x<"


class EqTrue:
    """Equal to True/None but not identical: must still be rejected."""

    def __eq__(self, other):
        return True

    def __hash__(self):
        return 1

    def __repr__(self):
        return "EqTrue()"


def mk(spec):
    m = mock.Mock(spec=spec)
    m.__str__ = lambda self: "mock-of-" + spec.__name__  # type: ignore
    return m


def desc(v):
    if v is None:
        return "None"
    return f"{type(v).__name__}:{str(v)!r}"


def show(label, fn):
    try:
        print(label, "->", desc(fn()))
    except Exception as e:  # noqa: BLE001
        print(label, "-> EXC", type(e).__name__, str(e))


VALUES = [
    ("None", None),
    ("True", True),
    ("False", False),
    ("0", 0),
    ("1", 1),
    ("-1", -1),
    ("big", 10**30),
    ("0.0", 0.0),
    ("-0.0", -0.0),
    ("1.0", 1.0),
    ("1e-7", 1e-7),
    ("inf", float("inf")),
    ("nan", float("nan")),
    ("str", "s<&>\"'\r\n"),
    ("empty", ""),
    ("'True'", "True"),
    ("HTML", HTML("<h>&")),
    ("HTML empty", HTML("")),
    ("SubHTML", SubHTML("<s>")),
    ("MyStr", MyStr("m<")),
    ("MyInt", MyInt(7)),
    ("MyFloat", MyFloat(2.5)),
    ("IntEnum", Color.RED),
    ("IntFlag", Flag.A | Flag.B),
    ("StrEnum", StrEnum.X),
    ("Decimal", Decimal("1.5")),
    ("Fraction", Fraction(1, 3)),
    ("complex", 1j),
    ("bytes", b"b<"),
    ("bytearray", bytearray(b"x")),
    ("list", ["a"]),
    ("tuple", ("a",)),
    ("dict", {"a": 1}),
    ("set", {1}),
    ("object", object),
    ("EqTrue", EqTrue()),
    ("TagList", TagList("a")),
    ("Tag", tags.b("x")),
    ("lambda", len),
    ("mock bool", mk(bool)),
    ("mock int", mk(int)),
    ("mock float", mk(float)),
    ("mock str", mk(str)),
    ("mock HTML", mk(HTML)),
    ("mock list", mk(list)),
    ("NotImplemented", NotImplemented),
    ("Ellipsis", ...),
]

for name, v in VALUES:
    show(f"normalize {name}", lambda: TagAttrDict._normalize_attr_value(v))
    r = None
    try:
        r = TagAttrDict._normalize_attr_value(v)
    except Exception:  # noqa: BLE001
        pass
    print(f"  identity {name}", r is v)


def items(d):
    return "[" + ", ".join(f"{k!r}={desc(v)}" for k, v in d.items()) + "]"


def show_items(label, fn):
    try:
        print(label, "->", items(fn()))
    except Exception as e:  # noqa: BLE001
        print(label, "-> EXC", type(e).__name__, str(e))


def setitem(v):
    d = TagAttrDict(keep="k")
    d["x_y_"] = v
    return d


for name, v in VALUES:
    if name.startswith("mock"):
        # Mock(spec=str) etc. are not really strings; only the normaliser is probed
        continue
    show_items(f"ctor {name}", lambda: TagAttrDict({"a_b": v}))
    show_items(f"kw {name}", lambda: TagAttrDict(a_b=v))
    show_items(f"setitem {name}", lambda: setitem(v))
    show_items(f"merge {name}", lambda: TagAttrDict({"k": "p<"}, {"k": v}, k=HTML("<h>")))
    show(f"div {name}", lambda: div("c", title=v, id="i"))
    show(f"img {name}", lambda: tags.input(value=v, disabled=True, hidden=False, x=None))

# bool/None mixtures in one attribute
show("bools", lambda: div({"class": True}, {"class": None}, {"class": False}, class_=True))
show("true+str", lambda: div({"class": True}, class_="a'"))
show("0 and False", lambda: div(a=0, b=False, c=0.0, d="", e=True, f=1))
