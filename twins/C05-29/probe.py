# Probe for HTMLDependency.as_html_tags: prints rendered tags, structure facts and exception types.
from htmltools import HTML, HTMLDependency, HTMLDocument, Tag, TagList, div, span, tags


def show(label, fn):
    try:
        r = fn()
        print(label, "->", type(r).__name__, repr(r))
    except Exception as e:  # noqa: BLE001
        print(label, "-> EXC", type(e).__name__)


class Tagif:
    def tagify(self):
        return span("tagified")


class Repr:
    def _repr_html_(self):
        return "<i>repr</i>"


deps = {
    "bare": lambda: HTMLDependency("bare", "1.0"),
    "script_only": lambda: HTMLDependency("s", "1.0", script={"src": "a.js"}),
    "script_list": lambda: HTMLDependency("s", "1.0.1", script=[{"src": "a.js"}, {"src": "sub dir/b&c.js", "defer": "", "type": "module"}]),
    "style_only": lambda: HTMLDependency("c", "2", stylesheet={"href": "a.css"}),
    "style_list": lambda: HTMLDependency("c", "2", stylesheet=[{"href": "a.css", "media": "print"}, {"href": "b c.css", "rel": "alternate stylesheet"}]),
    "meta_only": lambda: HTMLDependency("m", "3", meta={"name": "viewport", "content": "width=device-width, initial-scale=1"}),
    "meta_list": lambda: HTMLDependency("m", "3", meta=[{"name": "a", "content": "<1>"}, {"name": "b", "content": "\"2\""}]),
    "head_str": lambda: HTMLDependency("h", "4", head="<script>var x = 1 < 2;</script>"),
    "head_html": lambda: HTMLDependency("h", "4", head=HTML("<link rel='x'>")),
    "head_tag_inline": lambda: HTMLDependency("h", "4", head=span("in", tags.b("line"))),
    "head_tag_block": lambda: HTMLDependency("h", "4", head=div(span("x"), "y")),
    "head_taglist": lambda: HTMLDependency("h", "4", head=TagList(tags.title("T"), span("a"), span("b"), "txt")),
    "head_list": lambda: HTMLDependency("h", "4", head=[tags.title("T"), None, [span("a"), "b"]]),
    "head_empty_str": lambda: HTMLDependency("h", "4", head=""),
    "head_empty_list": lambda: HTMLDependency("h", "4", head=[]),
    "head_number": lambda: HTMLDependency("h", "4", head=42),
    "head_repr": lambda: HTMLDependency("h", "4", head=Repr()),
    "head_tagifiable": lambda: HTMLDependency("h", "4", head=Tagif()),
    "head_tagifiable_in_tag": lambda: HTMLDependency("h", "4", head=div(Tagif())),
    "head_dep": lambda: HTMLDependency("h", "4", head=HTMLDependency("inner", "0.1", script={"src": "i.js"})),
    "all": lambda: HTMLDependency(
        "all", "1.2.3",
        source={"subdir": "some/dir"},
        script=[{"src": "a.js"}, {"src": "b.js", "async": ""}],
        stylesheet=[{"href": "a.css"}, {"href": "b.css"}],
        meta=[{"name": "m1", "content": "c1"}, {"name": "m2", "content": "c2"}],
        head=TagList(span("h1"), span("h2")),
    ),
    "href_source": lambda: HTMLDependency("u", "1", source={"href": "https://cdn.example.org/u@1/"}, script={"src": "u.js"}, stylesheet={"href": "u.css"}),
    "href_source_no_slash": lambda: HTMLDependency("u", "1", source={"href": "https://cdn.example.org/u@1"}, script={"src": "/abs/u.js"}),
    "meta_extra_keys": lambda: HTMLDependency("m", "3", meta={"name": "a", "content": "b", "data_x": "y", "class_": "k"}),
    "script_bad_attr_name": lambda: HTMLDependency("s", "1", script={"src": "a.js", "_name": "clash"}),
    "style_bad_attr_name": lambda: HTMLDependency("s", "1", stylesheet={"href": "a.css", "_name": "clash"}, script={"src": "a.js", "_add_ws": "no"}),
    "meta_bad_attr_name": lambda: HTMLDependency("s", "1", meta={"name": "n", "content": "c", "_add_ws": 1}, script={"src": "a.js", "_name": "clash"}),
    "script_add_ws_false": lambda: HTMLDependency("s", "1", script={"src": "a.js", "_add_ws": False}, stylesheet={"href": "a.css", "_add_ws": False}),
    "script_value_types": lambda: HTMLDependency("s", "1", script={"src": "a.js", "async": True, "defer": False, "n": 5, "none": None}),
    "script_src_not_str": lambda: HTMLDependency("s", "1", script={"src": 5}),
    "version_obj": lambda: HTMLDependency("v", __import__("packaging.version").version.Version("1.0rc1"), script={"src": "v.js"}),
}

kwsets = ({}, {"lib_prefix": None}, {"include_version": False}, {"lib_prefix": "my lib/x", "include_version": False}, {"lib_prefix": ""})

for label, mk in deps.items():
    for kw in kwsets:
        show(f"{label} {kw} str", lambda: mk().as_html_tags(**kw).get_html_string())

    def facts():
        d = mk()
        r = d.as_html_tags()
        return (
            type(r).__name__,
            [(type(c).__name__, getattr(c, "name", None), getattr(c, "add_ws", None), dict(getattr(c, "attrs", {}))) for c in r],
            None if d.head is None else [c is h for c, h in zip(list(r)[-len(d.head):] if len(d.head) else [], d.head)],
        )
    show(f"{label} facts", facts)

    def unchanged():
        d = mk()
        before = (repr(d.script), repr(d.stylesheet), repr(d.meta), None if d.head is None else str(d.head))
        try:
            d.as_html_tags()
        except Exception:  # noqa: BLE001
            pass
        after = (repr(d.script), repr(d.stylesheet), repr(d.meta), None if d.head is None else str(d.head))
        return before == after
    show(f"{label} dep_unchanged", unchanged)

# mutate fields after construction (skips constructor validation)
d = HTMLDependency("mut", "1", script={"src": "a.js"})
d.meta = [{"name": "n"}, {"anything": "goes"}]
show("meta_mutated", lambda: d.as_html_tags().get_html_string())
d.script = [{"nosrc": "x"}]
show("script_without_src", lambda: d.as_html_tags().get_html_string())
d.script = []
d.stylesheet = [{"nohref": "x"}]
show("style_without_href", lambda: d.as_html_tags().get_html_string())
d.stylesheet = []
d.meta = ["notadict"]
show("meta_not_dict", lambda: d.as_html_tags().get_html_string())
d.meta = None
show("meta_none", lambda: d.as_html_tags().get_html_string())
d.meta = ({"name": "tuple", "content": "ok"},)
show("meta_tuple", lambda: d.as_html_tags().get_html_string())
d.meta = []
d.head = "plain string head"
show("head_plain_str_attr", lambda: d.as_html_tags().get_html_string())

# In context: as children of other tags and through HTMLDocument
dep = deps["all"]()
show("in_span", lambda: span("a", dep.as_html_tags(), "b").get_html_string())
show("in_div", lambda: div("a", dep.as_html_tags(), "b").get_html_string())
show("in_doc", lambda: HTMLDocument(div("x", dep), deps["head_taglist"](), deps["href_source"]()).render()["html"])
show("in_doc_noprefix", lambda: HTMLDocument(div("x", dep), deps["head_tag_inline"]()).render(lib_prefix=None, include_version=False)["html"])


# Order in which the tags are built: the first failing item decides the error message
def show_msg(label, fn):
    try:
        print(label, "->", repr(fn()))
    except Exception as e:  # noqa: BLE001
        print(label, "-> EXC", type(e).__name__, repr(str(e)))


d = HTMLDependency("ord", "1", script={"src": "a.js", "_add_ws": "bad"}, stylesheet={"href": "a.css", "x": [1]})
show_msg("order_style_then_script", lambda: d.as_html_tags())
d.meta = [{"name": "ok", "content": "ok"}, {"name": object()}]
show_msg("order_meta_first", lambda: d.as_html_tags())
d.meta = []
d.stylesheet = []
show_msg("order_script_alone", lambda: d.as_html_tags())
