# Probe for refactoring 2: css() and its use with add_style.
import fractions

from htmltools import HTML, css, div
import htmltools._util as U


def show(label, fn):
    try:
        r = fn()
        print(label, "->", repr(r), type(r).__name__)
    except Exception as e:  # noqa: BLE001
        print(label, "-> EXC", type(e).__name__, str(e))


class Weird:
    def __str__(self):
        return "weird<&>"


class BadStr:
    def __str__(self):
        raise RuntimeError("no str")


names = ["a", "A", "fontSize", "font_size", "font__size", "_x", "x_", "_", "__", "XMLHttp", "aBC", "a_B", "a_b_C",
         "MozBoxSizing", "é", "É", "straße", "İ", "ǅ", "a1B2", "ABC_DEF", "webkit_Transition", "x-y", "x y", "", "a:b", "a;b",
         "collapse", "self", "k", "v", "res"]
values = ["red", "", " ", 0, 1, -1.5, 1e30, True, False, None, ["a", "b"], [], ["only"], ("t", "u"), {"d": 1}, HTML("<h>"),
          Weird(), fractions.Fraction(1, 3), b"by", float("nan"), 10**30, "a;b", "x:y", "\n"]

for n in names:
    for v in values:
        show(f"css {n!r}={v!r}" if not isinstance(v, Weird) else f"css {n!r}=Weird", lambda: css(**{n: v}))

show("empty", lambda: css())
show("empty collapse", lambda: css("\n"))
show("all none", lambda: css(a=None, b=None))
show("all none collapse", lambda: css("X", a=None, b=None))
show("order", lambda: css(zIndex=1, a_b="2", c=None, Dd=[3], e=""))
show("order rev", lambda: css(e="", Dd=["3"], c=None, a_b="2", zIndex=1))
for c in ["", "\n", " ", ";", "XY", None, 0, 1.5, True, b"", HTML(""), ["a"]]:
    show(f"collapse {c!r}", lambda: css(c, fontSize="1px", margin_top=None, b=2))
    show(f"collapse {c!r} none", lambda: css(c))
    show(f"collapse kw {c!r}", lambda: css(collapse_=c, x=1))
show("bad list", lambda: css(a=["x", 1]))
show("bad list after good", lambda: css(b=1, a=[None]))
show("bad str", lambda: css(a=BadStr()))
show("nested list", lambda: css(a=[["x"]]))
show("positional twice", lambda: css("", "x"))
show("dup keys via normalisation", lambda: css(font_size=1, fontSize=2, Font_Size=3))
show("many", lambda: css(**{f"prop{i}Name_{i}": i for i in range(30)}))

# output with default separator is accepted by add_style
for kw in [dict(a=1), dict(fontSize="2px", b_c=[1] if False else ["x", "y"]), dict(x=""), dict(a=None, b="q"), dict(A="<&'\">")]:
    s = css(**kw)
    show(f"add_style(css({kw}))", lambda: str(div(style="z:0;").add_style(s).add_style(s, prepend=True)))
    show("ends", lambda: s.endswith(";"))
show("add_style(css()) None", lambda: str(div().add_style(css())))
show("css newline collapse into add_style", lambda: str(div().add_style(css("\n", a=1))))
show("public names", lambda: (U.__all__, callable(U.css), U.css.__name__, U.css.__module__))
show("repeatable", lambda: [css(aB=1) for _ in range(3)])
