# Probe for HTMLDependency.__init__ normalisation / validation of script, stylesheet, meta
from collections import OrderedDict, UserDict
from htmltools import HTMLDependency, TagList, div, tags, HTML


def stable(x):
    # generators have an address in their repr
    return x if isinstance(x, (list, tuple, str)) else "<" + type(x).__name__ + ">"


def desc(d):
    return (
        d.name, str(d.version), d.source, stable(d.script), type(d.script).__name__,
        d.stylesheet, type(d.stylesheet).__name__, d.meta, type(d.meta).__name__,
        d.all_files, None if d.head is None else str(d.head),
    )


def show(label, f):
    try:
        r = f()
        print(label, "->", repr(r))
    except BaseException as e:  # noqa
        print(label, "!!", type(e).__name__, str(e)[:200])


def mk(**kw):
    return desc(HTMLDependency("n", "1.2", **kw))


src = {"href": "https://x.org/lib"}
cases = {
    "none": dict(),
    "script-dict": dict(script={"src": "a.js"}),
    "script-list1": dict(script=[{"src": "a.js"}]),
    "script-list2": dict(script=[{"src": "a.js"}, {"src": "b.js", "defer": ""}]),
    "script-empty-list": dict(script=[]),
    "script-empty-dict": dict(script={}),
    "script-tuple": dict(script=({"src": "a.js"},)),
    "script-gen": dict(script=({"src": x} for x in ["a.js"])),
    "script-str": dict(script="a.js"),
    "script-int": dict(script=3),
    "script-list-str": dict(script=["a.js"]),
    "script-list-none": dict(script=[None]),
    "script-missing": dict(script={"href": "a.js"}),
    "script-2nd-bad": dict(script=[{"src": "a.js"}, {"nosrc": 1}]),
    "script-false": dict(script=False),
    "script-zero": dict(script=0),
    "script-emptystr": dict(script=""),
    "script-ordereddict": dict(script=OrderedDict(src="a.js")),
    "script-userdict": dict(script=UserDict(src="a.js")),
    "script-dict-as-iter-keys": dict(script=[["src"]]),
    "style-dict": dict(stylesheet={"href": "a.css"}),
    "style-list": dict(stylesheet=[{"href": "a.css"}, {"href": "b.css", "rel": "preload"}]),
    "style-rel-none": dict(stylesheet={"href": "a.css", "rel": None}),
    "style-empty": dict(stylesheet=[]),
    "style-empty-dict": dict(stylesheet={}),
    "style-missing": dict(stylesheet={"src": "a.css"}),
    "style-str": dict(stylesheet="a.css"),
    "style-tuple": dict(stylesheet=({"href": "a.css"},)),
    "style-list-int": dict(stylesheet=[1]),
    "meta-dict": dict(meta={"name": "viewport", "content": "w"}),
    "meta-list": dict(meta=[{"name": "a", "content": "b"}, {"name": "c", "content": "d"}]),
    "meta-no-content": dict(meta={"name": "a"}),
    "meta-no-name": dict(meta={"content": "a"}),
    "meta-neither": dict(meta={}),
    "meta-list-bad2": dict(meta=[{"name": "a", "content": "b"}, {"name": "c"}]),
    "meta-str": dict(meta="x"),
    "meta-empty": dict(meta=[]),
    "all": dict(source=src, script={"src": "a.js"}, stylesheet={"href": "a.css"},
                meta={"name": "a", "content": "b"}, all_files=True, head="<x>"),
    "all-lists": dict(source=src, script=[{"src": "a.js"}], stylesheet=[{"href": "a.css"}],
                      meta=[{"name": "a", "content": "b"}], all_files=True, head=tags.title("t")),
    # order of validation: which error wins
    "bad-source+bad-script": dict(source=3, script=3),
    "bad-script+bad-style": dict(script={"x": 1}, stylesheet="s"),
    "bad-style+bad-meta": dict(stylesheet={"x": 1}, meta="m"),
    "bad-script+bad-meta": dict(script=[1], meta={}),
}
for k, v in cases.items():
    show(k, lambda: mk(**v))

# single item and list give identical results
for key, item in [("script", {"src": "a.js", "async": ""}), ("stylesheet", {"href": "a.css"}),
                  ("meta", {"name": "a", "content": "b"})]:
    import copy
    one = HTMLDependency("n", "1", source=src, **{key: copy.deepcopy(item)})
    many = HTMLDependency("n", "1", source=src, **{key: [copy.deepcopy(item)]})
    print("same", key, desc(one) == desc(many), str(one) == str(many), one == many,
          one.as_dict() == many.as_dict())

# identity / aliasing of what is stored
lst = [{"src": "a.js"}]
d = HTMLDependency("n", "1", script=lst)
print("script list aliased", d.script is lst, d.script[0] is lst[0])
item = {"src": "a.js"}
d = HTMLDependency("n", "1", script=item)
print("script dict wrapped", d.script[0] is item, type(d.script).__name__)
sl = [{"href": "a.css"}]
d = HTMLDependency("n", "1", stylesheet=sl)
print("style list aliased+rel", d.stylesheet is sl, sl)
si = {"href": "a.css"}
d = HTMLDependency("n", "1", stylesheet=si)
print("style dict mutated", d.stylesheet[0] is si, si)
ml = [{"name": "a", "content": "b"}]
d = HTMLDependency("n", "1", meta=ml)
print("meta list aliased", d.meta is ml)
d1 = HTMLDependency("n", "1"); d2 = HTMLDependency("n", "1")
print("fresh defaults", d1.script is d2.script, d1.stylesheet is d2.stylesheet, d1.meta is d2.meta)
tp = ({"href": "a.css"},)
d = HTMLDependency("n", "1", stylesheet=tp)
print("tuple kept", d.stylesheet is tp, tp)

# generator input is consumed by validation
g = ({"src": x} for x in ["a.js", "b.js"])
d = HTMLDependency("n", "1", script=g)
print("gen consumed", d.script is g, list(d.script))

# partially constructed object after a failure: which attributes were set
def partial(**kw):
    o = HTMLDependency.__new__(HTMLDependency)
    try:
        o.__init__("p", "2", **kw)
    except BaseException as e:
        return type(e).__name__, sorted(o.__dict__)
    return "ok", sorted(o.__dict__)

print("partial bad source", partial(source=1))
print("partial bad script", partial(script=1))
print("partial bad script item", partial(script=[{"src": 1}, 2]))
print("partial bad style", partial(stylesheet={"x": 1}))
print("partial bad meta", partial(meta={"name": 1}))
print("partial bad head", partial(head=object()))
print("partial ok", partial())

# rel default is not applied when stylesheet validation fails part-way
sl = [{"href": "a.css"}, {"nohref": 1}]
show("style part-way", lambda: HTMLDependency("n", "1", stylesheet=sl))
print("style part-way left", sl)

# error messages carry name-version
show("msg", lambda: HTMLDependency("my-name", "3.4.5", script=[{"x": 1}]))
show("msg2", lambda: HTMLDependency("my-name", "3.4.5", meta=[7]))

# subclass overriding the validators is still consulted
class Loud(HTMLDependency):
    calls = []
    def _validate_dicts(self, ld, req_attr):
        Loud.calls.append(("dicts", repr(ld), list(req_attr)))
        return super()._validate_dicts(ld, req_attr)
    def _validate_dict(self, d, req_attr):
        Loud.calls.append(("dict", repr(d), list(req_attr)))
        return super()._validate_dict(d, req_attr)

show("loud", lambda: desc(Loud("l", "1", script={"src": "a"}, stylesheet=[{"href": "b"}], meta={"name": "n", "content": "c"})))
print("loud calls", Loud.calls)

# rendering of the normalised result
d = HTMLDependency("n", "1.0", source=src, script={"src": "a b.js"}, stylesheet={"href": "c.css"},
                   meta={"name": "m", "content": "c"}, head="<!-- h -->")
print(str(d))
print(d.as_dict())
print(str(d.serialize_to_script_json()))
print(TagList(div(d)).render())
