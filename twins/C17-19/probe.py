"""Probe for the child-normalisation rules used by TagList / Tag / the `with tag:` hook."""
import re
import sys
import types
from collections import UserList

from htmltools import HTML, HTMLDependency, HTMLDocument, Tag, TagList, div, span, tags
from htmltools._core import _tagchilds_to_tagnodes


def S(value):
    return re.sub(r" at 0x[0-9a-fA-F]+", "", str(value))


def kids(seq):
    return [(type(c).__name__, S(c)) for c in seq]


def attempt(label, fn):
    try:
        out = fn()
        print(label, "->", out)
    except BaseException as e:  # noqa
        print(label, "-> EXC", type(e).__name__, S(e))


EVENTS = []


class Tagifiable1:
    def tagify(self):
        return span("tagified")


class ReprOnly:
    def _repr_html_(self):
        return "<b>r</b>"


class NoisyInt(int):
    def __str__(self):
        EVENTS.append(("str", int(self)))
        return "noisy%d" % int(self)


class BadStrFloat(float):
    def __str__(self):
        EVENTS.append(("badstr", float(self)))
        raise ArithmeticError("no str for you")


class Meta(type):
    def __repr__(cls):
        return "<META %s>" % cls.__name__

    def __format__(cls, spec):
        return "<FORMATTED %s %r>" % (cls.__name__, spec)


class WithMeta(metaclass=Meta):
    pass


class MyList(list):
    pass


class MyUserList(UserList):
    pass


class StrSub(str):
    pass


dep = HTMLDependency("d", "1.0", source={"subdir": "."}, script={"src": "d.js"})


def gen(*items):
    for it in items:
        EVENTS.append(("yield", S(it)))
        yield it


INPUTS = [
    ("empty tuple", ()),
    ("empty list", []),
    ("str", "abc"),
    ("empty str", ""),
    ("strsub", StrSub("s")),
    ("strs", ["a", "", "b"]),
    ("numbers", [1, 2.5, True, False, 0, -0.0, float("inf"), float("nan"), 10**30]),
    ("none only", [None, None]),
    ("nested", ["a", [None, ["b", (1, [2.0, [None, []]])]], ("c",)]),
    ("taglist", [TagList("x", 1), TagList()]),
    ("tag", [div("k"), span()]),
    ("html", [HTML("<i>")]),
    ("tagifiable", [Tagifiable1()]),
    ("repr only", [ReprOnly()]),
    ("dep", [dep]),
    ("mylist", [MyList(["m", 1])]),
    ("userlist", [MyUserList(["u"])]),
    ("set", [{1}]),
    ("dict", [{"a": "b"}]),
    ("bytes", [b"b"]),
    ("complex", [1j]),
    ("module", [types]),
    ("object", [object()]),
    ("ellipsis", [...]),
    ("class", [int]),
    ("meta instance", [WithMeta()]),
    ("meta class", [WithMeta]),
    ("valid then invalid", ["ok", 1, {2}, "later", {3: 4}]),
    ("invalid nested", ["ok", ["deep", [object()]]]),
    ("noisy ints", [NoisyInt(1), "s", NoisyInt(2)]),
    ("bad str float", [NoisyInt(1), BadStrFloat(1.5), NoisyInt(3)]),
    ("bad str then invalid", [BadStrFloat(1.5), {1}]),
    ("invalid then bad str", [{1}, BadStrFloat(1.5)]),
    ("noisy then invalid", [NoisyInt(7), {1}, NoisyInt(8)]),
    ("dict keys view", {"a": 1}.keys()),
    ("string iter", iter("xy")),
    ("range", range(3)),
    ("not iterable int", 5),
    ("not iterable none", None),
    ("nested range (not flattened)", [range(2)]),
]

print("== _tagchilds_to_tagnodes ==")
for label, value in INPUTS:
    del EVENTS[:]
    try:
        out = _tagchilds_to_tagnodes(value)
        print(label, "->", type(out).__name__, kids(out), "events:", EVENTS)
    except BaseException as e:  # noqa
        print(label, "-> EXC", type(e).__name__, S(e), "events:", EVENTS)

print("== generators are consumed fully before validation ==")
del EVENTS[:]
attempt("gen ok", lambda: kids(_tagchilds_to_tagnodes(gen("a", NoisyInt(1), None, "b"))))
print(EVENTS)
del EVENTS[:]
attempt("gen bad", lambda: kids(_tagchilds_to_tagnodes(gen("a", {1}, NoisyInt(2), "z"))))
print(EVENTS)

print("== result is a fresh list, items are kept by identity ==")
t = div("x")
src = [t, "s", [t]]
out = _tagchilds_to_tagnodes(src)
print(out is not src, out[0] is t, out[2] is t, len(src), kids(out))
one = _tagchilds_to_tagnodes("whole string")
print(one, type(one).__name__)
h = HTML("<b>")
print(_tagchilds_to_tagnodes([h])[0] is h, _tagchilds_to_tagnodes(h))
ss = StrSub("keep")
print(type(_tagchilds_to_tagnodes(ss)[0]).__name__, _tagchilds_to_tagnodes([ss])[0] is ss)

print("== public entry points ==")
for label, value in INPUTS:
    if not isinstance(value, list):
        continue
    del EVENTS[:]
    attempt("TagList(*) " + label, lambda: kids(TagList(*value)))
    attempt("div(*) " + label, lambda: S(div(*[v for v in value if not isinstance(v, dict)])))

    def do_extend():
        tl = TagList("first")
        try:
            tl.extend(value)
        finally:
            print("   after extend:", kids(tl))
        return "ok"

    attempt("extend " + label, do_extend)

    def do_append():
        tg = div("first")
        try:
            tg.append(value, "tail")
        finally:
            print("   after append:", kids(tg.children))
        return "ok"

    attempt("append " + label, do_append)

    def do_insert():
        tg = div("first", "last")
        try:
            tg.insert(1, value)
        finally:
            print("   after insert:", kids(tg.children))
        return "ok"

    attempt("insert " + label, do_insert)

print("== inside a with-block ==")
log = []
sys.displayhook = lambda v: log.append(S(v))
for label, value in INPUTS:
    tg = div()
    try:
        with tg:
            sys.displayhook("pre")
            sys.displayhook(value)
            sys.displayhook("post")
        res = "ok"
    except BaseException as e:  # noqa
        res = "EXC %s %s" % (type(e).__name__, S(e))
    print(label, "->", res, kids(tg.children))
print(log)
sys.displayhook = sys.__displayhook__

print("== other users: tagify splice, iadd/add/radd, HTMLDocument.append ==")


class GivesTagList:
    def tagify(self):
        return TagList("g1", 2, None, ["g3"])


x = TagList("a", GivesTagList(), "z")
print(kids(x.tagify()))
y = TagList("a")
y += ["b", 3, None, ("c",)]
print(kids(y), kids(y + [4.5]), kids([0] + y), kids(y + "str"), kids("str" + y))
attempt("iadd bad", lambda: y.__iadd__([{1}]))
print(kids(y))
doc = HTMLDocument("h")
doc.append(1, [2, None], TagList(3))
print(S(doc.render()["html"]))
attempt("doc append bad", lambda: doc.append(object()))
print("done")
