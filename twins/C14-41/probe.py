from collections import namedtuple
from htmltools import TagList, div, span, HTML, tags
from htmltools._util import flatten


def show(label, v):
    print(label, "=>", repr(v))


class MyList(list):
    pass


class MyTuple(tuple):
    pass


NT = namedtuple("NT", ["a", "b"])

shared = [1, None, "s", (2.5, [None, "t"])]
empty_tl = TagList()
tl_shared = TagList("x", [None, 3], ("y",))

deep = "leaf"
for i in range(60):
    deep = [deep] if i % 3 == 0 else ((deep, None) if i % 3 == 1 else TagList(deep))

cases = {
    "empty": [],
    "empty_tuple": (),
    "nones": [None, None, [None, (None,)], TagList(None)],
    "empty_nested": [[], (), [[]], ([], ()), TagList(), [TagList(), [()]]],
    "flat": [1, "a", 2.5, True, False, 0, ""],
    "nested": [1, [2, [3, [4, [5, (6, (7, [8]))]]]], 9],
    "shared": [shared, shared, [shared, (shared,)], shared],
    "taglists": [tl_shared, [tl_shared, empty_tl], (tl_shared, None)],
    "deep": [deep, None, deep],
    "subclasses": [MyList([1, MyTuple((2, None, MyList()))]), NT(1, [2, None])],
    "strings": ["abc", ["de", ("f", "")], b"xy"],
    "noniter_kept": [{"k": [1]}, {1, }, frozenset([2]), range(3), {"a": None}],
    "gen_top": (x for x in [1, [2, None], (3,), None]),
    "iter_top": iter([[1, [2]], None, 3]),
    "dict_top": {"a": 1, ("b", "c"): 2},
    "str_top": "ab",
    "numbers": [0, 0.0, -1, 1e10, float("inf"), 3 + 4j, [10 ** 30]],
}
for name, c in cases.items():
    try:
        show("flatten " + name, flatten(c))
    except Exception as e:  # pragma: no cover
        show("flatten " + name + " raised", (type(e).__name__, str(e)))

# input not altered
show("shared after", shared)
show("tl_shared after", list(tl_shared))

# result is a fresh list each time
r1 = flatten(shared)
r2 = flatten(shared)
show("fresh", (r1 == r2, r1 is r2, r1 is shared))

# generator nested is NOT expanded (kept as object) -> just report type names
g = (i for i in range(2))
show("gen nested", [type(v).__name__ for v in flatten([1, g, [g]])])

# TagList construction / mutation
t = TagList(1, None, [2.5, ("a", None, [div("d", [span("s"), None])])], shared, shared, TagList(), [])
show("TagList ctor", list(t))
print(str(t))
t.extend([None, [[], ()], [shared, (tl_shared, [HTML("<b>")])]])
show("after extend", list(t))
t.extend(x for x in [7, [8, None], (9,)])
show("after extend gen", list(t))
t.insert(0, [None, ["first", (0,)], TagList("tl", [None])])
show("after insert0", list(t))
t.insert(3, None)
show("after insert None", list(t))
t.insert(-1, [])
show("after insert empty", list(t))
t.insert(2, deep)
show("after insert deep", list(t))
t.insert(100, (shared, shared))
show("after insert end", list(t))
t.append(None, [1, [2]], "z", TagList())
show("after append", list(t))
t += [[None], ([5],)]
show("after iadd", list(t))
show("add", list(TagList("a") + [1, [None, (2,)]]))
show("add str", list(TagList("a") + "bcd"))
show("radd", list([1, [None, (2,)]] + TagList("a")))
show("mul", list(TagList("a", [1]) * 2))
show("slice", list(TagList("a", [1, [2, [3]]])[1:3]))

for bad in (object(), {1: 2}, [1, [object()]], b"x"):
    tt = TagList("keep")
    try:
        tt.extend([bad])
        show("bad accepted", list(tt))
    except TypeError as e:
        show("TypeError", (type(bad).__name__, list(tt)))

d = div("a", [None, ["b", (1, 2.0)]], shared, TagList("c", [TagList()]), id="x")
d.append([None, [tags.p("p", [[]])]])
d.extend([shared, None])
d.insert(1, ("ins", [None, ("ins2",)]))
show("div children", list(d.children))
print(str(d))
print(str(TagList(deep, deep)))
