"""Deterministic probe for property C04 (trusted markup verbatim, escape exactly once)."""
import itertools
from collections import UserString

import htmltools
from htmltools import HTML, Tag, TagList, div, span, tags, HTMLDependency
from htmltools._core import TagAttrDict, _normalize_text
from htmltools._util import html_escape


def show(label, fn):
    try:
        res = fn()
        print(f"{label}: {type(res).__name__} {res!r}")
    except BaseException as e:  # noqa: BLE001
        print(f"{label}: EXC {type(e).__name__}: {e}")


class Repr:
    def __init__(self, s, log=None):
        self.s = s
        self.log = log

    def _repr_html_(self):
        if self.log is not None:
            self.log.append(self.s)
        return self.s

    def __repr__(self):
        return f"Repr<{self.s}>"


class Tagi:
    def tagify(self):
        return span("tagified <&>")

    def __repr__(self):
        return "Tagi<>"


class TagiRepr(Tagi):
    def _repr_html_(self):
        return "<both&>"


class StrSub(str):
    pass


class Plain(UserString):
    pass


NASTY = ["", "a", "<b>&amp;'\"\r\n</b>", "&lt;", "</script>", "  x  ", "<!-- & -->", "&", "\"'"]

# ---------------------------------------------------------------- html_escape
print("== html_escape")
for s in NASTY + [StrSub("a<b"), StrSub("plain")]:
    for attr in (False, True):
        show(f"esc({s!r},{attr})", lambda: html_escape(s, attr))
    r = html_escape(s)
    print("  identity-when-clean:", r is s)
for bad in [None, 3, b"a<b", HTML("<x>"), ["<"]]:
    show(f"esc-bad({type(bad).__name__})", lambda: html_escape(bad))
    show(f"esc-bad-attr({type(bad).__name__})", lambda: html_escape(bad, attr=True))

# ------------------------------------------------------------ _normalize_text
print("== _normalize_text")
for s in NASTY:
    show(f"norm(str {s!r})", lambda: _normalize_text(s))
    show(f"norm(HTML {s!r})", lambda: _normalize_text(HTML(s)))
show("norm(StrSub)", lambda: _normalize_text(StrSub("<s>")))
show("norm(None)", lambda: _normalize_text(None))
show("norm(int)", lambda: _normalize_text(5))
show("norm(Plain)", lambda: _normalize_text(Plain("<u>")))

# ------------------------------------------------------------- HTML + / radd
print("== HTML concat")
ops = [HTML("<i>&</i>"), "<p>&", HTML(""), "", "&amp;", HTML("&amp;"), StrSub("<s>")]
for a, b in itertools.product(ops, repeat=2):
    if not isinstance(a, HTML) and not isinstance(b, HTML):
        continue
    show(f"{type(a).__name__}({str(a)!r})+{type(b).__name__}({str(b)!r})", lambda: a + b)
for other in [None, 5, 2.5, True, b"<x>", ["<"], ("&",), Plain("<u>&"), Repr("<r>"), div("<d>"), TagList("<t>", HTML("<h>"))]:
    show(f"HTML+{type(other).__name__}", lambda: HTML("<h>") + other)
    show(f"{type(other).__name__}+HTML", lambda: other + HTML("<h>"))
    show(f"HTML.__add__({type(other).__name__})", lambda: HTML("<h>").__add__(other))
    show(f"HTML.__radd__({type(other).__name__})", lambda: HTML("<h>").__radd__(other))
show("HTML.__radd__(HTML)", lambda: HTML("<h>").__radd__(HTML("<g>&")))
for a, b, c in itertools.product(["<a&>", HTML("<A&>")], ["<b&>", HTML("<B&>")], ["<c&>", HTML("<C&>")]):
    for label, fn in (("(a+b)+c", lambda: (a + b) + c), ("a+(b+c)", lambda: a + (b + c))):
        def run():
            r = fn()
            if isinstance(r, HTML):
                assert str(div(r)) == str(Tag("div", r)), "sanity"
                return (type(r).__name__, str(r), str(TagList(r)), str(TagList(a, b, c)) if False else None)
            return (type(r).__name__, str(r))
        show(f"{label} {type(a).__name__[0]}{type(b).__name__[0]}{type(c).__name__[0]}", run)
h = HTML("<x>")
h2 = h
h2 += "<y>"
show("iadd", lambda: (h, h2, type(h2).__name__))
s2 = "<y>"
s2 += HTML("<x>")
show("str iadd HTML", lambda: (s2, type(s2).__name__))
show("HTML*2", lambda: HTML("<x>") * 2)
show("join", lambda: HTML("<,>").join(["<a>", "<b>"]))
show("sum", lambda: sum([HTML("<a>"), "<b>", HTML("<c>")], HTML("")))
show("HTML(HTML)", lambda: HTML(HTML("<a>")))
show("HTML(None)", lambda: HTML(None))
show("HTML(div)", lambda: HTML(div("<a>")))
show("repr/str/_repr_html_", lambda: (repr(HTML("<a>")), str(HTML("<a>")), HTML("<a>")._repr_html_(), HTML("<a>").as_string()))

# ----------------------------------------------------------- children render
print("== children")
kids = [
    "<p>&", HTML("<p>&"), Repr("<r>&"), "", HTML(""), Repr(""), span("<s>"), div("<d>"), StrSub("<ss>"),
    span(HTML("<sh>")), "</script>", HTML("</style>"), 5, 2.5, None, TagList("<tl>", HTML("<tlh>")),
]
tagnames = ["div", "span", "script", "style", "p", "br", "SCRIPT", "textarea", "title"]
for name in tagnames:
    for k in kids:
        for ws in (True, False):
            show(f"Tag({name},{type(k).__name__}:{str(k)!r},ws={ws})", lambda: Tag(name, k, _add_ws=ws).get_html_string())
    show(f"Tag({name}) empty", lambda: Tag(name).get_html_string())
    show(f"Tag({name}) indent", lambda: Tag(name, "<a>", HTML("<b>")).get_html_string(indent=2, eol="\r\n"))
    show(f"Tag({name}) onlydep", lambda: Tag(name, HTMLDependency("x", "1.0")).get_html_string())
    show(f"Tag({name}) dep+text", lambda: Tag(name, HTMLDependency("x", "1.0"), "<a&>").get_html_string())
    show(f"Tag({name}) dep+html", lambda: Tag(name, HTML("<a&>"), HTMLDependency("x", "1.0")).get_html_string(3, "|"))
for name in ["div", "span", "script", "style"]:
    for a, b in itertools.product(kids, repeat=2):
        for ws in (True, False):
            show(
                f"Tag2({name},{type(a).__name__}:{str(a)!r},{type(b).__name__}:{str(b)!r},ws={ws})",
                lambda: str(Tag(name, a, b, _add_ws=ws)),
            )
for combo in itertools.product(kids[:8], repeat=3):
    show("TL3 " + "|".join(f"{type(c).__name__}:{str(c)!r}" for c in combo), lambda: TagList(*combo).get_html_string())
for indent, eol, add_ws, esc in itertools.product([0, 2], ["\n", "", "~"], [True, False], [True, False]):
    tl = TagList("<a>", HTML("<b>"), div("<c>", span("<d>"), HTML("<e>")), span("<f>"), Repr("<g>"), "<h>", HTMLDependency("x", "1"), span("i"), div())
    show(f"TL.ghs({indent},{eol!r},{add_ws},{esc})", lambda: tl.get_html_string(indent, eol, add_ws=add_ws, _escape_strings=esc))
show("TL empty", lambda: TagList().get_html_string())
show("TL only dep", lambda: TagList(HTMLDependency("x", "1")).get_html_string())
show("TL dep first", lambda: TagList(HTMLDependency("x", "1"), "<a>", div()).get_html_string())

# non-tagified / odd children
print("== odd children")
show("tagifiable raw", lambda: TagList(Tagi()).get_html_string())
show("tagifiable raw in script", lambda: Tag("script", Tagi(), "x").get_html_string())
show("tagifiable str()", lambda: str(TagList(Tagi(), "<a>")))
show("tagifiable+repr raw", lambda: TagList(TagiRepr(), "<a>").get_html_string())
show("tagifiable bad indent", lambda: TagList(Tagi()).get_html_string(indent=None))
show("text bad indent", lambda: TagList("a").get_html_string(indent=None))
show("text bad indent no ws", lambda: TagList("a").get_html_string(indent=None, add_ws=False))
show("repr bad indent", lambda: TagList(Repr("a")).get_html_string(indent="x"))
show("empty bad indent", lambda: TagList().get_html_string(indent=None))
show("tag bad indent", lambda: TagList(div()).get_html_string(indent=None))
show("bad eol", lambda: TagList("a", "b").get_html_string(eol=None))
show("bad eol single", lambda: TagList("a").get_html_string(eol=None))
show("Tag bad indent", lambda: div("a").get_html_string(indent=None))
show("Tag bad eol", lambda: div("a", "b").get_html_string(eol=None))
show("Tag bad eol single", lambda: div("a").get_html_string(eol=None))
show("Tag bad eol noWS", lambda: span("a", "b").get_html_string(eol=None))
log = []
tl = TagList(Repr("<1>", log), Repr("<2>", log), Tagi(), Repr("<3>", log))
show("side-effect order", lambda: tl.get_html_string())
print("log:", log)
log = []
tl = TagList(Repr("<1>", log), "x", Repr("<2>", log))
tl.data.append(b"bytes")
tl.data.append(Repr("<3>", log))
show("bytes child escaped", lambda: tl.get_html_string())
print("log:", log)
log = []
show("bytes child unescaped", lambda: tl.get_html_string(_escape_strings=False))
print("log:", log)
t = Tag("script", "a")
t.children.data[0] = None
show("None single child script", lambda: t.get_html_string())
t = Tag("div", "a")
t.children.data[0] = 7
show("int single child div", lambda: t.get_html_string())
t = Tag("div", "a", "b")
t.children.data[1] = 7
show("int 2nd child div", lambda: t.get_html_string())
t = Tag("style", "a", "b")
t.children.data[1] = 7
show("int 2nd child style", lambda: t.get_html_string())
t = Tag("script", "a<", StrSub("b<"))
show("strsub script", lambda: t.get_html_string())
show("invalid child", lambda: div(object()))
show("invalid child bytes", lambda: div(b"x"))
show("invalid child Plain", lambda: div(Plain("<x>")))
t = Tag("div", "a")
t.name = None
show("name None", lambda: t.get_html_string())
t.name = 5
show("name int", lambda: t.get_html_string())
t = Tag("div")
t.name = ["x"]
show("name list empty", lambda: t.get_html_string())

# nesting / documents / other render paths
print("== paths")
deep = div(
    tags.script("if (a < b && c > d) {'\"'}"),
    tags.style("a > b { content: '<&>'; }"),
    tags.script(HTML("x<y"), "z<w", HTML("&amp;")),
    tags.style("p<", Repr("<r&>"), span("<in style>")),
    span("x < y", HTML("<em>&amp;</em>"), Repr("<r&>")),
    HTML("<hr>") + "<plain>" + HTML("&nbsp;"),
    "a" + HTML("<b>"),
    tags.pre("<", HTML("<"), _add_ws=False),
    id="<i>",
    title=HTML("<t>&\"'"),
)
show("str", lambda: str(deep))
show("repr", lambda: repr(deep))
show("_repr_html_", lambda: deep._repr_html_())
show("ghs", lambda: deep.get_html_string(1, "\r\n"))
show("render", lambda: deep.render())
show("TagList.render", lambda: TagList(deep, "<z>", HTML("<z>")).render())
show("HTMLDocument", lambda: htmltools.HTMLDocument(deep).render()["html"])
show("HTMLTextDocument-ish", lambda: htmltools.TagList(deep)._repr_html_())
show("tagify then str", lambda: str(div(Tagi(), HTML("<raw>"), "<esc>").tagify()))
show("with-displayhook", lambda: htmltools.wrap_displayhook_handler(lambda v: print("  handled:", type(v).__name__, repr(v)))(Repr("<rr&>")))
htmltools.html_dependency_render_mode = "json"
show("json mode", lambda: str(div("<a>", HTML("<b>"), HTMLDependency("x</script>", "1.0"))))
htmltools.html_dependency_render_mode = "default"

# ------------------------------------------------------------------- attrs
print("== attrs")
vals = ["<a&\"'>", HTML("<A&\"'>"), "", HTML(""), True, False, None, 5, 2.5, "\r\n", HTML("\r\n"), StrSub("<s>")]
for v in vals:
    show(f"attr {type(v).__name__}:{v!r}", lambda: div(x=v).get_html_string())
    show(f"attrdict {type(v).__name__}:{v!r}", lambda: {k: (type(w).__name__, str(w)) for k, w in TagAttrDict(x=v).items()})
for a, b in itertools.product(vals, repeat=2):
    show(f"merge {type(a).__name__}:{a!r} {type(b).__name__}:{b!r}", lambda: [(k, type(w).__name__, str(w)) for k, w in TagAttrDict({"class": a}, {"class_": b}).items()])
    show(f"merge-render {type(a).__name__}:{a!r} {type(b).__name__}:{b!r}", lambda: div({"class": a}, class_=b).get_html_string())
for a, b, c in itertools.product(["<p&'>", HTML("<H&'>")], repeat=3):
    show(f"merge3 {type(a).__name__[0]}{type(b).__name__[0]}{type(c).__name__[0]}", lambda: div({"k": a}, {"k": b}, k=c).get_html_string())
    def two_step():
        d = TagAttrDict(k=a)
        d.update({"k": b}, {"k": c})
        d.update(k=a)
        d["j_"] = c
        d["j_"] = b
        return [(k, type(w).__name__, str(w)) for k, w in d.items()]
    show(f"two-step {type(a).__name__[0]}{type(b).__name__[0]}{type(c).__name__[0]}", two_step)
show("attr order", lambda: div(b_="1", a="2", c__d="3", _e="4", f_g_="5").get_html_string())
show("attr bad type", lambda: div(x=[1]))
show("attr bad type merge", lambda: div({"x": "a"}, x=object()))
show("attr bad later", lambda: TagAttrDict({"x": "<a>"}, {"y": b"b"}))
show("update non-mapping", lambda: TagAttrDict().update(5))
show("update empty", lambda: dict(TagAttrDict({}, {})))
t = div()
dict.__setitem__(t.attrs, "raw", 5)
show("attr raw int bypass", lambda: t.get_html_string())
t = div()
dict.__setitem__(t.attrs, "raw", None)
show("attr raw None bypass", lambda: t.get_html_string())
t = div()
dict.__setitem__(t.attrs, "ok", "<1>")
dict.__setitem__(t.attrs, 7, HTML("<2>"))
show("attr int key bypass", lambda: t.get_html_string())
show("add_class", lambda: div(class_=HTML("<a>")).add_class("<b>").add_class(HTML("<c>"), prepend=True).get_html_string())
show("add_style", lambda: div(style=HTML("a:'<';")).add_style("b:'>';").add_style(HTML("c:'&';"), prepend=True).get_html_string())
show("void attrs", lambda: tags.img(src="<a&b>", alt=HTML("<a&b>")).get_html_string())
show("void w/ child", lambda: Tag("br", "<x>").get_html_string())
show("script attrs", lambda: tags.script("a<b", src="x?a=1&b=2", data=HTML("&amp;")).get_html_string())
