# Probe for refactoring 1: html_escape with precompiled patterns.
import itertools
from htmltools import HTML, TagList, Tag, div, span, tags, html_escape
from htmltools._util import html_escape as he2, _html_escape


def show(label, fn):
    try:
        r = fn()
        print(label, "->", type(r).__name__, repr(r))
    except Exception as e:  # noqa: BLE001
        print(label, "-> EXC", type(e).__name__, str(e))


ALPHABET = ["&", "<", ">", '"', "'", "\r", "\n", "a", " ", "|", "\\", "&amp;", "é", "\x00", ""]
texts = [""] + ["".join(p) for n in (1, 2, 3) for p in itertools.product(ALPHABET[:9], repeat=n)]
texts += ["".join(ALPHABET), "plain text only", "a|b", "x" * 50 + "&", "\n\n", "\r\n", "&&&", "<<>>", " <"]

for t in texts:
    for attr in (False, True):
        show(f"he({t!r},{attr})", lambda: html_escape(t, attr=attr))
# positional / default / truthy-non-bool attr
for attr in (0, 1, None, "", "x", [], [0]):
    show(f"he-attr({attr!r})", lambda: html_escape("<'\"&\n>", attr))
show("he-default", lambda: html_escape("<'\"&\n>"))
show("alias", lambda: (he2 is html_escape, _html_escape is he2))
# identity of the returned object on the no-escape fast path
s = "no special chars"
show("same-object", lambda: (html_escape(s) is s, html_escape(s, True) is s))
# wrong types
for bad in (5, 1.5, None, b"<a>", b"abc", HTML("<b>"), ["<"], object):
    for attr in (False, True):
        show(f"bad({bad!r},{attr})", lambda: html_escape(bad, attr))


class S(str):
    pass


show("strsub", lambda: html_escape(S("a<b"), True))
show("strsub-plain", lambda: (type(html_escape(S("ab"))).__name__, html_escape(S("ab"))))

# through the renderer
show("tag1", lambda: str(div("a<b>&\"'\n", id="x<\"'&>\n\r", title=HTML("<&\"raw"))))
show("tag2", lambda: str(TagList("<", span("&"), HTML("<i>&</i>"), 1.5, "'\"")))
show("tag3", lambda: str(tags.script("a<b && c>d")) + str(tags.style("a>b{}")))
show("tag4", lambda: str(div(class_="a&b").add_class(HTML("<c>")).add_class("d'e")))
show("tag5", lambda: str(div({"data-x": 'q"'}, {"data-x": HTML("&amp;")}, data_x="\n")))
show("tag6", lambda: HTML("<a>") + "<b>&'\"")
show("tag7", lambda: "<b>&'\"" + HTML("<a>"))
