# Probe for refactoring 5: the dependency items written into <head> by
# HTMLDocument (_hoist_head_content) and HTMLTextDocument.render().
import itertools
import os
import tempfile
from htmltools import (
    HTML, HTMLDependency, HTMLDocument, HTMLTextDocument, Tag, TagList, div, span, tags, head_content,
)


def show(label, fn):
    try:
        r = fn()
        print(label, "->", type(r).__name__, repr(r if isinstance(r, (bool, int, list, tuple, dict)) else str(r)))
    except Exception as e:  # noqa: BLE001
        print(label, "-> EXC", type(e).__name__, str(e)[:100])


def mk(name, version="1.0", **kw):
    return HTMLDependency(name, version, **kw)


d_plain = mk("plain")
d_head_str = mk("hs", "2.1", head="<meta name='x' content=\"a&b\">")
d_head_tags = mk("ht", "0.3", head=TagList(tags.title("T<t>"), tags.style("a>b{c:'d'}"), "txt & <more>", HTML("<!-- c -->")))
d_url = mk("url", "3", source={"href": "https://x.y/z?a=1&b=2"}, script={"src": "s.js"}, stylesheet=[{"href": "a b.css"}], meta={"name": "m<", "content": "c&\"q\""})
d_weird = mk("we</script><i>&ird", "1.0.1", head=tags.script("if (a<b && c>d) {'</x>'}"))
d_new = mk("plain", "1.5", head="<newer>")
d_sub = mk("sub", "9", source={"subdir": "libdir"}, script=[{"src": "x y.js", "defer": True}])
d_pkg = mk("pkg", "1", source={"package": "htmltools", "subdir": "lib"}, script={"src": "shiny.js"})
d_badname = mk("ok")
d_badname.name = 5
all_deps = {"plain": d_plain, "hs": d_head_str, "ht": d_head_tags, "url": d_url, "weird": d_weird, "new": d_new, "sub": d_sub}


def norm(rendered):
    html = rendered["html"].replace(os.getcwd(), "<CWD>")
    return [[repr(d) for d in rendered["dependencies"]], html]


prefixes = ["lib", None, "", "a/b", "p<&>"]
for names in [(), ("plain",), ("hs",), ("ht",), ("url",), ("weird",), ("sub",), ("plain", "new"), ("new", "plain"),
              ("hs", "ht", "url"), ("weird", "hs", "plain", "ht", "new", "sub", "url")]:
    deps = [all_deps[n] for n in names]
    for lp, iv in itertools.product(prefixes, [True, False]):
        show(f"doc {names} {lp!r} {iv}", lambda: norm(HTMLDocument(div("b<", *deps, span(HTML("<raw>"))), lang="e<n").render(lib_prefix=lp, include_version=iv)))
    show(f"doc-default {names}", lambda: norm(HTMLDocument("t<", deps).render()))
    show(f"doc-html {names}", lambda: norm(HTMLDocument(tags.html(deps, tags.body("x<", deps))).render()))
    show(f"doc-html-head {names}", lambda: norm(HTMLDocument(tags.html(tags.body("b"), tags.head(tags.title("t&"), deps))).render()))
    show(f"doc-body {names}", lambda: norm(HTMLDocument(tags.body(tags.script("1<2"), deps), class_=HTML("<c>")).render()))
    show(f"doc-nested-head {names}", lambda: norm(HTMLDocument(tags.head(deps), "x").render()))
    tmpl = "<html><head>@@DEPS@@</head><body>&amp;<b>@@DEPS@@</b></body></html>"
    for lp, iv in itertools.product(prefixes, [True, False]):
        show(f"text {names} {lp!r} {iv}", lambda: norm(HTMLTextDocument(tmpl, deps=list(deps), deps_replace_pattern="@@DEPS@@").render(lib_prefix=lp, include_version=iv)))
    show(f"text-nopattern {names}", lambda: norm(HTMLTextDocument(tmpl, deps=list(deps), deps_replace_pattern="nope").render()))

# serialized dependencies embedded in the text are extracted and re-rendered
ser = "".join(d.serialize_to_script_json().get_html_string() for d in [d_head_str, d_weird, d_head_str, d_url])
show("text-serialized", lambda: norm(HTMLTextDocument("<html><head>@@</head><body>" + ser + "x</body></html>", deps=[d_plain], deps_replace_pattern="@@").render()))
show("text-serialized-nodeps", lambda: norm(HTMLTextDocument("<head>@@</head>" + ser, deps_replace_pattern="@@").render()))
show("text-none", lambda: norm(HTMLTextDocument("<p>@@</p>").render()))
show("text-deps-no-pattern", lambda: HTMLTextDocument("<p></p>", deps=[d_plain]))
show("text-twice", lambda: (lambda doc: [norm(doc.render()), norm(doc.render(lib_prefix=None))])(HTMLTextDocument("<head>@@</head>", deps=[d_weird, d_plain], deps_replace_pattern="@@")))

# errors raised while building the items
show("doc-badname", lambda: norm(HTMLDocument(div(d_plain, d_badname)).render()))
show("text-badname", lambda: norm(HTMLTextDocument("@@", deps=[d_plain, d_badname], deps_replace_pattern="@@").render()))
show("doc-pkg", lambda: "shiny.js" in norm(HTMLDocument(div(d_pkg)).render())[1])
show("hoist-not-html", lambda: HTMLDocument._hoist_head_content(div(d_plain), "lib", True))
show("hoist-direct", lambda: HTMLDocument._hoist_head_content(tags.html(d_weird, tags.head("h<"), tags.body(d_plain)), None, False))

# the original tree is not modified by rendering
tree = tags.html(tags.head(tags.title("t")), tags.body(d_head_tags, "x<"))
before = tree.get_html_string()
doc = HTMLDocument(tree)
show("render1", lambda: norm(doc.render()))
show("render2", lambda: norm(doc.render()))
show("unchanged", lambda: before == tree.get_html_string())

# save_html paths (Tag / TagList / HTMLDocument wrappers)
with tempfile.TemporaryDirectory() as tmp:
    for i, obj in enumerate([div("a<", d_head_str, d_weird), TagList("t&", d_head_tags), HTMLDocument(span(HTML("<x>")), d_url)]):
        f = os.path.join(tmp, f"f{i}.html")

        def save():
            out = obj.save_html(f, libdir=None) if not isinstance(obj, HTMLDocument) else obj.save_html(f, None)
            return [out == f, open(f).read(), sorted(os.listdir(tmp))]
        show(f"save {i}", save)
