from htmltools import HTML, div, span, tags, css


def show(label, f):
    try:
        r = f()
        print(label, "->", type(r).__name__, repr(r))
    except BaseException as e:  # noqa
        print(label, "-> EXC", type(e).__name__, str(e))


def dump(t):
    return [(k, type(v).__name__, str(v)) for k, v in t.attrs.items()]


class Flag:
    def __init__(self, v):
        self.v = v

    def __bool__(self):
        print("   Flag.__bool__", self.v)
        return self.v


class BoomFlag:
    def __bool__(self):
        raise RuntimeError("flag")


def addc(initial, value, **kw):
    t = div(id="i", class_=initial, title="t")
    try:
        r = t.add_class(value, **kw)
    except BaseException as e:  # noqa
        return ("EXC", type(e).__name__, dump(t))
    return (r is t, dump(t), str(t))


def adds(initial, value, **kw):
    t = div(id="i", style=initial, title="t")
    try:
        r = t.add_style(value, **kw)
    except BaseException as e:  # noqa
        return ("EXC", type(e).__name__, str(e), dump(t))
    return (r is t, dump(t), str(t))


initials = [None, "", "a", "a b", HTML("<a>"), HTML(""), True, 3]
classes = ["x", "", "x y", " x ", "<x>&\"'", HTML("<x>&"), HTML(""), None, False, True, 0, 7, 1.5, ["x"], object]
for i in initials:
    for c in classes:
        for kw in ({}, {"prepend": True}, {"prepend": False}):
            show(f"add_class {i!r} {c!r} {kw}", lambda i=i, c=c, kw=kw: addc(i, c, **kw))

sinit = [None, "", "a:1;", "a:1", HTML("a:'<';"), HTML(""), True]
styles = ["b:2;", "b:2", "", ";", "b:2; ", HTML("c:3;"), HTML("c:3"), HTML(""), HTML(";"), None, False, True, 0, 5, ["x;"], b"x;",
          css(color="red"), css(), css("\n", color="red"), css(" ", color="red", fontSize="1px"), "content:'<&>\"';"]
for i in sinit:
    for s in styles:
        for kw in ({}, {"prepend": True}):
            show(f"add_style {i!r} {s!r} {kw}", lambda i=i, s=s, kw=kw: adds(i, s, **kw))

show("flag true class", lambda: addc("a", "x", prepend=Flag(True)))
show("flag false class", lambda: addc("a", "x", prepend=Flag(False)))
show("flag true style", lambda: adds("a:1;", "b:2;", prepend=Flag(True)))
show("flag false style bad", lambda: adds("a:1;", "b:2", prepend=Flag(False)))
show("boom flag class", lambda: addc("a", "x", prepend=BoomFlag()))
show("boom flag style", lambda: adds("a:1;", "b:2;", prepend=BoomFlag()))
show("prepend int", lambda: addc("a", "x", prepend=1))
show("prepend str", lambda: addc("a", "x", prepend=""))
show("positional prepend class", lambda: div().add_class("x", True))
show("positional prepend style", lambda: div().add_style("x;", True))
show("kw names", lambda: str(div().add_class(class_="k").add_style(style="s;")))
show("bad kw", lambda: div().add_class(cls="k"))


def chain():
    t = tags.a("link", href="#")
    t.add_class("one").add_class("two").add_class("zero", prepend=True)
    t.add_style("a:1;").add_style("b:2;").add_style("z:0;", prepend=True)
    t.add_class(HTML("<h>")).add_style(HTML("h:'<';"), prepend=True)
    return (dump(t), str(t), [t.has_class(c) for c in ("zero", "one", "two", "<h>", "three")])


show("chain", chain)

# no class/style key present: attribute appended at the end of attrs
show("new keys order", lambda: dump(div(id="i").add_style("a:1;").add_class("c")))
# attrs replaced by a plain dict
def plain():
    t = div()
    t.attrs = {"class": "a"}
    try:
        t.add_class("b")
    except BaseException as e:  # noqa
        return ("EXC", type(e).__name__, t.attrs)
    return t.attrs


show("plain dict attrs", plain)
