"""Deterministic probe for property C02 (plain-text children are inert data).

Exercises html_escape, _normalize_text, _tagchilds_to_tagnodes, TagList construction /
append / extend / insert / + / += / tagify / get_html_string, Tag.get_html_string and
HTML.__add__/__radd__ on a spread of ordinary and corner-case inputs and prints
repr()s of the results (or the exception type + message).
"""

import copy

import htmltools
from htmltools import HTML, HTMLDependency, Tag, TagList, div, html_escape, span, tags
from htmltools import _core, _util


def show(label, fn):
    try:
        r = fn()
        print(label, "->", type(r).__name__, repr(r))
    except BaseException as e:  # noqa: BLE001
        print(label, "-> EXC", type(e).__name__, str(e))


TEXTS = [
    "",
    "plain",
    "&",
    "<",
    ">",
    "&amp;",
    "&lt;b&gt;",
    "<script>alert(1)</script>",
    "<!-- c -->",
    "<!DOCTYPE html>",
    "a & b < c > d",
    "&&<<>>",
    "\"quoted\" 'single'",
    "line\nbreak\r\nend",
    "tab\there",
    "&#60;",
    "&#x3c;",
    "unicodé ☃ \U0001f600 \x00 \x7f",
    "]]>",
    "<" * 5 + "&" * 5 + ">" * 5,
    " leading and trailing ",
]


class StrSub(str):
    pass


class Noisy(int):
    log = []

    def __str__(self):
        Noisy.log.append(int(self))
        return "<n%d&>" % int(self)


class TagifiableOne:
    def __init__(self, v):
        self.v = v

    def tagify(self):
        return self.v

    def __repr__(self):
        return "TagifiableOne(%r)" % (self.v,)


class ReprOnly:
    def __repr__(self):
        return "ReprOnly()"

    def _repr_html_(self):
        return "<i>repr&</i>"


DEP = HTMLDependency("dep", "1.0", source={"subdir": "x"}, script={"src": "a.js"})

# ---------------------------------------------------------------- html_escape
print("== html_escape")
for t in TEXTS:
    show("esc %r" % t, lambda: html_escape(t))
    show("esc attr=False %r" % t, lambda: html_escape(t, attr=False))
    show("esc attr=True %r" % t, lambda: html_escape(t, attr=True))
    show("esc pos True %r" % t, lambda: html_escape(t, True))
    show("esc attr=1 %r" % t, lambda: html_escape(t, attr=1))
    show("esc attr=0 %r" % t, lambda: html_escape(t, attr=0))
    show("esc attr='' %r" % t, lambda: html_escape(t, attr=""))
    show("esc attr=[] %r" % t, lambda: html_escape(t, attr=[]))
    show("esc attr=None %r" % t, lambda: html_escape(t, attr=None))
    show("_html_escape %r" % t, lambda: _util._html_escape(t))
for bad in [None, 5, 0, 1.5, b"", b"a<b", HTML("<x>"), HTML(""), ["<"], (), StrSub("a<b"), StrSub("")]:
    show("esc bad %r" % (bad,), lambda: html_escape(bad))
    show("esc bad attr %r" % (bad,), lambda: html_escape(bad, attr=True))
show("esc identity plain", lambda: (lambda s: html_escape(s) is s)("no specials here"))
show("esc identity empty", lambda: (lambda s: html_escape(s) is s)(""))
show("esc strsub type", lambda: type(html_escape(StrSub("abc"))).__name__)
show("esc strsub type2", lambda: type(html_escape(StrSub("a<bc"))).__name__)
show("esc no kw", lambda: html_escape())
show("esc kw text", lambda: html_escape(text="<", attr=False))
show("tables", lambda: (_util.HTML_ESCAPE_TABLE, _util.HTML_ATTRS_ESCAPE_TABLE))

# ------------------------------------------------------------ _normalize_text
print("== _normalize_text")
for t in TEXTS:
    show("norm %r" % t, lambda: _core._normalize_text(t))
    show("norm HTML %r" % t, lambda: _core._normalize_text(HTML(t)))
for bad in [None, 5, b"<", ["<"], StrSub("<s>")]:
    show("norm bad %r" % (bad,), lambda: _core._normalize_text(bad))

# ----------------------------------------------------- _tagchilds_to_tagnodes
print("== _tagchilds_to_tagnodes")
CHILD_SETS = [
    [],
    (),
    "a<b",
    "",
    ["a<b"],
    ["a", ["b", ("c", [None, "<d>"])], None],
    [1, 2.5, True, False, -0.0, 10**30, float("inf"), float("nan")],
    [HTML("<b>")],
    [div("x<"), span()],
    [TagList("a", "<", TagList("b&"))],
    [DEP],
    [TagifiableOne("z")],
    [ReprOnly()],
    [StrSub("s<")],
    ["ok", object()],
    ["ok", b"bytes"],
    ["ok", {"a": 1}],
    ["ok", {1, 2}],
    ["ok", 3 + 4j],
    [Noisy(1), Noisy(2), b"bad", Noisy(3)],
    iter(["gen<", 1]),
    (x for x in ["g&", None, [2]]),
    {"k<": 1},
    None,
    5,
    HTML("<h>"),
    TagList("t<", 7),
    div("in div"),
]
for i, cs in enumerate(CHILD_SETS):
    Noisy.log.clear()
    show("t2n %d" % i, lambda: _core._tagchilds_to_tagnodes(cs))
    print("   noisy log", Noisy.log)
show(
    "t2n types",
    lambda: [type(x).__name__ for x in _core._tagchilds_to_tagnodes([1, "a", StrSub("b"), HTML("c"), 2.0, True])],
)
_lst = ["a", 1, ["b"]]
show("t2n fresh list", lambda: (_core._tagchilds_to_tagnodes(_lst) is _lst, _lst))
_s = "same"
show("t2n str fast path", lambda: _core._tagchilds_to_tagnodes(_s)[0] is _s)

# -------------------------------------------------------------------- TagList
print("== TagList")
for t in TEXTS:
    show("TL %r" % t, lambda: str(TagList(t)))
    show("TL nested %r" % t, lambda: str(TagList([t, (t, [t])], t)))
    show("TL get_html_string noesc %r" % t, lambda: TagList(t, t).get_html_string(_escape_strings=False))
    show("TL indent %r" % t, lambda: TagList(t, div(t), t).get_html_string(indent=2, eol="\r\n"))
    show("TL add_ws False %r" % t, lambda: TagList(t, span(t), t).get_html_string(add_ws=False))


def build_mutations():
    x = TagList("a<")
    x.append("b&", 3, ["c>", None])
    x.extend(["d<", 4.5, ("e&",)])
    x.insert(0, "<first>")
    x.insert(2, ["<i1>", "<i2>"])
    x.insert(-1, 9)
    x.insert(100, "&last;")
    x += ["+=<", 1]
    x += "str+=&"
    y = x + ["plus<"]
    z = ["rplus<"] + x
    w = x + "addstr<"
    v = "raddstr<" + x
    return [list(x), str(x), list(y), list(z), list(w), list(v), str(v)]


show("TL mutations", build_mutations)
show("TL insert ret", lambda: TagList("a").insert(0, "b"))
show("TL append bad", lambda: TagList("a").append(object()))
show("TL extend bad", lambda: TagList("a").extend([b"x"]))
show("TL insert bad", lambda: TagList("a").insert(0, {"a": 1}))
show("TL init bad", lambda: TagList("a", object()))
show("TL extend str", lambda: (lambda x: (x.extend("xyz<"), list(x)))(TagList()))
show("TL numbers", lambda: str(TagList(1, 2.5, True, -3, 1e100, float("nan"))))
show("TL html", lambda: str(TagList(HTML("<b>&</b>"), "<b>&</b>")))
show("TL html noesc", lambda: TagList(HTML("<b>&</b>"), "<b>&</b>").get_html_string(_escape_strings=False))
show("TL html first noesc", lambda: TagList("<x>", HTML("<b>")).get_html_string(_escape_strings=False))
show(
    "TL html noesc type",
    lambda: type(TagList("<x>", HTML("<b>"), "<y>").get_html_string(_escape_strings=False)).__name__,
)
show("TL repr-only", lambda: str(TagList("a<", ReprOnly(), "b<", div(), ReprOnly())))
show("TL dep skipped", lambda: str(TagList(DEP, "a<", DEP, "b<", DEP)))
show("TL only deps", lambda: str(TagList(DEP, DEP)))
show("TL untagified", lambda: TagList("a", TagifiableOne("z")).get_html_string())
show("TL untagified after", lambda: TagList(TagifiableOne("z"), "a").get_html_string())
show("TL mixed", lambda: TagList("t1<", div("x"), "t2&", span("y"), "t3>", span("z"), span("w")).get_html_string())
show(
    "TL mixed noindent",
    lambda: TagList("t1<", div("x", _add_ws=False), "t2&", div("y")).get_html_string(3, "|", add_ws=False),
)
show("TL empty", lambda: TagList().get_html_string())
show("TL empty weird indent", lambda: TagList().get_html_string(indent=None, eol=None))
show("TL weird indent str", lambda: TagList("a").get_html_string(indent=None))
show("TL weird indent str add_ws F", lambda: TagList("a").get_html_string(indent=None, add_ws=False))
show("TL weird eol", lambda: TagList("a", "b").get_html_string(eol=None))
show("TL weird eol add_ws F", lambda: TagList("a", "b").get_html_string(eol=None, add_ws=False))
show("TL float indent", lambda: TagList("a").get_html_string(indent=1.5))
show("TL neg indent", lambda: TagList("a", div("b", "c")).get_html_string(indent=-2))
show("TL bool indent", lambda: TagList("a", div("b", "c")).get_html_string(indent=True))
show("TL positional", lambda: TagList("a<", "b").get_html_string(1, "~"))
show("TL positional 3", lambda: TagList("a<", "b").get_html_string(1, "~", False))


def raw_data_nonstr():
    x = TagList("a")
    x.data.append(5)  # bypass normalisation
    return x.get_html_string()


show("TL raw nonstr", raw_data_nonstr)


def raw_data_nonstr_noesc():
    x = TagList("a")
    x.data.append(5)
    return x.get_html_string(_escape_strings=False)


show("TL raw nonstr noesc", raw_data_nonstr_noesc)

# --------------------------------------------------------------------- tagify
print("== tagify")
for t in TEXTS[:12]:
    show("tagify str %r" % t, lambda: str(TagList(TagifiableOne(t), "x").tagify()))
    show("tagify TL %r" % t, lambda: str(TagList("h", TagifiableOne(TagList(t, 5, [t])), "x").tagify()))
    show("tagify tag %r" % t, lambda: str(TagList(TagifiableOne(div(t, TagifiableOne(t)))).tagify()))
    show("render %r" % t, lambda: div(TagifiableOne(t), TagifiableOne(TagList(t, t))).render()["html"])
show("tagify empty TL", lambda: list(TagList("a", TagifiableOne(TagList()), "b").tagify()))
show("tagify multi", lambda: list(TagList(TagifiableOne(TagList("1<", "2<")), "m", TagifiableOne(TagList("3<", "4<", "5<"))).tagify()))
show("tagify nested tagifiable in TL", lambda: list(TagList(TagifiableOne(TagList("a", TagifiableOne("inner")))).tagify()))
show("tagify returns HTML", lambda: str(TagList(TagifiableOne(HTML("<raw>"))).tagify()))
show("tagify returns int", lambda: list(TagList(TagifiableOne(5)).tagify()))
show("tagify returns None", lambda: list(TagList(TagifiableOne(None)).tagify()))
show("tagify returns list", lambda: list(TagList(TagifiableOne(["a", "b"])).tagify()))


def tagify_dep_copy():
    x = TagList(DEP, "a", DEP)
    y = x.tagify()
    return (y[0] is x[0], y[0] == x[0], y[2] is x[2], y is x, list(y) == list(x), y[1] is x[1])


show("tagify dep copy", tagify_dep_copy)


def tagify_orig_untouched():
    t = TagifiableOne(TagList("p<", "q<"))
    x = TagList("a", t, "b")
    y = x.tagify()
    return (list(y), len(x), x[1] is t)


show("tagify orig", tagify_orig_untouched)


class Boom:
    def tagify(self):
        raise ValueError("boom")


class Order:
    log = []

    def __init__(self, n):
        self.n = n

    def tagify(self):
        Order.log.append(self.n)
        return "o%d<" % self.n


show("tagify boom", lambda: TagList("a", Boom()).tagify())
show("tagify order", lambda: (list(TagList(Order(1), "s", Order(2), Order(3)).tagify()), Order.log))
show("tagify empty", lambda: list(TagList().tagify()))
show("tagify div in TL", lambda: (lambda x: (x.tagify()[0] is x[0], x.tagify()[0] == x[0]))(TagList(div("a"))))

# ------------------------------------------------------------------------ Tag
print("== Tag")
for t in TEXTS:
    show("div %r" % t, lambda: str(div(t)))
    show("div two %r" % t, lambda: str(div(t, t)))
    show("div HTML %r" % t, lambda: str(div(HTML(t))))
    show("div nested %r" % t, lambda: str(div([t, [t]], span(t), t)))
    show("span inline %r" % t, lambda: str(div(span(t), t, span(t, t))))
    show("script %r" % t, lambda: str(tags.script(t)))
    show("script two %r" % t, lambda: str(tags.script(t, t)))
    show("style %r" % t, lambda: str(tags.style(t)))
    show("style html %r" % t, lambda: str(tags.style(HTML(t), t)))
    show("attr %r" % t, lambda: str(div(t, title=t, data_x=HTML(t))))
    show("Tag custom %r" % t, lambda: Tag("my-el", t).get_html_string())
    show("br child %r" % t, lambda: str(tags.br(t)))
show("div empty", lambda: str(div()))
show("br empty", lambda: str(tags.br()))
show("br attrs", lambda: str(tags.br(id="a<")))
show("img dep only", lambda: str(tags.img(DEP)))
show("div dep only", lambda: str(div(DEP)))
show("div dep+str", lambda: str(div(DEP, "a<b")))
show("div dep+str+dep", lambda: str(div(DEP, "a<b", DEP)))
show("div dep+html", lambda: str(div(DEP, HTML("<r>"))))
show("script dep+str", lambda: str(tags.script(DEP, "a<b")))
show("script dep+html", lambda: str(tags.script(DEP, HTML("a<b"))))
show("script empty", lambda: str(tags.script()))
show("div num", lambda: str(div(1)))
show("div nums", lambda: str(div(1, 2.5, True)))
show("div strsub", lambda: str(div(StrSub("<s>"))))
show("div single tag", lambda: str(div(span("x<"))))
show("div single repr", lambda: str(div(ReprOnly())))
show("div single untagified", lambda: div(TagifiableOne("x")).get_html_string())
show("div indent", lambda: div("a<", div("b<", "c<")).get_html_string(2, "\r\n"))
show("div indent single", lambda: div("a<").get_html_string(3, None))
show("div eol None multi", lambda: div("a<", "b").get_html_string(0, None))
show("span eol None multi", lambda: span("a<", "b").get_html_string(0, None))
show("div indent None", lambda: div("a").get_html_string(None))
show("div add_ws False", lambda: div("a<", "b&", _add_ws=False).get_html_string())
show("deep", lambda: str(div(div(div("x<", span("&y")), "z>"), "w")))
show("Tag name HTML", lambda: Tag(HTML("x"), "a<").get_html_string())
show("Tag name HTML multi", lambda: Tag(HTML("x"), "a<", "b").get_html_string())
show("Tag name HTML empty", lambda: Tag(HTML("br")).get_html_string())
show("Tag name HTML type", lambda: type(Tag(HTML("x"), "a<").get_html_string()).__name__)
show("Tag name int", lambda: Tag(5, "a<").get_html_string())
show("Tag name None", lambda: Tag(None).get_html_string())
show("Tag name script upper", lambda: Tag("SCRIPT", "a<").get_html_string())
show("Tag name list", lambda: Tag(["x"], "a").get_html_string())


def later_added():
    d = div("first<")
    d.append("app<", 1)
    d.extend(["ext&", [2.5]])
    d.insert(0, "ins>")
    d.children.append("c.app<")
    d.children.insert(1, "<c.ins>")
    d.children += ["<+=>"]
    return [list(d.children), str(d)]


show("Tag later added", later_added)


def set_children_raw():
    d = div()
    d.children.data.append(5)
    return d.get_html_string()


show("Tag raw nonstr single", set_children_raw)


def tag_copy():
    d = div("a<", span("b&"))
    e = copy.copy(d)
    f = copy.deepcopy(d)
    e.append("c>")
    return [str(d), str(e), str(f)]


show("Tag copy", tag_copy)
show("Tag tagify", lambda: str(div("a<", TagifiableOne(TagList("b<", 1)), TagifiableOne("c&")).tagify()))
show("Tag render", lambda: div("a<", DEP, TagifiableOne(TagList("b<", 1))).render())
show("repr_html", lambda: div("a<", "b")._repr_html_())
show("TL repr_html", lambda: TagList("a<", "b")._repr_html_())
show("repr", lambda: repr(div("a<")))

# ----------------------------------------------------------------------- HTML
print("== HTML")
for t in TEXTS:
    show("HTML+str %r" % t, lambda: HTML("<b>") + t)
    show("str+HTML %r" % t, lambda: t + HTML("<b>"))
    show("HTML+HTML %r" % t, lambda: HTML("<b>") + HTML(t))
for other in [None, 5, 2.5, b"<b>", ["<"], StrSub("<s>"), div("x<"), TagList("y<"), object]:
    show("HTML+ %r" % (other,), lambda: type(HTML("<b>") + other).__name__ + ":" + str(HTML("<b>") + other))
    show("+HTML %r" % (other,), lambda: type(other + HTML("<b>")).__name__ + ":" + str(other + HTML("<b>")))
show("HTML+= ", lambda: (lambda h: h)(HTML("a")).__iadd__("<") if hasattr(HTML, "__iadd__") else "no iadd")


class HTMLSub(HTML):
    def as_string(self):
        return "[" + self.data + "]"


show("HTMLSub+str", lambda: HTMLSub("x") + "<")
show("str+HTMLSub", lambda: "<" + HTMLSub("x"))
show("HTML+HTMLSub", lambda: HTML("x") + HTMLSub("y"))
show("type", lambda: type(HTMLSub("x") + "<").__name__)
