# Probe for htmltools._jsx._render_react_js / JSXTag.tagify: metadata nodes among the
# children of JSX components (and of plain tags inside them) leave no trace in the
# generated React.createElement(...) code; they only show up as dependencies.
import itertools
from htmltools import HTML, HTMLDependency, HTMLDocument, Tag, TagList, css, div, span, tags
from htmltools._core import MetadataNode
from htmltools._jsx import JSXTag, jsx, jsx_tag_create, _render_react_js

Foo = jsx_tag_create("Foo")
Bar = jsx_tag_create("Bar")
Ns = jsx_tag_create("ns.Widget")
Lim = jsx_tag_create("Lim", allowedProps=["a", "style"])


class Meta(MetadataNode):
    pass


class MetaStr(MetadataNode, str):
    pass


class Tagif:
    def tagify(self):
        return div(span("from tagif"), HTMLDependency("tagifdep", "3.0"))


def dep(n="a", v="1.0"):
    return HTMLDependency(n, v)


def show(label, fn):
    try:
        r = fn()
        print(label, "->", type(r).__name__, repr(r))
    except Exception as e:  # noqa: BLE001
        print(label, "!!", type(e).__name__, str(e))


# 1. direct calls of the private renderer -----------------------------------------------
KIDS = {
    "txt": lambda: 'say "hi"',
    "empty": lambda: "",
    "span": lambda: span("s"),
    "espan": lambda: span(),
    "foo": lambda: Foo(),
    "bar": lambda: Bar("b", x=1),
    "jsx": lambda: jsx("`expr`"),
    "divattrs": lambda: div("d", id="i", class_="c"),
}
names = list(KIDS)
for n in (0, 1, 2):
    for combo in itertools.product(names, repeat=n):
        for attrs in ({}, {"a": 1, "style": "color:red;top:1px", "b": [1, "x", None], "c": {"k": True}}):
            ref = None
            for mask in range(2 ** (n + 1)):
                kids = []
                for gap in range(n + 1):
                    if mask >> gap & 1:
                        kids.append(Meta() if gap % 2 == 0 else dep("d%d" % gap))
                    if gap < n:
                        kids.append(KIDS[combo[gap]]())
                for mk in (lambda: Foo(*kids, **attrs), lambda: div(*kids, **{k: str(v) for k, v in attrs.items()})):
                    pass
                outs = []
                for ctor in ("jsx", "tag"):
                    x = Foo(*kids, **attrs) if ctor == "jsx" else Tag("div", *kids, **{k: str(v) for k, v in attrs.items()})
                    try:
                        outs.append(_render_react_js(x, 1, "\n"))
                    except Exception as e:  # noqa: BLE001
                        outs.append((type(e).__name__, str(e)))
                if mask == 0:
                    ref = outs
                    print(combo, bool(attrs), repr(outs))
                elif outs != ref and n > 0:
                    print("MISMATCH", combo, mask, repr(outs))
                elif n == 0 and mask == 1:
                    # a component whose only child is a metadata node is NOT the same as one
                    # without children (it gets the multi-line form); just record it
                    print("only-meta", bool(attrs), repr(outs))

# leaf inputs / odd parameters
show("meta", lambda: _render_react_js(Meta(), 3, "\n"))
show("dep", lambda: _render_react_js(dep(), 0, ""))
show("metastr", lambda: _render_react_js(MetaStr("zzz"), 1, "\n"))
show("metastr child", lambda: _render_react_js(Foo(MetaStr("zzz"), "a"), 1, "\n"))
show("str", lambda: _render_react_js('q"q', 2, "\n"))
show("html", lambda: _render_react_js(HTML("<b>"), 0, "\n"))
show("number", lambda: _render_react_js(5, 0, "\n"))
show("bad child", lambda: _render_react_js(Foo(Meta(), HTML("<b>")), 0, "\n"))
show("bad child after text", lambda: _render_react_js(Foo("ok", Meta(), Tagif()), 0, "\n"))
show("eol variants", lambda: [_render_react_js(Foo(Meta(), "a", dep(), span("b", Meta())), i, e)
                                for i in (0, 2) for e in ("\n", "", "\r\n")])
show("eol int only meta", lambda: _render_react_js(Foo(Meta()), 0, 5))
show("eol int with child", lambda: _render_react_js(Foo(Meta(), "a"), 0, 5))
show("eol int bad child", lambda: _render_react_js(Foo(Meta(), HTML("x")), 0, 5))
show("indent str", lambda: _render_react_js(Foo(Meta()), "1", "\n"))
show("indent bool", lambda: _render_react_js(Foo(Meta(), "a"), True, "\n"))
show("style bad", lambda: _render_react_js(Foo(Meta(), style=5), 0, "\n"))
show("style none", lambda: _render_react_js(Foo(Meta(), style=None, z=None), 0, "\n"))
show("style dict", lambda: _render_react_js(Foo(style={"color": "red"}, a=jsx("f()"), b=False, c=2.5), 0, "\n"))
show("style css()", lambda: _render_react_js(Foo(dep(), style=css(color="red", font_size="2px")), 0, "\n"))
show("tag prop", lambda: _render_react_js(Foo(Meta(), a=div("x", dep("inprop")), b=Bar(Meta(), "y"), c=[span(), Bar()]), 0, "\n"))
show("style first then bad", lambda: _render_react_js(Foo(style=5, a=object()), 0, "\n"))
show("allowed", lambda: _render_react_js(Lim(Meta(), a=1, style="a:b"), 0, "\n"))
show("not allowed", lambda: Lim(b=1))
show("namespaced", lambda: _render_react_js(Ns(dep(), Ns()), 0, "\n"))

# 2. public entry points -----------------------------------------------------------------
x = Foo(
    dep("top"),
    span("a", Meta(), dep("inspan")),
    "childtext",
    Meta(),
    jsx("`childexpression`"),
    Foo(dep("infoo")),
    [Foo(), Meta(), Bar()],
    TagList(Foo(), dep("intl"), Bar()),
    Tagif(),
    span(Foo(Meta()), Bar("x", dep("deep"))),
    style=css(color="red"),
    prop=div("p", dep("inprop")),
)
show("tagify html", lambda: x.tagify().get_html_string())
show("tagify deps", lambda: x.tagify().get_dependencies())
show("str", lambda: str(x))
show("repr_html", lambda: x._repr_html_())
show("in div render", lambda: div(Meta(), x, dep("sib")).render())
show("doc", lambda: HTMLDocument(x, dep("docdep")).render())

plain = Foo(span("a"), "childtext", jsx("`childexpression`"), Foo(), [Foo(), Bar()],
            TagList(Foo(), Bar()), Tagif(), span(Foo(), Bar("x")), style=css(color="red"), prop=div("p"))
show("twin html equal", lambda: plain.tagify().get_html_string() == x.tagify().get_html_string())

only_meta = Foo(Meta(), dep("om"))
show("only meta comp", lambda: str(only_meta))
show("tag inside with only meta", lambda: str(Foo(div(Meta()), tags.br(dep("brd")))))
