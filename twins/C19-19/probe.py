"""Common probe body for property C19 (tag functions).  Deterministic output."""
import inspect
import types

import htmltools
from htmltools import HTML, Tag, TagList, svg, tags
from htmltools._core import TagAttrDict


def show(label, fn):
    try:
        r = fn()
    except BaseException as e:  # noqa: BLE001
        print(label, "-> EXC", type(e).__name__, str(e))
    else:
        print(label, "->", repr(r))


def describe(t):
    return (
        type(t).__name__,
        t.name,
        t.add_ws,
        type(t.attrs).__name__,
        list(t.attrs.items()),
        [type(v).__name__ for v in t.attrs.values()],
        type(t.children).__name__,
        [(type(c).__name__, str(c)) for c in t.children],
        t.prev_displayhook,
        sorted(t.__dict__),
        str(t),
    )


def public_functions(mod):
    out = []
    for nm, obj in sorted(vars(mod).items()):
        if nm.startswith("_"):
            continue
        if isinstance(obj, types.FunctionType) and obj.__module__ == mod.__name__:
            out.append((nm, obj))
    return out


def run_module(mod):
    print("=== module", mod.__name__)
    print("__all__", getattr(mod, "__all__", None))
    print("doc", repr(mod.__doc__))
    print(
        "public non-function names",
        sorted(
            n
            for n, o in vars(mod).items()
            if not n.startswith("_") and not isinstance(o, types.FunctionType)
        ),
    )
    fns = public_functions(mod)
    print("n functions", len(fns))
    for nm, fn in fns:
        sig = inspect.signature(fn)
        print(
            nm,
            fn.__name__,
            fn.__qualname__,
            str(sig),
            repr(sig.parameters["_add_ws"].default),
            sig.parameters["_add_ws"].default is True,
            sig.parameters["_add_ws"].default is False,
            fn.__kwdefaults__,
            fn.__defaults__,
            len(fn.__doc__ or ""),
        )
        show(nm + " empty", lambda: describe(fn()))
        show(
            nm + " mixed",
            lambda: describe(
                fn(
                    "txt",
                    {"class": "c1", "data_x": 1},
                    None,
                    [1, 2.5, ["n", None]],
                    HTML("<b>"),
                    {"class": HTML("c<2"), "id_": None},
                    TagList("tl", Tag("q")),
                    class_="c3",
                    hidden=True,
                    off=False,
                    none=None,
                    for_="f",
                    data_a_b_="z",
                    num=3.5,
                )
            ),
        )
        show(nm + " ws True", lambda: describe(fn("x", _add_ws=True)))
        show(nm + " ws False", lambda: describe(fn("x", _add_ws=False)))
        for bad in (None, 0, 1, "yes", 1.0, HTML("x"), [], ()):
            show(nm + " ws bad " + repr(bad), lambda: fn("x", _add_ws=bad))
        show(nm + " kw _name", lambda: fn(_name="zz"))
        show(nm + " kw name", lambda: describe(fn(name="zz", _name_="k")))
        show(
            nm + " kw helper-ish names",
            lambda: describe(
                fn(tag_name="t", add_ws="w", attrs="a", children_and_attrs="c", args="x", kwargs="y", value="v", name_="n")
            ),
        )
        show(nm + " kw self", lambda: fn(self="s"))
        show(nm + " bad child", lambda: fn(object))
        show(nm + " bad attr", lambda: fn(x=[1]))
        show(nm + " bad attr in dict", lambda: fn({"a": "1", "b": {2}}, "c"))
        show(nm + " bad ws + bad attr", lambda: fn(x=[1], _add_ws="no"))
        show(nm + " nested", lambda: str(fn(fn("in"), fn(fn()), "t", id="o")))


def run_toplevel():
    print("=== top level")
    print("htmltools.__all__", htmltools.__all__)
    for nm in tags.__all__:
        print(nm, getattr(htmltools, nm) is getattr(tags, nm))
    print("version", htmltools.__version__, htmltools.html_dependency_render_mode)
    print("svg is", htmltools.svg is svg, "tags is", htmltools.tags is tags)
    ns = {}
    exec("from htmltools import *", ns)
    print(sorted(k for k in ns if k != "__builtins__"))
    ns = {}
    exec("from htmltools.tags import *", ns)
    print(sorted(k for k in ns if k != "__builtins__"))
    ns = {}
    exec("from htmltools.svg import *", ns)
    print(sorted(k for k in ns if k != "__builtins__"))
    for nm in htmltools.__all__:
        o = getattr(htmltools, nm)
        print(nm, type(o).__name__, getattr(o, "__module__", None))


def run_tag_ctor():
    print("=== Tag constructor")
    show("Tag()", lambda: Tag())
    show("Tag('x')", lambda: describe(Tag("x")))
    show("Tag pos", lambda: describe(Tag("x", "a", {"k": "v"}, "b", {"k": "w"}, k="z")))
    show("Tag name non-str", lambda: describe(Tag(5, "a")))
    for bad in (None, 0, 1, "yes", 1.0, [], object()):
        show("Tag ws bad " + type(bad).__name__, lambda: Tag("x", _add_ws=bad))

    class Sub(Tag):
        log = []

        def __setattr__(self, k, v):
            Sub.log.append(k)
            object.__setattr__(self, k, v)

    Sub.log.clear()
    show("Sub ok", lambda: describe(Sub("s", "c", a="1")))
    print("Sub setattr order", Sub.log)
    Sub.log.clear()
    show("Sub bad ws", lambda: Sub("s", "c", a="1", _add_ws=None))
    print("Sub setattr order", Sub.log)
    Sub.log.clear()
    show("Sub bad attr", lambda: Sub("s", "c", a=[1]))
    print("Sub setattr order", Sub.log)
    Sub.log.clear()
    show("Sub bad child", lambda: Sub("s", object, a="1"))
    print("Sub setattr order", Sub.log)
    print("Tag annotations", sorted(Tag.__annotations__))
    print("Tag init sig", str(inspect.signature(Tag.__init__)))


def run_attrdict():
    print("=== TagAttrDict")

    class Loud(dict):
        log = []

        def items(self):
            Loud.log.append(("items", sorted(self)))
            return super().items()

    show("empty", lambda: TagAttrDict())
    show("kw only", lambda: TagAttrDict(a="1", b_=2, c_d=True, e=False, f=None))
    show("dict only", lambda: TagAttrDict({"a": "1"}, {"a": "2", "b": 1.5}))
    show("dict+kw merge", lambda: TagAttrDict({"class": "a"}, {"class_": "b"}, class_="c"))
    show("html merge 1", lambda: TagAttrDict({"class": "a<"}, {"class": HTML("b<")}))
    show("html merge 2", lambda: TagAttrDict({"class": HTML("a<")}, {"class": "b<'\"\n"}))
    show("html merge 3", lambda: TagAttrDict({"class": HTML("a<")}, {"class": HTML("b<")}))
    show("html merge 4", lambda: TagAttrDict({"x": "a&"}, {"x": HTML("b&")}, x="c&"))
    show("true merge", lambda: TagAttrDict({"x": True}, {"x": "v"}, x=True))
    show("name norm", lambda: TagAttrDict({"a__": 1, "_": 2, "__": 3, "": 4, "a_b_c": 5, "a-b_": 6}))
    show("kwargs arg literally named kwargs", lambda: TagAttrDict(kwargs="k", args="a", self_="s"))
    show("bad value", lambda: TagAttrDict({"a": "1"}, {"b": [1]}, c="2"))
    show("bad mapping", lambda: TagAttrDict({"a": "1"}, 5))
    show("bad mapping list", lambda: TagAttrDict([("a", "1")]))
    show("int key", lambda: TagAttrDict({1: "x"}))
    show("types", lambda: [type(v).__name__ for v in TagAttrDict({"a": HTML("x"), "b": 1, "c": True}).values()])
    Loud.log.clear()
    show("loud", lambda: TagAttrDict(Loud(a="1", b="2"), Loud(b="3"), z="9"))
    print(Loud.log)

    d = TagAttrDict(a="1")
    show("update ret", lambda: d.update({"a": "2", "b_": "x"}, {"b": "y"}, c=None, d=0))
    print(d, type(d).__name__)
    show("update empty", lambda: d.update())
    print(d)
    show("update empty dict", lambda: d.update({}))
    print(d)
    show("update bad half-way", lambda: d.update({"a": "3", "q": "new"}, {"zz": object()}))
    print(d)
    show("update bad mapping half-way", lambda: d.update({"a": "4"}, None))
    print(d)
    show("update replaces not merges with existing", lambda: d.update(a="5"))
    print(d)
    show("setitem", lambda: d.__setitem__("w_x_", 3))
    show("setitem none", lambda: d.__setitem__("nn", None))
    show("setitem false", lambda: d.__setitem__("a", False))
    show("setitem true", lambda: d.__setitem__("t_", True))
    show("setitem bad", lambda: d.__setitem__("bad", [1]))
    show("setitem bad name ok value", lambda: d.__setitem__(5, "v"))
    show("setitem bad name none value", lambda: d.__setitem__(5, None))
    print(d, list(d))

    class SubD(TagAttrDict):
        calls = []

        def __setitem__(self, k, v):
            SubD.calls.append(("set", k))
            super().__setitem__(k, v)

        def update(self, *a, **k):
            SubD.calls.append(("update", len(a), sorted(k)))
            super().update(*a, **k)

    s = SubD({"a": "1"}, b="2")
    s["c"] = "3"
    s.update(d="4")
    print(s, SubD.calls)
    show("norm name static", lambda: [TagAttrDict._normalize_attr_name(x) for x in ("a_", "_a", "a__", "_", "", "a_b")])
    show("norm value static", lambda: [TagAttrDict._normalize_attr_value(x) for x in (None, False, True, "s", 1, 2.0, HTML("h"))])
    show("norm value bad", lambda: TagAttrDict._normalize_attr_value([]))


if __name__ == "__main__":
    run_toplevel()
    run_module(tags)
    run_module(svg)
