# Probe for refactoring 5: TagAttrDict.__setitem__ / update / _normalize_attr_value control-flow and idiom rewrite.
import itertools
from collections import OrderedDict

from htmltools import HTML, Tag, consolidate_attrs, div, span
from htmltools._core import TagAttrDict


def show(label, fn):
    try:
        out = fn()
        print(label, "->", repr(out))
    except Exception as e:  # noqa: BLE001
        print(label, "-> EXC", type(e).__name__, str(e))


def items(d):
    return [(k, type(v).__name__, str(v)) for k, v in d.items()]


class S(str):
    pass


class H(HTML):
    pass


VALUES = [
    None, False, True, 0, 1, -3, 2.5, float("inf"), float("nan"), 10**30, "", " ", "a",
    "a b", "<&>\"'\n\r", S("sub<"), HTML(""), HTML("<b>&\"'"), H("h<"), 1 + 2j, b"b", [1],
    ("t",), {"d": 1}, object, div("x"),
]

# 1. single values through every entry point
for v in VALUES:
    lab = repr(v) if not isinstance(v, Tag) else "Tag"
    show(f"ctor-pos {lab}", lambda: items(TagAttrDict({"k_x_": v})))
    show(f"ctor-kw  {lab}", lambda: items(TagAttrDict(k_x_=v)))

    def setit():
        d = TagAttrDict(k_x="old", other="o")
        d["k_x_"] = v
        return items(d)

    show(f"setitem  {lab}", setit)

    def upd():
        d = TagAttrDict(k_x="old", other="o")
        d.update({"k-x": v})
        return items(d)

    show(f"update   {lab}", upd)
    show(f"render   {lab}", lambda: str(div({"k": v}, k="<kw>")))

# 2. all ordered pairs / some triples merged within one call
GOOD = [None, False, True, 0, 2.5, "", "p<q", S("s&"), HTML("<i>"), HTML(""), H("\"h\"")]
for a, b in itertools.product(GOOD, repeat=2):
    show(f"pair {a!r} {b!r}", lambda: items(TagAttrDict({"x": a}, {"x": b})))
for a, b, c in itertools.product([None, True, "p'<", HTML("&amp;"), 7], repeat=3):
    show(f"triple {a!r} {b!r} {c!r}", lambda: (items(TagAttrDict({"x_": a}, {"x": b}, x=c)), str(span({"x_": a}, {"x": b}, x=c))))

# 3. same normalised name twice inside ONE mapping, order of first appearance
show("one-map", lambda: items(TagAttrDict(OrderedDict([("a_b", "1"), ("z", "0"), ("a-b", "2"), ("a_b_", HTML("3<")), ("z_", None)]))))
show("order", lambda: items(TagAttrDict({"c": "1", "a": None}, {"b": "2", "a": "3"}, {"c": "4"}, a="5", d="6", c=False)))

# 4. update replaces (no append across calls), merges within the call; failure leaves dict untouched
d = TagAttrDict({"class": "a"}, class_="b", id="i")
print(items(d))
d.update({"class": "c"}, {"class": HTML("d&")}, id=None, title=True)
print(items(d))
d["class"] = "e"
d["id"] = False
d["gone"] = None
print(items(d))
show("bad value mid-update", lambda: d.update({"class": "zz", "n": 1}, {"m": [1]}))
print(items(d))
show("bad mapping", lambda: d.update({"class": "zz"}, ["not", "mapping"]))
print(items(d))
show("bad key", lambda: d.update({"q": "1", 5: "x"}))
print(items(d))
show("bad key dropped value", lambda: d.update({5: None, 6: False}))
print(items(d))
show("setitem bad key dropped", lambda: d.__setitem__(5, None))
show("setitem bad key", lambda: d.__setitem__(5, "x"))
show("setitem bad both", lambda: d.__setitem__(5, [1]))
print(items(d))
show("empty update", lambda: (d.update(), d.update({}), d.update({}, {}), items(d)))


# 5. subclass overriding the normalisers is still honoured by both paths
class Loud(TagAttrDict):
    @staticmethod
    def _normalize_attr_name(x):
        print("   name:", x)
        return TagAttrDict._normalize_attr_name(x).upper()

    @staticmethod
    def _normalize_attr_value(x):
        print("   value:", x)
        return TagAttrDict._normalize_attr_value(x)


ld = Loud({"a_b": "1", "c": None}, {"a-b": HTML("2")}, c_=True)
print(items(ld))
ld["d_e_"] = 5
ld["f"] = False
ld.update({"A-B": "x"}, a_b="y")
print(items(ld))
show("loud bad", lambda: Loud({1: [2]}))

# 6. through Tag / consolidate_attrs / add_class / add_style
t = div({"class": "a", "style": "x:1;"}, {"class": HTML("b&")}, class_="c")
print(items(t.attrs), str(t))
t.add_class("d<").add_class("e", prepend=True).add_style("y:2;", prepend=True).add_style(HTML("z:'3';"))
print(items(t.attrs), str(t))
show("consolidate", lambda: consolidate_attrs({"class": "a"}, "kid", {"class": HTML("<b>")}, class_="c\"", n=1))

# 7. extra: keyword-only / positional-only / empty-kwargs combinations and name clashes with kwargs
show("kw only", lambda: items(TagAttrDict(a="1", b=None, c_=True)))
show("pos only", lambda: items(TagAttrDict({"a": "1"}, {"a": "2"})))
show("empty pos + kw", lambda: items(TagAttrDict({}, {}, a="1")))
show("kw merges after pos", lambda: items(TagAttrDict({"a": "p1"}, {"a_": HTML("p2<")}, a="k<")))
show("self kw", lambda: items(TagAttrDict(**{"self": "s", "args": "a", "kwargs": "k"})))
show("TagAttrDict as arg", lambda: items(TagAttrDict(TagAttrDict(a="1"), TagAttrDict(a=HTML("2")), a="3")))
show("int subclass", lambda: items(TagAttrDict(a=__import__("enum").IntEnum("E", "X Y").Y, b=__import__("decimal").Decimal("1.5"))))
show("fractions", lambda: items(TagAttrDict(a=__import__("fractions").Fraction(1, 2))))
show("msg", lambda: TagAttrDict._normalize_attr_value(1j))
for v in [None, False, True, 0, 1, 0.0, -0.0, 1e100, "", "s", HTML("h"), S("s"), H("h")]:
    r = TagAttrDict._normalize_attr_value(v)
    print(repr(v), "=>", type(r).__name__, repr(r), r is v)
show("IntEnum", lambda: items(TagAttrDict({"a": __import__("enum").IntEnum("E", "X Y").Y}, a=True)))
