"""Probe for TagAttrDict.update (the merge used by add_class / add_style / Tag())."""
from htmltools import HTML, Tag, css, div, span
from htmltools._core import TagAttrDict


def show(label, fn):
    try:
        r = fn()
        print(label, "->", repr(r))
    except Exception as e:  # noqa: BLE001
        print(label, "!!", type(e).__name__, str(e))


def items(d):
    return [(k, type(v).__name__, str(v)) for k, v in d.items()]


def state(t):
    return (items(t.attrs), str(t))


class MyStr(str):
    pass


vals = [
    "a", "b c", "", " ", "<x>", "a&b", 'q"t', "it's", "l1\nl2", "r\r", "é",
    HTML("h"), HTML("<h>"), HTML("&amp;"), HTML(""), HTML('"'), MyStr("m<"),
    None, True, False, 0, 1, -2, 2.5, float("inf"),
]
bad_vals = [b"b", ["l"], ("t",), {"d": 1}, {1, }, object, 1 + 2j]

# pairwise merge of the same key given in two mappings, and in mapping + kwargs
for a in vals:
    for b in vals:
        show("update pair %r + %r" % (a, b), lambda: items(TagAttrDict({"class": a}, {"class": b})))
for a in vals:
    show("update single %r" % (a,), lambda: items(TagAttrDict({"k": a})))
    show("update kw-collide %r" % (a,), lambda: items(TagAttrDict({"class": a}, class_="kw")))
    show("update on existing %r" % (a,), lambda: (lambda d: (d.update({"class": a}), items(d))[1])(TagAttrDict(id="i", class_="old", z="z")))
for a in bad_vals:
    show("update bad first %r" % (a,), lambda: items(TagAttrDict({"class": a}, {"class": "x"})))
    show("update bad second %r" % (a,), lambda: items(TagAttrDict({"class": "x"}, {"class": a})))
    def partial():
        d = TagAttrDict(id="i")
        try:
            d.update({"a": "1"}, {"b": a})
        except Exception as e:  # noqa: BLE001
            return (type(e).__name__, items(d))
        return ("no error", items(d))
    show("update bad leaves dict untouched %r" % (a,), partial)

# three-way and longer merges, str/HTML in every position
trip = ["<p>", HTML("<h>"), "it's", HTML("'q'"), None, 5]
for a in trip:
    for b in trip:
        for c in trip:
            show("update triple %r %r %r" % (a, b, c), lambda: items(TagAttrDict({"s": a}, {"s": b}, s=c)))
show("update many", lambda: items(TagAttrDict(*[{"class": "c%d" % i} for i in range(6)])))
show("update many html mid", lambda: items(TagAttrDict({"c": "<1>"}, {"c": "<2>"}, {"c": HTML("<3>")}, {"c": "<4>"}, {"c": HTML("<5>")})))

# name normalisation and collisions between spellings
show("names", lambda: items(TagAttrDict({"class_": "a", "class": "b", "data_x": "1", "data-x": "2", "for_": "f", "_x": "u", "a__b_": "v", "_": "w", "": "e"})))
show("names across", lambda: items(TagAttrDict({"data_x": "1"}, {"data-x": "2"}, data_x="3")))
show("names same mapping order", lambda: items(TagAttrDict({"b": "1", "a": "2", "b_": "3", "c": "4", "a_": "5"})))
show("names mystr", lambda: items(TagAttrDict({MyStr("cl_ass_"): "a"}, {"cl-ass": "b"})))
for bk in [1, None, ("a",), b"a"]:
    show("bad key %r" % (bk,), lambda: items(TagAttrDict({bk: "v"})))
    show("bad key with None value %r" % (bk,), lambda: items(TagAttrDict({bk: None})))

# argument shapes
show("no args", lambda: items(TagAttrDict()))
show("empty mappings", lambda: items(TagAttrDict({}, {}, **{})))
show("kwargs only", lambda: items(TagAttrDict(class_="a", id="i")))
show("kwargs named kwargs", lambda: items(TagAttrDict({"kwargs": "x"}, kwargs="y", args="z")))
show("non-mapping arg", lambda: items(TagAttrDict([("a", "b")])))
show("none arg", lambda: items(TagAttrDict(None)))
show("update returns", lambda: TagAttrDict().update({"a": "b"}))
def upd_order():
    d = TagAttrDict(b="1", a="2")
    d.update({"c": "3", "a": "4"}, {"b": "5", "c": "6"})
    return items(d)
show("update keeps position of existing keys", upd_order)
def upd_none():
    d = TagAttrDict(a="1")
    d.update({"a": None}, {"a": False})
    return items(d)
show("update with only skipped values keeps old", upd_none)
def upd_replaces():
    d = TagAttrDict(a="old")
    d.update({"a": "n1"}, {"a": "n2"})
    return items(d)
show("update replaces (does not merge with stored value)", upd_replaces)
def setitem():
    d = TagAttrDict()
    d["class_"] = "a"
    d["class"] = "b"
    d["x"] = None
    d["y"] = True
    d["z"] = 3
    return items(d)
show("setitem", setitem)
show("setitem bad", lambda: TagAttrDict().__setitem__("a", []))

# the Tag-level helpers that go through update
for start in [None, "a", "a b", "", HTML("<h>"), HTML("")]:
    for v in ["n", "<n>", "it's", HTML("<m>"), HTML("'"), "", None, 7]:
        for pre in (False, True):
            def run():
                t = div(id="i") if start is None else div(id="i", class_=start)
                r = t.add_class(v, prepend=pre)
                return (r is t, state(t), t.has_class(v) if isinstance(v, str) else None)
            show("add_class start=%r v=%r prepend=%r" % (start, v, pre), run)
for start in [None, "a:1;", HTML("c:'<';"), ""]:
    for v in ["n:2;", "n:'<';", HTML("m:'<';"), ";", "bad", HTML("bad"), None, 7]:
        for pre in (False, True):
            def run():
                t = div() if start is None else div(style=start)
                r = t.add_style(v, prepend=pre)
                return (r is t, state(t))
            show("add_style start=%r v=%r prepend=%r" % (start, v, pre), run)
show("css->add_style", lambda: state(div(style="z:0;").add_style(css(font_size="1px", backgroundColor="red"), prepend=True)))
show("Tag ctor", lambda: state(span({"class": "a", "style": "s:1;"}, "kid", {"class": HTML("<b>")}, class_="c", style="t:2;", hidden=True, x=None)))
show("Tag ctor then helpers", lambda: state(div({"class": "a"}, class_="b").add_class("c").remove_class("a").add_style("x:1;").add_class(HTML("<d>"), prepend=True)))


# a subclass overriding the normalisers is still honoured
class Shouty(TagAttrDict):
    @staticmethod
    def _normalize_attr_name(x):
        return x.upper()

    @staticmethod
    def _normalize_attr_value(x):
        return None if x is None else HTML(str(x)) if x == "raw" else str(x) + "!"
show("subclass normalisers", lambda: items(Shouty({"a": "1", "A": "2", "b": None}, {"a": "raw"}, b=3)))
print("type", TagAttrDict.__mro__[1].__name__, isinstance(TagAttrDict(), dict))
