# Probe for Tag.get_html_string (empty / void / single-text / general forms, with and
# without metadata nodes among the children).
import itertools
from htmltools import HTML, HTMLDependency, Tag, TagList, div, span, tags
from htmltools._core import MetadataNode


class Meta(MetadataNode):
    pass


class Repr:
    def _repr_html_(self):
        return "<r>&</r>"


class Tagif:
    def tagify(self):
        return "x"


class LoudStr(str):
    def __str__(self):
        return "LOUD<" + str.__str__(self) + ">"


def dep(n="a", v="1.0"):
    return HTMLDependency(n, v)


def show(label, fn):
    try:
        r = fn()
        print(label, "->", type(r).__name__, repr(r))
    except Exception as e:  # noqa: BLE001
        print(label, "!!", type(e).__name__, str(e))


NAMES = ["div", "br", "img", "script", "style", "span", "p", "x-custom", "", "BR", "meta"]
KIDS = {
    "none": lambda: [],
    "txt": lambda: ["a<b & c"],
    "emptytxt": lambda: [""],
    "html": lambda: [HTML("<i>&</i>")],
    "loud": lambda: [LoudStr("q<r")],
    "num": lambda: [3.5],
    "two": lambda: ["a<", "b>"],
    "tag": lambda: [span("in")],
    "txt+tag": lambda: ["t", div("d")],
    "repr": lambda: [Repr()],
    "html+txt": lambda: [HTML("<u>"), "v&w"],
}


def with_meta(kids, mask):
    out = []
    for gap in range(len(kids) + 1):
        if mask >> gap & 1:
            out.append(Meta() if gap % 2 == 0 else dep("d%d" % gap))
        if gap < len(kids):
            out.append(kids[gap])
    return out


for name in NAMES:
    for kname, mk in KIDS.items():
        n = len(mk())
        for add_ws in (True, False):
            ref = None
            for mask in range(2 ** (n + 1)):
                t = Tag(name, *with_meta(mk(), mask), _add_ws=add_ws, id="i<\"", cls=HTML("&\""))
                try:
                    out = ("ok", t.get_html_string())
                except Exception as e:  # noqa: BLE001
                    out = ("err", type(e).__name__, str(e))
                if mask == 0:
                    ref = out
                    print(name, kname, add_ws, repr(out))
                elif out != ref:
                    print("MISMATCH", name, kname, add_ws, mask, repr(out))

# indent / eol variations
for name in ("div", "br", "script"):
    for kids in ([], [dep()], ["t"], [Meta(), "t", dep()], ["t", Meta(), span("s"), dep()],
                 [span("s", _add_ws=False), Meta()]):
        for indent, eol in itertools.product((0, 2), ("\n", "", "\r\n")):
            for add_ws in (True, False):
                t = Tag(name, *kids, _add_ws=add_ws)
                show(f"{name} {[type(k).__name__ for k in kids]} i={indent} eol={eol!r} ws={add_ws}",
                     lambda: t.get_html_string(indent, eol))

# nested metadata in deep trees
deep = div(dep("o"), div(Meta(), div(dep("i"), "leaf", Meta()), Meta()), tags.br(dep("b")),
           tags.input(Meta(), type="text"), tags.p(Meta(), HTML("<b>x</b>")), tags.p(dep("pp")))
show("deep", lambda: deep.get_html_string())
show("deep indent", lambda: deep.get_html_string(3, "\r\n"))
show("deep deps", lambda: deep.get_dependencies())
show("deep render", lambda: deep.render())
show("deep str", lambda: str(deep))

# errors and odd inputs
show("bad indent", lambda: div(Meta()).get_html_string("2"))
show("float indent", lambda: div("a").get_html_string(1.0))
show("bool indent", lambda: div("a", Meta(), span()).get_html_string(True))
show("eol int empty", lambda: div(Meta()).get_html_string(0, 7))
show("eol int single", lambda: div(Meta(), "x").get_html_string(0, 7))
show("eol int multi", lambda: div("x", Meta(), "y").get_html_string(0, 7))
show("eol int multi no ws", lambda: Tag("div", "x", Meta(), span(), _add_ws=False).get_html_string(0, 7))
show("untagified single", lambda: div(Meta(), Tagif()).get_html_string())
show("untagified in script", lambda: tags.script(Tagif(), dep()).get_html_string())

t = div("a")
t.name = 5
show("int name", lambda: t.get_html_string())
t = div("a", Meta())
t.children = ["a", Meta()]
show("list children single", lambda: t.get_html_string())
t.children = [Meta()]
show("list children empty", lambda: t.get_html_string())
t.children = ["a", "b", Meta()]
show("list children multi", lambda: t.get_html_string())
t = tags.br()
t.children = TagList(Meta(), dep())
show("br meta only", lambda: t.get_html_string(1))
t.children.append("x")
show("br with text", lambda: t.get_html_string(1))
t = div()
t.add_ws = 0
t.children = TagList("a", Meta(), span("b"))
show("falsy add_ws", lambda: t.get_html_string(1))
t.add_ws = "yes"
show("truthy add_ws", lambda: t.get_html_string(1))
