# Probe for refactoring 4: is_tag_node / is_tag_child
import collections
import collections.abc
import array
from htmltools import TagList, Tag, div, span, HTML, HTMLDependency, HTMLDocument
from htmltools import is_tag_node, is_tag_child
from htmltools._jsx import jsx_tag_create, JSXTag, jsx
from htmltools._core import MetadataNode, Tagifiable, ReprHtml

LOG = []


class Tagif:
    def tagify(self):
        return "x"


class Repr:
    def _repr_html_(self):
        return "r"


class Both:
    def tagify(self):
        return "x"

    def _repr_html_(self):
        return "r"


class TagifyAttrOnly:
    tagify = 5  # non-callable class attribute


class InstanceTagify:
    def __init__(self):
        self.tagify = lambda: "x"  # instance attribute only


class Spy:
    def __getattr__(self, name):
        LOG.append("Spy.__getattr__:" + name)
        raise AttributeError(name)


class SpyAll:
    def __getattribute__(self, name):
        LOG.append("SpyAll.__getattribute__:" + name)
        return object.__getattribute__(self, name)


class DynTagify:
    def __getattr__(self, name):
        LOG.append("DynTagify.__getattr__:" + name)
        if name == "tagify":
            return lambda: "x"
        raise AttributeError(name)


class Meta(MetadataNode):
    pass


class MyStr(str):
    pass


class MyInt(int):
    pass


class MyFloat(float):
    pass


class MyList(list):
    pass


class MyTL(TagList):
    pass


class MySeq(collections.abc.Sequence):
    def __getitem__(self, i):
        raise IndexError(i)

    def __len__(self):
        return 0


class Registered:
    pass


collections.abc.Sequence.register(Registered)


class DuckSeq:
    def __getitem__(self, i):
        raise IndexError(i)

    def __len__(self):
        return 0


class LyingClass:
    """__class__ property pretending to be a str."""

    @property
    def __class__(self):
        LOG.append("LyingClass.__class__")
        return str


class IntTagif(int):
    def tagify(self):
        return "x"


NT = collections.namedtuple("NT", "a b")
Foo = jsx_tag_create("Foo")

values = [
    ("str", "abc"), ("empty-str", ""), ("mystr", MyStr("s")), ("HTML", HTML("<b>")),
    ("tag", div("a")), ("taglist", TagList("a")), ("empty-taglist", TagList()), ("mytl", MyTL()),
    ("dep", HTMLDependency("d", "1.0")), ("meta", MetadataNode()), ("meta-sub", Meta()),
    ("doc", HTMLDocument("a")), ("jsxtag", Foo("a")), ("jsx", jsx("a")),
    ("tagif", Tagif()), ("repr", Repr()), ("both", Both()),
    ("tagify-attr", TagifyAttrOnly()), ("instance-tagify", InstanceTagify()),
    ("dyn-tagify", DynTagify()), ("spy", Spy()), ("spyall", SpyAll()), ("lying", LyingClass()),
    ("none", None), ("int", 1), ("zero", 0), ("bool", True), ("false", False), ("float", 1.5),
    ("nan", float("nan")), ("myint", MyInt(2)), ("myfloat", MyFloat(2.0)), ("int-tagif", IntTagif(1)),
    ("complex", 1j), ("list", [1]), ("empty-list", []), ("mylist", MyList()), ("tuple", (1,)),
    ("empty-tuple", ()), ("namedtuple", NT(1, 2)), ("range", range(3)), ("bytes", b"x"),
    ("bytearray", bytearray(b"x")), ("memoryview", memoryview(b"x")), ("array", array.array("i", [1])),
    ("deque", collections.deque([1])), ("userlist", collections.UserList([1])),
    ("userstring", collections.UserString("u")), ("myseq", MySeq()), ("registered", Registered()),
    ("duckseq", DuckSeq()), ("dict", {"a": 1}), ("empty-dict", {}), ("set", {1}), ("frozenset", frozenset()),
    ("generator", (i for i in [1])), ("iterator", iter([1])), ("dict-keys", {}.keys()),
    ("object", object()), ("type", int), ("class-Tag", Tag), ("class-TagList", TagList),
    ("class-Tagif", Tagif), ("class-Repr", Repr), ("class-HTML", HTML), ("function", len),
    ("lambda", lambda: 1), ("ellipsis", ...), ("notimplemented", NotImplemented),
    ("exception", ValueError("v")), ("module", collections), ("list-with-bad", [object()]),
    ("tag-function", div),
]

for name, v in values:
    LOG.clear()
    try:
        r = is_tag_node(v)
        out = (type(r).__name__, r)
    except BaseException as e:  # noqa
        out = ("!!", type(e).__name__, str(e))
    log_node = list(LOG)
    LOG.clear()
    try:
        r = is_tag_child(v)
        out2 = (type(r).__name__, r)
    except BaseException as e:  # noqa
        out2 = ("!!", type(e).__name__, str(e))
    print(name, "node:", out, log_node, "child:", out2, LOG)

# Consistency with what the operations accept: everything TagList() accepts is a tag
# child, and everything it stores is a tag node.
for name, v in values:
    try:
        tl = TagList(v)
        ok = True
    except TypeError as e:
        ok = False
    print(name, "accepted:", ok, "child:", is_tag_child(v),
          "stored-nodes:", all(is_tag_node(i) for i in tl) if ok else None,
          "implies:", (not ok) or is_tag_child(v))

# keyword / positional calling conventions
print(is_tag_node(x="a"), is_tag_child(x=None))
for fn in (is_tag_node, is_tag_child):
    try:
        fn()
    except TypeError as e:
        print(type(e).__name__, e)
    try:
        fn(1, 2)
    except TypeError as e:
        print(type(e).__name__, e)
