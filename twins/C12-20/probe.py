# Probe for refactoring 5: HTMLDependency.__init__ (normalisation / validation of
# source, script, stylesheet, meta, head) and what later URL / copy code sees.
import copy
import os
import shutil
import tempfile
from collections import OrderedDict, defaultdict

from packaging.version import Version

from htmltools import HTML, HTMLDependency, HTMLDocument, TagList, div, tags

ROOT = os.path.realpath(tempfile.mkdtemp(prefix="c12probe"))
SRC = os.path.join(ROOT, "src")
os.makedirs(os.path.join(SRC, "css"))
for f in ("a.js", "b.js", "css/c.css"):
    with open(os.path.join(SRC, f), "w") as fh:
        fh.write(f)


def scrub(s):
    return str(s).replace(ROOT, "<ROOT>")


def show(label, fn):
    try:
        print(label, "->", scrub(repr(fn())))
    except BaseException as e:  # noqa
        print(label, "raised", type(e).__name__)


def state(d):
    out = []
    for k, v in d.__dict__.items():
        if k == "head" and v is not None:
            v = (type(v).__name__, [type(c).__name__ for c in v], str(v))
        out.append((k, type(v).__name__, v if not hasattr(v, "__next__") else "<iterator>"))
    return out


def attempt(label, *args, **kwargs):
    """Run __init__ on a bare instance so the half-initialised state is visible on failure."""
    d = HTMLDependency.__new__(HTMLDependency)
    try:
        r = d.__init__(*args, **kwargs)
        print(label, "-> ok", r, scrub(state(d)))
    except BaseException as e:  # noqa
        print(label, "raised", type(e).__name__, scrub(state(d)))
    return d


class MyDict(dict):
    pass


def gen(*items):
    for i in items:
        yield i


src_ok = {"subdir": SRC}
cases = {
    "minimal": dict(),
    "all_none": dict(source=None, script=None, stylesheet=None, meta=None, head=None),
    "single_dicts": dict(source=src_ok, script={"src": "a.js"}, stylesheet={"href": "css/c.css"},
                         meta={"name": "n", "content": "c"}),
    "lists": dict(source=src_ok, script=[{"src": "a.js"}, {"src": "b.js", "defer": True}],
                  stylesheet=[{"href": "css/c.css", "rel": "preload"}, {"href": "x.css", "media": "print"}],
                  meta=[{"name": "n", "content": "c"}, {"name": "o", "content": "d", "x": "y"}]),
    "empty_lists": dict(script=[], stylesheet=[], meta=[]),
    "empty_dicts": dict(script={}, stylesheet={}, meta={}),
    "tuples": dict(script=({"src": "a.js"},), stylesheet=({"href": "c.css"},), meta=({"name": "n", "content": "c"},)),
    "generators": dict(script=gen({"src": "a.js"}), stylesheet=gen({"href": "c.css"}), meta=gen()),
    "dict_subclasses": dict(script=MyDict(src="a.js"), stylesheet=OrderedDict(href="c.css"),
                            meta=defaultdict(str, name="n", content="c")),
    "list_of_subclasses": dict(script=[MyDict(src="a.js")], stylesheet=[defaultdict(str, href="c.css")]),
    "script_missing_src": dict(script={"href": "a.js"}),
    "script_second_missing": dict(script=[{"src": "a.js"}, {"nosrc": 1}], stylesheet={"href": "c.css"}),
    "script_not_dict": dict(script=["a.js"]),
    "script_str": dict(script="a.js"),
    "script_int": dict(script=5),
    "script_list_none": dict(script=[None]),
    "script_nested_list": dict(script=[[{"src": "a.js"}]]),
    "sheet_missing_href": dict(script={"src": "a.js"}, stylesheet={"src": "c.css"}),
    "sheet_not_dict": dict(script={"src": "a.js"}, stylesheet=[{"href": "ok.css"}, "c.css"]),
    "sheet_false": dict(stylesheet=False),
    "sheet_zero": dict(stylesheet=0),
    "sheet_emptystr": dict(stylesheet=""),
    "meta_missing_content": dict(script={"src": "a.js"}, stylesheet={"href": "c.css"}, meta={"name": "n"}),
    "meta_missing_name": dict(stylesheet=[{"href": "c.css"}, {"href": "d.css", "rel": "x"}], meta=[{"name": "n", "content": "c"}, {"content": "c"}]),
    "meta_not_dict": dict(stylesheet={"href": "c.css"}, meta=[("name", "content")]),
    "source_href": dict(source={"href": "https://x.org"}),
    "source_both": dict(source={"href": "https://x.org", "subdir": SRC, "package": None}),
    "source_pkg_only": dict(source={"package": "htmltools"}),
    "source_empty": dict(source={}),
    "source_str": dict(source=SRC),
    "source_list": dict(source=["subdir"]),
    "source_tuple_pairs": dict(source=(("subdir", SRC),)),
    "source_subclass": dict(source=MyDict(subdir=SRC)),
    "source_false": dict(source=False),
    "source_bad_and_script_bad": dict(source={}, script="x"),
    "all_files_true": dict(source=src_ok, all_files=True),
    "all_files_odd": dict(source=src_ok, all_files="yes"),
    "head_str": dict(head="<title>t</title>"),
    "head_empty_str": dict(head=""),
    "head_html": dict(head=HTML("<b>")),
    "head_tag": dict(head=tags.title("t")),
    "head_taglist": dict(head=TagList("a", tags.b("b"))),
    "head_list": dict(head=[tags.i("i"), "s<", None, 3]),
    "head_int": dict(head=7),
    "head_dict": dict(head={"a": 1}),
    "head_strsubclass": dict(head=type("S", (str,), {})("<sub>")),
    "head_dep": dict(head=HTMLDependency("inner", "1")),
}
for label, kw in cases.items():
    attempt("init " + label, "n", "1.2.3", **kw)

# name / version handling and positional use
attempt("version obj", "n", Version("2.0"))
attempt("version bad str", "n", "not a version", script="bad")
attempt("version int", "n", 3, script={"nosrc": 1})
attempt("version none", "n", None)
attempt("name int", 5, "1")
attempt("no version")
attempt("positional source", "n", "1", {"subdir": SRC})
attempt("unknown kw", "n", "1", bogus=1)

# the caller's own objects: what is kept, what is wrapped, what is mutated and when
scripts = [{"src": "a.js"}]
one_sheet = {"href": "css/c.css"}
metas = [{"name": "n", "content": "c"}]
d = HTMLDependency("n", "1", source=src_ok, script=scripts, stylesheet=one_sheet, meta=metas)
print(d.script is scripts, d.stylesheet[0] is one_sheet, d.meta is metas, d.source is src_ok, one_sheet)
sheets = [{"href": "1.css"}, {"href": "2.css", "rel": "alternate"}]
attempt("rel mutation before meta failure", "n", "1", stylesheet=sheets, meta={"name": "only"})
print("caller's sheets", sheets)
sheets = [{"href": "1.css"}, {"nohref": "2.css"}]
attempt("no rel mutation when sheet invalid", "n", "1", stylesheet=sheets)
print("caller's sheets", sheets)
sheets = [{"href": "1.css"}]
attempt("no rel mutation when script invalid", "n", "1", script=[{}], stylesheet=sheets)
print("caller's sheets", sheets)

# equality / copies / rendering / copying of what was constructed
x = HTMLDependency("n", "1", source=src_ok, script={"src": "a.js"}, stylesheet={"href": "css/c.css"}, head="<x>")
y = HTMLDependency("n", "1", source=dict(src_ok), script=[{"src": "a.js"}], stylesheet=[{"href": "css/c.css", "rel": "stylesheet"}], head=HTML("<x>"))
z = HTMLDependency("n", "1", source=src_ok, script=({"src": "a.js"},), stylesheet={"href": "css/c.css"}, head="<x>")
print(x == y, x == z, x != y, x == copy.copy(x), x == copy.deepcopy(x), x == "n", repr(x), str(x))
show("json", lambda: str(x.serialize_to_script_json()))
show("json indent", lambda: str(z.serialize_to_script_json(indent=1)))
for label in ("single_dicts", "lists", "tuples", "dict_subclasses", "source_href", "head_list", "all_files_true"):
    dep = HTMLDependency("n", "1.2.3", **{k: (copy.deepcopy(v) if k != "head" else v) for k, v in cases[label].items()})
    for pre in ("lib", None):
        for iv in (True, False):
            show("as_dict %s %r %s" % (label, pre, iv), lambda: dep.as_dict(lib_prefix=pre, include_version=iv))
    show("tags " + label, lambda: str(dep.as_html_tags()))
    out = os.path.join(ROOT, "out_" + label)
    show("copy_to " + label, lambda: dep.copy_to(out))
    if os.path.exists(out):
        for base, dirs, files in os.walk(out):
            dirs.sort()
            print("   ", os.path.relpath(base, out), sorted(files))
    show("save " + label, lambda: div(dep).save_html(os.path.join(ROOT, "save_" + label + ".html"), libdir="L_" + label))
    fn = os.path.join(ROOT, "save_" + label + ".html")
    if os.path.exists(fn):
        print(open(fn).read())
shutil.rmtree(ROOT)
