import decimal
import fractions

from htmltools import HTML, div, span, tags, css
from htmltools._core import TagAttrDict


def show(label, f):
    try:
        r = f()
        print(label, "->", type(r).__name__, repr(r))
    except BaseException as e:  # noqa
        # exception type only (the text of an AttributeError names the str method used)
        msg = str(e) if isinstance(e, (TypeError, ValueError)) and "attribute" in str(e) and "Invalid type" in str(e) else ""
        print(label, "-> EXC", type(e).__name__, msg)


def dump(d):
    return [(type(k).__name__, str(k), type(v).__name__, str(v)) for k, v in d.items()]


class S(str):
    pass


class MyInt(int):
    pass


class MyFloat(float):
    def __str__(self):
        return "myfloat"


class Strish:
    def __str__(self):
        return "strish"

    def __repr__(self):
        return "Strish()"


names = ["class", "class_", "_class", "class__", "_", "__", "", "a_b_c", "a_b_c_", "data_foo_Bar_", "a-b", "a-b_",
         "-", "_-_", "é_", "a b_", S("sub_x_"), S("plain"), HTML("h_t_"), HTML("_"), b"by_", 5, None, ("a_",), 1.5]
for n in names:
    show(f"name {n!r}", lambda n=n: (lambda r: (type(r).__name__, str(r)))(TagAttrDict._normalize_attr_name(n)))

vals = [None, False, True, "", "x", " ", "<&>", S("sub"), HTML("<h>"), HTML(""), 0, 1, -1, 10**30, 0.0, -0.0, 1.5, 1e100,
        float("inf"), float("nan"), MyInt(7), MyFloat(2.5), 1j, b"b", [], ["a"], (), {}, {"a": 1}, set(), object, Strish(),
        decimal.Decimal("1.5"), fractions.Fraction(1, 3), range(2), len, type(None), NotImplemented, Ellipsis]
for v in vals:
    def norm(v=v):
        r = TagAttrDict._normalize_attr_value(v)
        return (type(r).__name__, r if r is None else str(r), r is v)
    show(f"value {type(v).__name__}:{v!r}", norm)

# instance access to the static methods
d0 = TagAttrDict()
show("inst name", lambda: d0._normalize_attr_name("x_y_"))
show("inst value", lambda: d0._normalize_attr_value(3))


# __setitem__
def setitem(pairs, initial=None):
    d = TagAttrDict(initial or {})
    out = []
    for k, v in pairs:
        try:
            d[k] = v
            out.append("ok")
        except BaseException as e:  # noqa
            out.append(type(e).__name__)
    return (out, dump(d))


show("setitem basic", lambda: setitem([("class_", "a"), ("data_x", 1), ("hidden", True), ("z", 2.5)]))
show("setitem overwrite (no merge)", lambda: setitem([("class", "a"), ("class_", "b"), ("class", HTML("<c>"))]))
show("setitem none/false skip", lambda: setitem([("a", None), ("b", False), ("c", "x")], {"a": "keep", "b": "keep"}))
show("setitem none with bad key", lambda: setitem([(5, None), (None, False), (5, "x"), (None, True)]))
show("setitem bad value good key", lambda: setitem([("a", [1]), ("b", object()), ("c", 1j)], {"a": "keep"}))
show("setitem bad value bad key", lambda: setitem([(5, [1])]))
show("setitem html key", lambda: setitem([(HTML("k_k_"), "v")]))
show("setitem bytes key", lambda: setitem([(b"k_", "v")]))
show("setitem order kept", lambda: setitem([("b", "2")], {"a": "1", "b": "x", "c": "3"}))


# update / constructor / Tag paths
def upd(*a, **k):
    d = TagAttrDict()
    d.update(*a, **k)
    return dump(d)


show("update names", lambda: upd({"data_a_": 1, "aria_label": "l", "for_": "f", "_x": "y", "a__": "z"}))
show("update kw", lambda: upd(class_="c", http_equiv="h", accept_charset_="u", **{"_": "u", "__": "uu"}))
show("update values", lambda: upd({"a": None, "b": False, "c": True, "d": 0, "e": 0.5, "f": "", "g": HTML("<g>"), "h": MyInt(3)}))
show("update merge bools", lambda: upd({"a": True}, {"a": True}, {"a": False}, {"a": 1}, {"a": 0.5}))
show("update bad", lambda: upd({"a": "1"}, {"b": ["x"]}))
show("update bad key", lambda: upd({"a": "1"}, {7: "x"}))
show("update bad key none val", lambda: upd({"a": "1"}, {7: None}))
show("tag attrs", lambda: str(div(class_="a", data_x_y=1, hidden=True, disabled=False, title=None, tabindex=0, for_="f", _=1)))
show("tag bad attr", lambda: div(class_=["a"]))
show("tag dict attrs", lambda: str(span({"data_k_": "v", "class": "a"}, {"class_": "b"}, class_="c")))
show("attrs setitem on tag", lambda: (lambda t: (t.attrs.__setitem__("class_", "k"), t.add_class("m"), t.add_style("s:1;"), str(t)))(div())[-1])
show("class algebra", lambda: (lambda t: [t.add_class("b").has_class("b"), t.remove_class("a").has_class("a"), str(t), str(t.add_style(css(font_size="1px")))])(div(class_="a")))
show("add_class number", lambda: str(div().add_class(5)))
show("add_class bad", lambda: div().add_class(["a"]))
show("add_style number", lambda: str(div().add_style(5)))
