"""Probe for refactoring 1: _resolve_dependencies (dedup / ordering of dependencies)."""
from htmltools import HTMLDependency, HTMLDocument, TagList, div, head_content, span, tags
from htmltools._core import _resolve_dependencies
from packaging.version import Version


def dep(name, version, **kw):
    return HTMLDependency(name, version, **kw)


def show(label, fn):
    try:
        res = fn()
    except BaseException as e:  # noqa: BLE001
        print(label, "-> EXC", type(e).__name__, str(e)[:80])
    else:
        print(label, "->", repr(res))


KNOWN = []  # objects we keep alive; identity is reported as index in this list


def ident(d):
    for i, k in enumerate(KNOWN):
        if k is d:
            return i
    return "copy"


def ids(deps):
    return [(d.name, str(d.version), ident(d)) for d in deps]


a1 = dep("a", "1.0")
a2 = dep("a", "2.0")
a2b = dep("a", "2.0", script={"src": "other.js"})
a110 = dep("a", "1.10")
a19 = dep("a", "1.9")
b1 = dep("b", "1.0")
b01 = dep("b", "0.1")
c1 = dep("c", Version("3.1.4"))
e = dep("", "0")
KNOWN.extend([a1, a2, a2b, a110, a19, b1, b01, c1, e])

cases = {
    "empty": [],
    "single": [a1],
    "same-twice": [a1, a1],
    "up": [a1, a2],
    "down": [a2, a1],
    "equal-keeps-first": [a2, a2b],
    "equal-keeps-first-rev": [a2b, a2],
    "numeric-not-lexical": [a19, a110],
    "numeric-not-lexical-rev": [a110, a19],
    "interleaved": [b1, a1, c1, a2, b01, a1, e, c1],
    "interleaved2": [c1, b01, a110, b1, a19, a2, e, e],
    "order-is-first-occurrence": [b1, a1, a2, b1, c1],
}
for label, lst in cases.items():
    before = list(lst)
    show("resolve " + label, lambda: ids(_resolve_dependencies(lst)))
    print("   input untouched:", lst == before and all(x is y for x, y in zip(lst, before)))

# Result is always a fresh list
x = [a1]
print("fresh list (single):", _resolve_dependencies(x) is not x)
x = []
r = _resolve_dependencies(x)
print("fresh list (empty):", r is not x, type(r).__name__)
r.append(1)
print("empty input not aliased:", x)

# Error behaviour
show("None in list", lambda: _resolve_dependencies([a1, None]))
show("non-dep in list", lambda: _resolve_dependencies(["a"]))


class Weird:
    def __init__(self, name, version):
        self.name = name
        self.version = version


show("unhashable name", lambda: _resolve_dependencies([Weird([], 1)]))
show("incomparable versions", lambda: ids(_resolve_dependencies([Weird("w", 1), Weird("w", "x")])))
show("comparable duck versions", lambda: ids(_resolve_dependencies([Weird("w", 1), Weird("w", 3), Weird("w", 2)])))
show("str vs Version", lambda: ids(_resolve_dependencies([Weird("a", "1"), a1])))

# Through the public API
tree = div(
    a1,
    span(b1, a2, head_content(tags.title("t"))),
    TagList(c1, a1, head_content(tags.title("t")), head_content(tags.title("u"))),
    b01,
)
show("tree deps dedup", lambda: ids(tree.get_dependencies()))
show("tree deps nodedup", lambda: ids(tree.get_dependencies(dedup=False)))
show("children deps", lambda: ids(tree.children.get_dependencies()))
show("render deps", lambda: ids(tree.render()["dependencies"]))
show("render html", lambda: tree.render()["html"])
show("empty div deps", lambda: div().get_dependencies())
show("empty taglist deps", lambda: TagList().get_dependencies())
show("empty taglist render", lambda: TagList().render())
show("doc", lambda: HTMLDocument(tree).render()["html"])
show("doc deps", lambda: ids(HTMLDocument(tree).render()["dependencies"]))
show("doc empty", lambda: HTMLDocument().render())
# history independence: run again
show("doc again", lambda: HTMLDocument(tree).render()["html"])
