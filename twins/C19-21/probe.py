"""Probe for property C19: every tag function creates its own element with the
documented default.  Prints deterministic results only (no ids, no addresses)."""

from __future__ import annotations

import hashlib
import inspect
from collections import OrderedDict

import htmltools
from htmltools import HTML, Tag, TagList, svg, tags


def show(label, thunk):
    try:
        res = thunk()
    except BaseException as e:  # noqa: BLE001
        print(label, "->", "EXC", type(e).__name__, str(e))
    else:
        print(label, "->", repr(res))


def describe(t):
    if not isinstance(t, Tag):
        return ("NOT-A-TAG", type(t).__name__, repr(t))
    return (
        type(t).__name__,
        t.name,
        t.add_ws,
        [(k, type(v).__name__, str(v)) for k, v in t.attrs.items()],
        [(type(c).__name__, str(c)) for c in t.children],
        str(t),
    )


def public_functions(mod):
    out = []
    for name in sorted(vars(mod)):
        if name.startswith("_"):
            continue
        obj = vars(mod)[name]
        if inspect.isfunction(obj) and obj.__module__ == mod.__name__:
            out.append((name, obj))
    return out


class DictSub(dict):
    pass


class Weird:
    def __repr__(self):
        return "Weird()"


BAD_ADD_WS = [0, 1, None, "True", "", 1.0, [], (), b"x", Weird()]

# ---------------------------------------------------------------- section 1
print("== 1. every exported tag function ==")
for mod in (tags, svg):
    fns = public_functions(mod)
    print(mod.__name__, "count", len(fns))
    for name, fn in fns:
        print(
            mod.__name__,
            name,
            fn.__name__,
            fn.__qualname__,
            fn.__module__,
            str(inspect.signature(fn)),
            fn.__defaults__,
            fn.__kwdefaults__,
            sorted(fn.__annotations__.items()),
            hashlib.sha1((fn.__doc__ or "").encode()).hexdigest()[:12],
        )
        show(f"  {name}()", lambda: describe(fn()))
        show(
            f"  {name}(mixed)",
            lambda: describe(
                fn(
                    "txt",
                    {"class": "a", "data_x": 1},
                    fn("inner", id="i"),
                    None,
                    [1, 2.5, ["n", None]],
                    DictSub(class_="b"),
                    HTML("<b>&</b>"),
                    id="x",
                    class_="c",
                    hidden=True,
                    skipped=None,
                    off=False,
                    width=3,
                )
            ),
        )
        show(f"  {name}(_add_ws=True)", lambda: describe(fn("k", _add_ws=True)))
        show(f"  {name}(_add_ws=False)", lambda: describe(fn("k", _add_ws=False)))
        show(f"  {name}(_add_ws=1)", lambda: describe(fn("k", _add_ws=1)))
        show(f"  {name}(_add_ws=None)", lambda: describe(fn("k", _add_ws=None)))
        show(f"  {name}(_name=)", lambda: describe(fn("k", _name="zzz")))
        show(
            f"  {name}(nested render)",
            lambda: str(tags.div(fn("a", fn("b")), "t", fn(), tags.span("s"))),
        )

# ---------------------------------------------------------------- section 2
print("== 2. non-boolean _add_ws on a spread of functions ==")
sample = [tags.div, tags.span, tags.pre, tags.a, tags.script, svg.a, svg.svg, svg.text, svg.circle]
for fn in sample:
    for bad in BAD_ADD_WS:
        show(f"{fn.__module__}.{fn.__name__}(_add_ws={bad!r})", lambda: describe(fn("c", _add_ws=bad)))
    # error precedence: bad _add_ws vs bad attribute vs bad child
    show(f"{fn.__name__} bad ws + bad attr", lambda: describe(fn(id=Weird(), _add_ws="no")))
    show(f"{fn.__name__} bad ws + bad child", lambda: describe(fn(Weird(), _add_ws="no")))
    show(f"{fn.__name__} bad attr + bad child", lambda: describe(fn(Weird(), id=Weird())))
    show(f"{fn.__name__} bad attr dict + bad child", lambda: describe(fn(Weird(), {"k": Weird()})))
    show(f"{fn.__name__} bad child only", lambda: describe(fn("ok", Weird())))
    show(f"{fn.__name__} bad attr only", lambda: describe(fn("ok", k=[1])))
    show(f"{fn.__name__} positional name?", lambda: describe(fn("_name", "b")))
    show(f"{fn.__name__} _add_ws positional?", lambda: describe(fn(True, False)))

# ---------------------------------------------------------------- section 3
print("== 3. Tag constructor directly (what the functions must match) ==")
ctor_cases = {
    "empty": lambda: Tag("x"),
    "default add_ws": lambda: Tag("x").add_ws,
    "children only": lambda: Tag("x", "a", "b", 1, 2.0, None),
    "dicts interleaved": lambda: Tag("x", {"a": "1"}, "c1", {"a": "2", "b": True}, "c2", {"c": None}),
    "dict subclass": lambda: Tag("x", DictSub(a=1), OrderedDict([("z", "1"), ("y", "2")])),
    "empty dict": lambda: Tag("x", {}, "c"),
    "kwargs after dicts": lambda: Tag("x", {"class": "a"}, class_="b", _add_ws=False),
    "html attrs": lambda: Tag("x", {"class": HTML("<a>")}, class_="b&"),
    "nested lists": lambda: Tag("x", ["a", ["b", ("c", [None, "d"])]], TagList("e", "f")),
    "tuple of dicts is child": lambda: Tag("x", ({"a": "1"},)),
    "list of dicts is child": lambda: Tag("x", [{"a": "1"}]),
    "bool child": lambda: Tag("x", True),
    "bytes child": lambda: Tag("x", b"a"),
    "weird child": lambda: Tag("x", Weird()),
    "weird attr": lambda: Tag("x", a=Weird()),
    "weird attr in dict": lambda: Tag("x", {"a": Weird()}),
    "non-str key": lambda: Tag("x", {1: "a"}),
    "add_ws=0": lambda: Tag("x", _add_ws=0),
    "add_ws=None": lambda: Tag("x", _add_ws=None),
    "add_ws='a' with bad attr": lambda: Tag("x", a=Weird(), _add_ws="a"),
    "no name": lambda: Tag(),
    "name kw": lambda: Tag(_name="q"),
    "name twice": lambda: Tag("a", _name="q"),
    "name not str": lambda: Tag(5, "c"),
    "tag child": lambda: Tag("x", Tag("y", "z", _add_ws=False), Tag("w")),
    "generator child": lambda: Tag("x", (c for c in "ab")),
    "attr name normalisation": lambda: Tag("x", for_="a", data_foo_bar="b", _private="c", class__="d"),
    "same dict twice": (lambda d: (lambda: Tag("x", d, d)))({"class": "k"}),
}
for label, thunk in ctor_cases.items():
    show(label, lambda: describe(thunk()) if isinstance(thunk(), Tag) else thunk())

print("instance dict keys:", sorted(vars(Tag("x", "y", a="b"))))
print("instance dict order:", list(vars(Tag("x", "y", {"k": "v"}, a="b"))))
print("prev_displayhook:", Tag("x").prev_displayhook)


class Partial(Tag):
    """Reports how far Tag.__init__ got before raising."""

    def __init__(self, *args, **kwargs):
        try:
            super().__init__(*args, **kwargs)
            self.failed = None
        except Exception as e:  # noqa: BLE001
            self.failed = (type(e).__name__, str(e), list(vars(self)))


for label, thunk in {
    "partial ok": lambda: Partial("x", "c", a="1"),
    "partial bad ws": lambda: Partial("x", "c", a="1", _add_ws=2),
    "partial bad attr": lambda: Partial("x", Weird(), a=Weird()),
    "partial bad attr dict": lambda: Partial("x", Weird(), {"a": Weird()}, "c"),
    "partial bad child": lambda: Partial("x", {"a": "1"}, Weird(), b="2"),
}.items():
    show(label, lambda: (thunk().failed, list(vars(thunk()))))


class Spy(dict):
    """dict subclass that logs how the constructor consumes it."""

    log: list = []

    def items(self):
        Spy.log.append(("items", sorted(dict.keys(self))))
        return dict.items(self)

    def keys(self):
        Spy.log.append(("keys",))
        return dict.keys(self)

    def __iter__(self):
        Spy.log.append(("iter",))
        return dict.__iter__(self)

    def __getitem__(self, k):
        Spy.log.append(("getitem", k))
        return dict.__getitem__(self, k)


class SpyChild:
    def __init__(self, label):
        self.label = label

    def tagify(self):
        Spy.log.append(("tagify", self.label))
        return self.label


for fn in (Tag, ):
    Spy.log = []
    t = fn("x", Spy(a="1"), SpyChild("c1"), Spy(b="2", a="3"), SpyChild("c2"), z="9")
    print("spy ctor:", describe(t)[:4], [type(c).__name__ for c in t.children], Spy.log)
for fn in (tags.div, tags.span, svg.svg, svg.rect):
    Spy.log = []
    t = fn(Spy(a="1"), SpyChild("c1"), Spy(b="2", a="3"), SpyChild("c2"), z="9")
    print("spy fn:", fn.__name__, describe(t)[:4], [type(c).__name__ for c in t.children], Spy.log)
d_in = {"class": "orig"}
kids_in = ["a", ["b"]]
t = Tag("x", d_in, kids_in, id="1")
t.attrs["class"] = "changed"
t.children.append("more")
print("inputs untouched:", d_in, kids_in)

# ---------------------------------------------------------------- section 4
print("== 4. functions agree with the Tag constructor ==")
ARGSETS = [
    ((), {}),
    (("a", {"k": "v"}, None, [1, [2]]), {"id": "i", "class_": "c"}),
    (({"class": "a"}, {"class": "b"}), {"class_": "c"}),
    ((HTML("<i>"), tags.span("s"), svg.g()), {"data_x": 1.5, "hidden": True, "no": False}),
]
mismatch = 0
for mod in (tags, svg):
    for name, fn in public_functions(mod):
        default = fn.__kwdefaults__["_add_ws"]
        for a, k in ARGSETS:
            got = fn(*a, **k)
            want = Tag(name, *a, _add_ws=default, **k)
            if describe(got) != describe(want) or got != want:
                mismatch += 1
                print("MISMATCH", mod.__name__, name, a, k)
            for ws in (True, False):
                got = fn(*a, _add_ws=ws, **k)
                want = Tag(name, *a, _add_ws=ws, **k)
                if describe(got) != describe(want) or got != want:
                    mismatch += 1
                    print("MISMATCH", mod.__name__, name, a, k, ws)
print("mismatches:", mismatch)
print("inline tags.py:", [n for n, f in public_functions(tags) if f.__kwdefaults__["_add_ws"] is False])
print("inline svg.py:", [n for n, f in public_functions(svg) if f.__kwdefaults__["_add_ws"] is False])
print("distinct results:", tags.div() is not tags.div(), tags.div().attrs is not tags.div().attrs)

# ---------------------------------------------------------------- section 5
print("== 5. top-level re-exports ==")
print("__all__ type:", type(htmltools.__all__).__name__, len(htmltools.__all__))
print("__all__:", htmltools.__all__)
print("tags.__all__:", tags.__all__)
print("svg has __all__:", hasattr(svg, "__all__"))
print("public names:", sorted(n for n in vars(htmltools) if not n.startswith("__")))
for n in htmltools.__all__:
    obj = getattr(htmltools, n)
    same_tags = getattr(tags, n, None) is obj
    print(" ", n, type(obj).__name__, getattr(obj, "__module__", None), "is tags.<n>:", same_tags)
for n in tags.__all__:
    print(" shortcut", n, getattr(htmltools, n) is getattr(tags, n), describe(getattr(htmltools, n)("c", id="i")))
ns: dict = {}
exec("from htmltools import *", ns)
print("star import:", sorted(k for k in ns if k != "__builtins__"))
ns = {}
exec("from htmltools.tags import *", ns)
print("star import tags:", sorted(k for k in ns if k != "__builtins__"))
ns = {}
exec("from htmltools.svg import *", ns)
print("star import svg:", sorted(k for k in ns if k != "__builtins__"))
print("tags public non-function names:", sorted(n for n in vars(tags) if not n.startswith("_") and not inspect.isfunction(vars(tags)[n])))
print("svg public non-function names:", sorted(n for n in vars(svg) if not n.startswith("_") and not inspect.isfunction(vars(svg)[n])))
print("isinstance TagFunction:", isinstance(tags.div, htmltools.TagFunction), isinstance(svg.a, htmltools.TagFunction))
print("version:", htmltools.__version__, htmltools.html_dependency_render_mode)
