from htmltools import (
    HTML,
    HTMLDependency,
    HTMLDocument,
    HTMLTextDocument,
    Tag,
    TagList,
    div,
    head_content,
    span,
    tags,
)


def show(label, fn):
    try:
        out = fn()
        print(label, "->", repr(out))
    except Exception as e:  # noqa: BLE001
        print(label, "-> EXC", type(e).__name__, str(e)[:160])


def rend(doc, **kw):
    r = doc.render(**kw)
    return (r["html"], [(d.name, str(d.version)) for d in r["dependencies"]])


class Widget:
    """Tagifiable object."""

    def tagify(self):
        return span("widget", head_content(tags.style("w{}")))


a1 = HTMLDependency(
    "a",
    "1.0",
    source={"subdir": "libs/a"},
    script=[{"src": "a.js", "defer": ""}, {"src": "sub dir/b.js"}],
    stylesheet={"href": "a.css"},
    meta={"name": "viewport", "content": "width=device-width"},
)
a2 = HTMLDependency("a", "2.0", source={"href": "https://cdn.example/a"}, script={"src": "a.min.js"})
b = HTMLDependency("b", "0.1", head="<!-- raw head text & -->")
c = HTMLDependency("c", "3", head=TagList(tags.link(rel="icon", href="x.ico"), "text<>"))
hc_t = head_content(tags.title("T & <T>"))
hc_t2 = head_content(tags.title("T & <T>"))
hc_s = head_content(tags.script(HTML("if (a < b) {}")), tags.meta(name="x", content="y"))
hc_empty = head_content()

docs = {
    "nodeps": lambda: HTMLDocument(div("hello")),
    "empty": lambda: HTMLDocument(),
    "one": lambda: HTMLDocument(div("x", a1)),
    "dups": lambda: HTMLDocument(div(a1, hc_t, span(a2, hc_t2, b), c, hc_s, hc_empty, hc_t)),
    "taglist": lambda: HTMLDocument(TagList(b, "txt", c, div(hc_s))),
    "body": lambda: HTMLDocument(tags.body(div(a1), hc_t, class_="bd"), lang="en"),
    "html-with-head": lambda: HTMLDocument(
        tags.html(a2, tags.head(tags.title("orig"), b), tags.body(hc_t, "B")), lang="fr"
    ),
    "html-no-head": lambda: HTMLDocument(tags.html(tags.body(c, hc_s))),
    "html-two-heads": lambda: HTMLDocument(tags.html(tags.head("h1"), tags.head("h2", a1), tags.body())),
    "tagifiable": lambda: HTMLDocument(div(Widget(), Widget(), a1)),
}

for name, mk in docs.items():
    show("doc:" + name, lambda: rend(mk()))
    show("doc:" + name + ":noprefix", lambda: rend(mk(), lib_prefix=None))
    show("doc:" + name + ":emptyprefix-nover", lambda: rend(mk(), lib_prefix="", include_version=False))
    show("doc:" + name + ":deepprefix", lambda: rend(mk(), lib_prefix="my/lib dir", include_version=False))

# Same document object rendered repeatedly: the stored content must not be changed.
d = docs["dups"]()
show("repeat-equal", lambda: rend(d) == rend(d) == rend(docs["dups"]()))
u = tags.html(tags.head(tags.title("keep")), tags.body(a1))
before = str(u)
show("hoist-direct", lambda: str(HTMLDocument._hoist_head_content(u, "L", True)))
show("hoist-direct-nover", lambda: str(HTMLDocument._hoist_head_content(u, None, False)))
show("hoist-input-untouched", lambda: str(u) == before)
show("hoist-not-html", lambda: HTMLDocument._hoist_head_content(div(a1), "lib", True))

# Failure inside a dependency while hoisting
bad_head = HTMLDependency("bad", "1.0", head=div(Widget()))
show("bad-head-dep", lambda: rend(HTMLDocument(tags.html(tags.body(a1, bad_head)))))
bad_name = HTMLDependency("nm", "1.0")
bad_name.name = 5
show("bad-name-dep", lambda: str(HTMLDocument._hoist_head_content(tags.html(bad_name), "lib", True)))
bad_script = HTMLDependency("bs", "1.0", script={"src": "x.js"})
bad_script.script[0]["src"] = None
show("bad-script-dep", lambda: str(HTMLDocument._hoist_head_content(tags.html(a1, bad_script), "lib", True)))

# HTMLTextDocument
tmpl = "<html><head><meta data-foo=''>PLACE</head><body>PLACE</body></html>"
show("text:deps", lambda: rend(HTMLTextDocument(tmpl, deps=[a1, b, hc_t], deps_replace_pattern="PLACE")))
show(
    "text:deps-opts",
    lambda: rend(
        HTMLTextDocument(tmpl, deps=[a2, a1, c, a1], deps_replace_pattern="PLACE"),
        lib_prefix=None,
        include_version=False,
    ),
)
show("text:nodeps", lambda: rend(HTMLTextDocument(tmpl, deps=[], deps_replace_pattern="PLACE")))
show("text:none", lambda: rend(HTMLTextDocument(tmpl, deps_replace_pattern="PLACE")))
show("text:nopattern", lambda: rend(HTMLTextDocument(tmpl)))
show("text:deps-nopattern", lambda: HTMLTextDocument(tmpl, deps=[a1]))
show("text:tuple-deps", lambda: rend(HTMLTextDocument("<x>P</x>", deps=(c,), deps_replace_pattern="P")))
show("text:bad-head-dep", lambda: rend(HTMLTextDocument(tmpl, deps=[a1, bad_head], deps_replace_pattern="PLACE")))
show("text:bad-name-dep", lambda: rend(HTMLTextDocument(tmpl, deps=[bad_name], deps_replace_pattern="PLACE")))
ser = str(div("body", a1.serialize_to_script_json(), hc_t.serialize_to_script_json(), a1.serialize_to_script_json()))
show("text:serialized", lambda: rend(HTMLTextDocument("<head>PLACE</head>" + ser, deps_replace_pattern="PLACE")))
show(
    "text:serialized+deps",
    lambda: rend(HTMLTextDocument("<head>PLACE</head>" + ser, deps=[c], deps_replace_pattern="PLACE")),
)
td = HTMLTextDocument(tmpl, deps=[a1, b], deps_replace_pattern="PLACE")
show("text:repeat-equal", lambda: rend(td) == rend(td))
show("text:rendered-deps-are-copies", lambda: td.render()["dependencies"][0] is not a1)
