"""Deterministic probe of attribute normalisation / merging (property C15)."""
from __future__ import annotations

import copy
from collections import OrderedDict
from types import MappingProxyType

from htmltools import HTML, Tag, TagList, consolidate_attrs, div, span, tags
from htmltools._core import TagAttrDict
from htmltools._jsx import JSXTagAttrDict, jsx_tag_create


def show(label, fn):
    try:
        res = fn()
    except BaseException as e:  # noqa: BLE001
        print(f"{label}: EXC {type(e).__name__}: {e}")
    else:
        print(f"{label}: {res!r}")


def describe(d):
    """repr of a dict that keeps the concrete type of keys and values visible."""
    return (
        type(d).__name__,
        [(type(k).__name__, str(k), type(v).__name__, str(v)) for k, v in d.items()],
    )


class MyStr(str):
    pass


class Weird:
    def __repr__(self):
        return "<Weird>"


VALUES = [
    None,
    False,
    True,
    0,
    1,
    -3,
    2.5,
    float("inf"),
    0.0,
    "",
    " ",
    "a b",
    'q"<&>\'\n\r',
    HTML(""),
    HTML("<b>&"),
    MyStr("sub"),
    10**30,
]
BAD_VALUES = [[], (), {}, b"x", Weird(), object, 1j, {"a": 1}]
NAMES = [
    "",
    "_",
    "__",
    "a",
    "a_",
    "a__",
    "_a",
    "_a_",
    "class_",
    "data_foo_bar",
    "data_foo_bar_",
    "data-foo_bar",
    "for_",
    "aria_label__",
    "A_B",
    "é_ü_",
    "a-",
    "a-_",
    MyStr("my_str_"),
    HTML("html_key_"),
]
BAD_NAMES = [1, None, b"a_", ("a",), 2.5]

print("== names / values via staticmethods")
for n in NAMES + BAD_NAMES:
    show(f"name {n!r}", lambda: (lambda r: (type(r).__name__, str(r)))(TagAttrDict._normalize_attr_name(n)))
    show(f"jsxname {n!r}", lambda: (lambda r: (type(r).__name__, str(r)))(JSXTagAttrDict._normalize_attr_name(n)))
for v in VALUES + BAD_VALUES:
    show(f"value {v!r}", lambda: (lambda r: (type(r).__name__, None if r is None else str(r), r is v))(TagAttrDict._normalize_attr_value(v)))
# via instance too
inst = TagAttrDict()
show("inst name", lambda: inst._normalize_attr_name("x_y_"))
show("inst value", lambda: inst._normalize_attr_value(3))

print("== constructor: every name x a few values")
for n in NAMES + BAD_NAMES:
    for v in [None, True, 7, "v", HTML("<h>")]:
        show(f"ctor {n!r} {v!r}", lambda: describe(TagAttrDict({n: v})))

print("== constructor: every value")
for v in VALUES + BAD_VALUES:
    show(f"ctor-val {v!r}", lambda: describe(TagAttrDict({"k_": v})))
    show(f"ctor-kw {v!r}", lambda: describe(TagAttrDict(k_=v)))
    show(f"tag-kw {v!r}", lambda: str(div(k_=v)))

print("== merging within one call")
for a in VALUES:
    for b in VALUES:
        show(
            f"merge {a!r}+{b!r}",
            lambda: describe(TagAttrDict({"class": a}, {"class_": b})),
        )
for a in ["x", HTML("<x>"), 'q"&', None, True, 5]:
    for b in ["y", HTML("<y>"), "q'<", False, 2.0]:
        for c in ["z", HTML("&z"), None]:
            show(
                f"merge3 {a!r} {b!r} {c!r}",
                lambda: (
                    describe(TagAttrDict({"cl_ass": a}, {"cl-ass": b}, cl_ass_=c)),
                    str(div({"cl_ass": a}, {"cl-ass": b}, cl_ass_=c)),
                ),
            )

print("== order of first appearance, many names")
show(
    "order",
    lambda: describe(
        TagAttrDict(
            {"b": 1, "a_": "x", "c": None},
            {"a": "y", "d_e": True, "b_": 2},
            OrderedDict([("z", "1"), ("a", "w")]),
            c="late",
            a_="kw",
            d_e_=False,
            z_="zz",
        )
    ),
)
show("empty", lambda: describe(TagAttrDict()))
show("empty dicts", lambda: describe(TagAttrDict({}, {}, {})))
show("mapping proxy", lambda: describe(TagAttrDict(MappingProxyType({"a_b": 1}), a_b=2)))
show("same dict twice", lambda: (lambda d: describe(TagAttrDict(d, d, **d)))({"x_": "1", "y": 2}))
show("kw only all dropped", lambda: describe(TagAttrDict(a=None, b=False)))
show("non-mapping arg", lambda: describe(TagAttrDict([("a", 1)])))
show("non-mapping arg 2", lambda: describe(TagAttrDict("ab")))
show("non-mapping arg 3", lambda: describe(TagAttrDict(None)))
show("non-mapping after good", lambda: describe(TagAttrDict({"a": 1}, 5)))


def partial_failure():
    d = TagAttrDict({"keep": "1"})
    try:
        d.update({"a": "x", "keep": "2"}, {"b": []}, c="never")
    except TypeError as e:
        return ("TypeError", str(e), describe(d))
    return ("no error", describe(d))


show("partial failure leaves dict untouched", partial_failure)


def partial_failure_name():
    d = TagAttrDict({"keep": "1"})
    try:
        d.update({"a": "x"}, {3: "y"})
    except AttributeError as e:
        return ("AttributeError", str(e), describe(d))
    return ("no error", describe(d))


show("partial failure bad name", partial_failure_name)
show("bad name but dropped value", lambda: describe(TagAttrDict({3: None, 4: False})))
show("bad name + bad value", lambda: describe(TagAttrDict({3: []})))

print("== update replaces, __setitem__ replaces")


def upd():
    d = TagAttrDict({"class": "a"}, class_="b", id="i")
    out = [describe(d)]
    d.update({"class_": "c"}, {"class": "d"}, id=None)
    out.append(describe(d))
    d.update(class_=None)
    out.append(describe(d))
    d.update()
    out.append(describe(d))
    d.update({}, {})
    out.append(describe(d))
    d["class_"] = "e"
    out.append(describe(d))
    d["class"] = None
    out.append(describe(d))
    d["class"] = False
    out.append(describe(d))
    d["data_x_y_"] = True
    out.append(describe(d))
    d["data-x-y"] = 12
    out.append(describe(d))
    d["new_"] = HTML("<&>")
    out.append(describe(d))
    d[MyStr("my_k_")] = MyStr("v")
    out.append(describe(d))
    d.update({"id": HTML("h")}, {"id": "p<"})
    out.append(describe(d))
    return out


for i, line in enumerate(upd()):
    print(f"upd[{i}]: {line!r}")

d0 = TagAttrDict(a="1")
for n in NAMES + BAD_NAMES:
    for v in [None, False, True, 1, "s", HTML("h"), []]:

        def f():
            d = TagAttrDict(a_b="1")
            d[n] = v
            return describe(d)

        show(f"setitem {n!r} {v!r}", f)

print("== raw dict access is not normalised")
d = TagAttrDict(a_b="1")
show("getitem raw", lambda: d["a_b"])
show("getitem norm", lambda: d["a-b"])
show("get raw", lambda: d.get("a_b"))
show("in", lambda: ("a_b" in d, "a-b" in d))
show("setdefault", lambda: (d.setdefault("x_y", 5), describe(d)))
show("copy type", lambda: (type(d.copy()).__name__, type(copy.copy(d)).__name__, describe(copy.copy(d))))
show("eq plain", lambda: TagAttrDict(a_b=1) == {"a-b": "1"})
show("or", lambda: describe(TagAttrDict(a_b=1) | {"c_d": 2}))

print("== Tag constructor")
show("tag mix", lambda: str(Tag("x", {"a_": 1}, "kid", {"a": 2, "b_c": None}, span("s"), a_=3, d_e_=True)))
show("tag attrs type", lambda: describe(Tag("x", {"a_": 1}, a_=3).attrs))
show("tag TagAttrDict arg", lambda: str(Tag("x", TagAttrDict(a_b="1"), {"a-b": "2"})))
show("tag _add_ws bad", lambda: str(Tag("x", _add_ws=1)))
show("tag escape", lambda: str(div(title='a"b<c>&\n', data_x_=HTML('"raw"'))))
show("tag merge escape", lambda: str(div({"title": '"p"'}, title=HTML("<h>"))))
show("tag merge escape 2", lambda: str(div({"title": HTML("<h>")}, {"title": '"p"\n'}, title="'t'")))
show("tags.a", lambda: str(tags.a({"href": "x"}, "t", href="y", class_="c", **{"data-x_y": 1})))

print("== add_class / add_style / remove_class / has_class")


def classes():
    out = []
    t = div()
    out.append(str(t.add_class("a")))
    out.append(str(t.add_class("b")))
    out.append(str(t.add_class("c", prepend=True)))
    out.append(str(t.add_class("")))
    out.append(str(t.add_class("", prepend=True)))
    out.append(describe(t.attrs))
    out.append(str(t.add_class(HTML("<h>"))))
    out.append(str(t.add_class('q"', prepend=True)))
    out.append(describe(t.attrs))
    out.append(t.add_class("zz") is t)
    out.append((t.has_class("a"), t.has_class("q"), t.has_class('q"')))
    out.append(str(t.remove_class("a")))
    t2 = div(class_="x")
    out.append(str(t2.add_class(None)))  # type: ignore
    out.append(str(t2.add_class(None, prepend=True)))  # type: ignore
    out.append(str(t2.add_class(True)))  # type: ignore
    out.append(str(t2.add_class(5, prepend=True)))  # type: ignore
    out.append(describe(t2.attrs))
    t3 = div(class_=HTML("<raw>"))
    out.append(str(t3.add_class("p&")))
    out.append(str(t3.add_class("&p", prepend=True)))
    out.append(describe(t3.attrs))
    return out


for i, line in enumerate(classes()):
    print(f"cls[{i}]: {line!r}")
show("add_class bad", lambda: str(div().add_class([])))  # type: ignore
show("add_class bad prepend", lambda: str(div(class_="a").add_class({}, prepend=True)))  # type: ignore


def bad_keeps():
    t = div(class_="a", style="x:1;")
    r = []
    for f in (
        lambda: t.add_class([]),
        lambda: t.add_class(object(), prepend=True),
        lambda: t.add_style([]),
        lambda: t.add_style("no-semicolon"),
        lambda: t.add_style(HTML("no-semicolon"), prepend=True),
        lambda: t.add_style(None),
        lambda: t.add_style(5),
    ):
        try:
            f()
            r.append("ok")
        except Exception as e:  # noqa: BLE001
            r.append(f"{type(e).__name__}: {e}")
        r.append(str(t))
    return r


for i, line in enumerate(bad_keeps()):
    print(f"bad[{i}]: {line!r}")


def styles():
    out = []
    t = div()
    out.append(str(t.add_style("a:1;")))
    out.append(str(t.add_style("b:2;")))
    out.append(str(t.add_style("c:3;", prepend=True)))
    out.append(str(t.add_style(HTML("d:'4';"))))
    out.append(str(t.add_style('e:"5";', prepend=True)))
    out.append(describe(t.attrs))
    out.append(t.add_style(";") is t)
    out.append(str(t))
    t2 = span(style=HTML("x:<1>;"))
    out.append(str(t2.add_style("y:'2';", prepend=True)))
    out.append(str(t2.add_style(MyStr("z:3;"))))
    out.append(describe(t2.attrs))
    return out


for i, line in enumerate(styles()):
    print(f"sty[{i}]: {line!r}")


def no_attrs_object():
    r = []
    for attrs in (None, {"class": "plain"}, 5):
        for f in (
            lambda t: t.add_class("a"),
            lambda t: t.add_class("a", prepend=True),
            lambda t: t.add_style("a;"),
            lambda t: t.add_style("a;", prepend=True),
        ):
            t = div()
            t.attrs = attrs  # type: ignore
            try:
                f(t)
                r.append(("ok", repr(t.attrs)))
            except Exception as e:  # noqa: BLE001
                r.append((type(e).__name__, str(e)))
    return r


for i, line in enumerate(no_attrs_object()):
    print(f"noattrs[{i}]: {line!r}")

print("== consolidate_attrs")


def cons(*args, **kwargs):
    attrs, children = consolidate_attrs(*args, **kwargs)
    same = [any(c is a for a in args) for c in children]
    rebuilt = Tag("t", attrs, *children)
    direct = Tag("t", *args, **kwargs)
    return (describe(attrs), repr(children), same, str(rebuilt), str(direct), rebuilt == direct)


kid_list = ["l1", ["l2", None]]
kid_tl = TagList("a", "b")
show("cons empty", lambda: cons())
show("cons attrs only", lambda: cons({"a_": 1}, {"a": 2}, a_=3, b_c=True, d=None))
show("cons kids", lambda: cons("x", {"class": "a"}, kid_list, None, 3, 2.5, kid_tl, span("s", id="i"), {"class_": HTML("<b>")}, class_="c"))
show("cons TagAttrDict", lambda: cons(TagAttrDict(x_y="1"), "k", x_y="2"))
show("cons OrderedDict", lambda: cons(OrderedDict(x_y="1"), "k", x_y="2"))
show("cons bad child", lambda: cons(object()))
show("cons bad attr", lambda: cons({"a": []}, "k"))
show("cons _add_ws False", lambda: cons("k", _add_ws=False))
show("cons _add_ws bad", lambda: cons("k", _add_ws="x"))
show("cons _name", lambda: cons("k", _name="x"))
show("cons result independent", lambda: (lambda r: (type(r[0]).__name__, type(r[1]).__name__))(consolidate_attrs({"a": 1}, "k")))
show("cons mapping proxy is child?", lambda: cons(MappingProxyType({"a": 1})))

print("== JSX attrs")


def jsx():
    out = []
    d = JSXTagAttrDict(a_b_=1, class_=None, c=[1, 2])
    out.append(describe(d))
    d.update({"a-b": 2, "x_y": False}, {"x-y": True}, z_=None)
    out.append(describe(d))
    d["q_r_"] = {"k": 1}
    out.append(describe(d))
    d.update()
    out.append(describe(d))
    Foo = jsx_tag_create("Foo")
    out.append(str(Foo("kid", data_x_="1", onClick=None, style={"a": 1})))
    return out


for i, line in enumerate(jsx()):
    print(f"jsx[{i}]: {line!r}")
show("jsx bad key", lambda: describe((lambda d: (d.update({3: 1}), d)[1])(JSXTagAttrDict())))
show("jsx html key", lambda: describe((lambda d: (d.update({HTML("a_"): 1}), d)[1])(JSXTagAttrDict())))
show("jsx html key setitem", lambda: describe((lambda d: (d.__setitem__(HTML("a_"), 1), d)[1])(JSXTagAttrDict())))

print("== subclass overriding the normalisers is honoured")


class Upper(TagAttrDict):
    @staticmethod
    def _normalize_attr_name(x):
        return x.upper()

    @staticmethod
    def _normalize_attr_value(x):
        return None if x == "drop" else f"<{x}>"


def sub():
    d = Upper({"a_b": 1}, {"A_B": 2, "c": "drop"}, d="x")
    out = [describe(d)]
    d["e_"] = "y"
    d["f"] = "drop"
    out.append(describe(d))
    d.update(a_b="z")
    out.append(describe(d))
    return out


for i, line in enumerate(sub()):
    print(f"sub[{i}]: {line!r}")
