"""Deterministic probe of attribute normalisation / merging (property C15)."""
from __future__ import annotations

import copy
from collections import OrderedDict

import htmltools
from htmltools import HTML, Tag, TagList, consolidate_attrs, div, span, tags
from htmltools._core import TagAttrDict


def show(label, fn):
    try:
        res = fn()
    except Exception as e:  # noqa: BLE001
        print(f"{label}: EXC {type(e).__name__}: {e}")
    else:
        print(f"{label}: {res!r}")


def d(x):
    """Describe an attr dict incl. value types and order."""
    return [(k, type(v).__name__, str(v)) for k, v in x.items()]


class MyStr(str):
    pass


class MyDict(dict):
    pass


class Weird:
    def __repr__(self):
        return "Weird()"


VALUES = [
    None, False, True, 0, 1, -3, 2.5, 0.0, float("inf"), "", " ", "a", "a b",
    "<&\"'>", HTML(""), HTML("<b>"), HTML("x&y"), MyStr("sub"), 10**30,
]
BAD_VALUES = [[], (), {}, b"x", Weird(), 1j, object, ["a"]]
NAMES = [
    "", "_", "__", "___", "a", "a_", "a__", "_a", "_a_", "a_b", "a_b_", "a__b",
    "class_", "data_foo_bar", "for_", "http_equiv", "aria_label_", "A_B", "a-b",
    "a-b_", "-", "x y", MyStr("my_str_"),
]

print("== _normalize_attr_name")
for n in NAMES:
    show(f"name {n!r}", lambda: TagAttrDict._normalize_attr_name(n))
for n in [None, 1, b"a_", ("a_",), 1.5]:
    show(f"badname {n!r}", lambda: TagAttrDict._normalize_attr_name(n))
show("name type", lambda: type(TagAttrDict._normalize_attr_name(MyStr("a_b_"))).__name__)
show("name via instance", lambda: TagAttrDict()._normalize_attr_name("q_r_"))

print("== _normalize_attr_value")
for v in VALUES:
    show(
        f"value {v!r}",
        lambda: (lambda r: (type(r).__name__, r, r is v))(
            TagAttrDict._normalize_attr_value(v)
        ),
    )
for v in BAD_VALUES:
    show(f"badvalue {v!r}", lambda: TagAttrDict._normalize_attr_value(v))
show("value via instance", lambda: TagAttrDict()._normalize_attr_value(7))

print("== TagAttrDict construction")
show("empty", lambda: d(TagAttrDict()))
show("empty dict", lambda: d(TagAttrDict({})))
show("empty dicts", lambda: d(TagAttrDict({}, {}, {})))
show("kw only", lambda: d(TagAttrDict(a=1, b_=True, c_d="x", e=None, f=False)))
show("one dict", lambda: d(TagAttrDict({"a": 1, "b_": True, "c_d": "x", "e": None})))
show(
    "merge order",
    lambda: d(
        TagAttrDict(
            {"class": "a", "id": "i"},
            {"class_": "b", "x": None},
            {"class": None, "style": "s;"},
            class_="c",
            id=False,
            style="t;",
        )
    ),
)
show("same name two spellings in one dict", lambda: d(TagAttrDict({"a_b": "1", "a-b": "2", "a_b_": "3"})))
show("kw two spellings", lambda: d(TagAttrDict(a_b="1", a_b_="2")))
show("first appearance", lambda: d(TagAttrDict({"z": 1}, {"a": 2}, {"z": 3}, a=4, m=5)))
show("true merge", lambda: d(TagAttrDict({"a": True}, {"a": True}, a="x")))
show("empty str merge", lambda: d(TagAttrDict({"a": ""}, {"a": ""})))
show("num merge", lambda: d(TagAttrDict({"a": 1}, {"a": 2.5}, a=0)))
show("html+str", lambda: d(TagAttrDict({"a": HTML("<b>")}, {"a": "<i>&\"'"})))
show("str+html", lambda: d(TagAttrDict({"a": "<i>&\"'"}, {"a": HTML("<b>")})))
show("html+html", lambda: d(TagAttrDict({"a": HTML("<b>")}, {"a": HTML("&")})))
show("str+str", lambda: d(TagAttrDict({"a": "<b>"}, {"a": "&"})))
show("str+html+str", lambda: d(TagAttrDict({"a": "<1>"}, {"a": HTML("<2>")}, a="<3>")))
show("html+str+html", lambda: d(TagAttrDict({"a": HTML("<1>")}, {"a": "<2>"}, a=HTML("<3>"))))
show("str+str+html", lambda: d(TagAttrDict({"a": "<1>"}, {"a": "<2>"}, a=HTML("<3>"))))
show("mystr merge", lambda: d(TagAttrDict({"a": MyStr("<1>")}, {"a": MyStr("2")})))
show("mystr single", lambda: d(TagAttrDict({"a": MyStr("<1>")})))
show("none between", lambda: d(TagAttrDict({"a": "1"}, {"a": None}, {"a": False}, {"a": "2"})))
show("bad value first", lambda: d(TagAttrDict({"a": []}, {"b": 1})))
show("bad value skipped name", lambda: d(TagAttrDict({1: None})))
show("bad name", lambda: d(TagAttrDict({1: "x"})))
show("bad name and bad value", lambda: d(TagAttrDict({1: []})))
show("non mapping arg", lambda: d(TagAttrDict([("a", 1)])))
show("non mapping arg str", lambda: d(TagAttrDict("ab")))
show("none arg", lambda: d(TagAttrDict(None)))
show("ordered dict arg", lambda: d(TagAttrDict(OrderedDict([("b_", 1), ("a", 2)]))))
show("tagattrdict arg", lambda: d(TagAttrDict(TagAttrDict(a_b=1), {"a-b": 2})))
show("subclass name key", lambda: [(type(k).__name__, k) for k in TagAttrDict({MyStr("k_"): 1, MyStr("plain"): 2})])


def partial_failure():
    x = TagAttrDict(keep="1")
    try:
        x.update({"a": "1"}, {"b": object()})
    except TypeError as e:
        return ("TypeError", str(e), d(x))
    return d(x)


show("partial failure leaves dict untouched", partial_failure)

print("== update / setitem replace")


def upd():
    x = TagAttrDict({"class": "a", "id": "i"}, class_="b")
    out = [d(x)]
    r = x.update({"class": "c"})
    out.append((r, d(x)))
    x.update({"class": "d"}, {"class_": "e"}, class_="f")
    out.append(d(x))
    x.update()
    out.append(d(x))
    x.update({})
    out.append(d(x))
    x.update({"id": None})
    out.append(d(x))
    x.update(new_=True, id=5)
    out.append(d(x))
    x.update({"class": HTML("<h>")}, {"class": "<p>"})
    out.append(d(x))
    return out


show("update", upd)


def setitem():
    x = TagAttrDict(a="1", b="2")
    x["a"] = "z"
    x["c_d_"] = 3
    x["b"] = None
    x["e"] = False
    x["f_"] = True
    x["g"] = HTML("<g>")
    x["a_"] = "again"
    out = [d(x)]
    for bad in ([], Weird()):
        try:
            x["h"] = bad
        except TypeError as e:
            out.append(("TypeError", str(e)))
    try:
        x[1] = "v"
    except AttributeError as e:
        out.append(("AttributeError", str(e)))
    x[1] = None
    out.append(d(x))
    return out


show("setitem", setitem)
show("setdefault bypass", lambda: (lambda x: (x.setdefault("a_b", 5), d(x)))(TagAttrDict()))
show("copy type", lambda: type(copy.copy(TagAttrDict(a=1))).__name__)
show("eq dict", lambda: TagAttrDict(a_b=1, c=True) == {"a-b": "1", "c": ""})

print("== Tag construction")
show("tag mix", lambda: str(div({"class": "a"}, "kid", {"class_": "b", "id": 1}, span("s"), class_="c", data_x_y=True, hidden=None)))
show("tag attrs", lambda: d(div({"class": "a"}, "kid", {"class_": "b", "id": 1}, class_="c").attrs))
show("tag children", lambda: div({"class": "a"}, "kid", {"id": 1}, span("s"), None, 3).children)
show("tag attrs type", lambda: type(div().attrs).__name__)
show("tag no args", lambda: (str(Tag("x")), d(Tag("x").attrs), list(Tag("x").children)))
show("tag mydict", lambda: str(div(MyDict(a_b=1), MyDict(), "k")))
show("tag tagattrdict arg", lambda: str(div(TagAttrDict(a_b=1), TagAttrDict(a_b=2))))
show("tag ordered dict", lambda: str(div(OrderedDict(z=1), OrderedDict(a=2))))
show("tag bad attr", lambda: div({"a": []}, Weird()))
show("tag bad child", lambda: div({"a": 1}, Weird()))
show("tag add_ws bad", lambda: Tag("x", {"a": []}, _add_ws="no"))
show("tag add_ws false", lambda: (Tag("x", {"a": 1}, _add_ws=False).add_ws, d(Tag("x", {"a": 1}, _add_ws=False).attrs)))
show("tag html attr", lambda: str(div({"a": HTML("<&>")}, a="<&>", b=HTML("<&>"), c="<&>")))
show("tag kw order", lambda: str(tags.a(href="h", class_="c", id="i", **{"data-x": 1})))
show("tag item assign", lambda: (lambda t: (t.attrs.__setitem__("class_", "z"), str(t)))(div(class_="a b")))


def tag_update():
    t = div({"class": "a"}, class_="b")
    t.attrs.update({"class": "c"}, id_="i")
    t.attrs["style_"] = "s;"
    return str(t), d(t.attrs)


show("tag update", tag_update)

print("== add_class / add_style / remove_class")


def classes():
    out = []
    t = div()
    out.append(str(t.add_class("a")))
    out.append(str(t.add_class("b")))
    out.append(str(t.add_class("c", prepend=True)))
    out.append(str(t.add_class("")))
    out.append(str(t.add_class("", prepend=True)))
    out.append(d(t.attrs))
    out.append(t.add_class("x") is t)
    t2 = div(id="i", class_="z", title="t")
    out.append(str(t2.add_class("y", prepend=True)))
    out.append(d(t2.attrs))
    t3 = div(class_=HTML("<h>"))
    out.append(d(t3.add_class("<p>").attrs))
    out.append(d(t3.add_class("<q>", prepend=True).attrs))
    t4 = div()
    out.append(d(t4.add_class(HTML("<h>")).attrs))
    out.append(d(t4.add_class(None).attrs))
    out.append(d(t4.add_class(False, prepend=True).attrs))
    out.append(d(t4.add_class(True, prepend=True).attrs))
    out.append(d(t4.add_class(5).attrs))
    out.append(d(div().add_class(None).attrs))
    out.append(d(div(class_="k").remove_class("k").add_class("n").attrs))
    return out


show("classes", classes)
show("add_class bad", lambda: div(class_="a").add_class([]))
show("add_class bad prepend", lambda: div(class_="a").add_class([], prepend=True))
show("add_class positional prepend", lambda: div().add_class("a", True))


def styles():
    out = []
    t = div()
    out.append(str(t.add_style("a:1;")))
    out.append(str(t.add_style("b:2;")))
    out.append(str(t.add_style("c:3;", prepend=True)))
    out.append(d(t.attrs))
    out.append(t.add_style("d:4;") is t)
    t2 = div(id="i", style="z:0;", title="t")
    out.append(str(t2.add_style(HTML("y:'<';"), prepend=True)))
    out.append(d(t2.attrs))
    out.append(str(t2.add_style("q:'<';")))
    out.append(d(t2.attrs))
    t3 = div()
    out.append(d(t3.add_style(None).attrs))
    out.append(d(t3.add_style(True).attrs))
    out.append(d(t3.add_style(3, prepend=True).attrs))
    return out


show("styles", styles)
show("add_style no semicolon", lambda: div().add_style("a:1"))
show("add_style html no semicolon", lambda: div().add_style(HTML("a:1"), prepend=True))
show("add_style empty", lambda: div().add_style(""))
show("add_style bad", lambda: div(style="a;").add_style([]))
show("add_style positional prepend", lambda: div().add_style("a;", True))

print("== consolidate_attrs")


def cons(*args, **kw):
    attrs, kids = consolidate_attrs(*args, **kw)
    return (type(attrs).__name__, d(attrs), type(kids).__name__, kids, [a is b for a, b in zip(kids, [x for x in args if not isinstance(x, dict)])])


w = span("w")
tl = TagList("a", "b")
show("cons empty", lambda: cons())
show("cons kw", lambda: cons(a_b=1, c_=True, dd=None))
show("cons mix", lambda: cons({"class": "a"}, "kid", w, {"class_": "b", "id": 1}, None, tl, [1, 2], 3, class_="c", id=False))
show("cons html", lambda: cons({"a": HTML("<h>")}, a="<p>"))
show("cons mydict", lambda: cons(MyDict(a_b=1), "x", TagAttrDict(a_b=2)))
show("cons bad attr", lambda: cons({"a": []}))
show("cons bad child", lambda: cons({"a": 1}, Weird()))
show("cons add_ws", lambda: cons({"a": 1}, _add_ws=False))
show("cons add_ws bad", lambda: cons({"a": 1}, _add_ws=1))
show("cons name kw", lambda: cons(_name="n"))


def rebuild():
    args = ({"class": "a", "x_y": 1}, "kid", {"class_": HTML("<b>"), "id": None}, span("s"))
    kw = dict(class_="c<", z_=True)
    attrs, kids = consolidate_attrs(*args, **kw)
    t1 = div(attrs, *kids)
    t2 = div(*args, **kw)
    return (t1 == t2, str(t1) == str(t2), str(t1))


show("rebuild", rebuild)


def cons_independent():
    src = {"a": "1"}
    attrs, kids = consolidate_attrs(src, "k")
    attrs["a"] = "changed"
    attrs["b_c"] = None
    return (src, attrs)


show("cons result is plain independent dict", cons_independent)

print("== copy")


def cp():
    t = div({"class": "a"}, "k", id="i")
    t2 = copy.copy(t)
    t2.attrs["class"] = "z"
    t2.add_class("y")
    t3 = copy.deepcopy(t)
    t3.attrs.update(id="j")
    return (str(t), str(t2), str(t3), type(t2.attrs).__name__)


show("copy", cp)

print("== extra: iteration order / laziness of update()")
from collections.abc import Mapping as ABCMapping


class LogMap(ABCMapping):
    """A non-dict Mapping that logs how it is accessed."""

    def __init__(self, name, data, log):
        self._name, self._data, self._log = name, data, log

    def __getitem__(self, k):
        self._log.append((self._name, "get", k))
        return self._data[k]

    def __iter__(self):
        self._log.append((self._name, "iter"))
        for k in self._data:
            self._log.append((self._name, "key", k))
            yield k

    def __len__(self):
        self._log.append((self._name, "len"))
        return len(self._data)


def logged():
    log = []
    x = TagAttrDict(
        LogMap("m1", {"a": "1", "b_": None}, log),
        {"a": "2"},
        LogMap("m2", {"c": "3", "a_": "4"}, log),
        a="5",
    )
    return d(x), log


show("logged mappings", logged)


def logged_failure():
    log = []
    x = TagAttrDict(z="0")
    try:
        x.update(LogMap("m1", {"a": "1"}, log), LogMap("m2", {"b": [], "c": "1"}, log), LogMap("m3", {"d": "1"}, log))
    except TypeError as e:
        return type(e).__name__, d(x), log
    return d(x), log


show("logged failure stops early", logged_failure)


def bad_second_arg():
    log = []
    x = TagAttrDict()
    try:
        x.update(LogMap("m1", {"a": "1"}, log), 5, LogMap("m3", {"d": "1"}, log))
    except AttributeError as e:
        return type(e).__name__, str(e), d(x), log
    return d(x), log


show("non-mapping in the middle", bad_second_arg)


def mutate_during():
    src = {"a": "1"}

    class Evil(str):
        pass

    x = TagAttrDict()
    # the dict being read is also the one being written (self-update)
    y = TagAttrDict(a_b="1", c="2")
    y.update(y, y, c="3")
    return d(y)


show("self update", mutate_during)
show("kwargs named like params", lambda: d(TagAttrDict({"self": "s"}, args="a", kwargs="k", mappings="m")))
show("empty kwargs many empties", lambda: d(TagAttrDict({}, {}, **{})))
show("kw after dict same key, None first", lambda: d(TagAttrDict({"a": None}, a="x")))
