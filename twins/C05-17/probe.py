# Probe for refactoring 2: Tag.get_html_string (open tag / attributes / empty / single-child / children)
import itertools
from htmltools import HTML, Tag, TagList, HTMLDependency, div, span, a, p, tags, css

calls = []


class Repr:
    def __init__(self, s):
        self.s = s

    def _repr_html_(self):
        calls.append(self.s)
        return self.s


class StrSub(str):
    pass


def show(label, fn):
    try:
        r = fn()
        print(label, "->", type(r).__name__, repr(r))
    except BaseException as e:  # noqa
        print(label, "!!", type(e).__name__, str(e))


dep = HTMLDependency("x", "1.0", source={"subdir": "."}, script={"src": "x.js"})

attr_sets = [
    {},
    {"id": "i"},
    {"class_": "a b", "id": "x", "data_foo": "1"},
    {"title": "q\"uo'te <&> \n\r end"},
    {"title": HTML("raw \"<&>\" \n")},
    {"hidden": True, "n": 3, "f": 1.5, "skip": None, "no": False},
    {"style": css(color="red", font_size="1px")},
    {"className": "k", "for_": "f", "http_equiv": "h"},
]
child_sets = [
    (),
    ("t<&>",),
    ("",),
    (HTML("<r>&"),),
    (HTML(""),),
    (StrSub("s>"),),
    (dep,),
    (dep, "t"),
    (dep, dep),
    (Repr("<u>"),),
    (span("i"),),
    (div("b"),),
    ("a", "b"),
    ("a", HTML("<b>"), Repr("r")),
    (span("x"), span("y")),
    (span("x"), div("y"), "z"),
    (None, "only", None),
    (["n1", ["n2"]],),
    (1, 2.5),
]
names = ["div", "span", "br", "img", "input", "script", "style", "x-custom", "BR", ""]

for name in names:
    for ws in (True, False):
        for kids in child_sets:
            for attrs in attr_sets[:3] if kids else attr_sets:
                def mk():
                    return Tag(name, *kids, _add_ws=ws, **attrs)

                label = f"<{name}> ws={ws} kids={len(kids)}:{[type(k).__name__ for k in kids]} attrs={sorted(attrs)}"
                show(label, lambda: mk().get_html_string())
                show(label + " i=2", lambda: mk().get_html_string(2))
                show(label + " i=1,eol=''", lambda: mk().get_html_string(1, ""))
                show(label + " eol=CRLF", lambda: mk().get_html_string(eol="\r\n"))
                show(label + " str", lambda: str(mk()))

print("calls:", len(calls))
calls.clear()

# positional dict attrs, merged
show("dict attrs", lambda: div({"class": "a"}, "x", {"class": "b", "id": "i"}, class_="c").get_html_string())
show("inline in block attrs", lambda: str(div(a("l", href="?a=1&b=2"), " ", span(class_="s"), id="d")))

# attrs replaced / mutated behind the API
t = span("x")
t.attrs = {"plain": "dict<", "h": HTML("<")}
show("plain dict attrs", lambda: t.get_html_string())
t2 = span("x", id="a")
dict.__setitem__(t2.attrs, "num", 5)
dict.__setitem__(t2.attrs, "later", "never")
show("non-str attr value", lambda: t2.get_html_string())
t3 = span("x")
dict.__setitem__(t3.attrs, 7, "seven")
show("non-str attr key", lambda: t3.get_html_string())
t4 = span("x")
t4.attrs = None
show("attrs None", lambda: t4.get_html_string())
t5 = span(Repr("r"), "y")
t5.attrs = [("a", "b")]
show("attrs list", lambda: t5.get_html_string())
print(calls)
calls.clear()

# odd names / arguments
show("name None", lambda: Tag(None, "x").get_html_string())
show("name int", lambda: Tag(5).get_html_string())
show("name list", lambda: Tag(["a"]).get_html_string())
show("name strsub", lambda: Tag(StrSub("br")).get_html_string())
show("name strsub kids", lambda: Tag(StrSub("script"), "a<b", "c").get_html_string())
show("indent str", lambda: span("x").get_html_string("a"))
show("indent float", lambda: span().get_html_string(1.0))
show("indent True", lambda: div("x", span()).get_html_string(True))
show("indent neg", lambda: div("x", span()).get_html_string(-1))
show("eol None inline", lambda: span("x", span()).get_html_string(1, None))
show("eol None block", lambda: div(Repr("called-before-error?"), span()).get_html_string(1, None))
print(calls)
calls.clear()
show("eol None block single", lambda: div("x").get_html_string(1, None))
show("eol int block", lambda: div("x", "y").get_html_string(0, 3))
show("_add_ws non-bool", lambda: Tag("span", _add_ws=1))
show("_add_ws None", lambda: Tag("span", _add_ws=None))

# add_ws changed after construction, or made odd
s = span("a", span("b"))
s.add_ws = True
show("span with ws", lambda: str(div(s, s)))
d = div("a", div("b"))
d.add_ws = False
show("div without ws", lambda: str(div(d, d)))
d.add_ws = "truthy"
show("truthy add_ws", lambda: d.get_html_string(1))
d.add_ws = 0
show("falsy add_ws", lambda: d.get_html_string(1))


# a child that flips the parent's add_ws while rendering
class Flipper:
    def __init__(self):
        self.parent = None

    def _repr_html_(self):
        self.parent.add_ws = not self.parent.add_ws
        return "<flip/>"


for start in (True, False):
    f = Flipper()
    par = Tag("section", "t", f, "u", _add_ws=start)
    f.parent = par
    show(f"flipper start={start}", lambda: par.get_html_string(1))
    show(f"flipper again start={start}", lambda: par.get_html_string(1))

# children replaced behind the API
e = div()
e.children = TagList()
show("empty children", lambda: e.get_html_string())
e.children = ["raw", "list"]
show("list children", lambda: e.get_html_string())
e.children = ["one"]
show("list children single", lambda: e.get_html_string())
e.children = TagList("x")
e.children.data.append(7)
show("int child", lambda: e.get_html_string())
e.children = TagList()
e.children.data.append(7)
show("single int child", lambda: e.get_html_string())
sc = Tag("script", "x")
sc.children.data[0] = 7
show("script single int child", lambda: sc.get_html_string())

# inline subtree contiguity
inline = span("x", a("y", href="#"), HTML("<b>z</b>"), "  sp  ", tags.em(tags.code("c")))
flat = inline.get_html_string()
print(repr(flat))
for out in (
    str(div(inline)),
    str(div(inline, inline)),
    str(div("a", inline, div(inline), inline)),
    str(TagList(inline, p(inline))),
    div(inline).get_html_string(3, "\r\n"),
):
    print(out.count(flat), repr(out))
