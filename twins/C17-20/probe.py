"""Probe for flatten()/_flatten_recurse(), which orders the children collected by
TagList / Tag.append and therefore by the `with tag:` display hook."""
import re
import sys
from collections import UserList, deque

from htmltools import HTML, Tag, TagList, div, span, tags
from htmltools._util import _flatten_recurse, flatten


def S(value):
    return re.sub(r" at 0x[0-9a-fA-F]+", "", str(value))


def R(seq):
    return [(type(c).__name__, S(c)) for c in seq]


def attempt(label, fn):
    try:
        print(label, "->", fn())
    except BaseException as e:  # noqa
        print(label, "-> EXC", type(e).__name__, S(e)[:120])


EVENTS = []


class MyList(list):
    pass


class MyTuple(tuple):
    pass


class MyTagList(TagList):
    pass


class MyUserList(UserList):
    pass


class FalsyThing:
    def __bool__(self):
        EVENTS.append("bool called")
        return False

    def __eq__(self, other):
        EVENTS.append("eq called")
        return True

    __hash__ = object.__hash__


class NoisyIter:
    def __init__(self, name, items):
        self.name, self.items = name, items

    def __iter__(self):
        EVENTS.append(("iter", self.name))
        for it in self.items:
            EVENTS.append(("next", self.name, S(it)))
            yield it
        EVENTS.append(("end", self.name))


class NoisyList(list):
    def __iter__(self):
        EVENTS.append(("iter NoisyList", len(self)))
        return super().__iter__()


def gen(name, *items):
    for it in items:
        EVENTS.append(("yield", name, S(it)))
        yield it


def raising_gen():
    yield "r1"
    yield ["r2", None, ("r3",)]
    raise LookupError("gen broke")


t = div("t")
falsy = FalsyThing()
INPUTS = [
    ("empty list", []),
    ("empty tuple", ()),
    ("empty taglist", TagList()),
    ("flat", ["a", "b", 1, 2.0]),
    ("nones", [None, "a", None, None, "b", None]),
    ("only none", [None]),
    ("falsy kept", [0, "", 0.0, False, [], (), TagList(), {}, set(), b""]),
    ("falsy object", [falsy]),
    ("nested", ["a", ["b", ["c", ["d", None, ("e", ["f"])]]], "g"]),
    ("empties nested", [[], [[]], ([],), [[[None]]], "x"]),
    ("tuple top", ("a", ["b"], None)),
    ("taglist top", TagList("a", ["b", None], 3)),
    ("taglist nested", ["p", TagList("q", TagList("r")), "s"]),
    ("subclasses", [MyList(["ml", None]), MyTuple(("mt",)), MyTagList("mtl", 1)]),
    ("userlist not spliced", [MyUserList(["u"])]),
    ("other iterables kept", [{1}, {"k": "v"}, range(2), deque([1]), iter([1]), "str", b"by"]),
    ("string top", "abc"),
    ("dict top", {"k1": 1, "k2": None}),
    ("set top", {"only"}),
    ("range top", range(3)),
    ("tag kept whole", [t, [t, None], (t,)]),
    ("tag top (iterating a Tag)", t),
    ("html", [HTML("<b>"), [HTML("<i>")]]),
    ("ellipsis", [..., [...]]),
    ("int top", 5),
    ("none top", None),
    ("object top", object()),
    ("noisy list nested", ["a", NoisyList(["n1", None, NoisyList(["n2"])]), "z"]),
]

print("== flatten ==")
for label, value in INPUTS:
    del EVENTS[:]
    try:
        out = flatten(value)
        print(label, "->", type(out).__name__, R(out), "| events:", EVENTS)
    except BaseException as e:  # noqa
        print(label, "-> EXC", type(e).__name__, S(e), "| events:", EVENTS)

print("== identity, freshness, input untouched ==")
inner = ["i", None]
src = ["a", inner, (t,)]
out = flatten(src)
print(out is not src, out[2] is t, src == ["a", ["i", None], (t,)], inner == ["i", None])
out.append("extra")
print(len(flatten(src)), len(src))
print(flatten([falsy])[0] is falsy, EVENTS)

print("== lazily consumed iterables: order of events ==")
del EVENTS[:]
out = flatten(NoisyIter("outer", ["o1", [1, NoisyIter("kept-not-spliced", ["k"])], None, ("o2",)]))
print(R(out))
print(EVENTS)
del EVENTS[:]
out = flatten(gen("g", "a", [None, "b"], None, ("c", ["d"])))
print(R(out), EVENTS)
del EVENTS[:]
attempt("raising generator", lambda: flatten(raising_gen()))
acc = ["pre"]
try:
    _flatten_recurse(raising_gen(), acc)
except LookupError as e:
    print("partial result:", acc, "|", e)

print("== _flatten_recurse with a caller supplied result ==")
acc = ["seed"]
print(_flatten_recurse(["x", [None, "y"], ("z",)], acc), acc)
_flatten_recurse([], acc)
_flatten_recurse([None], acc)
print(acc)
attempt("result without append", lambda: _flatten_recurse(["x"], ()))
attempt("result without append, nothing kept", lambda: _flatten_recurse([None, []], ()))
attempt("not iterable", lambda: _flatten_recurse(3, []))

print("== depth: deep nesting and cycles ==")


def nest(depth):
    x = ["leaf"]
    for _ in range(depth):
        x = [None, x, "after"]
    return x


for depth in (1, 5, 50, 300):
    out = flatten(nest(depth))
    print(depth, len(out), out[0], out[-1])


def works(depth):
    try:
        flatten(nest(depth))
        return True
    except RecursionError:
        return False


def threshold():
    lo, hi = 1, 5000  # works(lo) and not works(hi)
    assert works(lo) and not works(hi)
    while hi - lo > 1:
        m = (lo + hi) // 2
        if works(m):
            lo = m
        else:
            hi = m
    return lo


old = sys.getrecursionlimit()
for limit in (200, 500, 1000):
    sys.setrecursionlimit(limit)
    print("limit", limit, "deepest nesting that flattens:", threshold())
sys.setrecursionlimit(old)
cyc = ["c"]
cyc.append(cyc)
attempt("cyclic list", lambda: flatten(cyc))
attempt("cyclic via TagList", lambda: div(cyc))

print("== through the public API, children in order ==")
print(R(TagList("a", [None, ["b", ("c", TagList("d", None, 1))]], None, 2.5)))
d = div("a", [None, ["b", ("c",)]], {"class": "k"}, None, span("s"), id="x")
print(S(d), len(d.children))
d.append(None, ["e", [None, ("f",)]], TagList("g"))
d.extend(("h", None, ["i"]))
d.insert(0, [None, "first", ["second"]])
d.insert(2, None)
d.insert(2, [])
print(R(d.children))
log = []
sys.displayhook = lambda v: log.append(S(v))
w = tags.ul()
with w:
    sys.displayhook(["1", None, ("2", ["3", TagList("4", [None, "5"])])])
    sys.displayhook(None)
    sys.displayhook([])
    sys.displayhook([None, [None, (None,)]])
    sys.displayhook(list(gen("hook", "6", None, ["7"])))
    with tags.li():
        sys.displayhook(("8", [9, 10.5]))
    sys.displayhook(TagList())
    sys.displayhook("11")
print(R(w.children))
print(log)
try:
    with w:
        sys.displayhook(["12", [None, {"bad"}], "13"])
except TypeError as e:
    print("TypeError", e)
print(R(w.children)[-2:], len(log))
sys.displayhook = sys.__displayhook__
print("done")
