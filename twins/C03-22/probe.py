"""Probe for refactoring 2: TagAttrDict.update merging (htmltools/_core.py)."""
import itertools

from htmltools import HTML, Tag, TagList, div, tags
from htmltools._core import TagAttrDict


class MyStr(str):
    pass


class Weird(str):
    """str subclass with custom concatenation, to check operand order is preserved."""

    def __add__(self, other):
        return "[" + str.__str__(self) + "+" + str(other) + "]"

    def __radd__(self, other):
        return "{" + str(other) + "+" + str.__str__(self) + "}"


def desc(v):
    return f"{type(v).__name__}:{str(v)!r}"


def show_dict(label, fn):
    try:
        d = fn()
        print(label, "->", [(k, desc(v)) for k, v in d.items()])
    except Exception as e:  # noqa: BLE001
        print(label, "-> EXC", type(e).__name__, str(e))


def show(label, fn):
    try:
        res = fn()
        print(label, "->", type(res).__name__, repr(str(res)))
    except Exception as e:  # noqa: BLE001
        print(label, "-> EXC", type(e).__name__, str(e))


VALUES = [
    "plain",
    "",
    "a&b",
    "<i>",
    'q"q',
    "it's",
    "l1\nl2\r",
    HTML("raw<&>\"'\n"),
    HTML(""),
    HTML("ok"),
    MyStr("sub<"),
    Weird("w&"),
    1,
    0,
    -2.5,
    float("inf"),
    True,
    False,
    None,
]

# Pairwise merging through every entry point (constructor args, kwargs, update, Tag)
for a, b in itertools.product(VALUES, repeat=2):
    lab = f"({a!r}, {b!r})"
    show_dict("ctor  " + lab, lambda: TagAttrDict({"class": a}, {"class": b}))
    show_dict("kw    " + lab, lambda: TagAttrDict({"class_": a}, class_=b))
    show("div   " + lab, lambda: div({"class": a}, class_=b))

# Three-way merging (HTML in first / middle / last position, and none)
TRI = ["a<", HTML("<h>"), "'q\"", 3, True, None, MyStr("m&"), Weird("w>")]
for a, b, c in itertools.product(TRI, repeat=3):
    lab = f"({a!r}, {b!r}, {c!r})"
    show_dict("tri   " + lab, lambda: TagAttrDict({"x": a}, {"x": b}, x=c))
    show("tritag" + lab, lambda: tags.span({"x": a}, {"x": b}, x=c))


# Name normalisation collisions merge too; unrelated keys keep insertion order
show_dict("names", lambda: TagAttrDict({"data_x": "1", "data-x": "2<", "data_x_": HTML("3&")}, b="b", a="a"))
show_dict("order", lambda: TagAttrDict({"z": 1, "y": "<"}, {"y": HTML(">"), "a": None, "b": False, "c": True}))

# update() on an existing dict overwrites rather than merges with stored values
def upd():
    d = TagAttrDict(class_="old<", id="i")
    d.update({"class": "n1&"}, {"class": HTML("n2&")}, id=None)
    d.update()
    d.update({})
    d["k_"] = "v\"'"
    d["class"] = HTML("set<")
    d["gone"] = None
    return d


show_dict("update", upd)


# Invalid values raise from the same place, and leave the dict untouched
def bad_update():
    d = TagAttrDict(a="1")
    try:
        d.update({"b": "2", "c": [1, 2]}, d="4")
    except TypeError as e:
        print("bad_update raised", type(e).__name__, str(e))
    return d


show_dict("bad_update", bad_update)
for bad in [[1], (1,), {"a": 1}, b"bytes", object(), 1j, TagList("x")]:
    show_dict(f"bad value {type(bad).__name__}", lambda: TagAttrDict(x=bad))
    show_dict(f"bad merge {type(bad).__name__}", lambda: TagAttrDict({"x": "ok"}, x=bad))
show_dict("non-mapping arg", lambda: TagAttrDict([("a", "b")]))
show_dict("non-str key", lambda: TagAttrDict({1: "b"}))

# Through Tag: add_class / add_style / attrs.update / has_class
t = div({"class": "a<b", "style": "color:red;"}, class_=HTML("<x>"), style=HTML("top:1px;"), title="T\"'\n")
show("tag", lambda: t)
t.add_class("new&").add_style("left:'2';")
show("tag after add_*", lambda: t)
print("has_class", t.has_class("new&"), t.has_class("a&lt;b"), t.has_class("<x>"))
t.attrs.update({"class": "c1"}, class_=HTML("c2&"))
show("tag after attrs.update", lambda: t)
show("Tag()", lambda: Tag("p", {"class": "a'"}, {"class": HTML("b'")}, {"class": "c'"}, "child<", _add_ws=False))
show("render", lambda: div({"data_a": "1\r\n"}, data_a=HTML("<2>")).render()["html"])
