# Probe for refactoring 3: HTMLTextDocument._static_extract_serialized_html_deps (and its callers)
import htmltools
from htmltools import HTML, HTMLDependency, HTMLTextDocument, TagList, div, tags


def show(label, fn):
    try:
        res = fn()
        print(label, "->", repr(res))
    except BaseException as e:  # noqa: BLE001
        print(label, "-> EXC", type(e).__name__, str(e)[:200])


def dep_dump(d):
    return (
        d.name,
        str(d.version),
        d.source,
        d.script,
        d.stylesheet,
        d.meta,
        d.all_files,
        None if d.head is None else str(d.head),
    )


OPEN = '<script type="application/json" data-html-dependency="">'
CLOSE = "</script>"


def ser(d, indent=None):
    return d.serialize_to_script_json(indent=indent).get_html_string()


a = HTMLDependency("a", "1.0", source={"subdir": "x"}, script={"src": "a.js"}, stylesheet={"href": "a.css"})
b = HTMLDependency("b", "2.1", meta={"name": "m", "content": "c"}, head=tags.title("T</script><b>"))
c = HTMLDependency("c", "0.1", head='<script>var s = "</SCRIPT>";</script>')
a2 = HTMLDependency("a", "2.0", source={"href": "https://x.y/z"}, script=[{"src": "a2.js", "defer": ""}], all_files=True)

sa, sb, sc, sa2 = ser(a), ser(b), ser(c), ser(a2)
print("serialized a", repr(sa))
print("serialized b", repr(sb))
print("serialized c", repr(sc))

extract = HTMLTextDocument._static_extract_serialized_html_deps

inputs = {
    "empty": "",
    "no deps": "<html><head></head><body><p>hi</p></body></html>",
    "only dep": sa,
    "one": "<html><body>X" + sa + "Y</body></html>",
    "at start": sa + "tail",
    "at end": "head" + sa,
    "two adjacent": "p" + sa + sb + "q",
    "two apart": "p" + sa + " mid \n " + sb + "q",
    "three": sa + "1" + sb + "2" + sc + "3",
    "dup": "x" + sa + "y" + sa + "z" + sb + sa + "w",
    "dup indent differs": "x" + ser(a) + "y" + ser(a, indent=2) + "z",
    "same name other version": sa + sa2,
    "multiline": "l1\n" + ser(b, indent=2) + "\nl2\r\n" + ser(a, indent=4) + "\rl3",
    "unterminated": "x" + OPEN + '{"name": "a", "version": "1"}',
    "unterminated after good": sa + "x" + OPEN + '{"name": "q", "version": "1"}',
    "other script": '<script type="application/json">{"a": 1}</script>' + sa,
    "attr order differs": '<script data-html-dependency="" type="application/json">{"name":"a","version":"1"}</script>',
    "uppercase close": OPEN + '{"name": "a", "version": "1"}</SCRIPT>' + "rest" + CLOSE + "end",
    "nested open": OPEN + OPEN + '{"name": "a", "version": "1"}' + CLOSE + CLOSE,
    "empty payload": "a" + OPEN + CLOSE + "b",
    "bad json": "a" + OPEN + "{not json" + CLOSE + "b",
    "bad json after good": sa + OPEN + "[1, 2]" + CLOSE,
    "json not dict": OPEN + '"str"' + CLOSE,
    "missing field": OPEN + '{"name": "a"}' + CLOSE,
    "unknown field": OPEN + '{"name": "a", "version": "1", "bogus": 1}' + CLOSE,
    "bad source": OPEN + '{"name": "a", "version": "1", "source": {"x": 1}}' + CLOSE,
    "minimal": "<" + OPEN + '{"name": "a", "version": "1"}' + CLOSE + ">",
    "unicode": "é中" + OPEN + '{"name": "é", "version": "1", "head": "\\u4e2d<\\/script>"}' + CLOSE + "\U0001f600",
    "whitespace payload": OPEN + ' \n{"name": "a",\r\n "version": "1"}\n ' + CLOSE,
    "dup whitespace differs": OPEN + '{"name": "a", "version": "1"}' + CLOSE + OPEN + '{"name": "a",  "version": "1"}' + CLOSE,
}

for name, text in inputs.items():
    def run():
        html, deps = extract(text)
        return (type(html).__name__, html, [dep_dump(d) for d in deps], [type(d).__name__ for d in deps])

    show("extract " + name, run)
    # repeatable, input unchanged
    show("extract again " + name, lambda: (lambda r1, r2: r1[0] == r2[0] and r1[1] == r2[1])(extract(text), extract(text)))


class MyStr(str):
    pass


show("str subclass", lambda: (lambda r: (type(r[0]).__name__, r[0], len(r[1])))(extract(MyStr("x" + sa + "y"))))
show("str subclass no match", lambda: (lambda r: (type(r[0]).__name__, r[0], len(r[1])))(extract(MyStr("xy"))))
for bad in [None, 5, b"bytes" , HTML("x" + sa), ["x"], bytearray(b"x")]:
    show("non-str %s" % type(bad).__name__, lambda: extract(bad))

# ---- through the constructor and render ---------------------------------------
for name in ["no deps", "one", "dup", "three", "bad json", "same name other version"]:
    text = inputs[name]

    def mk():
        doc = HTMLTextDocument(text)
        return (doc._html, [dep_dump(d) for d in doc._deps], doc._deps_replace_pattern)

    show("ctor " + name, mk)

show("ctor deps w/o pattern", lambda: HTMLTextDocument("x", deps=[a]))
show("ctor non-str", lambda: HTMLTextDocument(None))

given = [HTMLDependency("given", "3.0", script={"src": "g.js"}, source={"subdir": "g"})]
doc = HTMLTextDocument(
    "<html><head><!-- deps --></head><body>" + sb + "<p>x</p>" + sa + sb + "<!-- deps --></body></html>",
    deps=given,
    deps_replace_pattern="<!-- deps -->",
)
print("given list extended in place", [d.name for d in given], doc._deps is given)
r1 = doc.render()
r2 = doc.render(lib_prefix=None, include_version=False)
r3 = doc.render()
print("render html", repr(r1["html"]))
print("render deps", [dep_dump(d) for d in r1["dependencies"]])
print("render 2 html", repr(r2["html"]))
print("render repeat", r1["html"] == r3["html"], r1["dependencies"] == r3["dependencies"], r1["dependencies"][0] is not r3["dependencies"][0])
print("doc unchanged", repr(doc._html), [d.name for d in doc._deps])

# round trip with the json render mode
htmltools.html_dependency_render_mode = "json"
try:
    rendered = str(TagList(div("body", a, b), c, a))
finally:
    htmltools.html_dependency_render_mode = "auto"
print("json mode str", repr(rendered))
html, deps = extract(rendered)
print("round trip html", repr(html))
print("round trip deps", [dep_dump(d) for d in deps], deps == [a, b, c])
doc = HTMLTextDocument("<head>@@</head>" + rendered, deps_replace_pattern="@@")
print("round trip render", repr(doc.render()["html"]))
