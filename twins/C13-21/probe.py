"""Probe for HTMLTextDocument._static_extract_serialized_html_deps (refactoring 1)."""
import htmltools
from htmltools import HTMLDependency, HTMLTextDocument, HTMLDocument, TagList, Tag, tags, div, HTML


def desc(d):
    return (
        type(d).__name__,
        d.name,
        str(d.version),
        d.source,
        d.script,
        d.stylesheet,
        d.meta,
        d.all_files,
        None if d.head is None else d.head.get_html_string(),
    )


def show(label, fn):
    try:
        r = fn()
    except BaseException as e:  # noqa
        print(label, "->", "EXC", type(e).__name__)
    else:
        print(label, "->", repr(r))


def ser(d, indent=None):
    return d.serialize_to_script_json(indent=indent).get_html_string()


deps = [
    HTMLDependency("a", "1.0"),
    HTMLDependency("b", "2.1.3", source={"subdir": "x/y"}, script={"src": "b.js"}),
    HTMLDependency(
        "c",
        "0.0.1",
        source={"href": "https://e.com/</script>"},
        script=[{"src": "c1.js", "defer": ""}, {"src": "c 2.js"}],
        stylesheet={"href": "c.css"},
        meta={"name": "m", "content": "</SCRIPT><script>"},
        all_files=True,
        head="<title>t</ScRiPt ></title>\r\nline2\n",
    ),
    HTMLDependency("d</script>", "3", head=TagList(tags.title("x"), tags.style("a > b {}"))),
    HTMLDependency("uni é\U0001f600", "9.9", head=tags.script("if (a </ b) {}")),
    HTMLDependency("a", "2.0"),
]

S = [ser(d) for d in deps]
S_ind = [ser(d, 2) for d in deps]

extract = HTMLTextDocument._static_extract_serialized_html_deps


def run_extract(html):
    out, ds = extract(html)
    return out, [desc(d) for d in ds]


texts = {
    "empty": "",
    "nodeps": "<html><head></head><body>hi</body></html>",
    "one": "<p>" + S[0] + "</p>",
    "all": "<html>" + "|".join(S) + "</html>",
    "all_indent": "X\n" + "\n".join(S_ind) + "\nY",
    "dups": S[1] + S[0] + S[1] + "mid" + S[0] + S[2] + S[1],
    "dup_diff_ws": S[0] + S_ind[0] + S[0],
    "adjacent": S[3] + S[3] + S[4],
    "uppercase_close": '<script type="application/json" data-html-dependency="">{"name":"q","version":"1"}</SCRIPT>' + S[0],
    "other_script": '<script type="application/json">{"name":"q","version":"1"}</script>' + S[5],
    "attr_order": '<script data-html-dependency="" type="application/json">{"name":"q","version":"1"}</script>tail',
    "manual_crlf": '<script type="application/json" data-html-dependency="">{\r\n"name":\r"q",\n"version":"1"}</script>tail',
    "manual_minimal": 'a<script type="application/json" data-html-dependency="">{"name":"q","version":"1"}</script>b',
    "unterminated": 'a<script type="application/json" data-html-dependency="">{"name":"q","version":"1"}',
    "nested_open": '<script type="application/json" data-html-dependency=""><script type="application/json" data-html-dependency="">{"name":"q","version":"1"}</script>z</script>',
    "backslash_text": "\\1 \\g<0> " + S[0] + " \\\\ \\n",
}
for k, t in texts.items():
    show("extract[%s]" % k, lambda t=t: run_extract(t))

bad = {
    "bad_json": '<script type="application/json" data-html-dependency="">{not json}</script>',
    "empty_payload": '<script type="application/json" data-html-dependency=""></script>',
    "json_list": '<script type="application/json" data-html-dependency="">[1,2]</script>',
    "json_number": '<script type="application/json" data-html-dependency="">5</script>',
    "missing_version": '<script type="application/json" data-html-dependency="">{"name":"q"}</script>',
    "extra_key": '<script type="application/json" data-html-dependency="">{"name":"q","version":"1","zzz":1}</script>',
    "bad_version": '<script type="application/json" data-html-dependency="">{"name":"q","version":"x.y"}</script>',
    "bad_source": '<script type="application/json" data-html-dependency="">{"name":"q","version":"1","source":"s"}</script>',
    "bad_script": '<script type="application/json" data-html-dependency="">{"name":"q","version":"1","script":[{"x":1}]}</script>',
    "good_then_bad": S[0] + '<script type="application/json" data-html-dependency="">{bad</script>',
    "bad_twice": '<script type="application/json" data-html-dependency="">{bad</script>' * 2 + S[0],
    "int_version": '<script type="application/json" data-html-dependency="">{"name":"q","version":1}</script>',
}
for k, t in bad.items():
    show("extract_bad[%s]" % k, lambda t=t: run_extract(t))

for k, t in {"none": None, "bytes": b"abc", "int": 5, "HTML": HTML("x" + S[0])}.items():
    show("extract_type[%s]" % k, lambda t=t: run_extract(t))


class MyStr(str):
    pass


def sub_case(t):
    out, ds = extract(MyStr(t))
    return type(out).__name__, str(out), [desc(d) for d in ds]


show("extract_strsub_nomatch", lambda: sub_case("plain"))
show("extract_strsub_match", lambda: sub_case("x" + S[1] + "y"))

# Through the public constructor / render
def doc_case(html, deps=None, pat=None, **kw):
    doc = HTMLTextDocument(html, deps=deps, deps_replace_pattern=pat)
    r = doc.render(**kw)
    return doc._html, [desc(d) for d in doc._deps], r["html"], [desc(d) for d in r["dependencies"]]


show("doc_basic", lambda: doc_case("<head>@@</head><body>" + S[1] + "@@" + S[2] + S[1] + "</body>", pat="@@"))
show("doc_with_deps", lambda: doc_case("<head>@@</head>" + S[0] + S[5], deps=[deps[1]], pat="@@", lib_prefix=None))
show("doc_nover", lambda: doc_case("<head>@@</head>" + S[1], pat="@@", include_version=False, lib_prefix="L/p"))
show("doc_deps_nopat", lambda: doc_case("x", deps=[deps[0]]))
show("doc_nopat_nodeps", lambda: doc_case("x" + S[0]))
show("doc_bad", lambda: doc_case("x" + bad["bad_json"], pat="x"))

# JSON render mode end-to-end
htmltools.html_dependency_render_mode = "json"
try:
    ui = div("body", deps[1], tags.span(deps[2], deps[1]), deps[3], deps[4])
    text = "<html><head>@@</head><body>" + str(ui) + "</body></html>"
    show("json_mode_text", lambda: text)
    show("json_mode_doc", lambda: doc_case(text, pat="@@"))
finally:
    htmltools.html_dependency_render_mode = "native"

# calling repeatedly (compiled pattern / no state leakage)
show("repeat1", lambda: run_extract(texts["dups"]))
show("repeat2", lambda: run_extract(texts["dups"]))
