"""Probe for TagList.tagify (and everything that goes through it)."""
from copy import copy

from htmltools import HTML, HTMLDependency, HTMLDocument, Tag, TagList, div, span, tags
from htmltools._core import MetadataNode

LOG = []


def show(label, fn):
    try:
        out = fn()
        print(label, "->", repr(out))
    except Exception as e:  # noqa: BLE001
        print(label, "!!", type(e).__name__, str(e)[:80])


class Many:
    def __init__(self, name, *items):
        self.name, self.items = name, items

    def tagify(self):
        LOG.append(self.name)
        return TagList(*self.items).tagify()


class One:
    def __init__(self, name, item):
        self.name, self.item = name, item

    def tagify(self):
        LOG.append(self.name)
        return self.item


class Boom:
    def tagify(self):
        LOG.append("boom")
        raise RuntimeError("boom")


class MetaTagifiable(MetadataNode):
    """A metadata node that is also tagifiable: the tagify branch must win."""

    def tagify(self):
        LOG.append("meta-tagifiable")
        return span("from-meta")


class PlainMeta(MetadataNode):
    def __init__(self):
        self.payload = [1, 2]


def dep(name="d", version="1.0"):
    return HTMLDependency(
        name, version, source={"href": "/x"}, script={"src": "a.js"}, head="<i>h</i>"
    )


def ids(tl):
    return [id(x) for x in tl]


# --- basic shapes -----------------------------------------------------------
show("empty", lambda: list(TagList().tagify()))
show("strings", lambda: list(TagList("a", HTML("<b>"), 1, 2.5, None).tagify()))
show("nested", lambda: str(TagList(div("x", span("y")), "z").tagify()))

# --- tagifiable expansion: 0, 1, many, nested, str, HTML, metadata ----------
d1 = dep()
tl = TagList(
    "head",
    Many("zero"),
    One("one-tag", div("t")),
    Many("many", "p", span("q"), d1, Many("inner", "r", HTML("<s>"))),
    One("one-str", "plain"),
    One("one-html", HTML("<u>")),
    One("one-dep", d1),
    MetaTagifiable(),
    d1,
    "tail",
)
before = repr(tl.data)
res = tl.tagify()
print("order of tagify calls:", LOG)
print("types:", [type(x).__name__ for x in res])
print("rendered:", repr(str(res)))
print("original untouched:", repr(tl.data) == before, len(tl), len(res))
print("result type:", type(res).__name__)

# dependencies: copied (not shared) when direct children, compared by value
direct = [x for x in res if isinstance(x, HTMLDependency)]
print("deps in result:", len(direct), [x == d1 for x in direct], [x is d1 for x in direct])

# fixed point + equality
res2 = res.tagify()
print("fixed point:", res2 == res, str(res2) == str(res), res2 is res)
plain = TagList("a", div("b", span("c"), id="i"), dep())
print("equal when nothing to expand:", plain.tagify() == plain)

# --- independence -----------------------------------------------------------
orig = TagList(div("a", span("b"), class_="k"), PlainMeta(), dep())
cp = orig.tagify()
print("shares nodes:", [a is b for a, b in zip(orig, cp)])
print("shares child list:", orig[0].children is cp[0].children, orig[0].attrs is cp[0].attrs)
print("inner shared:", orig[0].children[1] is cp[0].children[1])
print("meta payload shared:", orig[1].payload is cp[1].payload, type(cp[1]).__name__)
cp[0].append("new")
cp[0].attrs["class"] = "changed"
cp.append("extra")
print("orig after mutating copy:", repr(str(orig)), len(orig))
orig[0].children[1].append("deep")
print("copy after mutating orig:", repr(str(cp)))

# --- repeatability ----------------------------------------------------------
LOG.clear()
m = TagList(Many("m1", "a", One("o1", div("x"))), One("o2", span()))
r1, r2 = m.tagify(), m.tagify()
print("repeat:", r1 == r2, str(r1) == str(r2), LOG)
print("render:", m.render()["html"] == str(m), repr(str(m)))

# --- exceptions -------------------------------------------------------------
LOG.clear()
bad = TagList(One("first", "a"), Boom(), One("last", "b"))
show("boom", bad.tagify)
print("log after boom:", LOG, len(bad))
show("bad-return", lambda: list(TagList(One("x", 42)).tagify()))
show("bad-return-obj", lambda: [type(x).__name__ for x in TagList(One("x", object())).tagify()])
show("bad-return-none", lambda: list(TagList("a", One("x", None), "b").tagify()))


# --- TagList subclass keeps its class ---------------------------------------
class MyList(TagList):
    pass


sub = MyList("a", Many("s", "b", "c"))
print("subclass:", type(sub.tagify()).__name__, list(sub.tagify()))

# --- through Tag / HTMLDocument ---------------------------------------------
t = div(Many("t", "a", span("b")), dep("z", "2"), id="q")
print("tag tagify:", repr(str(t.tagify())), t.tagify() == t.tagify())
doc = HTMLDocument(t, One("d", tags.p("para")), lang="en")
print("doc:", repr(doc.render()["html"]))
print("doc again:", doc.render()["html"] == doc.render()["html"])
print("copy tl:", copy(tl) == tl, ids(copy(tl)) == ids(tl))
