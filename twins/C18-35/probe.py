# Probe for hash_deterministic (htmltools/_util.py) and head_content (htmltools/_core.py)
import hashlib
import subprocess
import sys

from htmltools import HTML, HTMLDependency, HTMLDocument, TagList, div, head_content, span, tags
from htmltools._util import hash_deterministic
import htmltools._core as core


def show(label, fn):
    try:
        print(label, "->", repr(fn()))
    except BaseException as e:  # noqa: BLE001
        print(label, "-> EXC", type(e).__name__, str(e)[:120])


class S(str):
    pass


class WeirdEncode(str):
    def encode(self, *a, **k):
        return "not bytes"


class LoggingEncode(str):
    calls = []

    def encode(self, *a, **k):
        LoggingEncode.calls.append((a, k))
        return str.encode(self, *a, **k)


inputs = ["", "a", "abc", "a" * 10000, "é", "日本語", "\x00", "\n", "<script>x</script>", "\U0001f600",
          S("abc"), HTML("<b>"), "abc ", " abc"]
for s in inputs:
    h = hash_deterministic(s)
    print(repr(s[:20]), h, type(h).__name__, len(h), h == hashlib.sha1(str(s).encode("utf-8")).hexdigest())
show("surrogate", lambda: hash_deterministic("\ud800"))
show("bytes", lambda: hash_deterministic(b"abc"))
show("None", lambda: hash_deterministic(None))
show("int", lambda: hash_deterministic(5))
show("list", lambda: hash_deterministic(["a"]))
show("weird encode", lambda: hash_deterministic(WeirdEncode("x")))
show("logging encode", lambda: hash_deterministic(LoggingEncode("x")))
print("encode calls", LoggingEncode.calls)
show("repeat", lambda: hash_deterministic("r") == hash_deterministic("r"))
show("no args", lambda: hash_deterministic())
show("kw", lambda: hash_deterministic(s="abc"))
print("core still exposes it", core.hash_deterministic is hash_deterministic)


# head_content
def hc(*args):
    d = head_content(*args)
    return (type(d).__name__, d.name, str(d.version), str(d.head), type(d.head).__name__, d.script, d.stylesheet, d.meta)


show("hc empty", lambda: hc())
show("hc none", lambda: hc(None))
show("hc empty str", lambda: hc(""))
show("hc str escaped", lambda: hc("<a&b>"))
show("hc HTML", lambda: hc(HTML("<a&b>")))
show("hc tag", lambda: hc(tags.title("T")))
show("hc tags", lambda: hc(tags.title("T"), tags.meta(name="x", content="é日本")))
show("hc nested list", lambda: hc([tags.title("T"), [tags.meta(name="x", content="é日本")]]))
show("hc numbers", lambda: hc(1, 2.5, True))
show("hc numbers as str", lambda: hc("1", "2.5", "True"))
show("hc joined", lambda: hc("12.5True"))
show("hc split", lambda: (head_content("a", "b").name == head_content("ab").name, head_content("a").name == head_content("b").name))
show("hc script", lambda: hc(tags.script("if (a < b && c) {}")))
show("hc surrogate", lambda: hc("\ud800"))
show("hc bad child", lambda: hc(object()))
show("hc nested dep", lambda: hc(div("x", head_content("inner")), HTMLDependency("d", "1.0")))
show("hc with attrs dict", lambda: hc({"class": "x"}))
show("hc taglist", lambda: hc(TagList("a", span("b"))))
show("hc kw", lambda: head_content(x=1))
a, b = head_content(span("s")), head_content(span("s"))
print("equal content -> same name, distinct objects", a.name == b.name, a is not b, a.head is not b.head)
kid = span("mutable")
d1 = head_content(kid)
kid.append("!")
d2 = head_content(kid)
print("name fixed at creation", d1.name != d2.name, str(d1.head) == str(d2.head))

# history independence inside one process
n1 = head_content(tags.style("a{}")).name
for i in range(50):
    head_content("noise %d" % i)
    str(div(i))
print("history independent", head_content(tags.style("a{}")).name == n1)

doc = HTMLDocument(
    TagList(
        div(head_content(tags.title("A")), "body1"),
        head_content(tags.title("A")),
        head_content(tags.title("B")),
        span(head_content("plain"), head_content(HTML("plain"))),
        head_content("<x>"), head_content(HTML("&lt;x&gt;")),
    )
)
r = doc.render()
print(r["html"])
print([(d.name, str(d.version)) for d in r["dependencies"]])

# across processes / hash seeds
code = (
    "from htmltools import *; from htmltools._util import hash_deterministic as h;"
    "print(h('seed'), head_content(tags.title('T'), 'é').name);"
    "print(HTMLDocument(TagList(head_content('q'), div(head_content('q'), head_content('r')))).render()['html'])"
)
outs = set()
for seed in ["0", "1", "12345", "random"]:
    import os
    env = dict(os.environ, PYTHONHASHSEED=seed)
    outs.add(subprocess.run([sys.executable, "-c", code], env=env, capture_output=True, text=True).stdout)
print("distinct outputs across seeds:", len(outs))
print(outs.pop())
