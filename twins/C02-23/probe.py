# Probe for refactoring 3: Tag.get_html_string (single text child inlining) and _normalize_text
from htmltools import HTML, HTMLDependency, Tag, TagList, a, div, span, tags
from htmltools import _core


def show(label, fn):
    try:
        r = fn()
        print(label, "->", type(r).__name__, repr(r))
    except BaseException as e:  # noqa: BLE001
        print(label, "-> EXC", type(e).__name__, str(e))


class LoudStr(str):
    def __str__(self):
        return "LOUD<" + str.__str__(self) + ">"


class Reprish:
    def _repr_html_(self):
        return "<i>r&</i>"


class Tagi:
    def tagify(self):
        return "<tagified & text>"


dep = HTMLDependency("dep", "1.0")

texts = [
    "",
    "plain",
    "<script>alert(1)</script>",
    "</div><!-- x --><![CDATA[",
    "&amp; &#60; &",
    "a > b < c",
    "\"q\" 'a' \n\r\t",
    "é中\U0001F600",
    LoudStr("loud & <proud>"),
    HTML("<b>raw & html</b>"),
    HTML(""),
]

names = ["div", "span", "p", "script", "style", "br", "img", "input", "SCRIPT", "Style", "x-y", "title", "textarea"]

# _normalize_text directly
for t in texts:
    show("_normalize_text(%r)" % (t,), lambda: _core._normalize_text(t))
for bad in [None, 5, 2.5, b"<b>", ["<"], object()]:
    show("_normalize_text(%s)" % type(bad).__name__, lambda: _core._normalize_text(bad))
h = HTML("<x>")
print("fresh string:", _core._normalize_text(h) == h.data, type(_core._normalize_text(h)).__name__)

for name in names:
    # no children / metadata-only children
    show("%s()" % name, lambda: Tag(name).get_html_string())
    show("%s(attrs)" % name, lambda: Tag(name, {"class": "a<b", "data-x": HTML("r&w")}, id="i").get_html_string())
    show("%s(dep)" % name, lambda: Tag(name, dep).get_html_string())
    show("%s(None, [])" % name, lambda: Tag(name, None, [], [None]).get_html_string())
    for t in texts:
        lab = "%s(%s %r)" % (name, type(t).__name__, str.__str__(t) if isinstance(t, str) else t.data)
        # a single text child
        show(lab, lambda: Tag(name, t).get_html_string())
        show(lab + " indent", lambda: Tag(name, t).get_html_string(2, "\r\n"))
        show(lab + " noaddws", lambda: Tag(name, t, _add_ws=False).get_html_string())
        # single text child next to a dependency (still inlined)
        show(lab + " +dep", lambda: Tag(name, dep, t, dep).get_html_string())
        # two children: goes through TagList.get_html_string
        show(lab + " x2", lambda: Tag(name, t, t).get_html_string())
        show(lab + " x2 noaddws", lambda: Tag(name, t, t, _add_ws=False).get_html_string(1, "|"))
        show(lab + " + tag", lambda: Tag(name, t, span(t), t).get_html_string())
        show(lab + " str()", lambda: str(Tag(name, t, class_=t if isinstance(t, str) else None)))
        show(lab + " render", lambda: Tag(name, t).render()["html"])

# a single non-text child
for name in ["div", "script", "span"]:
    show("%s(span)" % name, lambda: Tag(name, span("<x>")).get_html_string())
    show("%s(Reprish)" % name, lambda: Tag(name, Reprish()).get_html_string())
    show("%s(Tagi)" % name, lambda: Tag(name, Tagi()).get_html_string())
    show("%s(Tagi) render" % name, lambda: Tag(name, Tagi()).render()["html"])
    show("%s(5)" % name, lambda: Tag(name, 5).get_html_string())
    show("%s(1.5, True)" % name, lambda: Tag(name, 1.5, True).get_html_string())

# children smuggled in behind the normalisation
for name in ["div", "script"]:
    for junk in [5, None, b"<b>", ["<l>"]]:
        def run():
            t = Tag(name)
            t.children.data.append(junk)
            return t.get_html_string()
        show("%s(data=%r)" % (name, junk), run)

        def run2():
            t = Tag(name, "first<")
            t.children.data.append(junk)
            return t.get_html_string()
        show("%s('first<', data=%r)" % (name, junk), run2)

# odd indent / eol arguments
for indent in [0, 1, 3, True, -1, None, "x", 1.5]:
    for eol in ["\n", "", "<eol>", None, HTML("<br>")]:
        show("indent=%r eol=%r single" % (indent, eol), lambda: div("a<b").get_html_string(indent, eol))
        show("indent=%r eol=%r multi" % (indent, eol), lambda: div("a<b", span("&")).get_html_string(indent, eol))
        show("indent=%r eol=%r script" % (indent, eol), lambda: tags.script("a<b", "c&d").get_html_string(indent, eol))

# nested documents
doc = div(
    "top & <level>",
    tags.ul(tags.li("<one>"), tags.li("two", a("<link>", href="?a=1&b=2")), tags.li(3, 4.5)),
    tags.script("if (a < b && c > d) { x = '</div>'; }"),
    tags.style("a > b { content: '<&>'; }"),
    tags.script("one<", "two>"),
    tags.p(HTML("<em>raw</em>"), " & cooked"),
    span("inline<", _add_ws=False),
    tags.br(),
    tags.img(src="a&b.png"),
)
print(doc.get_html_string())
print(doc.get_html_string(1, "\r\n"))
print(str(doc))
print(doc.render()["html"])
