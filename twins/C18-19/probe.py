# Probe for refactoring 4: JSXTagAttrDict.update/_update, _render_react_js, _serialize_attr,
# _serialize_style_attr
from collections import OrderedDict
from htmltools import HTML, HTMLDependency, HTMLDocument, TagList, div, span, head_content, tags
from htmltools._jsx import (
    JSXTag, JSXTagAttrDict, jsx, jsx_tag_create, _render_react_js, _serialize_attr,
    _serialize_style_attr,
)


def show(label, fn):
    try:
        r = fn()
        print(label, "->", r if isinstance(r, str) else repr(r))
    except BaseException as e:  # noqa
        print(label, "!!", type(e).__name__, str(e)[:100])


def items(d):
    return (type(d).__name__, list(d.items()))


# --- JSXTagAttrDict
show("attrdict empty", lambda: items(JSXTagAttrDict()))
show("attrdict kw", lambda: items(JSXTagAttrDict(class_="a", data_x=1, fooBar=None, _x="u", __="dunder", _="")))
show("attrdict dup normalized", lambda: items(JSXTagAttrDict(**{"a_b": 1, "c": 2, "a-b": 3, "a_b_": 4})))
show("attrdict positional rejected", lambda: items(JSXTagAttrDict({"a": 1})))


def upd(*args, **kw):
    d = JSXTagAttrDict(z=0, a_b="orig")
    r = d.update(*args, **kw)
    return (r, items(d))


show("update none", lambda: upd())
show("update one map", lambda: upd({"x_y": 1, "z": 2}))
show("update two maps", lambda: upd({"x_y": 1, "z": 2}, {"x-y": 3, "w_": 4}))
show("update maps+kw", lambda: upd({"x_y": 1}, {"q": 2}, x_y="kw", class_="c"))
show("update kw only", lambda: upd(a_b="new", n=None))
show("update dup in one map", lambda: upd({"a_b": 1, "k": 2, "a-b": 3}))
show("update OrderedDict", lambda: upd(OrderedDict([("b_", 1), ("a_", 2)])))
show("update JSXTagAttrDict", lambda: upd(JSXTagAttrDict(m_n=1)))
show("update empty map", lambda: upd({}))
show("update pairs list", lambda: upd([("a", 1)]))
show("update None", lambda: upd(None))
show("update int key", lambda: upd({1: 2}))
show("update good then bad map", lambda: upd({"ok_1": 1}, {2: 2}))
d = JSXTagAttrDict(z=0)
show("partial: good map then bad map", lambda: d.update({"ok_1": 1}, {"fine": 1, 2: 2}, kw_x=5))
print("   state:", items(d))
d = JSXTagAttrDict(z=0)
show("partial: bad key inside map", lambda: d.update({"first_": 1, 3: 3, "never": 1}))
print("   state:", items(d))
show("_update direct", lambda: (lambda d: (d._update({"p_q_": 1, "z": 9}), items(d)))(JSXTagAttrDict(z=0)))
show("_update str-subclass keys", lambda: (lambda d: (d._update({jsx("a_b"): 1}), [(type(k).__name__, k, v) for k, v in d.items()]))(JSXTagAttrDict()))
show("setitem", lambda: (lambda d: (d.__setitem__("s_t_", 1), d.__setitem__("z", 2), items(d)))(JSXTagAttrDict(z=0)))


class Keys:
    """mapping-like without .items()"""
    def keys(self):
        return ["a"]

    def __getitem__(self, k):
        return 1


show("update keys-only mapping", lambda: upd(Keys()))

# --- _serialize_attr / _serialize_style_attr
Foo = jsx_tag_create("Foo")
vals = {
    "none": None, "true": True, "false": False, "int": 3, "float": 2.5, "neg": -1, "str": "a\"b'c",
    "empty": "", "jsx": jsx("() => 1"), "jsx_multi": jsx("a", "b"), "html": HTML("<b>\"</b>"),
    "list": [1, "a", None, [True, jsx("x")]], "tuple": (1, (2, 3)), "emptylist": [], "emptydict": {},
    "dict": {"a": 1, "b": {"c": [1, 2], "d": "q\""}, "e": None}, "dict_intkeys": {1: 2, 3: 4},
    "ordered": OrderedDict([("z", 1), ("a", 2)]),
    "tag": div("x", id="i"), "tag_empty": span(), "jsxtag": Foo("child", p=1), "jsxtag_empty": Foo(),
    "obj_str": type("O", (), {"__str__": lambda self: 'o"o'})(), "set1": {1}, "bytes": b"x\"",
    "taglist": TagList("a", "b"), "dep": HTMLDependency("a", "1"), "nested_tag_in_list": [div(), Foo()],
}
for k, v in vals.items():
    show("serialize_attr " + k, lambda v=v: _serialize_attr(v))

styles = {
    "none": None, "empty": "", "one": "color:red", "one_semi": "color:red;", "two": "color:red;margin:0 auto",
    "spaces": " color : red ; margin: 0 ;", "nocolon": "color", "mixed": "a:b;junk;c:d;;", "dup": "a:1;a:2",
    "url": "background:url(http://x)", "two_colons": "a:b:c", "only_colon": ":", "semi_only": ";;;",
    "dict": {"color": "red", "n": 1, "j": jsx("f()")}, "emptydict": {}, "jsxstr": jsx("color:blue"),
    "html": HTML("color:red"), "int": 3, "list": [("a", "b")], "true": True, "nested": {"a": {"b": "c:d"}},
}
for k, v in styles.items():
    show("serialize_style " + k, lambda v=v: _serialize_style_attr(v))

# --- _render_react_js
Bar = jsx_tag_create("Bar")
NS = jsx_tag_create("a.b.Bar")
dep = HTMLDependency("d", "1.0", script={"src": "d.js"})
trees = {
    "str": 'he said "hi"', "str_empty": "", "dep": dep, "hc": head_content("x"),
    "jsx_empty": Foo(), "tag_empty": div(), "jsx_attrs_only": Foo(a=1, b_c="x", style="color:red;x:y"),
    "jsx_one_attr": Foo(a=1), "jsx_style_only": Foo(style={"a": 1}), "jsx_style_none": Foo(style=None),
    "jsx_children_only": Foo("a", "b"), "jsx_one_child": Foo("a"),
    "jsx_both": Foo("a", Bar("b", k=[1, 2]), div("c", span(), id="x", class_="k"), z=jsx("f"), y=None),
    "jsx_only_metadata_children": Foo(dep, head_content("h")),
    "jsx_metadata_between": Foo("a", dep, "b", dep),
    "jsx_empty_str_child": Foo("", "x", ""),
    "tag_attrs": div(id="a", class_="b", style="c:d"), "tag_style_html": div(style=HTML("c:d")),
    "tag_children": div("a", span("b"), HTML("<i>"), dep),
    "ns": NS(Foo(), x=Bar()), "attr_tag": Foo(icon=div("i", id="q"), items=[Foo(n=1), span()]),
    "html_child": Foo(HTML("<b>")), "dict_attr": Foo(opts={"a": [1, {"b": None}]}),
    "deep": Foo(Foo(Foo(Foo("x", a=1), b=2), c=3), d=4),
}
for k, v in trees.items():
    for indent, eol in [(0, "\n"), (2, "\n"), (1, ""), (0, "\r\n"), (3, "<EOL>")]:
        show("render_react %s i=%d eol=%r" % (k, indent, eol), lambda v=v, indent=indent, eol=eol: repr(_render_react_js(v, indent, eol)))

bad = {
    "int": 3, "none": None, "taglist": TagList("a"), "list": ["a"], "bytes": b"a",
    "bad_child": Foo("ok", a=1), "bad_style": Foo(style=3), "bad_style_str": Foo("c", style="a:b:c"),
    "bad_style_then_bad_child": Foo(style=3),
}
bad["bad_child"].children.append("x"); bad["bad_child"].children.data.append(5)
bad["bad_style_then_bad_child"].children.data.append(5)
for k, v in bad.items():
    show("render_react-bad " + k, lambda v=v: _render_react_js(v, 0, "\n"))
show("render_react eol=None no children", lambda: _render_react_js(Foo(a=1), 0, None))
show("render_react eol=None children", lambda: _render_react_js(Foo("a", a=1), 0, None))
show("render_react eol=None bad 2nd child", lambda: _render_react_js(bad["bad_child"], 0, None))
show("render_react indent str", lambda: _render_react_js(Foo("a", a=1), "2", "\n"))
show("render_react indent float", lambda: _render_react_js(Foo("a", a=1), 1.5, "\n"))

# --- full tagify / document output
full = Foo("a", Bar("b", k=[1, 2], style="x:y"), div("c", dep, id="x"), head_content(tags.title("T")),
           z=jsx("f"), data_q="v", icon=span("s", head_content(tags.title("U"))))
print(str(full))
r = HTMLDocument(div(full, Foo())).render()
print(r["html"]); print([repr(d) for d in r["dependencies"]])
show("JSXTag lowercase", lambda: JSXTag("foo"))
show("JSXTag allowedProps", lambda: jsx_tag_create("Foo", ["a"])(b=1))
show("JSXTag allowedProps ok", lambda: str(jsx_tag_create("Foo", ["a"])(a=1).attrs))
