"""Deterministic probe for property C15 (attribute normalisation / merging).

Prints repr of outputs / exception types+messages.  Must print byte-identical
output on the unmodified tree and on the patched tree.
"""
import copy
import pickle
import types
from collections import OrderedDict
from decimal import Decimal
from fractions import Fraction

from htmltools import HTML, Tag, TagList, consolidate_attrs, div, span, tags
from htmltools._core import TagAttrDict


def show(d):
    """Exact description of a mapping: type, ordered items with value types."""
    return "%s[%s]" % (
        type(d).__name__,
        ", ".join(
            "%s:%r=%s:%r" % (type(k).__name__, str(k), type(v).__name__, str(v))
            for k, v in d.items()
        ),
    )


def attempt(label, fn):
    try:
        res = fn()
    except BaseException as e:  # noqa: BLE001
        print(label, "-> EXC", type(e).__name__, "|", str(e))
    else:
        if isinstance(res, dict):
            print(label, "->", show(res))
        else:
            print(label, "->", repr(res))


class MyStr(str):
    pass


class LoudStr(str):
    """str subclass with visible + behaviour."""

    def __add__(self, other):
        return "ADD(%s|%s)" % (str.__str__(self), other)

    def __radd__(self, other):
        return "RADD(%s|%s)" % (other, str.__str__(self))


class MyInt(int):
    pass


class MyFloat(float):
    def __str__(self):
        return "myfloat"


class MyHTML(HTML):
    pass


LOG = []


class LogMap:
    """Not a dict, only has .items(); logs when items() is called / iterated."""

    def __init__(self, name, pairs):
        self.name = name
        self.pairs = pairs

    def items(self):
        LOG.append("items:" + self.name)
        for p in self.pairs:
            LOG.append("yield:%s:%r" % (self.name, p[0] if len(p) else None))
            yield p


class LoggingAttrDict(TagAttrDict):
    """Overrides the normalisers through self to expose the call order."""

    def _normalize_attr_name(self, x):  # type: ignore[override]
        LOG.append("name:%r" % (x,))
        return TagAttrDict._normalize_attr_name(x)

    def _normalize_attr_value(self, x):  # type: ignore[override]
        LOG.append("value:%r" % (x,))
        return TagAttrDict._normalize_attr_value(x)

    def __setitem__(self, name, value):
        LOG.append("setitem:%r" % (name,))
        super().__setitem__(name, value)


def section(title):
    print()
    print("=== " + title + " ===")


# ---------------------------------------------------------------------------
section("names")
for nm in [
    "a", "a_", "a__", "_", "__", "___", "", "_a", "_a_", "a_b", "a_b_", "a__b",
    "data_foo_bar_", "class_", "for_", "Foo_Bar_", "a-b_", "a b_", "é_x_",
    MyStr("my_str_"), HTML("html_key_"), MyHTML("my_html_"),
]:
    attempt("name %r(%s)" % (nm, type(nm).__name__),
            lambda: TagAttrDict._normalize_attr_name(nm))
    r = TagAttrDict._normalize_attr_name(nm)
    print("   type:", type(r).__name__)
for nm in [1, None, b"a_", ("a_",), 1.5, ["x"]]:
    attempt("badname %r" % (nm,), lambda: TagAttrDict._normalize_attr_name(nm))

# ---------------------------------------------------------------------------
section("values")
VALUES = [
    None, False, True, 0, 1, -1, 10**30, 0.0, -0.0, 1.0, 1.5, 1e100, 1e-7,
    float("nan"), float("inf"), float("-inf"), "", " ", "x", "<&\"'>",
    HTML(""), HTML("<b>&</b>"), MyStr("sub"), MyInt(7), MyFloat(2.5), MyHTML("<i>"),
    LoudStr("loud"),
]
for v in VALUES:
    try:
        r = TagAttrDict._normalize_attr_value(v)
        print("value %r(%s) -> %s:%r same=%s" % (
            v, type(v).__name__, type(r).__name__, r if r is None else str(r), r is v))
    except BaseException as e:  # noqa: BLE001
        print("value %r -> EXC" % (v,), type(e).__name__, "|", str(e))
BAD = [
    [], (), {}, set(), b"x", bytearray(b"x"), 1j, Decimal("1.5"), Fraction(1, 2),
    object, len, TagList("a"), div("x"), range(3), ..., NotImplemented,
]
for v in BAD:
    attempt("badvalue %s" % type(v).__name__,
            lambda: TagAttrDict._normalize_attr_value(v))
# via instance as well
attempt("inst.value", lambda: TagAttrDict()._normalize_attr_value(3))
attempt("inst.name", lambda: TagAttrDict()._normalize_attr_name("q_r_"))

# ---------------------------------------------------------------------------
section("construction / merging")
attempt("empty", lambda: TagAttrDict())
attempt("empty dict", lambda: TagAttrDict({}))
attempt("empty dicts", lambda: TagAttrDict({}, {}, **{}))
attempt("kw only", lambda: TagAttrDict(a=1, b_="x", c_d=True, e=None, f=False))
attempt("one dict", lambda: TagAttrDict({"a": 1, "b_": "x", "c_d": True, "e": None}))
attempt("merge order", lambda: TagAttrDict(
    {"class": "a", "id": "i"}, {"class_": "b", "x": 1}, {"x_": 2, "class": "c"},
    class_="d", id=None, x=3.5, y=True))
attempt("first appearance", lambda: TagAttrDict(
    {"z": 1}, {"a": 1}, {"z": 2}, m=1, a=2))
attempt("same dict two spellings", lambda: TagAttrDict(
    {"a_b": 1, "a-b": 2, "a_b_": 3, "a-b_": 4}))
attempt("dropped then given", lambda: TagAttrDict(
    {"a": None, "b": False}, {"b": "later", "a": True}, a="kw"))
attempt("true merges", lambda: TagAttrDict({"a": True}, {"a": True}, a=True))
attempt("true + text", lambda: TagAttrDict({"a": True}, {"a": "x"}, a=True))
attempt("empty strings", lambda: TagAttrDict({"a": ""}, {"a": ""}, a="z"))
attempt("numbers", lambda: TagAttrDict({"a": 0}, {"a": 1.0}, {"a": -0.0}, a=10**20))
attempt("html+html", lambda: TagAttrDict({"a": HTML("<x>")}, a=HTML("&y")))
attempt("plain+html", lambda: TagAttrDict({"a": "<p\"'&>"}, a=HTML("<h>")))
attempt("html+plain", lambda: TagAttrDict({"a": HTML("<h>")}, a="<p\"'&>"))
attempt("plain+plain+html", lambda: TagAttrDict(
    {"a": "<1>"}, {"a": "&2"}, a=HTML("<h>")))
attempt("html+plain+plain", lambda: TagAttrDict(
    {"a": HTML("<h>")}, {"a": "<1>"}, a="\"2'"))
attempt("plain+html+plain+html", lambda: TagAttrDict(
    {"a": "<1>"}, {"a": HTML("<h>")}, {"a": "&3"}, a=HTML("&amp;")))
attempt("html+True", lambda: TagAttrDict({"a": HTML("<h>")}, a=True))
attempt("True+html", lambda: TagAttrDict({"a": True}, a=HTML("<h>")))
attempt("html+number", lambda: TagAttrDict({"a": HTML("<h>")}, a=5))
attempt("myhtml+plain", lambda: TagAttrDict({"a": MyHTML("<h>")}, a="<"))
attempt("plain+myhtml", lambda: TagAttrDict({"a": "<"}, a=MyHTML("<h>")))
attempt("single html kept", lambda: TagAttrDict(a=HTML("<h>")))
attempt("single myhtml kept", lambda: TagAttrDict(a=MyHTML("<h>")))
attempt("mystr single", lambda: TagAttrDict(a=MyStr("<s>")))
attempt("mystr merged", lambda: TagAttrDict({"a": MyStr("s1")}, a=MyStr("s2")))
attempt("loud single", lambda: TagAttrDict(a=LoudStr("l")))
attempt("loud first", lambda: TagAttrDict({"a": LoudStr("l")}, {"a": "p"}, a="q"))
attempt("loud second", lambda: TagAttrDict({"a": "p"}, {"a": LoudStr("l")}, a="q"))
attempt("loud + html", lambda: TagAttrDict({"a": LoudStr("l<")}, a=HTML("<h>")))
attempt("html + loud", lambda: TagAttrDict({"a": HTML("<h>")}, a=LoudStr("l<")))
attempt("myint/myfloat", lambda: TagAttrDict({"a": MyInt(3)}, a=MyFloat(1.5)))
attempt("odd kw names", lambda: TagAttrDict(**{"": 1, "_": 2, "__": 3, "a b": 4}))
attempt("'' and '_' collide", lambda: TagAttrDict({"": "e", "_": "u"}))
attempt("html keys", lambda: TagAttrDict({HTML("k_"): 1}, {HTML("k"): 2}, k=3))
attempt("mystr keys", lambda: TagAttrDict({MyStr("k_"): 1}, k=3))
s = MyStr("same")
d = TagAttrDict(a=s)
print("identity kept:", d["a"] is s)
h = HTML("<same>")
d = TagAttrDict({"a": None}, a=h)
print("identity kept html:", d["a"] is h)

section("construction errors")
attempt("int key None value", lambda: TagAttrDict({1: None, 2: False}))
attempt("int key value", lambda: TagAttrDict({1: "x"}))
attempt("int key bad value", lambda: TagAttrDict({1: []}))
attempt("bad value", lambda: TagAttrDict({"a": "ok"}, {"b": []}))
attempt("bad value kw", lambda: TagAttrDict({"a": "ok"}, b=object()))
attempt("bad after merge", lambda: TagAttrDict({"a": "ok"}, a={}))
attempt("none key", lambda: TagAttrDict({None: "x"}))
attempt("tuple key none", lambda: TagAttrDict({("a",): None}))
attempt("tuple key", lambda: TagAttrDict({("a",): 1}))
attempt("bytes key", lambda: TagAttrDict({b"a_": 1}))
attempt("list arg", lambda: TagAttrDict([("a", 1)]))
attempt("str arg", lambda: TagAttrDict("ab"))
attempt("none arg", lambda: TagAttrDict(None))
attempt("int arg", lambda: TagAttrDict(3))
attempt("good then list arg", lambda: TagAttrDict({"a": 1}, [("a", 1)], b=[]))
attempt("bad value then list arg", lambda: TagAttrDict({"a": []}, [("a", 1)]))
attempt("mappingproxy", lambda: TagAttrDict(types.MappingProxyType({"a_b": 1}), a_b=2))
attempt("ordereddict", lambda: TagAttrDict(OrderedDict([("b_", 1), ("a", 2)]), b=0))
attempt("tagattrdict arg", lambda: TagAttrDict(TagAttrDict(a_b=1), {"a-b": 2}))
attempt("triples", lambda: TagAttrDict(LogMap("t", [("a", 1, 2)])))
attempt("singles", lambda: TagAttrDict(LogMap("t", [("a",)])))
attempt("kw self-like", lambda: TagAttrDict(args=1, kwargs=2, attrz=3, name=4, value=5))

section("call order / side effects")
del LOG[:]
attempt("logging dict", lambda: LoggingAttrDict(
    LogMap("m1", [("a_", 1), ("b", None), ("c_d", True)]),
    LogMap("m2", [("a", "x"), ("b", 2)]),
    a=False, e_="z"))
print("LOG", LOG)
del LOG[:]
attempt("logging error", lambda: LoggingAttrDict(
    LogMap("m1", [("a_", 1), (5, None), (6, [])]), LogMap("m2", [("a", "x")]), z=1))
print("LOG", LOG)
del LOG[:]
attempt("logging name error", lambda: LoggingAttrDict(
    LogMap("m1", [("a_", 1), (5, "v"), ("q", [])]), LogMap("m2", [("a", "x")]), z=1))
print("LOG", LOG)
del LOG[:]
ld = LoggingAttrDict()
print("LOG after empty ctor", LOG)
ld.update()
print("LOG after empty update", LOG)
ld.update({}, **{})
ld.update(LogMap("u", [("k_k", 1), ("k-k", 2)]), k_k_=None, j=3)
print("LOG", LOG, show(ld))
del LOG[:]
ld["k_k"] = "new"
ld["zz_"] = None
ld["yy_"] = False
ld["ww_"] = True
ld[7] = None
attempt("ld[7]=1", lambda: ld.__setitem__(7, 1))
attempt("ld['v']=[]", lambda: ld.__setitem__("v", []))
attempt("ld[7]=[]", lambda: ld.__setitem__(7, []))
print("LOG", LOG, show(ld))
del LOG[:]

section("update / setitem semantics")
d = TagAttrDict({"class": "a", "id": "x"}, class_="b", data_x=1)
print(show(d))
d.update({"class_": "c"})
print("update replaces:", show(d))
d.update({"class": "d", "new": 1}, {"class_": "e"}, new=2, id=None)
print("update merges within call:", show(d))
d["class_"] = "f"
print("setitem replaces:", show(d))
d["class"] = None
d["id"] = False
print("setitem None/False is no-op:", show(d))
d["id_"] = True
d["n_m_"] = 12
d["fl"] = 1.25
d["h"] = HTML("<h>")
d["n_m"] = HTML("&")
print("setitem misc:", show(d))
attempt("setitem bad", lambda: d.__setitem__("bad", []))
attempt("setitem bad key", lambda: d.__setitem__(3, "v"))
attempt("setitem bad key none", lambda: d.__setitem__(3, None))
attempt("setitem unhashable none", lambda: d.__setitem__([], None))
attempt("setitem unhashable", lambda: d.__setitem__([], "v"))
print("after errors:", show(d))
before = show(d)
attempt("update atomic", lambda: d.update({"class": "ZZ", "brand_new": 1}, {"oops": []}))
print("unchanged after failed update:", show(d) == before)
attempt("update atomic 2", lambda: d.update({"class": "ZZ"}, {3: "v"}))
print("unchanged after failed update 2:", show(d) == before)
attempt("update atomic 3", lambda: d.update({"class": "ZZ"}, ["x"]))
print("unchanged after failed update 3:", show(d) == before)
print("update returns:", repr(d.update(a=1)), repr(d.update()))
attempt("update positional non-mapping", lambda: d.update(5))
attempt("update html merge", lambda: (d.update({"m": "<"}, m=HTML("<b>")), d)[1])
d2 = TagAttrDict(a=1)
d2.__init__({"b_": 2}, a=3)
print("re-init:", show(d2))
d2.__init__()
print("re-init empty:", show(d2))
attempt("re-init fail", lambda: d2.__init__({"c": 1}, d=[]))
print("after failed re-init:", show(d2))
d3 = TagAttrDict.__new__(TagAttrDict)
d3["a_"] = 1
d3.update(a=2, b=3)
print("new without init:", show(d3))
print("setdefault bypass:", show((lambda x: (x.setdefault("r_s", 5), x)[1])(TagAttrDict())))
print("copy.copy:", show(copy.copy(d)), type(copy.copy(d)).__name__)
print("deepcopy:", show(copy.deepcopy(d)))
print("pickle:", show(pickle.loads(pickle.dumps(TagAttrDict({"a_b": 1}, c="x")))))
print("dict.copy type:", type(d.copy()).__name__)
print("eq plain dict:", TagAttrDict(a_b=1, c=True) == {"a-b": "1", "c": ""})
print("| op:", show(TagAttrDict(a=1) | {"b_": None}))

section("Tag level")
t = div({"class": "a", "data_x": 1}, "child", {"class_": "b"}, span("s"),
        class_="c", id="i", hidden=True, title=None, data_y=2.5)
print(show(t.attrs))
print(str(t))
t.attrs.update({"class": "z"}, class_="y")
t.attrs["id_"] = 9
t.attrs["hidden"] = False
print(str(t))
t2 = tags.a({"href": "/?a=1&b=2", "class": "<q>"}, {"class": HTML("&amp;ok")},
            "txt", class_="\"quoted\"", onclick=HTML("f('<x>')"))
print(show(t2.attrs))
print(str(t2))
print(str(Tag("x-y", {"a_b_": True}, {"a-b": HTML("")}, a_b="'")))
attempt("tag bad attr", lambda: div({"a": []}))
attempt("tag bad attr kw", lambda: div(a=[]))
attempt("tag bad key", lambda: div({1: 2}))
attempt("tag attrs dict subclass", lambda: div(OrderedDict(a_b=1), TagAttrDict(c_=2), a_b=3).attrs)
print(str(div(_add_ws=False, a_=1)))
print(div(a=1, b="x") == div({"a": "1"}, b="x"), div(a=1) == div(a=2))
print(str(t.add_class("k")), t.has_class("k"), t.has_class("z"))
print(str(div().add_class("p").add_class("q", prepend=True).add_style("c:d;")))
print(str(tags.input(type="checkbox", checked=True, disabled=False, value=0)))

section("consolidate_attrs")
kid_list = ["l", 1]
kid_tag = span("k")
kid_tl = TagList("a", "b")
res = consolidate_attrs(
    {"class": "a", "x_y": 1}, "s", kid_list, None, kid_tag, {"class_": "b"}, 5, 2.5,
    kid_tl, HTML("<r>"), class_="c", z=True, n=None, f=False)
print(type(res).__name__, len(res))
print(show(res[0]), type(res[0]) is dict)
print([type(c).__name__ for c in res[1]], type(res[1]).__name__)
print(res[1][1] is kid_list, res[1][3] is kid_tag, res[1][6] is kid_tl, res[1][2] is None)
attempt("ca empty", lambda: consolidate_attrs())
attempt("ca only kw", lambda: consolidate_attrs(a_b=1, c=None))
attempt("ca only dicts", lambda: consolidate_attrs({"a": 1}, {}, {"a": 2}))
attempt("ca tagattrdict", lambda: consolidate_attrs(TagAttrDict(a_b=1), OrderedDict(c=2), "k"))
attempt("ca html merge", lambda: consolidate_attrs({"a": "<"}, {"a": HTML("<b>")}, a="&"))
attempt("ca bad attr", lambda: consolidate_attrs({"a": []}))
attempt("ca bad attr kw", lambda: consolidate_attrs("x", a=[]))
attempt("ca bad child", lambda: consolidate_attrs({"a": 1}, object()))
attempt("ca bad child and attr", lambda: consolidate_attrs({"a": []}, object()))
attempt("ca set child", lambda: consolidate_attrs({1, 2}))
attempt("ca gen child", lambda: consolidate_attrs((x for x in "ab")))
attempt("ca nested bad child", lambda: consolidate_attrs(["a", [b"x"]]))
attempt("ca _add_ws", lambda: consolidate_attrs({"a": 1}, _add_ws=False))
attempt("ca bad _add_ws", lambda: consolidate_attrs({"a": 1}, _add_ws="no"))
attempt("ca _name", lambda: consolidate_attrs({"a": 1}, _name="q"))
attempt("ca mappingproxy is child", lambda: consolidate_attrs(types.MappingProxyType({"a": 1})))
src = {"a": 1}
out = consolidate_attrs(src, "k")
out[0]["new"] = "v"
print("input untouched:", src, "fresh dict:", out[0] is not src)
a1, k1 = consolidate_attrs({"class": "a"}, "x", span("y"), {"class": HTML("<b>")}, id_=1)
print(div(a1, *k1) == div({"class": "a"}, "x", span("y"), {"class": HTML("<b>")}, id_=1))
print(str(div(a1, *k1)))
a2, k2 = consolidate_attrs(a1, *k1)
print(show(a2), a2 == a1, [str(c) for c in k2])
