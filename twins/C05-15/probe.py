# Probe for refactoring 5: __copy__ of Tag / HTMLDocument / JSXTag (and tagify(), which
# is built on it).
import copy
import sys

from htmltools import (
    HTML,
    HTMLDependency,
    HTMLDocument,
    Tag,
    TagList,
    div,
    span,
    tags,
    a,
    strong,
)
from htmltools._jsx import JSXTag, jsx, jsx_tag_create


class Rep:
    def _repr_html_(self):
        return "<u>rep</u>"


class Tgf:
    def __init__(self, out):
        self.out = out

    def tagify(self):
        return self.out


class NoCopy:
    def __copy__(self):
        raise ValueError("cannot copy me")


class Counted:
    n = 0

    def __copy__(self):
        Counted.n += 1
        return Counted()


class SubTag(Tag):
    def __init__(self, *args, **kwargs):
        super().__init__("sub-tag", *args, _add_ws=False, **kwargs)
        self.extra = ["e1"]
        self.label = "lbl"


class SlotTag(Tag):
    __slots__ = ("slot_field",)


class InitCounting(Tag):
    inits = 0

    def __init__(self, *args, **kwargs):
        InitCounting.inits += 1
        super().__init__("ic", *args, **kwargs)


class SubDoc(HTMLDocument):
    def __init__(self, *args, **kwargs):
        super().__init__(*args, **kwargs)
        self.note = {"k": "v"}


def show(label, fn):
    try:
        out = fn()
        print(label, "->", type(out).__name__, repr(out))
    except Exception as e:  # noqa: BLE001
        print(label, "-> EXC", type(e).__name__, str(e))


dep = HTMLDependency("d", "1.0")


def tag_report(orig, cp):
    return (
        type(cp).__name__,
        cp is not orig,
        cp == orig,
        list(cp.__dict__.keys()) == list(orig.__dict__.keys()),
        cp.name,
        cp.add_ws,
        cp.attrs is not orig.attrs,
        dict(cp.attrs),
        cp.children is not orig.children,
        type(cp.children).__name__,
        [c1 is c2 for c1, c2 in zip(cp.children, orig.children)],
        cp.prev_displayhook,
        str(cp),
        cp.get_html_string(1, "\r\n"),
    )


print("==== Tag copies")
originals = [
    span("a"),
    span(),
    div(),
    a("x", strong("y"), "z", href="#", class_="k"),
    div(span("a"), span("b"), "c", id="i"),
    div(div(span("in"), "line"), tags.p("x", Rep())),
    span(dep, "t", span(dep)),
    Tag("custom", "q", HTML("<raw>"), _add_ws=False, data_x="1"),
    Tag("custom", span("q"), _add_ws=True),
    tags.script("a<b", "c"),
    tags.br(),
    SubTag("s1", span("s2"), id="st"),
    InitCounting("i1"),
]
for i, o in enumerate(originals):
    for how, fn in (("copy.copy", copy.copy), ("__copy__", lambda x: x.__copy__()), ("tagify", lambda x: x.tagify())):
        show(f"[{i}] {how}", lambda: tag_report(o, fn(o)))
    # mutation of the copy leaves the original alone (and vice versa)
    cp = copy.copy(o)
    cp.children.append(span("NEW"))
    cp.attrs["data-new"] = "1"
    cp.add_ws = not cp.add_ws
    cp.name = "renamed"
    print(f"[{i}] after mutating copy: orig", repr(str(o)), o.add_ws, "| copy", repr(str(cp)), cp.add_ws)
    # shared child objects: mutating a child shows through both
    if len(o.children) and isinstance(o.children[0], Tag):
        o.children[0].attrs["shared"] = "yes"
        print(f"[{i}] shared child:", repr(str(copy.copy(o))))
print("InitCounting.inits", InitCounting.inits)

print("==== extra fields, slots, failures")
st = SubTag("c")
cp = copy.copy(st)
print(type(cp).__name__, cp.extra, cp.extra is not st.extra, cp.label, cp.label is st.label)
sl = SlotTag("slot", "c", _add_ws=False)
sl.slot_field = "sv"
show("slot copy", lambda: (str(copy.copy(sl)), hasattr(copy.copy(sl), "slot_field")))
bad = span("x")
bad.payload = NoCopy()
show("uncopyable field", lambda: copy.copy(bad))
show("uncopyable field tagify", lambda: bad.tagify())
show("uncopyable field str", lambda: str(bad))
cnt = div("x")
cnt.counted = Counted()
copy.copy(cnt)
str(cnt)
print("Counted.n", Counted.n)
show("deepcopy", lambda: tag_report(originals[4], copy.deepcopy(originals[4]))[:12])
entered = div("ctx")
old_hook = sys.displayhook
sys.displayhook = lambda v: None
try:
    with entered:
        inner = copy.copy(entered)
        print("copied while entered", inner.prev_displayhook is entered.prev_displayhook, inner.prev_displayhook is not None)
finally:
    sys.displayhook = old_hook
print("after exit", entered.prev_displayhook, inner.prev_displayhook is not None)

print("==== tagify trees keep whitespace flags and layout")
tree = div(
    span("a", Tgf(span("b", "c")), Tgf("plain<"), Tgf(HTML("<raw>"))),
    Tgf(TagList(span("d"), "e", div("f"))),
    Tag("i", Tgf(Tag("j", "k", _add_ws=False)), _add_ws=False),
    dep,
)
t2 = tree.tagify()
show("tree str", lambda: str(tree))
show("tagified html", lambda: t2.get_html_string())
show("tagified inline html", lambda: t2.children[0].get_html_string(3, "\n"))


def flags(t):
    return (t.name, t.add_ws, [flags(c) for c in t.children if isinstance(c, Tag)])


show("flags", lambda: flags(t2))
show("orig untouched", lambda: [type(c).__name__ for c in tree.children])
show("dep copied", lambda: (t2.children[-1] is not dep, t2.children[-1] == dep))
show("nested tagifiable output", lambda: str(div(Tgf(span("b", Tgf("c"))))))

print("==== HTMLDocument copies")
docs = [
    HTMLDocument(),
    HTMLDocument(span("a"), span("b"), "c", lang="en"),
    HTMLDocument(tags.html(tags.head(tags.title("t")), tags.body(span("a"), dep))),
    SubDoc(div(span("x")), class_="c"),
]
for i, d in enumerate(docs):
    for how, fn in (("copy.copy", copy.copy), ("__copy__", lambda x: x.__copy__())):
        c = fn(d)
        print(
            f"doc[{i}] {how}",
            type(c).__name__,
            c is not d,
            list(c.__dict__.keys()),
            c._content is not d._content,
            c._content == d._content,
            c._html_attr_args is not d._html_attr_args,
            c._html_attr_args == d._html_attr_args,
            repr(c.render()["html"]),
        )
    c = copy.copy(d)
    c.append(span("only-in-copy"))
    c._html_attr_args["id"] = "copy"
    print(f"doc[{i}] orig after mutation", repr(d.render()["html"]))
    print(f"doc[{i}] copy after mutation", repr(c.render()["html"]))
sd = copy.copy(docs[3])
print("subdoc note", sd.note, sd.note is not docs[3].note)
bd = HTMLDocument("x")
bd.payload = NoCopy()
show("doc uncopyable", lambda: copy.copy(bd))

print("==== JSXTag copies")
Foo = jsx_tag_create("Foo")
Bar = jsx_tag_create("My.Bar", allowedProps=["x", "style"])
jsx_objs = [
    Foo(),
    Foo("child", span("s"), id="i", fn=jsx("() => 1")),
    Foo(Bar(span("in"), x=div("attr-tag"), style="color:red;"), dep, cls_="k"),
    Bar(Foo("n")),
]
for i, j in enumerate(jsx_objs):
    for how, fn in (("copy.copy", copy.copy), ("__copy__", lambda x: x.__copy__())):
        c = fn(j)
        print(
            f"jsx[{i}] {how}",
            type(c).__name__,
            c is not j,
            list(c.__dict__.keys()),
            c.name,
            c.attrs is not j.attrs,
            type(c.attrs).__name__,
            list(c.attrs.keys()),
            c.children is not j.children,
            [x is y for x, y in zip(c.children, j.children)],
        )
        print(f"jsx[{i}] {how} str equal", str(c) == str(j))
    c = copy.copy(j)
    c.append("only-in-copy")
    c.attrs["extra_"] = 1
    print(f"jsx[{i}] orig", repr(str(j)))
    print(f"jsx[{i}] copy", repr(str(c)))
    print(f"jsx[{i}] in div", repr(str(div(j, span("after")))))
    print(f"jsx[{i}] in span", repr(str(span("before", j))))
bj = Foo("x")
bj.payload = NoCopy()
show("jsx uncopyable", lambda: copy.copy(bj))
show("jsx uncopyable in div", lambda: str(div(bj)))
