from htmltools import HTML, Tag, TagList, div, span, tags, consolidate_attrs
from htmltools._core import TagAttrDict


def show(label, fn):
    try:
        print(label, "->", repr(fn()))
    except BaseException as e:  # noqa
        print(label, "-> EXC", type(e).__name__, str(e))


def dump(d):
    return [(k, type(v).__name__, str(v)) for k, v in d.items()]


class SubHTML(HTML):
    pass


class SubStr(str):
    pass


VALUES = [
    None,
    False,
    True,
    0,
    1,
    -2.5,
    float("inf"),
    "",
    "plain",
    "a\"b'c<d>&e\nf\r",
    SubStr("sub<"),
    HTML("<raw \"q\">"),
    SubHTML("&amp;"),
    HTML(""),
    [1],
    ("t",),
    {"k": "v"},
    b"bytes",
    object,
    2 + 3j,
]
NAMES = ["id", "class_", "data_foo_bar", "_x", "__", "_", "", "for_", "aria_label_", "A_b", "a-b", "x__y_"]

# __setitem__
for n in NAMES:
    for v in VALUES:
        def f():
            d = TagAttrDict()
            d[n] = v
            return dump(d)

        show(f"setitem {n!r} {v!r}", f)

for badname in (5, None, ("a",), b"by_"):
    for v in (None, False, "v", True, [1]):
        def f():
            d = TagAttrDict()
            d[badname] = v
            return dump(d)

        show(f"setitem badname {badname!r} {v!r}", f)

        def g():
            d = TagAttrDict()
            d.update({badname: v})
            return dump(d)

        show(f"update badname {badname!r} {v!r}", g)

# setitem overwrites (no merging), keeps position
d = TagAttrDict(a="1", b_="2", c="3")
d["b"] = "new"
d["a_"] = HTML("<h>")
d["c"] = None
d["d"] = False
d["e"] = True
show("overwrite", lambda: dump(d))

# constructor / update merging
CASES = [
    ((), {}),
    (({},), {}),
    (({"class": "a"}, {"class": "b"}), {"class_": "c"}),
    (({"class": "a"}, {"class_": None}, {"class": False}), {"class_": "z"}),
    (({"class": "a<"}, {"class": HTML("<b>")}), {}),
    (({"class": HTML("<b>")}, {"class": "a<\"'"}), {}),
    (({"class": HTML("<b>")}, {"class": HTML("<c>")}), {"class_": "d&"}),
    (({"class": "x&"}, {"class": "y&"}), {"class_": HTML("&amp;")}),
    (({"class": SubHTML("<s>")}, {"class": SubStr("t<")}), {}),
    (({"style": ""}, {"style": True}, {"style": ""}), {}),
    (({"n": 1}, {"n": 2.5}, {"n": True}), {"n": 0}),
    (({"a_b": "1", "a-b": "2", "a_b_": "3"},), {"a_b": "4"}),
    (({"z": "1"}, {"y": "2"}, {"z": "3"}), {"x": "0", "y": "9"}),
    (({"k": [1]},), {}),
    (({"ok": "1", "k": object()},), {"later": "2"}),
    (({"k": None, "j": False},), {"k": None}),
    (({"data_x": "\n"}, {"data-x": HTML("\n")}), {}),
    ((TagAttrDict(a="1", b=HTML("<")), {"a": "2", "b": "3"}), {}),
]
for i, (args, kwargs) in enumerate(CASES):
    show(f"ctor {i}", lambda: dump(TagAttrDict(*args, **kwargs)))

    def upd():
        d = TagAttrDict(pre="p", class_="pre")
        d.update(*args, **kwargs)
        return dump(d)

    show(f"update {i}", upd)
    show(f"tag {i}", lambda: str(Tag("div", *args, "child", **kwargs)))
    show(f"void {i}", lambda: str(Tag("img", *args, **kwargs)))
    show(f"consolidate {i}", lambda: consolidate_attrs(*args, **kwargs))

# failed update leaves the dict untouched
d = TagAttrDict(a="1")
show("failed update", lambda: d.update({"b": "2"}, {"c": object()}))
show("after failed update", lambda: dump(d))
show("update non-mapping", lambda: TagAttrDict().update([("a", "b")]))
show("ctor non-mapping", lambda: TagAttrDict("ab"))


# subclass hooks are still honoured
class Upper(TagAttrDict):
    @staticmethod
    def _normalize_attr_name(x):
        return x.upper()

    @staticmethod
    def _normalize_attr_value(x):
        if x == "skip":
            return None
        return "<" + str(x) + ">"


show("subclass ctor", lambda: dump(Upper({"a_b": 1, "c": "skip"}, {"A_B": HTML("h")}, d=None)))


def sub_set():
    u = Upper()
    u["x_y"] = None
    u["z"] = "skip"
    return dump(u)


show("subclass setitem", sub_set)

# Tag helpers that go through update()
t = div(class_="a", style="color:red;")
show("add_class", lambda: str(t.add_class("b").add_class("c<", prepend=True)))
show("add_class html", lambda: str(t.add_class(HTML("<h>"))))
show("add_style", lambda: str(t.add_style("top:1px;").add_style(HTML("left:\"2\";"), prepend=True)))
show("add_style bad", lambda: t.add_style("nosemi"))
show("remove_class", lambda: str(t.remove_class("b")))
show("has_class", lambda: (t.has_class("a"), t.has_class("zz")))
show("attrs dump", lambda: dump(t.attrs))
show("empty add_class", lambda: str(span().add_class("only")))
show("none class", lambda: str(span().add_class(None)))
show("tags fn", lambda: str(tags.a({"href": "x?a=1&b=2"}, "l", href_=None, target="_blank", hidden=True, download=False)))
show("taglist", lambda: str(TagList(div(id=1), span({"id": 2}, id=3))))
