import collections
import types

from htmltools import HTML, HTMLDependency, Tag, TagList, consolidate_attrs, div, span, tags
from htmltools._core import TagAttrDict


def show(label, fn):
    try:
        print(label, "->", repr(fn()))
    except BaseException as e:  # noqa
        print(label, "-> EXC", type(e).__name__, str(e))


class MyDict(dict):
    pass


class Repr:
    def _repr_html_(self):
        return "<i>r</i>"

    def __repr__(self):
        return "Repr()"


class Tagifiable:
    def tagify(self):
        return span("tagified")

    def __repr__(self):
        return "Tagifiable()"


dep = HTMLDependency("d", "1")

ARGSETS = [
    (),
    ("text",),
    ({"id": "a"},),
    ({},),
    ("a", {"class": "x"}, "b", {"class": "y"}, 3, None, {"id": "i<"}),
    ({"class": "x"}, {"class": HTML("<h>")}, "kid & <kid>"),
    (MyDict(title="t\"q"), TagAttrDict(lang_="en"), collections.OrderedDict([("data_z", 1)]), "k"),
    (collections.UserDict({"id": "userdict"}), "k"),
    (types.MappingProxyType({"id": "proxy"}),),
    ([{"id": "nested-in-list"}, "k"],),
    (("t", ["u", (None, 4.5)]), TagList("v", span("w")), div("x")),
    (dep, Repr(), HTML("<raw>"), span("s", {"id": "inner"})),
    (Tagifiable(), "after"),
    ({"bad": [1]}, "child"),
    ("child", object()),
    ({"bad": [1]}, object()),
    (object(), {"bad": [1]}),
    ({5: "intkey"},),
    ({"a": None, "b": False, "c": True},),
    (True, False, 0),
    (b"bytes",),
    ({"x": "1"}, {"x": "2"}, {"y_": "3"}),
]
KWSETS = [{}, {"id": "kw"}, {"class_": "kwc", "x": "0"}, {"hidden": True, "skip": None}]


def describe(t):
    return (
        t.name,
        t.add_ws,
        [(k, type(v).__name__, str(v)) for k, v in t.attrs.items()],
        [(type(c).__name__, str(c)) for c in t.children],
        str(t),
    )


def describe_consolidated(res):
    attrs, children = res
    return (
        type(attrs).__name__,
        [(k, type(v).__name__, str(v)) for k, v in attrs.items()],
        type(children).__name__,
        [(type(c).__name__, c if isinstance(c, (str, int, float, type(None))) else type(c).__name__) for c in children],
    )


for i, args in enumerate(ARGSETS):
    for j, kw in enumerate(KWSETS):
        show(f"Tag {i}/{j}", lambda: describe(Tag("div", *args, **kw)))
        show(f"Tag noWS {i}/{j}", lambda: describe(Tag("span", *args, _add_ws=False, **kw)))
        show(f"void {i}/{j}", lambda: describe(Tag("br", *args, **kw)))
        show(f"consolidate {i}/{j}", lambda: describe_consolidated(consolidate_attrs(*args, **kw)))
    show(f"tags.p {i}", lambda: str(tags.p(*args)))

# identity of children returned by consolidate_attrs; args not altered
lst = ["in", ["nested", None]]
d1 = {"class": "a"}
a, kids = consolidate_attrs(lst, d1, None, "s", class_="b")
show("kids identity", lambda: (kids[0] is lst, kids[1] is None, kids[2] == "s", len(kids)))
show("attrs plain dict", lambda: (type(a) is dict, a))
show("d1 untouched", lambda: d1)
show("lst untouched", lambda: lst)

# the dict passed to a Tag is not stored / aliased
d2 = {"id": "orig"}
t = Tag("div", d2, "c")
d2["id"] = "changed"
show("no alias", lambda: str(t))

# _add_ws validation happens regardless of the arguments
show("add_ws bad", lambda: Tag("div", "x", _add_ws="yes"))
show("add_ws bad + bad attr", lambda: Tag("div", {"k": [1]}, _add_ws=None))
show("add_ws via consolidate", lambda: consolidate_attrs("x", _add_ws=False))
show("add_ws bad via consolidate", lambda: consolidate_attrs("x", _add_ws=1))

# generators / iterables as single children are not expanded by the splitter
show("generator child", lambda: str(Tag("div", (x for x in "ab"))))
show("range child", lambda: str(Tag("div", range(2))))
show("many", lambda: str(Tag("ul", *[tags.li(str(n), {"data_n": n}) for n in range(5)], *[{"class": f"c{n}"} for n in range(3)])))
show("prev_displayhook", lambda: Tag("div", {"a": "b"}).prev_displayhook)
show("dict keys", lambda: list(Tag("div", {"a": "b"}, "x").__dict__.keys()))
