# Probe for TagList.tagify / Tag.tagify refactorings: prints a deterministic transcript.
import itertools
from copy import copy

from htmltools import HTML, HTMLDependency, HTMLDocument, Tag, TagList, div, span, tags

LOG = []


def dep(name="d", ver="1.0"):
    return HTMLDependency(name, ver, source={"href": "https://x.test/" + name},
                          script={"src": name + ".js"})


class T:
    """Tagifiable returning whatever `fn` builds; logs call order."""

    def __init__(self, label, fn):
        self.label = label
        self.fn = fn

    def tagify(self):
        LOG.append(self.label)
        return self.fn()


class Boom:
    def __init__(self, label):
        self.label = label

    def tagify(self):
        LOG.append("boom-" + self.label)
        raise ValueError("boom " + self.label)


class DepT(HTMLDependency):
    """Both a MetadataNode and Tagifiable: the Tagifiable branch must win."""

    def tagify(self):
        LOG.append("dept")
        return span("from-dept")


class SelfRender:
    def tagify(self):
        return self

    def _repr_html_(self):
        return "<i>self</i>"


class SubList(TagList):
    kind = "sub"


def desc(x, depth=0):
    """Structural description without addresses."""
    if isinstance(x, Tag):
        return "%s%s[%s]" % (x.name, dict(x.attrs), ",".join(desc(c) for c in x.children))
    if isinstance(x, TagList):
        return "%s(%s)" % (type(x).__name__, ",".join(desc(c) for c in x))
    if isinstance(x, HTMLDependency):
        return "%s<%s@%s>" % (type(x).__name__, x.name, x.version)
    if isinstance(x, HTML):
        return "HTML(%r)" % str(x)
    if isinstance(x, str):
        return repr(x)
    return "<%s>" % type(x).__name__


def attempt(label, fn):
    del LOG[:]
    try:
        out = fn()
        print("%s: %s" % (label, out))
    except Exception as e:  # noqa: BLE001
        print("%s: raised %s: %s" % (label, type(e).__name__, e))
    print("   calls=%s" % ",".join(LOG))


EXP = {
    "E": lambda: TagList(),
    "1": lambda: TagList("one"),
    "3": lambda: TagList("a", span("b"), HTML("<c/>")),
    "G": lambda: div("tag", class_="g"),
    "S": lambda: "a<str>",
    "H": lambda: HTML("<raw/>"),
    "D": lambda: dep("exp", "2.0"),
    "N": lambda: TagList(T("inner", lambda: TagList("n1", T("inner2", lambda: span("n2")))), "n3"),
    "M": lambda: TagList(dep("m", "3.0"), "after-dep", T("deep", lambda: TagList())),
    "P": lambda: "plain",
}


def build(code):
    """One item per char; uppercase/digit = tagifiable with that expansion,
    lowercase: s=str, t=tag, d=dep, h=HTML."""
    items = []
    for k, ch in enumerate(code):
        if ch == "s":
            items.append("s%d" % k)
        elif ch == "t":
            items.append(span("t%d" % k, T("in-t%d" % k, EXP["1"])))
        elif ch == "d":
            items.append(dep("d%d" % k))
        elif ch == "h":
            items.append(HTML("<h%d/>" % k))
        else:
            items.append(T("%s%d" % (ch, k), EXP[ch]))
    return items


def run_code(code):
    items = build(code)
    tl = TagList(*items)
    before = desc(tl)
    attempt("tagify %-6s" % code, lambda: desc(tl.tagify()))
    print("   orig-unchanged=%s len=%d" % (desc(tl) == before, len(tl)))
    attempt("render %-6s" % code, lambda: repr(tl.render()["html"]) + " deps=" +
            ",".join(d.name for d in tl.render()["dependencies"]))
    attempt("divrd  %-6s" % code, lambda: repr(div(*items, id="w").render()["html"]))


print("== single / pairs / triples ==")
alphabet = "E13GSHDNMstdh"
for ch in alphabet:
    run_code(ch)
for a, b in itertools.product("E13GNMsd", repeat=2):
    run_code(a + b)
for code in ["E3E", "3E3", "EEE", "sEs", "s3s", "3s3", "NNN", "MEM", "dEd", "G3G", "1E1E1",
             "sNdM3", "E" * 6, "3" * 4, "tEtNt", "hHhSh", "DdDdE", "s1sEs3sNs"]:
    run_code(code)

print("== empty ==")
e = TagList()
attempt("empty tagify", lambda: desc(e.tagify()))
print("   is-same-object=%s type=%s" % (e.tagify() is e, type(e.tagify()).__name__))
attempt("empty render", lambda: repr(e.render()))
attempt("empty div", lambda: repr(div().tagify().render()))
attempt("empty doc", lambda: repr(HTMLDocument(TagList()).render()["html"]))

print("== independence ==")
inner = span("x", id="i")
d0 = dep("orig")
w = T("w", lambda: TagList("w1", "w2"))
tl = TagList("a", inner, d0, w, "z")
tg = tl.tagify()
print(desc(tg))
print("copy-not-same:", tg is not tl, tg.data is not tl.data)
print("tag child is copy:", tg[1] is not inner, tg[1].children is not inner.children,
      tg[1].attrs is not inner.attrs)
print("dep child is copy:", tg[2] is not d0, desc(tg[2]))
print("str identity kept:", tg[0] is tl[0], tg[-1] is tl[-1])
tg.append("added")
tg[1].children.append("more")
tg[1].attrs["class"] = "k"
tg[2].name = "changed"
print("orig after mutation:", desc(tl))
tl.insert(0, "front")
inner.add_class("late")
print("tagified after orig mutation:", desc(tg))
print("orig now:", desc(tl))

outer = div(inner, w, d0, id="o")
to = outer.tagify()
print(desc(to))
print("tag.tagify copy:", to is not outer, to.children is not outer.children,
      to.attrs is not outer.attrs, to.children[0] is not inner)
to.children.append("n")
to.attrs["id"] = "changed"
print("outer after:", desc(outer))
print("w still in outer:", outer.children[1] is w)

print("== subclass / attrs on list ==")
sl = SubList("a", T("q", EXP["3"]), dep("sd"))
sl.note = ["keep"]
st = sl.tagify()
print(type(st).__name__, st.kind, st.note, st.note is sl.note, desc(st))

print("== tagify twice idempotent ==")
t1 = TagList(*build("sN3EdMt")).tagify()
t2 = t1.tagify()
print(desc(t1) == desc(t2), t1 is not t2, desc(t2))

print("== both Tagifiable and MetadataNode ==")
dt = DepT("dt", "9.9", source={"href": "https://x.test/dt"})
attempt("dept", lambda: desc(TagList("a", dt, "b").tagify()))
attempt("dept render", lambda: repr(TagList("a", dt, "b").render()))

print("== exceptions and call order ==")
attempt("boom order", lambda: desc(TagList(Boom("first"), T("mid", EXP["1"]), Boom("last")).tagify()))
attempt("boom nested", lambda: desc(div("a", span(T("ok", EXP["3"]), Boom("in"))).tagify()))
attempt("boom in expansion", lambda: desc(TagList("a", T("o", lambda: TagList("x", Boom("deep")))).tagify()))
attempt("bad expansion item", lambda: desc(TagList("a", T("bad", lambda: TagList("x", 1.5, 2))).tagify()))
attempt("returns list", lambda: desc(TagList("a", T("lst", lambda: ["l1", "l2"]), "b").tagify()))
attempt("returns list render", lambda: repr(TagList("a", T("lst", lambda: ["l1", "l2"]), "b").render()))
attempt("returns None", lambda: desc(TagList("a", T("none", lambda: None), "b").tagify()))
attempt("returns int", lambda: desc(TagList("a", T("int", lambda: 7), "b").tagify()))
attempt("returns int render", lambda: repr(TagList("a", T("int", lambda: 7), "b").render()))
attempt("returns tagifiable", lambda: desc(TagList(T("lazy", lambda: T("never", EXP["1"]))).tagify()))
attempt("returns tagifiable render", lambda: repr(TagList(T("lazy", lambda: T("never", EXP["1"]))).render()))
attempt("untagified html", lambda: TagList("a", T("u", EXP["1"])).get_html_string())
attempt("untagified tag html", lambda: div("a", T("u", EXP["1"])).get_html_string())
attempt("self render", lambda: repr(TagList("a", SelfRender(), "b").render()["html"]))
attempt("self render str", lambda: str(div(SelfRender())))
broken = div("a")
broken.children = ["not", "a", "taglist"]
attempt("children not TagList", lambda: desc(broken.tagify()))

print("== side-effecting tagifiable mutating its parent ==")
parent = TagList("p0")
parent.append(T("mut", lambda: (parent.append("sneaky"), TagList("m1", "m2"))[1]))
parent.append("p2")
attempt("mutating", lambda: desc(parent.tagify()))
print("   parent now:", desc(parent))

print("== documents ==")
doc_items = build("sMdN3Et")
attempt("doc", lambda: repr(HTMLDocument(div(*doc_items), lang="en").render()["html"]))
attempt("doc deps", lambda: ",".join(
    d.name + "@" + str(d.version) for d in HTMLDocument(TagList(*doc_items)).render()["dependencies"]))
attempt("head/body", lambda: repr(HTMLDocument(
    tags.html(tags.head(T("hd", lambda: TagList(tags.title("t"), dep("hd")))),
              tags.body(T("bd", EXP["N"]), T("bd2", EXP["E"])))).render()["html"]))
attempt("str()", lambda: repr(str(TagList(*build("s3EGN")))))
attempt("deep nest", lambda: repr(div(span(div(T("a", lambda: TagList(T("b", lambda: TagList(
    T("c", lambda: TagList()), "c2", T("c3", EXP["G"]))), "a2")), "tail"))).render()["html"]))
