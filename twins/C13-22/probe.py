"""Probe for the <head> dependency markup of HTMLDocument / HTMLTextDocument (refactoring 2)."""
import htmltools
from htmltools import HTMLDependency, HTMLTextDocument, HTMLDocument, TagList, Tag, tags, div, HTML, head_content


def desc(d):
    return (
        d.name, str(d.version), d.source, d.script, d.stylesheet, d.meta, d.all_files,
        None if d.head is None else d.head.get_html_string(),
    )


def show(label, fn):
    try:
        r = fn()
    except BaseException as e:  # noqa
        print(label, "->", "EXC", type(e).__name__)
    else:
        print(label, "->", repr(r))


def mk():
    return [
        HTMLDependency("a", "1.0"),
        HTMLDependency("b", "2.1.3", source={"subdir": "x/y"}, script={"src": "b.js"}),
        HTMLDependency(
            "c", "0.0.1", source={"href": "https://e.com/lib"},
            script=[{"src": "c1.js", "defer": ""}, {"src": "c 2.js"}],
            stylesheet={"href": "c.css"},
            meta={"name": "m", "content": "</SCRIPT><script>&\"'"},
            all_files=True, head="<title>t</ScRiPt ></title>\r\nline2\n",
        ),
        HTMLDependency("d</script>", "3", head=TagList(tags.title("x"), tags.style("a > b {}"), "txt & <")),
        HTMLDependency("e", "9.9", source={"package": "htmltools", "subdir": "libtest/testdep"},
                       script={"src": "testdep.js"}, stylesheet={"href": "testdep.css"}),
        HTMLDependency("a", "2.0", head=tags.script("if (a </ b) {}")),
        head_content(tags.link(rel="icon", href="f.ico")),
    ]


KW = [
    {},
    {"lib_prefix": None},
    {"lib_prefix": ""},
    {"lib_prefix": "my/lib", "include_version": False},
    {"include_version": False},
]


def text_doc(html, deps, pat, kw):
    doc = HTMLTextDocument(html, deps=deps, deps_replace_pattern=pat)
    r = doc.render(**kw)
    r2 = doc.render(**kw)
    return r["html"], [desc(d) for d in r["dependencies"]], r2["html"] == r["html"], [desc(d) for d in doc._deps]


def html_doc(content, kw, **attrs):
    doc = HTMLDocument(*content, **attrs)
    r = doc.render(**kw)
    return r["html"], [desc(d) for d in r["dependencies"]]


TEMPLATE = "<html><head>@@</head><body>@@ and @@</body></html>"

for i, kw in enumerate(KW):
    d = mk()
    show("text_none[%d]" % i, lambda: text_doc(TEMPLATE, [], "@@", kw))
    show("text_one[%d]" % i, lambda: text_doc(TEMPLATE, [d[0]], "@@", kw))
    show("text_all[%d]" % i, lambda: text_doc(TEMPLATE, d, "@@", kw))
    show("text_missing_pat[%d]" % i, lambda: text_doc(TEMPLATE, d[:2], "%%", kw))
    show("text_empty_pat[%d]" % i, lambda: text_doc("abc", d[1:3], "", kw))
    ser = "".join(x.serialize_to_script_json().get_html_string() for x in mk()[2:5])
    show("text_serialized[%d]" % i, lambda: text_doc("<head>@@</head>" + ser + "@@" + ser, [d[1]], "@@", kw))

    show("html_none[%d]" % i, lambda: html_doc([div("x")], kw))
    show("html_all[%d]" % i, lambda: html_doc([div("x", *d), tags.p(d[2])], kw, lang="en"))
    show("html_body[%d]" % i, lambda: html_doc([tags.body(d[1], "t", d[3])], kw))
    show("html_html[%d]" % i, lambda: html_doc([tags.html(d[4], tags.head(tags.title("T"), d[5]), tags.body(d[0], d[6]))], kw))
    show("html_html_nohead[%d]" % i, lambda: html_doc([tags.html(tags.body(d[2]), d[3])], kw, class_="k"))
    show("html_fragment[%d]" % i, lambda: html_doc(["a", d[1], "b", d[1], d[6], d[6]], kw))

# direct calls to the static hoisting helper
hoist = HTMLDocument._hoist_head_content
d = mk()
x = tags.html(tags.head(tags.title("T")), tags.body("b", d[1], d[2]))
before = str(x)
show("hoist_ok", lambda: hoist(x, "lib", True).get_html_string())
show("hoist_unchanged_input", lambda: str(x) == before)
show("hoist_no_deps", lambda: hoist(tags.html(tags.body("b")), None, False).get_html_string())
show("hoist_not_html", lambda: hoist(div(d[1]), "lib", True))
show("hoist_head_not_first", lambda: hoist(tags.html(d[3], tags.body(), tags.head()), "p", True).get_html_string())

# error paths: the listing is built before any dependency markup
bad_name = HTMLDependency("n", "1")
bad_name.name = 5
show("text_bad_name", lambda: text_doc(TEMPLATE, [mk()[0], bad_name], "@@", {}))
show("html_bad_name", lambda: html_doc([div(bad_name)], {}))
bad_script = HTMLDependency("n", "1", script={"src": "s.js"})
bad_script.script = [{"nosrc": 1}]
show("text_bad_script", lambda: text_doc(TEMPLATE, [bad_script], "@@", {}))
show("html_bad_script", lambda: html_doc([div(bad_script)], {}))
bad_meta = HTMLDependency("n", "1")
bad_meta.meta = [{1: 2}]
show("text_bad_meta", lambda: text_doc(TEMPLATE, [bad_meta], "@@", {}))
show("html_bad_meta", lambda: html_doc([div(bad_meta)], {}))
bad_pkg = HTMLDependency("n", "1", source={"package": "no_such_pkg_zz", "subdir": "s"})
show("text_bad_pkg", lambda: text_doc(TEMPLATE, [bad_pkg], "@@", {}))
show("html_bad_pkg", lambda: html_doc([div(bad_pkg)], {}))
show("text_non_dep", lambda: text_doc(TEMPLATE, ["notadep"], "@@", {}))
show("text_deps_tuple", lambda: text_doc(TEMPLATE, (mk()[0],), "@@", {}))
show("text_deps_nopat", lambda: text_doc(TEMPLATE, [mk()[0]], None, {}))
show("text_nopat", lambda: text_doc(TEMPLATE, None, None, {}))

# equivalence of JSON mode + HTMLTextDocument with direct rendering
d = mk()
ui = tags.html(tags.head(HTML("@@")), tags.body(div("x", d[1], d[2]), d[3], d[1]))
htmltools.html_dependency_render_mode = "json"
try:
    text = str(ui)
finally:
    htmltools.html_dependency_render_mode = "native"
show("json_text", lambda: text)
for i, kw in enumerate(KW):
    show("json_post[%d]" % i, lambda: text_doc(text, None, "@@", kw))

# returned dependencies are copies
d = mk()
doc = HTMLTextDocument(TEMPLATE, deps=d, deps_replace_pattern="@@")
r = doc.render()
show("deps_copied", lambda: [a is b for a, b in zip(r["dependencies"], d)])
