# Probe for HTMLTextDocument._static_extract_serialized_html_deps (and its callers).
import json
import htmltools as ht
from htmltools import HTMLDependency, HTMLTextDocument, TagList, div, tags, HTML

extract = HTMLTextDocument._static_extract_serialized_html_deps


def show_dep(d):
    return (
        d.name, str(d.version), d.source, d.script, d.stylesheet, d.meta,
        d.all_files, None if d.head is None else d.head.get_html_string(),
    )


def run(label, f):
    try:
        r = f()
        print(label, "->", r)
    except BaseException as e:  # noqa
        print(label, "!!", type(e).__name__, str(e)[:120])


def ex(html):
    out, deps = extract(html)
    return repr(out), [show_dep(d) for d in deps]


deps = [
    HTMLDependency("a", "1.0", source={"subdir": "x"}, script={"src": "a.js"}),
    HTMLDependency("b", "2.1.3", source={"href": "https://x/y"}, stylesheet=[{"href": "b.css"}, {"href": "c d.css", "media": "print"}]),
    HTMLDependency("c", "0.1", head="<script>alert('</script>')</SCRIPT></ScRiPt x>"),
    HTMLDependency("d\n</script><b>", "3", meta={"name": "</script>", "content": "\r\n "}, all_files=True, head=TagList(tags.title("T"), HTML("<!-- </sCrIpT -->"))),
    HTMLDependency("a", "1.0", source={"subdir": "x"}, script={"src": "a.js"}),
    HTMLDependency("e", "1", source={"package": "htmltools", "subdir": "lib"}, script=[{"src": "e.js", "defer": ""}, {"src": "f.js"}]),
]
ser = [d.serialize_to_script_json().get_html_string() for d in deps]
ser_ind = [d.serialize_to_script_json(indent=2).get_html_string() for d in deps]
for s in ser + ser_ind:
    print(repr(s))

O = '<script type="application/json" data-html-dependency="">'
C = "</script>"
cases = [
    "",
    "no deps here",
    "<html><head></head><body>x</body></html>",
    ser[0],
    "pre" + ser[0] + "post",
    "".join(ser),
    "\n".join(ser),
    "A" + ser[0] + "B" + ser[0] + "C" + ser[1] + "D" + ser[0] + "E",
    "A" + ser[0] + "B" + ser_ind[0] + "C",
    "\r\n".join(ser_ind) + "\r\ntail</script>",
    ser[2] + "<script>1</script>" + ser[3] + '<script type="application/json">{"x":1}</script>',
    O + C,
    O + "   " + C,
    O + "[]" + C,
    O + "{}" + C,
    O + '{"name": "n"}' + C,
    O + '{"name": "n", "version": "1", "bogus": 1}' + C,
    O + '{"name": 5, "version": "1"}' + C,
    O + '{"name": "n", "version": 1}' + C,
    O + '{"name": "n", "version": "1", "script": {"href": "x"}}' + C,
    O + '{"name": "n", "version": "1", "script": "x"}' + C,
    O + '{"name": "n", "version": "1", "source": {"x": 1}}' + C,
    O + '{"name": "n", "version": "1"}' + C + O + "not json" + C + O + '{"name": "m", "version": "2"}' + C,
    O + "not json" + C + O + "not json" + C,
    O + '{"name": "n", "version": "1"}',
    O + '{"name": "n", "version": "1"}' + "</SCRIPT>" + "zz" + C + "end",
    O.upper() + '{"name": "n", "version": "1"}' + C,
    O.replace('=""', "") + '{"name": "n", "version": "1"}' + C,
    O + O + '{"name": "n", "version": "1"}' + C + C,
    O + '{"name": "n",\n "version": "1"}' + C + O + '{"name": "n", "version": "1"}' + C + O + '{"name": "n",\n "version": "1"}' + C,
    O + '{"name": "n", "version": "1", "head": "<b>\\u2028</b>"}' + C + " \x85\x0b\x0c\x1c",
    O + '{"name": "n\\u0000", "version": "1!2"}' + C,
]
for i, c in enumerate(cases):
    run(f"case{i}", lambda: ex(c))

for bad in [None, b"bytes", 5, ["x"], bytearray(b"x")]:
    run(f"bad {type(bad).__name__}", lambda: ex(bad))


class S(str):
    pass


run("strsub", lambda: ex(S("A" + ser[1] + "B")))
run("strsub-nomatch", lambda: (type(extract(S("AB"))[0]).__name__, extract(S("AB"))))

# Through the constructor: deps list passed in is extended in place.
for i, c in enumerate(cases):
    def go():
        given = [deps[1]]
        doc = HTMLTextDocument("<P>" + c, deps=given, deps_replace_pattern="<P>")
        r = doc.render()
        return repr(r["html"]), [show_dep(d) for d in r["dependencies"]], [show_dep(d) for d in given], repr(doc._html)
    run(f"doc{i}", go)

# No end-tag-like text inside the serialized element, and equality of the round trip.
for d, s in zip(deps, ser):
    inner = s[len(O): -len(C)]
    got = extract("x" + s + "y")
    print("</script" in inner.lower(), got[0], got[1] == [d], len(got[1]))

# JSON mode rendering followed by post-processing.
old = ht.html_dependency_render_mode
ht.html_dependency_render_mode = "json"
try:
    ui = div("hi", deps[0], tags.span(deps[3], deps[2]), deps[4], deps[1])
    txt = str(ui)
    print(repr(txt))
    doc = HTMLTextDocument("<html><head><!--H--></head><body>" + txt + "<!--H--></body></html>", deps_replace_pattern="<!--H-->")
    r = doc.render(lib_prefix=None)
    print(repr(r["html"]), r["dependencies"])
finally:
    ht.html_dependency_render_mode = old
