# Probe for refactoring 3: head_content() naming and hash_deterministic()
import copy

from htmltools import (
    HTML,
    HTMLDependency,
    HTMLDocument,
    HTMLTextDocument,
    Tag,
    TagList,
    div,
    head_content,
    span,
    tags,
)
from htmltools._util import hash_deterministic


def show(label, fn):
    try:
        out = fn()
    except Exception as e:  # noqa: BLE001
        print(label, "-> EXC", type(e).__name__, str(e)[:200])
    else:
        print(label, "->", repr(out))


for s in ["", "a", "abc", "<title>x</title>", "é✓", "\n", " " * 3, "x" * 10000, "\x00"]:
    show(f"hash[{s[:12]!r}/{len(s)}]", lambda: hash_deterministic(s))
show("hash_surrogate", lambda: hash_deterministic("\ud800"))
show("hash_bytes", lambda: hash_deterministic(b"abc"))  # type: ignore
show("hash_none", lambda: hash_deterministic(None))  # type: ignore
show("hash_html", lambda: hash_deterministic(HTML("abc")))  # type: ignore
show("hash_two_positional", lambda: hash_deterministic("a", "b"))  # type: ignore


class RH:
    def _repr_html_(self):
        return "<b>rh</b>"


class Tgf:
    def tagify(self):
        return span("tagified")


def describe(d):
    return (
        type(d).__name__,
        d.name,
        str(d.version),
        type(d.version).__name__,
        d.source,
        d.script,
        d.stylesheet,
        d.meta,
        d.all_files,
        None if d.head is None else (type(d.head).__name__, d.head.get_html_string()),
        repr(d),
    )


contents = {
    "empty": (),
    "none": (None,),
    "empty_str": ("",),
    "text": ("a < b",),
    "html": (HTML("a < b"),),
    "title": (tags.title("T"),),
    "title_again": (tags.title("T"),),
    "title_ws": (tags.title("T "),),
    "two": (tags.title("T"), tags.meta(name="x", content="y")),
    "two_swapped": (tags.meta(name="x", content="y"), tags.title("T")),
    "nested_list": ([tags.title("T"), [tags.meta(name="x", content="y")]],),
    "taglist": (TagList(tags.title("T"), tags.meta(name="x", content="y")),),
    "num": (1, 2.5),
    "num_str": ("1", "2.5"),
    "reprhtml": (RH(),),
    "inline": (span("a"), span("b")),
    "block": (div("a"), div("b")),
    "script": (tags.script("if (a < b && c) {}"),),
    "style": (tags.style("a > b {}"),),
    "with_dep": (tags.title("T"), HTMLDependency("inner", "1.0")),
    "unicode": ("é✓ ",),
}
for k, args in contents.items():
    show(f"hc:{k}", lambda: describe(head_content(*args)))
show("hc:tagifiable", lambda: describe(head_content(Tgf())))
show("hc:surrogate", lambda: describe(head_content("\ud800")))
show("hc:bad_child", lambda: describe(head_content(object())))
show("hc:dict_child", lambda: describe(head_content({"a": 1})))
show("hc:kw", lambda: head_content(x=1))  # type: ignore

# names depend on content only, not on history or identity
n1 = head_content(tags.title("same")).name
for _ in range(3):
    head_content(tags.title("noise"), div(_))
n2 = head_content(tags.title("same")).name
print("stable", n1 == n2, n1)
x = tags.title("mut")
h = head_content(x)
before = h.name
x.append("!")
print("name_fixed_at_creation", h.name == before, head_content(x).name == before)
print("versions_independent", head_content("a").version is not head_content("a").version)
print("eq", head_content("a") == head_content("a"), head_content("a") == head_content("b"))
print("copy", describe(copy.copy(h)) == describe(h))

# in documents: equal content once, different content never merged
doc = HTMLDocument(
    div(head_content(tags.title("A")), span(head_content(tags.title("A")))),
    head_content(tags.title("B")),
    head_content(HTML("<title>A</title>")),
    head_content(tags.title("A"), tags.meta(name="m", content="c")),
)
r = doc.render()
print(r["html"])
print([(d.name, str(d.version)) for d in r["dependencies"]])
r = doc.render(lib_prefix=None, include_version=False)
print(r["html"])
t = HTMLTextDocument(
    "<html><head>@@</head><body></body></html>",
    deps=[head_content(tags.title("A")), head_content(tags.title("A")), head_content("B")],
    deps_replace_pattern="@@",
)
r = t.render()
print(r["html"])
print([(d.name, str(d.version)) for d in r["dependencies"]])
hc = head_content(tags.title("ser"), tags.link(href="x.css"))
print(str(hc))
print(hc.serialize_to_script_json().get_html_string())
print(hc.as_dict())
print(hc.source_path_map(), hc.source_path_map(lib_prefix=None, include_version=False))
