# Probe for HTMLDocument._hoist_head_content: prints rendered result, identity facts and exception types.
from htmltools import HTML, HTMLDependency, HTMLDocument, Tag, TagList, div, span, tags

hoist = HTMLDocument._hoist_head_content


def show(label, fn):
    try:
        r = fn()
        print(label, "->", type(r).__name__, repr(r))
    except Exception as e:  # noqa: BLE001
        print(label, "-> EXC", type(e).__name__, repr(str(e)) if isinstance(e, ValueError) else "")


class MyTag(Tag):
    pass


class NoName(Tag):
    """A Tag whose `name` attribute was deleted."""


dep1 = HTMLDependency("d1", "1.0", script={"src": "a.js"}, stylesheet={"href": "a b.css"},
                      meta={"name": "m", "content": "c"}, head="<script>h()</script>")
dep2 = HTMLDependency("d2", "2.1", source={"href": "https://x.org/lib"}, script=[{"src": "b.js", "defer": ""}],
                      head=TagList(tags.title("t"), span("in-head")))
dep1_newer = HTMLDependency("d1", "1.5", script={"src": "a15.js"})
dep_plain = HTMLDependency("plain", "0.0.1")

noname = NoName("x")
del noname.__dict__["name"]

cases = {
    "not_html": lambda: div("x"),
    "not_html_body": lambda: tags.body("x"),
    "upper": lambda: Tag("HTML", tags.head()),
    "empty": lambda: tags.html(),
    "no_head": lambda: tags.html(tags.body(span("a"), "b")),
    "no_head_text_first": lambda: tags.html("text", span("a")),
    "no_head_no_ws": lambda: Tag("html", span("a"), "b", _add_ws=False),
    "head_first": lambda: tags.html(tags.head(tags.title("T")), tags.body("x")),
    "head_empty": lambda: tags.html(tags.head(), tags.body("x")),
    "head_second": lambda: tags.html(tags.body("x"), tags.head(tags.title("T"))),
    "head_after_dep": lambda: tags.html(dep1, tags.head(tags.title("T")), tags.body("x", dep2)),
    "head_after_text": lambda: tags.html("t", None, tags.head("in"), tags.body("x")),
    "two_heads": lambda: tags.html(tags.head("first"), tags.head("second"), tags.body("x")),
    "head_nested_only": lambda: tags.html(tags.body(tags.head("deep"))),
    "head_upper": lambda: tags.html(Tag("HEAD", "up"), tags.body("x")),
    "head_subclass": lambda: tags.html(MyTag("head", "sub", id="h"), tags.body("x")),
    "head_inline": lambda: tags.html(Tag("head", span("a"), "b", _add_ws=False), tags.body("x")),
    "head_with_attrs": lambda: tags.html(tags.head("a", id="i", class_="c"), lang="en"),
    "head_with_dep": lambda: tags.html(tags.head(dep1, tags.title("T")), tags.body(dep2)),
    "head_str": lambda: tags.html("head", tags.body("x")),
    "html_subclass": lambda: MyTag("html", tags.body("x", dep1)),
    "deps_many": lambda: tags.html(tags.body(span(dep1, "a"), dep2, dep1_newer, dep_plain, div(dep1))),
    "deps_plain_only": lambda: tags.html(tags.body(dep_plain)),
    "deps_top_level": lambda: tags.html(dep2, dep1),
    "noname_child": lambda: tags.html(noname, tags.head("h")),
    "noname_after_head": lambda: tags.html(tags.head("h"), noname),
    "repr_children": lambda: tags.html(HTML("<raw>"), tags.head(HTML("<rawhead>")), 5),
}

for label, mk in cases.items():
    for args in (("lib", True), (None, False), ("p/q", False)):
        show(f"{label} {args}", lambda: str(hoist(mk(), *args)))

    def facts():
        x = mk()
        before = str(x)
        n_before = len(x.children)
        kids_before = list(x.children)
        res = hoist(x, "lib", True)
        heads = [i for i, c in enumerate(res.children) if isinstance(c, Tag) and getattr(c, "name", None) == "head"]
        hi = heads[0]
        head = res.children[hi]
        same_objs = [any(c is k for k in kids_before) for c in res.children]
        return {
            "x_unchanged": str(x) == before and len(x.children) == n_before,
            "res_is_x": res is x,
            "res_type": type(res).__name__,
            "children_is_x_children": res.children is x.children,
            "heads_at": heads,
            "head_type": type(head).__name__,
            "head_add_ws": head.add_ws,
            "head_attrs": dict(head.attrs),
            "head_prev_displayhook": head.prev_displayhook,
            "head_child_types": [type(c).__name__ for c in head.children],
            "head_children_type": type(head.children).__name__,
            "head_attrs_type": type(head.attrs).__name__,
            "kept_objects": same_objs,
            "res_attrs": dict(res.attrs),
            "res_add_ws": res.add_ws,
            "n_children": len(res.children),
        }
    show(f"{label} facts", facts)

# Hoisting twice adds a second meta/second set of tags to the copy, never to the original
x = tags.html(tags.head(tags.title("T")), tags.body("x", dep1))
r1 = hoist(x, "lib", True)
r2 = hoist(r1, "lib", True)
show("twice_x", lambda: str(x))
show("twice_r1", lambda: str(r1))
show("twice_r2", lambda: str(r2))

# children held in a plain list (not a TagList)
x = tags.html()
x.children = [span("a")]
show("plain_list_children", lambda: str(hoist(x, "lib", True)))
x = tags.html()
x.children = [tags.head("h"), span("a")]
show("plain_list_children_head", lambda: str(hoist(x, "lib", True)))

# Through the public API
show("doc", lambda: HTMLDocument(tags.html(tags.body(span("a", dep1), dep2))).render()["html"])
show("doc_fragment", lambda: HTMLDocument(span("a", dep1), dep2).render(lib_prefix=None)["html"])
