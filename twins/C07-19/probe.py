# Probe for refactoring 4: locating <head> among metadata children in
# HTMLDocument._hoist_head_content(), and _resolve_dependencies().
from htmltools import HTML, HTMLDependency, HTMLDocument, MetadataNode, Tag, TagList, div, span, tags, head_content
from htmltools._core import _resolve_dependencies


class Meta(MetadataNode):
    def __repr__(self):
        return "<Meta>"


def dep(name="a", version="1.0", **kw):
    return HTMLDependency(name, version, source={"subdir": "."}, script={"src": name + ".js"}, **kw)


def show(label, fn):
    try:
        print(label, "=>", repr(fn()))
    except Exception as e:  # noqa: BLE001
        print(label, "!!", type(e).__name__, str(e))


def rendered(r):
    return (r["html"], [repr(d) for d in r["dependencies"]])


html, head, body = tags.html, tags.head, tags.body

docs = {
    "fragment": lambda: HTMLDocument(div("x")),
    "fragment+dep": lambda: HTMLDocument(dep("a"), div("x", dep("b")), Meta()),
    "body": lambda: HTMLDocument(body(dep("a"), "x")),
    "html-no-head": lambda: HTMLDocument(html(body("x"))),
    "html-no-head-dep-first": lambda: HTMLDocument(html(dep("a"), body("x"))),
    "html-head-first": lambda: HTMLDocument(html(head(tags.title("t")), body("x", dep("a")))),
    "html-dep-before-head": lambda: HTMLDocument(html(dep("a"), Meta(), head(tags.title("t")), body("x"))),
    "html-head-after-body": lambda: HTMLDocument(html(body("x"), Meta(), head(tags.title("t")))),
    "html-two-heads": lambda: HTMLDocument(html(Meta(), head("h1"), dep("a"), head("h2"), body("x"))),
    "html-head-nested-only": lambda: HTMLDocument(html(body(head("inner"), dep("a")))),
    "html-text-before-head": lambda: HTMLDocument(html("text", HTML("<!-- c -->"), dep("z"), head(), body())),
    "html-HEAD-upper": lambda: HTMLDocument(html(Tag("HEAD"), dep("a"))),
    "html-empty": lambda: HTMLDocument(html()),
    "html-only-meta": lambda: HTMLDocument(html(Meta(), dep("a"), dep("a", "2.0"))),
    "html-attrs": lambda: HTMLDocument(html(dep("a"), head(), lang="en"), class_="c"),
    "head-content": lambda: HTMLDocument(html(head_content(tags.title("T")), body(dep("a"), head_content("raw")))),
    "versions": lambda: HTMLDocument(dep("a", "1.0"), dep("b", "2"), dep("a", "1.10"), dep("b", "1.9"), dep("a", "1.10"), div(dep("c", "0.1"))),
}
for label, mk in docs.items():
    show("render " + label, lambda: rendered(mk().render()))
    show("render lib_prefix=None " + label, lambda: rendered(mk().render(lib_prefix=None, include_version=False)))

# Metadata insertion leaves the document markup alone (apart from hoisted dependency tags for real deps)
plain = HTMLDocument(html(head(tags.title("t")), body(div("x")))).render()["html"]
with_meta = HTMLDocument(html(Meta(), head(Meta(), tags.title("t"), Meta()), Meta(), body(Meta(), div(Meta(), "x", Meta())), Meta())).render()["html"]
print("doc neutral:", plain == with_meta)

# Direct calls
direct = {
    "not-html": lambda: HTMLDocument._hoist_head_content(div(), "lib", True),
    "html-meta-head": lambda: str(HTMLDocument._hoist_head_content(html(Meta(), dep("q"), head("h"), body()), "lib", True)),
    "html-nohead": lambda: str(HTMLDocument._hoist_head_content(html(Meta(), body()), None, False)),
}
for label, fn in direct.items():
    show("hoist " + label, fn)

# original not modified by hoisting
orig = html(dep("q"), head("h"), body())
before = str(orig), [type(c).__name__ for c in orig.children]
hoisted = HTMLDocument._hoist_head_content(orig, "lib", True)
print("orig untouched:", (str(orig), [type(c).__name__ for c in orig.children]) == before, [type(c).__name__ for c in hoisted.children])
print("head copied:", hoisted.children[1] is not orig.children[1], len(orig.children[1].children), len(hoisted.children[1].children))

# _resolve_dependencies
a1, a2, a110, a1b = dep("a", "1.0"), dep("a", "2.0"), dep("a", "1.10"), dep("a", "1.0")
b1, b2, c1 = dep("b", "1"), dep("b", "2"), dep("c", "0.0.1")
lists = {
    "empty": [],
    "single": [a1],
    "dup-same-version": [a1, a1b],
    "later-higher": [a1, b1, a2],
    "later-lower": [a2, b1, a1],
    "1.10>1.9": [dep("a", "1.9"), a110],
    "order": [c1, a1, b2, a2, b1, c1, a110],
    "three": [a1, a110, a2, a1b],
}
for label, lst in lists.items():
    res = _resolve_dependencies(lst)
    print("resolve", label, "=>", [repr(d) for d in res], [lst.index(d) if d in lst else None for d in res], [any(d is x for x in lst) for d in res])
    if label == "dup-same-version":
        print("   first kept:", res[0] is a1)
    if label == "three":
        print("   identity:", res[0] is a2)


class Fake:
    def __init__(self, name, version):
        self.name = name
        self.version = version

    def __repr__(self):
        return f"Fake({self.name!r}, {self.version!r})"


show("fake ok", lambda: _resolve_dependencies([Fake("x", 1), Fake("x", 3), Fake("x", 2), Fake("y", 0)]))
show("fake unhashable name", lambda: _resolve_dependencies([Fake([], 1)]))
show("fake incomparable", lambda: _resolve_dependencies([Fake("x", 1), Fake("x", "s")]))
show("fake None versions", lambda: _resolve_dependencies([Fake("x", None), Fake("x", None)]))
show("fake None name", lambda: _resolve_dependencies([Fake(None, 1), Fake(None, 2), Fake("n", 0)]))
show("no name attr", lambda: _resolve_dependencies([object()]))
show("None in list", lambda: _resolve_dependencies([a1, None]))
show("no version attr 1st", lambda: _resolve_dependencies([type("N", (), {"name": "n"})()]) and "ok")
show("no version attr 2nd", lambda: _resolve_dependencies([Fake("n", 1), type("N", (), {"name": "n"})()]))
show("generator input", lambda: _resolve_dependencies(d for d in [a1, a2]))

# get_dependencies with/without dedup
t = div(a1, span(a2, b1), TagList(b2, a110), Meta(), c1)
print([repr(d) for d in t.get_dependencies()])
print([repr(d) for d in t.get_dependencies(dedup=False)])
print([repr(d) for d in TagList(t, a1b).get_dependencies()])
print([repr(d) for d in TagList(t, a1b).get_dependencies(dedup=False)])
