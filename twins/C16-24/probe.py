"""Probe for Tag.has_class and the semicolon check of Tag.add_style."""
from htmltools import HTML, Tag, css, div, span


def show(label, fn):
    try:
        r = fn()
        print(label, "->", type(r).__name__, repr(r))
    except Exception as e:  # noqa: BLE001
        print(label, "!!", type(e).__name__, str(e))


def state(t):
    return (
        [(k, type(v).__name__, str(v)) for k, v in t.attrs.items()],
        str(t),
    )


class MyStr(str):
    pass


class EqAll:
    def __eq__(self, other):
        return True

    def __hash__(self):
        return 0

    def __repr__(self):
        return "EqAll()"


class EndsNo:
    """Not a str/HTML: the semicolon check must be skipped for it."""

    def endswith(self, _):
        raise RuntimeError("endswith must not be called")

    def __repr__(self):
        return "EndsNo()"


starts = [
    ("none", lambda: div()),
    ("a", lambda: div(class_="a")),
    ("a-b-c", lambda: div(class_="a b c")),
    ("ws", lambda: div(class_="  a \t b\n c  ")),
    ("blank", lambda: div(class_="   ")),
    ("empty", lambda: div(class_="")),
    ("true", lambda: div(class_=True)),
    ("html", lambda: div(class_=HTML("a <b> c&d"))),
    ("html-empty", lambda: div(class_=HTML(""))),
    ("case", lambda: div(class_="A Ab")),
    ("prefix", lambda: div(class_="btn-primary")),
    ("unicode", lambda: div(class_="é　g")),
    ("numeric", lambda: div(class_=5)),
    ("others", lambda: span("kid", id="i", title="a", style="a:1;")),
    ("merged", lambda: div({"class": "m1"}, {"class": "m2"}, class_="m3")),
]
tokens = [
    "a", "b", "c", "z", "", " ", " a", "a b", "A", "btn", "btn-primary", "é", "g", "5", "<b>", "c&d", "m2", "m1 m2",
    MyStr("a"), HTML("a"), HTML(""), None, 5, True, 0, [], ("a",), b"a", EqAll(),
]
for sl, mk in starts:
    for tok in tokens:
        show("has_class start=%s tok=%r" % (sl, tok), lambda: mk().has_class(tok))


def raw(value):
    t = div()
    dict.__setitem__(t.attrs, "class", value)
    return t
for rv in [None, 0, 5, "", "a b", [], ["a", "b"], b"a b", HTML("a b")]:
    for tok in ["a", "", b"a", EqAll()]:
        show("has_class raw=%r tok=%r" % (rv, tok), lambda: raw(rv).has_class(tok))
show("has_class no arg", lambda: div().has_class())
show("has_class kw", lambda: div(class_="a").has_class(class_="a"))
show("has_class does not modify", lambda: (lambda t: (t.has_class("a"), t.has_class("q"), state(t)))(div(class_=" a  b ")))

# has_class against the other helpers
def algebra():
    out = []
    t = div()
    for op, arg in [("add", "a"), ("add", "b"), ("pre", "c"), ("rm", "a"), ("add", "a"), ("add", "a"),
                    ("rm", "a"), ("rm", "b"), ("rm", "c"), ("rm", "c")]:
        if op == "add":
            t.add_class(arg)
        elif op == "pre":
            t.add_class(arg, prepend=True)
        else:
            t.remove_class(arg)
        out.append((op, arg, t.attrs.get("class"), [t.has_class(x) for x in "abc"]))
    return out
show("algebra", algebra)

# add_style semicolon validation
style_starts = [
    ("none", lambda: div()),
    ("style", lambda: div(style="color:red;")),
    ("style-html", lambda: div(style=HTML("content:'<';"))),
    ("mixed", lambda: div(id="i", style="s:1;", class_="c")),
]
styles = [
    "top:1px;", ";", "a:b; ", "a:b", "", " ", "a:b;\n", "a:b\n;", ";;", "x:'\"<&>';", "a:b；",
    HTML("left:2px;"), HTML("left:2px"), HTML(""), HTML(";"), HTML("c:'<';"), HTML("a; "),
    MyStr("m:1;"), MyStr("m:1"),
    None, True, False, 5, 2.5, b"b;", b"b", ["l;"], ("t;",), {"d": 1}, EndsNo(),
]
for sl, mk in style_starts:
    for st in styles:
        for pre in (False, True):
            def run():
                t = mk()
                before = state(t)
                try:
                    r = t.add_style(st, prepend=pre)
                except Exception:
                    print("   unchanged-after-error:", before == state(t))
                    raise
                return (r is t, state(t))
            show("add_style start=%s style=%r prepend=%r" % (sl, st, pre), run)

show("add_style no arg", lambda: div().add_style())
show("add_style kw", lambda: state(div().add_style(style="a;", prepend=True)))
for kw in [dict(), dict(a=None), dict(color="red"), dict(font_size="1px", marginTop=0), dict(x="")]:
    def run():
        s = css(**kw)
        t = div(style="z:0;")
        t.add_style(s)
        return (s, state(t))
    show("css->add_style %r" % (kw,), run)
for coll in ["\n", " ", "; ", "x"]:
    show("css(collapse=%r)->add_style" % coll, lambda: state(div().add_style(css(coll, a="1", b="2"))))


class MyTag(Tag):
    pass
show("subclass", lambda: (MyTag("p", class_="q r").has_class("q"), type(MyTag("p").add_style("a;")).__name__))
