"""Probe for refactoring 3: JSXTag.tagify() script assembly, dependency table, _lib_dependency."""
import os

from htmltools import HTML, HTMLDependency, Tag, TagList, div, head_content, span, tags
from htmltools._jsx import JSXTag, jsx, jsx_tag_create
import htmltools._jsx as J


def show(label, fn):
    try:
        out = fn()
        print(label, "->", repr(out))
    except BaseException as e:  # noqa: BLE001
        print(label, "-> EXC", type(e).__name__, str(e))


def dep_info(d):
    return (
        type(d).__name__, d.name, str(d.version), dict(d.source) if isinstance(d.source, dict) else d.source,
        [dict(s) for s in d.script], [dict(s) for s in d.stylesheet], d.all_files,
        [dict(m) for m in d.meta], d.head,
    )


def describe(t):
    out = [type(t).__name__, t.name, list(t.attrs.items()), len(t.children)]
    for c in t.children:
        if isinstance(c, HTMLDependency):
            out.append(("DEP",) + dep_info(c))
        elif isinstance(c, HTML):
            out.append(("HTML", c.as_string()))
        else:
            out.append((type(c).__name__, str(c)))
    return out


class Widget:
    """Tagifiable that is neither Tag nor JSXTag; expands to a tag with a dependency."""
    def __init__(self, label): self.label = label; self.calls = 0
    def tagify(self):
        self.calls += 1
        return div(self.label, HTMLDependency("widget-" + self.label, "0.1"), class_="w")


class WidgetToDep:
    def tagify(self):
        return HTMLDependency("direct", "2.0")


class WidgetToJSX:
    def tagify(self):
        return JSXTag("FromWidget", "inner", HTMLDependency("fromjsxwidget", "3.0"), k=1)


Foo = jsx_tag_create("Foo")
Bar = jsx_tag_create("Bar")
dA = HTMLDependency("depA", "1.0")
dB = HTMLDependency("depB", "1.1", source={"subdir": "/x"}, script={"src": "b.js"})
dC = HTMLDependency("depC", "1.2")

CASES = {
    "empty": lambda: Foo(),
    "dotted-name": lambda: JSXTag("Lib.Comp", "x"),
    "quote-name": lambda: JSXTag('A"b', "x"),
    "unicode-name": lambda: JSXTag("Ünï", "x"),
    "text-children": lambda: Foo("a", 'b"c', "", jsx("`e`")),
    "props": lambda: Foo(a=None, b=True, c=False, d=1, e=1.5, f="s", g=[1, "x", None], h=(1, 2), i={"k": [1]}, j=jsx("() => 1")),
    "style": lambda: Foo(style="color:red;margin:0 auto", x=1),
    "nested": lambda: Foo(Bar("x", p=1), div("y", span("z"), class_="c"), Bar()),
    "deps-children": lambda: Foo(dA, "t", dB, div(dC, "u")),
    "deps-in-props": lambda: Foo(p=div(dA), q=Bar(dB), r=dC),
    "deps-order": lambda: Foo(div(dB), dA, Bar(dC, z=span(dA)), a=div(dC)),
    "head-content": lambda: Foo(head_content(tags.title("T")), "x"),
    "widget-child": lambda: Foo(Widget("one"), Bar(Widget("two"))),
    "widget-prop": lambda: Foo(w=Widget("p")),
    "widget-to-dep": lambda: Foo(WidgetToDep(), "after"),
    "widget-to-jsx": lambda: Foo(WidgetToJSX()),
    "append-extend": lambda: (lambda t: (t.append("b", dA), t.extend(["c", div("d")]), t)[-1])(Foo("a")),
    "taglist-child": lambda: Foo(TagList("a", span("b")), "c"),
    "html-child": lambda: Foo(HTML("<b>raw</b>")),
    "number-child": lambda: Foo(3),
    "none-child": lambda: Foo(None, "x"),
    "bad-style": lambda: Foo(style=3),
    "tag-in-list-prop": lambda: Foo(items=[div("x"), Bar()]),
}

for label, mk in CASES.items():
    show("tagify " + label, lambda: describe(mk().tagify()))
    show("str    " + label, lambda: str(mk()))
    show("repr   " + label, lambda: repr(mk()))
    show("rhtml  " + label, lambda: mk()._repr_html_())

# Purity: the component is untouched, tagifiables are expanded once per conversion
def purity():
    w = Widget("pure")
    inner = Bar("i", p=div("q", dA))
    t = Foo("a", inner, w, dB, k=[1, 2], s=span("s"))
    snap = lambda: (list(t.attrs.items()), [c if isinstance(c, str) else id(c) for c in t.children],
                    list(inner.attrs.keys()), len(inner.children), str(inner.attrs["p"]))
    before = snap()
    r1 = t.tagify(); r2 = t.tagify()
    return before == snap(), w.calls, str(r1) == str(r2), r1 is r2
show("purity", purity)

# Fresh objects per conversion (nothing cached/shared between results)
def freshness():
    t = Foo("a", dA)
    r1, r2 = t.tagify(), t.tagify()
    deps1 = [c for c in r1.children if isinstance(c, HTMLDependency)]
    deps2 = [c for c in r2.children if isinstance(c, HTMLDependency)]
    same = [a is b for a, b in zip(deps1, deps2)]
    script_shared = [a.script is b.script or (a.script and a.script[0] is b.script[0]) for a, b in zip(deps1, deps2)]
    # mutate the first result, second must be unaffected
    deps1[0].script.append({"src": "evil.js"})
    r1.attrs["type"] = "module"
    return same, script_shared, [len(d.script) for d in deps2], r2.attrs["type"], [d.name for d in deps1], dA in deps1
show("freshness", freshness)

# The script files of the two libraries exist in the package
def files_exist():
    r = Foo().tagify()
    out = []
    for d in r.children:
        if isinstance(d, HTMLDependency):
            base = os.path.join(os.path.dirname(J.__file__), d.source["subdir"])
            out.append((d.name, [os.path.isfile(os.path.join(base, s["src"])) for s in d.script]))
    return out
show("files", files_exist)

# Rendering the whole thing resolves dependencies into <head>
def rendered():
    r = div(Foo("x", dB)).render()
    return r["html"], [(d.name, str(d.version)) for d in r["dependencies"]]
show("render", rendered)

# _lib_dependency itself, both library entries
def lib():
    t = Foo().tagify()
    return [dep_info(c) for c in t.children if isinstance(c, HTMLDependency)]
show("lib-deps", lib)
