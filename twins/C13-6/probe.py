"""Deterministic probe for property C13 (serialised dependencies round-trip through
HTML text).  Prints repr()s of results / exception types only."""
import copy
import json

import htmltools
from htmltools import (
    HTML,
    HTMLDependency,
    HTMLDocument,
    HTMLTextDocument,
    Tag,
    TagList,
    div,
    head_content,
    span,
    tags,
)
from htmltools import _core


def show(label, fn):
    try:
        r = fn()
        print(label, "->", repr(r))
    except BaseException as e:  # noqa: BLE001
        print(label, "!!", type(e).__name__, str(e))


def dep_state(d):
    return (
        d.name,
        str(d.version),
        d.source,
        d.script,
        d.stylesheet,
        d.meta,
        d.all_files,
        None if d.head is None else (type(d.head).__name__, d.head.get_html_string()),
        sorted(d.__dict__.keys()),
        list(d.__dict__.keys()),
    )


def make_deps():
    return [
        HTMLDependency("a", "1.0"),
        HTMLDependency(
            "b",
            "2.1.3",
            source={"subdir": "libtest/testdep"},
            script={"src": "testdep.js"},
            stylesheet={"href": "testdep.css"},
        ),
        HTMLDependency(
            "c-d",
            "0.0.1",
            source={"href": "https://example.com/x y/"},
            script=[{"src": "a b.js", "defer": ""}, {"src": "c.js", "type": "module"}],
            stylesheet=[
                {"href": "s.css", "rel": "preload", "media": "print"},
                {"href": "t u.css"},
            ],
            meta=[{"name": "viewport", "content": "width=device-width"}],
            all_files=True,
            head="<script>alert('</script>')</SCRIPT></ScRiPt x>",
        ),
        HTMLDependency(
            "e",
            "3",
            meta={"name": "</script><b>", "content": "</SCRIPT >&\"'"},
            head=TagList(tags.link(rel="x", href="</script>"), "text & <b>", HTML("<i>raw</i>")),
        ),
        HTMLDependency(
            "</script>",
            "1.2",
            source={"package": "htmltools", "subdir": "</ScRiPt>/lib"},
            script={"src": "</script>.js"},
            head=tags.script("var x = '</'+'script>';"),
        ),
        HTMLDependency("uni codeé", "9.9.9", head=HTML("")),
        HTMLDependency("emptyhead", "1", head=TagList()),
        head_content(tags.title("T"), "plain <text>"),
    ]


# --------------------------------------------------------------------------- ctor
print("== constructor")
show("ctor none", lambda: dep_state(HTMLDependency("n", "1")))
show("ctor lists", lambda: dep_state(HTMLDependency("n", "1", script=[], stylesheet=[], meta=[])))
show(
    "ctor tuple",
    lambda: dep_state(
        HTMLDependency("n", "1", script=({"src": "x"},), stylesheet=({"href": "y"},), meta=())
    ),
)
show("ctor bad script", lambda: HTMLDependency("n", "1", script=["x"]))
show("ctor bad script2", lambda: HTMLDependency("n", "1", script="x"))
show("ctor bad script3", lambda: HTMLDependency("n", "1", script=5))
show("ctor missing src", lambda: HTMLDependency("n", "1", script={"href": "x"}))
show("ctor missing href", lambda: HTMLDependency("n", "1", stylesheet=[{"href": "a"}, {"src": "x"}]))
show("ctor missing meta", lambda: HTMLDependency("n", "1", meta={"name": "x"}))
show("ctor missing meta2", lambda: HTMLDependency("n", "1", meta={"content": "x"}))
show("ctor bad meta", lambda: HTMLDependency("n", "1", meta=[None]))
show(
    "ctor order of errors",
    lambda: HTMLDependency("n", "1", script={"x": 1}, stylesheet={"x": 1}, meta={"x": 1}),
)
show(
    "ctor order of errors 2",
    lambda: HTMLDependency("n", "1", stylesheet={"x": 1}, meta="bad"),
)
show("ctor bad source", lambda: HTMLDependency("n", "1", source="x"))
show("ctor bad source2", lambda: HTMLDependency("n", "1", source={"package": "x"}))
show("ctor bad version", lambda: HTMLDependency("n", "not a version"))


def shared_dicts():
    sc = {"src": "x.js"}
    st = {"href": "x.css"}
    me = {"name": "a", "content": "b"}
    lsc, lst, lme = [sc], [st], [me]
    d = HTMLDependency("n", "1", script=lsc, stylesheet=lst, meta=lme)
    d2 = HTMLDependency("n", "1", script=sc, stylesheet=st, meta=me)
    return (
        d.script is lsc,
        d.stylesheet is lst,
        d.meta is lme,
        d2.script[0] is sc,
        d2.stylesheet[0] is st,
        d2.meta[0] is me,
        st,
    )


show("ctor identity", shared_dicts)


def gen_inputs():
    d = HTMLDependency(
        "n",
        "1",
        script=(x for x in [{"src": "g.js"}]),
        stylesheet=(x for x in [{"href": "g.css"}]),
    )
    return (type(d.script).__name__, list(d.script), type(d.stylesheet).__name__, list(d.stylesheet))


show("ctor generators", gen_inputs)

# --------------------------------------------------------------------------- serialise
print("== serialize_to_script_json")
for i, d in enumerate(make_deps()):
    for indent in (None, 0, 2):
        show(f"ser {i} indent={indent}", lambda: d.serialize_to_script_json(indent=indent).get_html_string())
    show(f"ser {i} positional", lambda: d.serialize_to_script_json(1).get_html_string())
    show(f"ser {i} tag", lambda: repr(d.serialize_to_script_json()))
    show(f"ser {i} attrs", lambda: dict(d.serialize_to_script_json().attrs))
    show(f"ser {i} nchildren", lambda: [type(c).__name__ for c in d.serialize_to_script_json().children])
    show(
        f"ser {i} no end tag inside",
        lambda: "</script" in d.serialize_to_script_json().get_html_string().lower()[:-len("</script>")],
    )
    show(f"ser {i} as_dict", lambda: d.as_dict())
    show(f"ser {i} as_dict2", lambda: d.as_dict(lib_prefix=None, include_version=False))
    show(f"ser {i} as_html_tags", lambda: str(d.as_html_tags(lib_prefix="L", include_version=False)))

# --------------------------------------------------------------------------- extraction
print("== extraction")
SE = HTMLTextDocument._static_extract_serialized_html_deps


def ext(html):
    h, deps = SE(html)
    return (h, type(deps).__name__, [dep_state(x) for x in deps])


for i, d in enumerate(make_deps()):
    s = d.serialize_to_script_json().get_html_string()
    s2 = d.serialize_to_script_json(indent=2).get_html_string()
    show(f"ext {i}", lambda: ext("<p>" + s + "</p>"))
    show(f"ext {i} indent", lambda: ext("pre\n" + s2 + "\npost"))
    show(f"ext {i} eq", lambda: SE(s)[1][0] == d)
    show(f"ext {i} eq rev", lambda: d == SE(s)[1][0])
    show(f"ext {i} dup", lambda: ext(s + "x" + s + "y" + s2 + "z" + s))

deps = make_deps()
sers = [d.serialize_to_script_json().get_html_string() for d in deps]
show("ext all", lambda: ext("A" + "|".join(sers) + "B"))
show("ext all reversed + dups", lambda: ext("|".join(sers[::-1] + sers)))
show("ext empty", lambda: ext(""))
show("ext none found", lambda: ext("<html><script>1</script></html>"))
show("ext same object", lambda: (lambda h: SE(h)[0] == h)("no deps here"))
show("ext wrong attrs", lambda: ext('<script type="application/json" data-html-dependency>{}</script>'))
show("ext upper", lambda: ext('<SCRIPT type="application/json" data-html-dependency="">{}</SCRIPT>'))
show("ext empty body", lambda: ext('x<script type="application/json" data-html-dependency=""></script>y'))
show("ext bad json", lambda: ext('x<script type="application/json" data-html-dependency="">{not json}</script>y'))
show("ext json list", lambda: ext('<script type="application/json" data-html-dependency="">[1]</script>'))
show("ext json missing", lambda: ext('<script type="application/json" data-html-dependency="">{"name":"x"}</script>'))
show("ext json extra", lambda: ext('<script type="application/json" data-html-dependency="">{"name":"x","version":"1","zzz":1}</script>'))
show(
    "ext good then bad",
    lambda: ext(sers[0] + '<script type="application/json" data-html-dependency="">oops</script>'),
)
show(
    "ext bad dup after good",
    lambda: ext(
        '<script type="application/json" data-html-dependency="">{"name":"x","version":"1"}</script>'
        * 3
    ),
)
show("ext crlf", lambda: ext('<script type="application/json" data-html-dependency="">{"name":\r\n"x",\r"version":\n"1"}</script>\r\n'))
show("ext unterminated", lambda: ext('<script type="application/json" data-html-dependency="">{"name":"x"'))
show("ext nested prefix", lambda: ext('<script type="application/json" data-html-dependency=""><script type="application/json" data-html-dependency="">{"name":"x","version":"1"}</script></script>'))
show("ext bytes", lambda: ext(b"abc"))
show("ext None", lambda: ext(None))
show("ext int", lambda: ext(5))


class MyStr(str):
    pass


show("ext str subclass", lambda: (lambda r: (r[0], type(r[0]).__name__, r[1]))(SE(MyStr("abc"))))
show("ext str subclass2", lambda: (lambda r: (r[0], type(r[0]).__name__, len(r[1])))(SE(MyStr("x" + sers[0]))))

# --------------------------------------------------------------------------- HTMLTextDocument
print("== HTMLTextDocument")
show("doc deps w/o pattern", lambda: HTMLTextDocument("x", deps=[]))
show("doc deps w/o pattern2", lambda: HTMLTextDocument("x", deps=make_deps()[:1]))
show("doc nothing", lambda: HTMLTextDocument("x").render())
show("doc pattern only", lambda: HTMLTextDocument("xPx", deps_replace_pattern="P").render())
show("doc pattern twice", lambda: HTMLTextDocument("aPbPc", deps=make_deps()[:2], deps_replace_pattern="P").render())
show("doc pattern absent", lambda: HTMLTextDocument("abc", deps=make_deps()[:2], deps_replace_pattern="P").render())
show("doc pattern empty", lambda: HTMLTextDocument("abc", deps=make_deps()[:2], deps_replace_pattern="").render())
show("doc no pattern but body deps", lambda: HTMLTextDocument("a" + sers[1] + "b").render())
show("doc bad html", lambda: HTMLTextDocument(None))
show("doc bad json", lambda: HTMLTextDocument('<script type="application/json" data-html-dependency="">{</script>'))


def doc_full(**kw):
    given = make_deps()[:2]
    doc = HTMLTextDocument(
        "<html><head>HEAD</head><body>" + sers[2] + "HEAD" + sers[3] + sers[2] + sers[0] + "</body></html>",
        deps=given,
        deps_replace_pattern="HEAD",
    )
    r1 = doc.render(**kw)
    r2 = doc.render(**kw)
    return (
        r1["html"],
        [dep_state(d) for d in r1["dependencies"]],
        r1 == r2,
        r1["dependencies"] is not r2["dependencies"],
        all(a is not b for a, b in zip(r1["dependencies"], doc._deps)),
        given is doc._deps,
        len(given),
        doc._html,
        doc._deps_replace_pattern,
        sorted(doc.__dict__.keys()),
    )


show("doc full", doc_full)
show("doc full L", lambda: doc_full(lib_prefix="L"))
show("doc full None", lambda: doc_full(lib_prefix=None, include_version=False))
show("doc full empty prefix", lambda: doc_full(lib_prefix="", include_version=True))
show("doc render positional", lambda: HTMLTextDocument("x").render("lib"))

# --------------------------------------------------------------------------- HTMLDocument + json mode
print("== HTMLDocument / json mode")


def ui():
    d = make_deps()
    return div(
        d[0],
        span("hello", d[1], d[2]),
        d[1],
        TagList(d[3], "txt", d[4]),
        d[5],
        d[6],
        d[7],
        HTMLDependency("a", "2.0", script={"src": "new.js"}, source={"subdir": "s"}),
    )


def direct(**kw):
    r = HTMLDocument(ui()).render(**kw)
    return (r["html"], [dep_state(d) for d in r["dependencies"]])


show("direct", direct)
show("direct L", lambda: direct(lib_prefix="L", include_version=False))
show("direct None", lambda: direct(lib_prefix=None))
show("direct html root", lambda: HTMLDocument(tags.html(tags.body(ui())), lang="en").render()["html"])
show("direct html root w/ head", lambda: HTMLDocument(tags.html(make_deps()[1], tags.head(tags.title("t")), tags.body("x"))).render()["html"])
show("direct body root", lambda: HTMLDocument(tags.body(ui(), class_="c")).render()["html"])
show("direct no deps", lambda: HTMLDocument(div("x")).render())
show("direct empty", lambda: HTMLDocument().render())
show("hoist non-html", lambda: HTMLDocument._hoist_head_content(div(), "lib", True))
show("hoist html", lambda: str(HTMLDocument._hoist_head_content(tags.html(make_deps()[2]), None, False)))
show("hoist html empty", lambda: str(HTMLDocument._hoist_head_content(tags.html(), "lib", True)))


def hoist_no_mutation():
    h = tags.html(tags.head("orig"), make_deps()[1])
    r = HTMLDocument._hoist_head_content(h, "lib", True)
    return (str(h), str(r), r is h, r.children[0] is h.children[0])


show("hoist no mutation", hoist_no_mutation)


def json_mode(x, **kw):
    old = htmltools.html_dependency_render_mode
    htmltools.html_dependency_render_mode = "json"
    try:
        text = str(x)
        text2 = x._repr_html_()
    finally:
        htmltools.html_dependency_render_mode = old
    doc = HTMLTextDocument(
        "<!DOCTYPE html>\n<html>\n  <head>\n    <meta charset=\"utf-8\"/>PLACE\n  </head>\n  <body>\n" + text + "PLACE\n  </body>\n</html>",
        deps_replace_pattern="PLACE",
    )
    r = doc.render(**kw)
    return (text, text == text2, r["html"], [dep_state(d) for d in r["dependencies"]])


show("json ui", lambda: json_mode(ui()))
show("json ui L", lambda: json_mode(ui(), lib_prefix="L", include_version=False))
show("json taglist", lambda: json_mode(TagList(*make_deps(), "x", div("y"))))
show("json no deps", lambda: json_mode(div("x")))
show("json empty taglist", lambda: json_mode(TagList()))
show("invisible ui", lambda: (str(ui()), ui()._repr_html_()))
show("invisible taglist", lambda: str(TagList(*make_deps(), "x")))
show("other mode", lambda: (setattr(htmltools, "html_dependency_render_mode", "JSON"), str(ui()), setattr(htmltools, "html_dependency_render_mode", "invisible"))[1])
show("render helper non-tag", lambda: _core._render_tag_or_taglist("x"))


def equiv():
    rd = HTMLDocument(ui()).render()
    old = htmltools.html_dependency_render_mode
    htmltools.html_dependency_render_mode = "json"
    try:
        body = str(ui())
    finally:
        htmltools.html_dependency_render_mode = old
    doc = HTMLTextDocument("X" + body, deps_replace_pattern="X")
    rt = doc.render()
    # same dependency markup as the <head> of direct rendering (minus charset meta / indentation)
    head_direct = rd["html"].split("<head>")[1].split("</head>")[0]
    lines_d = [ln.strip() for ln in head_direct.strip().split("\n")][1:]
    lines_t = [ln.strip() for ln in rt["html"].split("<div>")[0].split("\n")]
    return (lines_d == lines_t, lines_d, [repr(d) for d in rt["dependencies"]], [repr(d) for d in rd["dependencies"]])


show("equiv", equiv)

# --------------------------------------------------------------------------- equality
print("== equality")
ds = make_deps()
ds2 = make_deps()
show("eq same", lambda: [a == b for a, b in zip(ds, ds2)])
show("eq cross", lambda: [[int(a == b) for b in ds2] for a in ds])
show("ne", lambda: [a != b for a, b in zip(ds, ds2)])
show("eq other types", lambda: [ds[0] == x for x in (None, 1, "a", div(), TagList(), object())])
show("eq rev other types", lambda: [x == ds[0] for x in (None, 1, "a", div(), TagList())])


class SubDep(HTMLDependency):
    pass


show("eq subclass", lambda: (ds[0] == SubDep("a", "1.0"), SubDep("a", "1.0") == ds[0]))


def extra_attr():
    a = HTMLDependency("a", "1.0")
    b = HTMLDependency("a", "1.0")
    a.extra = 1
    r1 = (a == b, b == a)
    b.extra = None
    a.extra = None
    r2 = (a == b, b == a)
    del b.extra
    r3 = (a == b, b == a)
    return (r1, r2, r3)


show("eq extra attr", extra_attr)
show("eq version str", lambda: HTMLDependency("a", "1.0") == HTMLDependency("a", "1.0.0"))
show("eq head str vs HTML", lambda: HTMLDependency("a", "1", head="<b>") == HTMLDependency("a", "1", head=HTML("<b>")))
show("eq head escaped", lambda: HTMLDependency("a", "1", head="<b>") == HTMLDependency("a", "1", head=TagList("<b>")))
show("eq tags", lambda: (div("a", ds[0]) == div("a", ds2[0]), div("a") == div("b"), TagList("a") == TagList("a"), TagList("a") == ["a"], div() == span()))


class Weird:
    def __eq__(self, o):
        raise RuntimeError("eq boom")

    def __ne__(self, o):
        raise RuntimeError("ne boom")


def weird_eq():
    a = HTMLDependency("a", "1.0")
    b = HTMLDependency("a", "1.0")
    a.w = Weird()
    b.w = Weird()
    return a == b


show("eq raising", weird_eq)
show("copy", lambda: (lambda d: (copy.copy(d) == d, copy.deepcopy(d) == d))(ds[2]))
show("repr/str", lambda: [(repr(d), str(d)) for d in ds])
show("resolve", lambda: [repr(d) for d in _core._resolve_dependencies(ds + [HTMLDependency("a", "0.5"), HTMLDependency("a", "1.5")])])
