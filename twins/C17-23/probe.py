"""Deterministic probe for the Tag context manager / displayhook machinery.

Prints repr()s of results and exception types/messages only; no addresses, no
timings.  Must print byte-identical output before and after the refactoring.
"""
import sys
from copy import copy

import htmltools
from htmltools import HTML, HTMLDependency, Tag, TagList, div, span, tags
from htmltools import wrap_displayhook_handler
from htmltools._core import _tagchilds_to_tagnodes, is_tag_node
from htmltools._util import flatten

ORIG_HOOK = sys.displayhook
LOG = []


def desc(v):
    """Address-free description of a value."""
    if isinstance(v, Tag):
        return "Tag<%s %r [%s]>" % (v.name, dict(v.attrs), ", ".join(desc(x) for x in v.children))
    if isinstance(v, TagList):
        return "TagList[%s]" % ", ".join(desc(x) for x in v)
    if isinstance(v, HTML):
        return "HTML(%r)" % v.as_string()
    if isinstance(v, (str, int, float, bool, type(None), type(...), bytes, complex)):
        return "%s:%r" % (type(v).__name__, v)
    if isinstance(v, (list, tuple)):
        return "%s[%s]" % (type(v).__name__, ", ".join(desc(x) for x in v))
    if v is Tag:
        return "<class Tag>"
    if isinstance(v, HTMLDependency):
        return "Dep(%s)" % v.name
    return "<%s>" % type(v).__name__


def base_hook(v):
    LOG.append("base:" + desc(v))


def kids(t):
    return "[%s]" % ", ".join(desc(x) for x in t.children)


def attempt(label, fn):
    try:
        r = fn()
        print(label, "->", desc(r) if not isinstance(r, str) else r)
    except BaseException as e:  # noqa: BLE001
        print(label, "!!", type(e).__name__, str(e))


def drain(label):
    print(label, "LOG=", LOG[:])
    del LOG[:]


class Repr:
    def __init__(self, s="<i>r</i>"):
        self.s = s

    def _repr_html_(self):
        LOG.append("repr_html_called:" + self.s)
        return self.s


class ReprRaises:
    def _repr_html_(self):
        raise KeyError("boom-repr")


class ReprNonStr:
    def _repr_html_(self):
        return 42


class Tagif:
    def tagify(self):
        return span("tagified")


class Both:
    def tagify(self):
        return span("both")

    def _repr_html_(self):
        LOG.append("Both._repr_html_ called")
        return "<b>both</b>"


class EqAlways:
    def __eq__(self, other):
        return True

    __hash__ = None


class EqRaises:
    def __eq__(self, other):
        raise ValueError("ambiguous truth")

    __hash__ = None


class IntSub(int):
    def __str__(self):
        LOG.append("IntSub.__str__(%d)" % int(self))
        return "I%d" % int(self)


class FloatSub(float):
    def __str__(self):
        return "F!"


class StrSub(str):
    pass


class MyTag(Tag):
    def append(self, *args):
        LOG.append("MyTag.append(%s)" % ", ".join(desc(a) for a in args))
        super().append(*args)


def gen():
    yield "g1"
    yield None
    yield ["g2", (3,)]


dep = HTMLDependency("depname", "1.0", source={"href": "http://x"}, script={"src": "a.js"})

VALUES = [
    ("str", lambda: "a<b"),
    ("empty-str", lambda: ""),
    ("strsub", lambda: StrSub("ss")),
    ("int", lambda: 1),
    ("zero", lambda: 0),
    ("float", lambda: 2.5),
    ("nan", lambda: float("nan")),
    ("bool", lambda: True),
    ("false", lambda: False),
    ("none", lambda: None),
    ("ellipsis", lambda: ...),
    ("tag", lambda: span("x", id="s")),
    ("taglist", lambda: TagList("a", span(), None, 3)),
    ("empty-taglist", lambda: TagList()),
    ("list", lambda: [1, [2, None, ("t",)], []]),
    ("empty-list", lambda: []),
    ("tuple", lambda: ("p", None, 4.0)),
    ("html", lambda: HTML("<b>raw</b>")),
    ("repr", lambda: Repr()),
    ("repr-empty", lambda: Repr("")),
    ("repr-raises", lambda: ReprRaises()),
    ("repr-nonstr", lambda: ReprNonStr()),
    ("tagifiable", lambda: Tagif()),
    ("both", lambda: Both()),
    ("dep", lambda: dep),
    ("intsub", lambda: IntSub(7)),
    ("floatsub", lambda: FloatSub(1.5)),
    ("eq-always", lambda: EqAlways()),
    ("eq-raises", lambda: EqRaises()),
    ("object", lambda: object()),
    ("dict", lambda: {"a": 1}),
    ("bytes", lambda: b"by"),
    ("set", lambda: {1}),
    ("complex", lambda: 1j),
    ("generator", lambda: gen()),
    ("list-with-bad", lambda: ["ok", IntSub(1), object(), IntSub(2)]),
    ("list-with-repr", lambda: [Repr("<u>in list</u>"), None, ...]),
    ("class-Tag", lambda: Tag),
    ("func", lambda: len),
    ("NotImplemented", lambda: NotImplemented),
]


def section(title):
    print("=" * 8, title)


def run_hook_values():
    section("every value through a with-block hook, one block per value")
    for name, mk in VALUES:
        sys.displayhook = base_hook
        t = div()
        try:
            with t:
                inner = sys.displayhook
                print(name, "hook-name", inner.__name__, inner.__qualname__,
                      "is-base", inner is base_hook)
                try:
                    r = sys.displayhook(mk())
                    print(name, "returned", repr(r))
                except BaseException as e:  # noqa: BLE001
                    print(name, "raised", type(e).__name__, str(e))
                sys.displayhook("after")
        except BaseException as e:  # noqa: BLE001
            print(name, "block raised", type(e).__name__, str(e))
        print(name, "kids", kids(t), "restored", sys.displayhook is base_hook,
              "prev", t.prev_displayhook)
        drain(name)


def run_one_block_all_values():
    section("all values in a single block, order preserved")
    sys.displayhook = base_hook
    t = tags.ul(class_="c")
    with t:
        for name, mk in VALUES:
            try:
                sys.displayhook(mk())
            except BaseException as e:  # noqa: BLE001
                LOG.append("err:%s:%s" % (name, type(e).__name__))
    print("kids", kids(t))
    attempt("render", lambda: repr(str(t)))
    t.children = TagList(*[c for c in t.children if c is not Tag])
    attempt("render-without-class", lambda: repr(str(t)))
    print("restored", sys.displayhook is base_hook)
    drain("all")


def run_nesting():
    section("nesting")
    sys.displayhook = base_hook
    a, b, c = div(id="a"), span(id="b"), tags.p(id="c")
    with a:
        ha = sys.displayhook
        sys.displayhook("a1")
        with b:
            hb = sys.displayhook
            sys.displayhook("b1")
            with c:
                hc = sys.displayhook
                sys.displayhook("c1")
                print("inside c prevs", a.prev_displayhook is base_hook,
                      b.prev_displayhook is ha, c.prev_displayhook is hb,
                      hc is not hb, hb is not ha)
            print("after c", sys.displayhook is hb, c.prev_displayhook)
            sys.displayhook("b2")
        print("after b", sys.displayhook is ha, b.prev_displayhook)
        sys.displayhook("a2")
        with c:  # re-use a tag after it has exited
            sys.displayhook("c2")
        with div():
            pass
    print("after a", sys.displayhook is base_hook, a.prev_displayhook)
    print("a", repr(str(a)))
    print("b", repr(str(b)))
    print("c", repr(str(c)))
    drain("nesting")

    section("deep nesting (40 levels)")
    sys.displayhook = base_hook
    ts = [div(id="d%d" % i) for i in range(40)]

    def go(i):
        if i == len(ts):
            sys.displayhook("leaf")
            return
        with ts[i]:
            sys.displayhook(i)
            go(i + 1)
            sys.displayhook(-i)

    go(0)
    print("restored", sys.displayhook is base_hook,
          all(t.prev_displayhook is None for t in ts))
    print("len", len(str(ts[0])), "kids0", [desc(x)[:12] for x in ts[0].children])
    print("kids39", kids(ts[39]))
    drain("deep")


def run_exceptions():
    section("exceptions inside blocks")
    sys.displayhook = base_hook
    a, b = div(id="a"), span(id="b")
    try:
        with a:
            sys.displayhook("a1")
            with b:
                sys.displayhook("b1")
                raise ZeroDivisionError("zde")
            sys.displayhook("unreached")
    except ZeroDivisionError as e:
        print("caught", type(e).__name__, e)
    print("restored", sys.displayhook is base_hook, a.prev_displayhook, b.prev_displayhook)
    print("a", kids(a), "b", kids(b))
    drain("exc")

    for exc in (KeyboardInterrupt, SystemExit, GeneratorExit, StopIteration):
        sys.displayhook = base_hook
        t = div()
        try:
            with t:
                sys.displayhook("x")
                raise exc("e")
        except BaseException as e:  # noqa: BLE001
            print("caught", type(e).__name__)
        print("restored", sys.displayhook is base_hook, t.prev_displayhook, kids(t))
        drain(exc.__name__)

    section("invalid value mid-block, then carry on")
    sys.displayhook = base_hook
    t = div()
    with t:
        sys.displayhook("one")
        try:
            sys.displayhook(object())
        except TypeError as e:
            print("TypeError", e)
        try:
            sys.displayhook(["two", object(), "never"])
        except TypeError as e:
            print("TypeError", e)
        sys.displayhook("three")
    print(kids(t), sys.displayhook is base_hook)
    drain("invalid")

    section("enclosing hook raises on exit")

    def bad_hook(v):
        LOG.append("bad_hook:" + desc(v))
        raise OSError("enclosing hook failed")

    sys.displayhook = bad_hook
    t = div("k")
    try:
        with t:
            sys.displayhook("x")
    except OSError as e:
        print("caught OSError", e)
    print("restored", sys.displayhook is bad_hook, t.prev_displayhook, kids(t))
    drain("badhook")

    section("enclosing hook raises while body also raised")
    sys.displayhook = bad_hook
    t = div()
    try:
        with t:
            raise ValueError("body")
    except BaseException as e:  # noqa: BLE001
        print("caught", type(e).__name__, e, "ctx", type(e.__context__).__name__, e.__context__)
    print("restored", sys.displayhook is bad_hook, t.prev_displayhook)
    drain("badhook2")


def run_reentry():
    section("re-entering an active tag")
    sys.displayhook = base_hook
    t = div(id="t")
    try:
        with t:
            h = sys.displayhook
            sys.displayhook("t1")
            try:
                with t:
                    print("unreachable")
            except RuntimeError as e:
                print("RuntimeError", e)
            print("chain intact", sys.displayhook is h, t.prev_displayhook is base_hook)
            sys.displayhook("t2")
            try:
                t.__enter__()
            except RuntimeError as e:
                print("RuntimeError again", e)
            print("chain intact", sys.displayhook is h, t.prev_displayhook is base_hook)
    except BaseException as e:  # noqa: BLE001
        print("outer raised", type(e).__name__, e)
    print("restored", sys.displayhook is base_hook, t.prev_displayhook, kids(t))
    drain("reentry")

    section("re-entering through a nested other tag")
    sys.displayhook = base_hook
    t, u = div(id="t"), span(id="u")
    with t:
        with u:
            hu = sys.displayhook
            try:
                with t:
                    pass
            except RuntimeError as e:
                print("RuntimeError", type(e).__name__)
            print("chain intact", sys.displayhook is hu)
            sys.displayhook("u1")
    print("restored", sys.displayhook is base_hook, kids(t), kids(u))
    drain("reentry2")

    section("copy of an active tag")
    sys.displayhook = base_hook
    t = div("orig")
    with t:
        cp = copy(t)
        print("copy prev is base", cp.prev_displayhook is base_hook)
        try:
            with cp:
                pass
        except RuntimeError as e:
            print("RuntimeError", type(e).__name__)
        sys.displayhook("more")
    print(kids(t), kids(cp), sys.displayhook is base_hook)
    cp2 = copy(t)
    with cp2:
        sys.displayhook("cp2")
    print(kids(t), kids(cp2), sys.displayhook is base_hook)
    drain("copy")

    section("__exit__ without __enter__")
    sys.displayhook = base_hook
    t = div()
    try:
        t.__exit__(None, None, None)
    except BaseException as e:  # noqa: BLE001
        print("raised", type(e).__name__, e)
    print("hook now", sys.displayhook, "prev", t.prev_displayhook)
    sys.displayhook = base_hook
    drain("exit-only")

    section("return values of __enter__/__exit__")
    t = div()
    r1 = t.__enter__()
    r2 = t.__exit__(None, None, None)
    print(repr(r1), repr(r2))
    with div() as x:
        print("as-target", repr(x))
    drain("retvals")


def run_subclass_and_swap():
    section("Tag subclass overriding append; children swapped mid-block")
    sys.displayhook = base_hook
    t = MyTag("my-tag")
    with t:
        sys.displayhook("m1")
        sys.displayhook(None)
        sys.displayhook([1, 2])
        sys.displayhook(Repr("<s>m</s>"))
        t.children = TagList("replaced")
        sys.displayhook("m2")
    print(kids(t))
    drain("subclass")

    section("hook replaced by user inside the block")
    sys.displayhook = base_hook
    t = div()
    with t:
        sys.displayhook = lambda v: LOG.append("user:" + desc(v))
        sys.displayhook("lost")
    print(kids(t), sys.displayhook is base_hook)
    drain("swap")

    section("append replaced on instance after enter")
    sys.displayhook = base_hook
    t = div()
    with t:
        t.append = lambda *a: LOG.append("patched-append")
        sys.displayhook("bound-earlier")
    print(kids(t))
    drain("patched")


def run_wrap():
    section("wrap_displayhook_handler directly")
    calls = []

    def h(v):
        calls.append(desc(v))
        return "ignored-return"

    w = wrap_displayhook_handler(h)
    print(w.__name__, w.__qualname__, w is not h)
    w2 = wrap_displayhook_handler(h)
    print("fresh closure", w is not w2)
    for name, mk in VALUES:
        try:
            r = w(mk())
            print(name, "ret", repr(r))
        except BaseException as e:  # noqa: BLE001
            print(name, "raised", type(e).__name__, str(e))
    print(calls)
    drain("wrap")
    try:
        w()
    except TypeError as e:
        print("TypeError", e)
    try:
        w(value=3)
        print(calls[-1])
    except TypeError as e:
        print("TypeError", e)

    def raising(v):
        raise LookupError("handler:" + desc(v))

    wr = wrap_displayhook_handler(raising)
    for v in ("s", span(), Repr(), None, ..., 0):
        try:
            print(repr(wr(v)))
        except LookupError as e:
            print("LookupError", e)
    drain("wrap-raising")
    ww = wrap_displayhook_handler(wrap_displayhook_handler(h))
    del calls[:]
    for v in (Repr("<x>"), None, "s", Both()):
        ww(v)
    print(calls)
    drain("wrap-wrap")


def run_taglist():
    section("TagList / _tagchilds_to_tagnodes / flatten")
    for name, mk in VALUES:
        attempt("TagList(%s)" % name, lambda: TagList(mk()))
        drain(name)
    for name, mk in VALUES:
        tl = TagList("head")
        try:
            r = tl.extend([mk()])
            print("extend", name, repr(r), desc(tl), type(tl.data).__name__)
        except BaseException as e:  # noqa: BLE001
            print("extend", name, "raised", type(e).__name__, str(e), "left", desc(tl))
        del LOG[:]
    for name, mk in VALUES:
        tl = TagList("head")
        try:
            r = tl.extend(mk())
            print("extend-bare", name, repr(r), desc(tl))
        except BaseException as e:  # noqa: BLE001
            print("extend-bare", name, "raised", type(e).__name__, str(e), "left", desc(tl))
        del LOG[:]
    for name, mk in VALUES:
        try:
            r = _tagchilds_to_tagnodes(mk())
            print("t2n", name, type(r).__name__, desc(r))
        except BaseException as e:  # noqa: BLE001
            print("t2n", name, "raised", type(e).__name__, str(e))
        del LOG[:]
    for name, mk in VALUES:
        try:
            r = flatten([mk(), None, [mk()]])
            print("flatten", name, type(r).__name__, desc(r))
        except BaseException as e:  # noqa: BLE001
            print("flatten", name, "raised", type(e).__name__, str(e))
        del LOG[:]
        print("is_tag_node", name, is_tag_node(mk()))
        del LOG[:]
    attempt("flatten(None)", lambda: flatten(None))
    attempt("flatten(5)", lambda: flatten(5))
    attempt("flatten('abc')", lambda: flatten("abc"))
    attempt("flatten(())", lambda: flatten(()))
    attempt("flatten(gen)", lambda: flatten(gen()))
    attempt("flatten(dict)", lambda: flatten({"k": 1, None: 2}))
    src = [1, [2, [3, [None, [4, (5, TagList("six", [7]))]]]], None]
    print("flatten nested", desc(flatten(src)), "src untouched", desc(src))
    attempt("t2n('str')", lambda: _tagchilds_to_tagnodes("str"))
    attempt("t2n(StrSub)", lambda: _tagchilds_to_tagnodes(StrSub("q")))
    attempt("t2n(())", lambda: _tagchilds_to_tagnodes(()))
    attempt("t2n(None)", lambda: _tagchilds_to_tagnodes(None))
    attempt("t2n(gen)", lambda: _tagchilds_to_tagnodes(gen()))
    inp = [1, 2.0, "s", None, [True]]
    out = _tagchilds_to_tagnodes(inp)
    print("input untouched", inp, out, out is not inp)
    one = ["only"]
    out = _tagchilds_to_tagnodes(one)
    print("fresh list", out == one, out is not one)
    x = TagList()
    print(desc(x), type(x.data).__name__, len(x))
    x.append("a")
    x.append("b", None, [3, span("c")])
    x.extend(TagList("d", "e"))
    x.extend("whole-string")
    x.extend(gen())
    x.insert(0, [0, None])
    x += ["iadd", 1.5]
    print(desc(x))
    attempt("append()", lambda: TagList().append())
    attempt("extend()", lambda: TagList().extend())
    attempt("extend(None)", lambda: TagList().extend(None))
    attempt("extend(5)", lambda: TagList().extend(5))
    a = TagList("p", "q")
    b = TagList(a, a)
    a.append("r")
    print(desc(a), desc(b), a.data is not b.data)
    a.extend(a)
    print(desc(a))
    src = ["m", "n"]
    c = TagList(src)
    d = TagList(*src)
    src.append("o")
    print(desc(c), desc(d))
    print(desc(copy(c)), copy(c).data is not c.data, c == d, c == ["m", "n"])
    e = TagList("keep")
    old_data = e.data

    def mutgen():
        yield "m1"
        e.data = ["swapped"]
        yield IntSub(9)

    e.extend(mutgen())
    print("extend while data swapped", desc(e), old_data)
    e = TagList("keep")
    old_data = e.data
    e.__init__("again", 2)
    print("re-init", desc(e), old_data, e.data is not old_data)
    try:
        e.__init__(object())
    except TypeError:
        print("re-init failed, left", desc(e))
    sl = e[0:1]
    print("slice", type(sl).__name__, desc(sl), desc(e * 2), desc(e + ["z"]), desc(["y"] + e))

    class TL2(TagList):
        def extend(self, other):
            LOG.append("TL2.extend(%s)" % desc(list(other)))
            super().extend(other)

    z = TL2("i", [1])
    z.append("j", None)
    z += ["k"]
    z.insert(1, "ins")
    print(type(z).__name__, desc(z), type(z.data).__name__)
    t = div()
    t.append("x", None, [1])
    t.extend(["y", (2.5,)])
    t.insert(0, "first")
    attempt("Tag.append()", lambda: div().append())
    attempt("Tag.append(obj)", lambda: div().append(object()))
    print(kids(t))
    drain("taglist")
    sys.setrecursionlimit(300)
    deep = []
    cur = deep
    for _ in range(1000):
        nxt = []
        cur.append(nxt)
        cur = nxt
    attempt("very deep", lambda: str(len(flatten(deep))))
    loop = []
    loop.append(loop)
    attempt("self-containing", lambda: str(len(flatten(loop))))
    sys.setrecursionlimit(1000)
    print("HTML ctor", desc(HTML("s")), desc(HTML(HTML("h"))), desc(HTML(3)), desc(HTML(None)),
          desc(HTML(StrSub("z"))), type(HTML(StrSub("z")).data).__name__)


def main():
    try:
        run_hook_values()
        run_one_block_all_values()
        run_nesting()
        run_exceptions()
        run_reentry()
        run_subclass_and_swap()
        run_wrap()
        run_taglist()
    finally:
        sys.displayhook = ORIG_HOOK
    print("done; hook restored:", sys.displayhook is ORIG_HOOK)


main()
