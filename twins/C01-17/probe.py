"""Probe for refactoring 2: TagAttrDict (__setitem__, update, name normalisation, value merging)."""
import itertools

from htmltools import HTML, Tag, TagList, a, div, span, tags
from htmltools._core import TagAttrDict


def show(label, fn):
    try:
        out = fn()
        print(label, "->", type(out).__name__, repr(out))
    except BaseException as e:  # noqa: BLE001
        print(label, "-> EXC", type(e).__name__)


def dump(d):
    return [(type(k).__name__, k, type(v).__name__, str(v)) for k, v in d.items()]


class S(str):
    pass


# --- name normalisation ---------------------------------------------------------
names = ["", "_", "__", "___", "a", "a_", "a__", "_a", "_a_", "class_", "data_foo_bar", "data_foo_bar_",
         "for_", "http_equiv", "aria-label", "x-_", "A_B_", "é_", S("sub_x_"), "a b_", "-", "_-_"]
for n in names:
    show(f"name({n!r})", lambda: TagAttrDict._normalize_attr_name(n))
    show(f"inst.name({n!r})", lambda: TagAttrDict()._normalize_attr_name(n))
for bad in [None, 5, b"a_", ("a_",), HTML("h_t_"), HTML("_")]:
    show(f"name({type(bad).__name__})", lambda: TagAttrDict._normalize_attr_name(bad))

# --- value normalisation + __setitem__ --------------------------------------------
values = [None, False, True, "", "v", "a<b", 0, 1, -2, 3.5, float("inf"), HTML("<i>"), HTML(""), S("s"),
          [], {}, object, b"x", 1j]
for v in values:
    def set_one():
        d = TagAttrDict()
        d["my_attr_"] = v
        return dump(d)
    show(f"setitem({v!r})", set_one)

    def set_over():
        d = TagAttrDict(my_attr="old", other="o")
        d["my_attr_"] = v
        d["new_"] = v
        return dump(d)
    show(f"setitem-over({v!r})", set_over)

d = TagAttrDict()
for k in ["b_", "a", "b", "c_d", "a_"]:
    d[k] = k.upper()
print(dump(d))
show("setitem bad key", lambda: TagAttrDict().__setitem__(5, "x"))
show("setitem bad key + None value", lambda: TagAttrDict().__setitem__(5, None))
show("setitem bad key + bad value", lambda: TagAttrDict().__setitem__(5, []))

# --- update: merging of repeated names ----------------------------------------------
plain = ["p", "q<'\">&", ""]
raw = [HTML("<r>"), HTML("&amp;"), HTML("")]
cands = plain + raw + [None, True, False, 7, 2.5]
for x, y in itertools.product(cands, repeat=2):
    show(f"merge2({x!r},{y!r})", lambda: dump(TagAttrDict({"class": x}, {"class_": y})))
for x, y, z in itertools.product(["p\"", HTML("<r>"), None, True], repeat=3):
    show(f"merge3({x!r},{y!r},{z!r})", lambda: dump(TagAttrDict({"k": x}, {"k_": y}, k=z)))

# the result of an update overwrites (does not merge with) what is already stored
d = TagAttrDict(class_="a", id="i")
d.update({"class": "b"}, {"class_": HTML("<c>")}, class_="d'", title=None, hidden=True)
print(dump(d))
d.update()
print(dump(d))
d.update({})
print(dump(d))
d.update({"x_y": 1}, {"x-y": 2}, {"x_y_": 3.0})
print(dump(d))
d.update(TagAttrDict(id="j"), d)
print(dump(d))

# order of keys / first-seen position
print(dump(TagAttrDict({"b": 1, "a": 2}, {"c": 3, "b": 4}, a=5, d=6)))

# exceptions part-way: nothing is stored
d = TagAttrDict(keep="k")
show("update bad value", lambda: d.update({"a": "1", "b": [], "c": "3"}))
print(dump(d))
show("update bad key", lambda: d.update({"a": "1", 5: "x"}))
print(dump(d))
show("update bad key None value", lambda: d.update({"a": "1", 5: None}))
print(dump(d))
show("update non-mapping", lambda: d.update([("a", "b")]))
show("update None arg", lambda: d.update(None))
show("init bad", lambda: TagAttrDict({"a": object()}))
print(dump(d))

# --- through Tag construction and rendering --------------------------------------------
trees = [
    div({"class": "a"}, {"class": "b"}, class_="c"),
    div({"class": "a<"}, {"class": HTML("<b>")}, class_="c'"),
    div({"class": HTML("x&y")}, class_="p\"q", id="i", data_a_b_=1),
    a("t", href="u?a=1&b=2", target_="_blank", download=True, hidden=False, rel=None),
    span({"style": "a:b;"}, style="c:d;", _add_ws=False),
    tags.input(type_="text", value=3.25, max_length_=5),
    Tag("x-y", {"a_b": "1"}, {"a-b": HTML("2")}, a_b_="3"),
    TagList(div(class_="a").add_class("b"), div(class_=HTML("<h>")).add_class("p<", prepend=True)),
    div(style="x:1;").add_style(HTML("y:'2';")).add_style("z:\"3\";", prepend=True),
    div().add_class("only").remove_class("only"),
]
for t in trees:
    print(repr(str(t)))
show("Tag bad attr", lambda: div(foo=[1]))
show("Tag bad attr dict", lambda: div({"foo": object()}, "child"))
print(sorted(n for n in dir(TagAttrDict) if n.startswith("_normalize")))
