# Probe for refactoring 5: TagAttrDict._normalize_attr_value and TagAttrDict.__setitem__
import enum
from collections import UserString
from decimal import Decimal
from fractions import Fraction
from unittest import mock
from htmltools import HTML, Tag, div, tags
from htmltools._core import TagAttrDict


def show(label, fn):
    try:
        r = fn()
        print(label, "->", type(r).__name__, repr(r))
    except BaseException as e:  # noqa
        print(label, "-> EXC", type(e).__name__, "|", str(e).replace(hex(id(e)), ""))


def desc(d):
    return [(k, type(v).__name__, str(v)) for k, v in dict.items(d)]


class S(str):
    pass


class MyInt(int):
    def __str__(self):
        return "MyInt!"


class MyFloat(float):
    pass


class Color(enum.IntEnum):
    RED = 1


class StrEnumLike(str, enum.Enum):
    A = "<a>"


class MyHTML(HTML):
    pass


class Plain:
    def __repr__(self):
        return "Plain()"


def mk(spec):
    m = mock.Mock(spec=spec)
    m.__str__ = lambda self: "mock-" + spec.__name__
    return m


values = [
    None, False, True, 0, 1, -1, 2**70, 0.0, -0.0, 1.0, 1.5, 1e-7, 1e22, float("inf"), float("-inf"), float("nan"),
    "", "s", "a\"b'c<d>e&f\rg\nh", S("sub"), HTML(""), HTML("<h>"), MyHTML("<m>"), UserString("u"),
    MyInt(3), MyFloat(2.5), Color.RED, StrEnumLike.A,
    b"b", bytearray(b"x"), [], ["a"], (), ("a",), {}, {"a": 1}, set(), object, Plain(), 1j, Decimal("1.5"), Fraction(1, 2),
    len, type(None), NotImplemented, Ellipsis, range(2),
]

nv = TagAttrDict._normalize_attr_value
for v in values:
    show(f"norm {type(v).__name__} {v!r}", lambda: nv(v))
    r = None
    try:
        r = nv(v)
    except TypeError:
        pass
    print("   identity", r is v)
for spec in (str, int, float, bool, HTML, bytes, list):
    show(f"mock spec={spec.__name__}", lambda: type(nv(mk(spec))).__name__ + ":" + str(nv(mk(spec))))
show("via instance", lambda: TagAttrDict()._normalize_attr_value(7))

# __setitem__
for v in values:
    d = TagAttrDict(keep="k", data_x="old")
    show(f"setitem {type(v).__name__} {v!r}", lambda: d.__setitem__("data_x", v))
    print("   ->", desc(d), repr(str(Tag("div", d))))

d = TagAttrDict()
for name in ["a", "a_", "a_b", "a_b_", "_", "__", "_a", "a__", "", "class_", "for_", "data-y", "Ünï_cödé_", S("s_u_b_")]:
    d[name] = name + "'"
print("names", desc(d))
d["a"] = None
d["a"] = False
print("none/false keep", d["a"])
d["a"] = True
print("true", repr(d["a"]))
d["a"] = HTML("<x>")
d["a_"] = 5
print("last wins", desc(d)[:1])
r = d.__setitem__("q", "1")
print("returns", r)

d = TagAttrDict(a="1")
show("bad name int", lambda: d.__setitem__(5, "x"))
show("bad name None", lambda: d.__setitem__(None, "x"))
show("bad name, skipped value", lambda: d.__setitem__(5, None))
show("bad name, skipped False", lambda: d.__setitem__(None, False))
show("bad name and bad value", lambda: d.__setitem__(5, object()))
show("bad name bytes", lambda: d.__setitem__(b"a_", "x"))
show("unhashable name", lambda: d.__setitem__(["a"], "x"))
show("HTML name", lambda: d.__setitem__(HTML("h_t_"), "x"))
print("after", desc(d))


class Sub(TagAttrDict):
    @staticmethod
    def _normalize_attr_value(x):
        print("   hook value", repr(x))
        return None if x == "drop" else TagAttrDict._normalize_attr_value(x)

    @staticmethod
    def _normalize_attr_name(x):
        print("   hook name", repr(x))
        return TagAttrDict._normalize_attr_name(x).upper()


sd = Sub(a_b="1")
sd["c_d"] = "drop"
sd["c_d"] = 2
sd["e"] = False
show("sub", lambda: desc(sd))

# via the public API
show("ctor", lambda: str(div(a=1, b=2.5, c=True, d=False, e=None, f="", g=HTML(""), h=MyInt(3), i=Color.RED)))
show("ctor bad", lambda: str(div(a=[1])))
show("ctor bad2", lambda: div(a=b"x"))
t = div()
t.attrs["title"] = "a\"b'c<d>e&f\rg\nh"
t.attrs["hidden"] = True
t.attrs["n"] = 0
t.attrs["gone"] = None
show("item assignment", lambda: str(t))
show("input", lambda: str(tags.input(type="checkbox", checked=True, disabled=False, value=0, max=1.0)))
show("update", lambda: desc(TagAttrDict({"a": 0, "b": False}, a=True, b=1.5)))
