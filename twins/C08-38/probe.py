# Probe for refactoring 3: _render_tag_or_taglist (str/repr/_repr_html_ of Tag and TagList).
import htmltools as ht
from htmltools import Tag, TagList, HTML, HTMLDependency, div, span, tags, head_content
from htmltools import _core


def show(label, f):
    try:
        print(label, "->", repr(f()))
    except Exception as e:  # noqa: BLE001
        print(label, "-> EXC", type(e).__name__, str(e)[:90])


class Widget:
    def __init__(self):
        self.n = 0

    def tagify(self):
        self.n += 1
        return TagList(span("w"), HTMLDependency("wdep", "2.0", script={"src": "w </script> .js"}))


class ModeFlipper:
    """tagify() switches the global mode while rendering is in progress."""

    def __init__(self, to):
        self.to = to

    def tagify(self):
        ht.html_dependency_render_mode = self.to
        return span("flip")


class BrokenDep(HTMLDependency):
    def serialize_to_script_json(self, indent=None):
        raise OSError("cannot serialize")


d1 = HTMLDependency("a", "1.0", source={"href": "https://x/y"}, script=[{"src": "a.js"}, {"src": "b.js", "defer": ""}],
                    stylesheet={"href": "a b.css"}, meta={"name": "m", "content": "c"}, head="<title>t</title>")
d1_new = HTMLDependency("a", "1.2", source={"subdir": "sub"}, all_files=True)
d2 = HTMLDependency("b", "0.1", head=TagList(tags.link(href="q"), "txt"))
hc = head_content(tags.title("T"))

objs = {
    "empty list": TagList(),
    "plain tag": div("x", id="i"),
    "no deps list": TagList("a", span("b")),
    "one dep": div("x", d1),
    "dep only list": TagList(d1),
    "dup deps": TagList(div(d1), d1_new, span(d2), d1),
    "nested": div(span(div(d2, "deep")), hc, d1),
    "widget": div(Widget(), "after"),
    "html": TagList(HTML("<raw&>"), "esc<&>"),
    "inline": span("a", span("b", d2), _add_ws=False),
}

for mode in ("invisible", "json", "JSON", "", None, 0, "always"):
    ht.html_dependency_render_mode = mode
    print("=== mode", repr(mode))
    for k, o in objs.items():
        show(k + " str", lambda: str(o))
        show(k + " same", lambda: (str(o) == repr(o) == o._repr_html_(), str(o) == o.render()["html"]))
        show(k + " type", lambda: type(str(o)).__name__)
        show(k + " again", lambda: str(o) == str(o))

ht.html_dependency_render_mode = "invisible"
show("flip to json", lambda: str(div(ModeFlipper("json"), d2)))
show("mode now", lambda: ht.html_dependency_render_mode)
show("flip to invisible", lambda: str(div(ModeFlipper("invisible"), d2)))
show("mode now", lambda: ht.html_dependency_render_mode)

ht.html_dependency_render_mode = "json"
bd = BrokenDep("zz", "1")
show("broken dep json", lambda: str(TagList(d2, bd)))
show("dep str", lambda: str(d1))
show("dep repr", lambda: repr(d1))
show("doc json", lambda: ht.HTMLDocument(div(d1, d2)).render()["html"])
w = Widget()
show("widget count", lambda: (str(div(w)), w.n, repr(div(w)), w.n))
ht.html_dependency_render_mode = "invisible"
show("broken dep invisible", lambda: str(TagList(d2, bd)))
del ht.html_dependency_render_mode
try:
    print("mode missing ->", repr(str(div("x"))))
except Exception as e:  # noqa: BLE001  (message contains the package path, print the type only)
    print("mode missing -> EXC", type(e).__name__)
ht.html_dependency_render_mode = "invisible"
show("restored", lambda: str(div("x", d1)))
