"""Deterministic probe for HTMLDocument / dependency hoisting (property C11)."""
import copy
import os
import tempfile

import htmltools
from htmltools import (
    HTML,
    HTMLDependency,
    HTMLDocument,
    Tag,
    TagList,
    head_content,
    tags,
)
from htmltools import _core


def show(label, fn):
    try:
        res = fn()
    except BaseException as e:  # noqa: BLE001
        print(f"[{label}] EXC {type(e).__name__}: {e}")
        return None
    print(f"[{label}] {res!r}")
    return res


def dep(name, version, **kw):
    return HTMLDependency(name, version, **kw)


def mk_deps():
    return dict(
        a1=dep("a", "1.0", source={"subdir": "libs/a"}, script={"src": "a.js"}),
        a2=dep(
            "a",
            "2.0",
            source={"subdir": "libs/a2"},
            script=[{"src": "a 2.js", "defer": ""}, {"src": "b.js"}],
            stylesheet={"href": "a&b.css"},
            meta={"name": "viewport", "content": "w=1"},
            head="<title>a2 & co</title>",
        ),
        a2b=dep("a", "2.0", head=tags.title("second a2")),
        b1=dep("b", "0.9", source={"href": "https://cdn/x"}, stylesheet=[{"href": "s.css", "rel": "preload"}]),
        c=dep("c", "3", head=TagList(tags.style("p{}"), "raw<text>", HTML("<!--c-->"))),
        nosrc=dep("nosrc", "1", script={"src": "n.js"}, meta=[{"name": "m1", "content": "1"}, {"name": "m2", "content": "2"}]),
        hc=head_content(tags.title("T"), tags.link(rel="icon", href="i.png")),
    )


def rendered(doc, **kw):
    r = doc.render(**kw)
    return (r["html"], [repr(d) for d in r["dependencies"]], list(r.keys()))


class Delayed:
    def __init__(self, what):
        self.what = what

    def tagify(self):
        return self.what() if callable(self.what) else self.what


class LoudTag(Tag):
    """Tag subclass with its own dependency reporting (virtual dispatch must be kept)."""

    def get_dependencies(self, dedup=True):
        got = super().get_dependencies(dedup=dedup)
        return got + [dep("loud-" + self.name, "1.0")]


def section_documents():
    D = mk_deps()
    docs = {
        "empty": lambda: HTMLDocument(),
        "text": lambda: HTMLDocument("a < b", HTML("<i>x</i>"), 3, 1.5, None),
        "frag": lambda: HTMLDocument(tags.h1("Hi", D["a1"]), D["b1"], tags.p("x", D["a2"]), lang="en"),
        "frag-attrs": lambda: HTMLDocument(tags.div(), class_="k", data_x=1, hidden=True, skip=None, z=False),
        "body": lambda: HTMLDocument(tags.body(tags.h1("Hi"), D["c"], class_="bd"), lang="fr"),
        "body-upper": lambda: HTMLDocument(Tag("BODY", "x")),
        "two-bodies": lambda: HTMLDocument(tags.body("1"), tags.body("2", D["a1"])),
        "body+text": lambda: HTMLDocument(tags.body("1"), "t"),
        "body-in-list": lambda: HTMLDocument(TagList(tags.body("only", D["hc"]))),
        "html": lambda: HTMLDocument(tags.html(tags.head(tags.title("U")), tags.body("b", D["a2"])), lang="en"),
        "html-nohead": lambda: HTMLDocument(tags.html(tags.body("b", D["nosrc"]), D["a1"])),
        "html-head-late": lambda: HTMLDocument(
            tags.html(D["a1"], "txt", tags.body("b"), tags.head(tags.title("late"), D["b1"]), tags.head("second head"))
        ),
        "html-empty": lambda: HTMLDocument(tags.html()),
        "html-attrs-merge": lambda: HTMLDocument(tags.html(tags.head(), class_="u", lang="xx"), class_="v", lang="en", id="i"),
        "html-nested-head": lambda: HTMLDocument(tags.html(tags.div(tags.head("inner")), tags.body())),
        "html+other": lambda: HTMLDocument(tags.html(tags.body("x")), "after"),
        "html-noadd_ws": lambda: HTMLDocument(Tag("html", Tag("head", "h"), Tag("body", "b", _add_ws=False), _add_ws=False)),
        "delayed-html": lambda: HTMLDocument(Delayed(lambda: tags.html(tags.body("d", D["a1"])))),
        "delayed-body": lambda: HTMLDocument(Delayed(lambda: tags.body("d", Delayed(D["c"])))),
        "delayed-list": lambda: HTMLDocument(Delayed(lambda: TagList("x", tags.p("y", D["a2"]), D["a2b"]))),
        "delayed-list-body": lambda: HTMLDocument(Delayed(lambda: TagList(tags.body("sole")))),
        "delayed-str": lambda: HTMLDocument(Delayed("just <text>")),
        "dups": lambda: HTMLDocument(D["a2"], D["a1"], tags.div(D["a2b"], D["b1"], tags.span(D["a1"], D["c"])), D["b1"], D["hc"], D["hc"]),
        "dups-rev": lambda: HTMLDocument(D["a1"], D["a2b"], D["a2"], D["c"], D["b1"]),
        "loud": lambda: HTMLDocument(LoudTag("section", D["a1"], LoudTag("div", D["b1"])), D["a2"]),
        "loud-html": lambda: HTMLDocument(LoudTag("html", Tag("body", D["a1"]))),
        "deps-only": lambda: HTMLDocument(D["nosrc"], D["c"]),
        "head-dep-in-head": lambda: HTMLDocument(tags.html(tags.head(D["a2"], tags.title("x")), tags.body(D["a1"]))),
        "void+script": lambda: HTMLDocument(tags.br(), tags.script("1 < 2 && x"), tags.style("a > b"), tags.img(src="x")),
        "add_ws-kw": lambda: HTMLDocument(tags.div(), _add_ws=False),
        "add_ws-kw-html": lambda: HTMLDocument(tags.html(), _add_ws=False),
        "children-kw": lambda: HTMLDocument(tags.div(), children="c"),
        "_name-kw": lambda: HTMLDocument(tags.div(), _name="n"),
    }
    for name, mk in docs.items():
        for kw in ({}, {"lib_prefix": None}, {"lib_prefix": "", "include_version": False}, {"lib_prefix": "x/y", "include_version": False}):
            show(f"doc:{name}:{sorted(kw.items())}", lambda: rendered(mk(), **kw))

    # Rendering must not touch the user's objects, and must be repeatable.
    user_html = tags.html(tags.head(tags.title("U")), tags.body("b", D["a2"]), D["c"])
    doc = HTMLDocument(user_html, lang="en")
    before = (str(user_html), dict(user_html.attrs), len(user_html.children), len(user_html.children[0].children))
    r1 = rendered(doc)
    r2 = rendered(doc)
    after = (str(user_html), dict(user_html.attrs), len(user_html.children), len(user_html.children[0].children))
    print("[repeat]", r1 == r2, before == after)
    doc.append(tags.p("more"), D["b1"])
    show("after-append", lambda: rendered(doc))
    doc2 = copy.copy(doc)
    doc2.append("only in copy")
    show("copy", lambda: (rendered(doc2), rendered(doc) == rendered(doc2)))
    r = HTMLDocument(tags.div(D["a1"], D["a2"])).render()
    print("[dep-identity]", r["dependencies"][0] is D["a2"], r["dependencies"][0] == D["a2"])


def section_hoist():
    D = mk_deps()
    hoist = HTMLDocument._hoist_head_content
    cases = {
        "not-html": lambda: hoist(tags.div(), "lib", True),
        "not-html-name-None": lambda: hoist(Tag(None), "lib", True),
        "plain": lambda: hoist(tags.html(tags.head("h"), tags.body(D["a2"])), "lib", True),
        "nohead": lambda: hoist(tags.html(tags.body(D["a1"], D["b1"])), None, False),
        "two-heads": lambda: hoist(tags.html(tags.head("1"), tags.head("2", D["c"])), "L", True),
        "head-last": lambda: hoist(tags.html("s", D["hc"], tags.head("1")), "L", True),
        "no-children": lambda: hoist(tags.html(), "L", True),
        "untagified": lambda: hoist(tags.html(Delayed(lambda: tags.head("dh")), tags.body()), "L", True),
        "non-str": lambda: hoist("html", "L", True),
    }
    for name, fn in cases.items():
        show(f"hoist:{name}", lambda: (lambda t: (str(t), type(t).__name__, t.get_html_string()))(fn()))

    x = tags.html(tags.head("h", D["a1"]), tags.body("b"))
    snapshot = x.get_html_string()
    res = hoist(x, "lib", True)
    print("[hoist-copy]", res is x, res.children is x.children, res.children[0] is x.children[0],
          res.children[1] is x.children[1], x.get_html_string() == snapshot, len(x.children[0].children))
    doc = HTMLDocument(tags.div())
    show("gen-tree", lambda: doc._gen_html_tag_tree("lib", True).get_html_string())
    show("gen-tree-kw", lambda: doc._gen_html_tag_tree(lib_prefix=None, include_version=False).get_html_string())
    show("gen-tree-missing", lambda: doc._gen_html_tag_tree("lib"))


def section_resolve():
    D = mk_deps()
    rs = _core._resolve_dependencies
    none_a = dep("n", None)
    none_b = dep("n", None)
    unhash = dep("u", "1")
    unhash.name = ["list"]
    mixed = dep("a", "1.0")
    mixed.version = "1.0"  # plain str vs Version -> comparison error
    cases = {
        "empty": [],
        "one": [D["a1"]],
        "up": [D["a1"], D["a2"]],
        "down": [D["a2"], D["a1"]],
        "equal-keeps-first": [D["a2"], D["a2b"]],
        "equal-keeps-first-rev": [D["a2b"], D["a2"]],
        "same-object-twice": [D["a1"], D["a1"], D["b1"], D["a1"]],
        "interleaved": [D["b1"], D["a1"], D["c"], D["a2"], D["b1"], D["a2b"], D["hc"]],
        "none-single": [none_a],
        "none-twice": [none_a, none_b],
        "none-same-obj": [none_a, none_a],
        "unhashable": [D["a1"], unhash],
        "mixed-version": [D["a1"], mixed],
        "mixed-version-first": [mixed, D["a1"]],
        "tuple-input": (D["a1"], D["a2"]),
        "not-deps": [1],
        "none-input": None,
    }
    for name, lst in cases.items():
        def run(lst=lst):
            out = rs(lst)
            return (type(out).__name__, [repr(d) for d in out], [next(k for k, v in D.items() if v is d) if any(v is d for v in D.values()) else "?" for d in out])
        show(f"resolve:{name}", run)
    lst = [D["a1"], D["a2"]]
    out = rs(lst)
    print("[resolve-fresh]", out is lst, lst == [D["a1"], D["a2"]])

    t = tags.div(D["a1"], tags.p(D["a2"], LoudTag("b", D["a1"])), D["b1"], "txt", D["b1"])
    for obj_name, obj in (("tag", t), ("list", TagList(t, D["c"], t)), ("emptylist", TagList()), ("emptytag", tags.div())):
        show(f"getdeps:{obj_name}:default", lambda: [repr(d) for d in obj.get_dependencies()])
        show(f"getdeps:{obj_name}:dedup", lambda: [repr(d) for d in obj.get_dependencies(dedup=True)])
        show(f"getdeps:{obj_name}:nodedup", lambda: [repr(d) for d in obj.get_dependencies(dedup=False)])
    show("getdeps:tag-positional", lambda: [repr(d) for d in t.get_dependencies(False)])
    show("getdeps:list-positional", lambda: TagList().get_dependencies(False))
    show("getdeps:untagified", lambda: TagList(Delayed(D["a1"]), D["b1"]).get_dependencies())
    bad = tags.div(none_a, tags.p(none_b))
    show("getdeps:bad-dedup", lambda: bad.get_dependencies())
    show("getdeps:bad-nodedup", lambda: [repr(d) for d in bad.get_dependencies(dedup=False)])
    show("render:bad", lambda: HTMLDocument(bad).render())
    show("render:tag", lambda: (lambda r: (r["html"], [repr(d) for d in r["dependencies"]]))(t.render()))


def section_as_html_tags():
    D = mk_deps()
    for name, d in D.items():
        for kw in ({}, {"lib_prefix": None}, {"lib_prefix": "p", "include_version": False}):
            show(f"tags:{name}:{sorted(kw.items())}", lambda: (lambda tl: (type(tl).__name__, len(tl), [type(c).__name__ for c in tl], str(tl)))(d.as_html_tags(**kw)))
        show(f"str:{name}", lambda: str(d))
        show(f"dict:{name}", lambda: d.as_dict())
    show("tags:positional", lambda: D["a1"].as_html_tags("lib"))
    weird = dep("w", "1", meta={"name": "n", "content": "c", 5: "x"})
    show("tags:nonstr-meta-key", lambda: weird.as_html_tags())
    weird2 = dep("w", "1", script={"src": "s.js", "_add_ws": "no"}, meta={"name": "n", "content": "c"})
    show("tags:add_ws-script-key", lambda: weird2.as_html_tags())
    weird3 = dep("w", "1", stylesheet={"href": "s.css", "_name": "dup"})
    show("tags:_name-key", lambda: weird3.as_html_tags())
    shared = {"href": "a b.css"}
    d = dep("sh", "1", source={"subdir": "s"}, stylesheet=[shared, shared])
    show("tags:shared-item", lambda: str(d.as_html_tags()))
    for bad in (
        lambda: dep("x", "1", script="s.js"),
        lambda: dep("x", "1", script=[{"nosrc": 1}]),
        lambda: dep("x", "1", stylesheet=[{"href": "ok"}, "bad"]),
        lambda: dep("x", "1", meta={"name": "only"}),
        lambda: dep("x", "1", source="str"),
        lambda: dep("x", "1", source={"other": 1}),
        lambda: dep("x", "not a version"),
        lambda: dep("x", "1", script={"src": "s"}, stylesheet="bad", meta={"name": "only"}),
    ):
        show("ctor-bad", bad)
    d = dep("mut", "1", stylesheet={"href": "x.css"}, script=[], meta=[])
    print("[ctor-mut]", d.stylesheet, d.script, d.meta, d.head, d.all_files, d.source)
    lst = [{"src": "q.js"}]
    d = dep("alias", "1", script=lst)
    print("[ctor-alias]", d.script is lst)


def section_save():
    D = mk_deps()
    with tempfile.TemporaryDirectory() as tmp:
        f = os.path.join(tmp, "out", "index.html")
        os.makedirs(os.path.dirname(f))
        show("save", lambda: os.path.relpath(HTMLDocument(tags.p("x"), D["nosrc"], D["b1"]).save_html(f), tmp))
        with open(f) as fh:
            print(fh.read())
        show("save-tag", lambda: os.path.relpath(tags.p("y", D["hc"]).save_html(f, libdir=None), tmp))
        with open(f) as fh:
            print(fh.read())
        print(sorted(os.listdir(os.path.dirname(f))))


if __name__ == "__main__":
    os.chdir(tempfile.gettempdir())
    section_documents()
    section_hoist()
    section_resolve()
    section_as_html_tags()
    section_save()
    print("void:", sorted(_core._VOID_TAG_NAMES), type(_core._VOID_TAG_NAMES).__name__)
