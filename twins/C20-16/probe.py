import copy
from collections import OrderedDict
from collections.abc import Mapping

from htmltools import HTMLDependency, div, span
from htmltools._jsx import JSXTag, JSXTagAttrDict, jsx, jsx_tag_create


def show(label, fn):
    try:
        res = fn()
        print(label, "->", repr(res))
    except BaseException as e:  # noqa
        print(label, "-> EXC", type(e).__name__, str(e))


def items(d):
    return (type(d).__name__, list(dict.items(d)))


norm = JSXTagAttrDict._normalize_attr_name
for s in ["", "_", "__", "___", "a", "a_", "a__", "_a", "_a_", "a_b", "a_b_", "a-b_",
          "class_", "clAsS_2", "data_foo_bar", "-", "-_", "x y_", "é_é_", "a\n_"]:
    show("norm %r" % s, lambda: norm(s))


class S(str):
    pass


show("norm S", lambda: (norm(S("a_b_")), type(norm(S("a_b_"))).__name__, type(norm(S("ab"))).__name__))
for bad in [None, 1, b"a_", ("a_",), ["a_"]]:
    show("norm bad %r" % (bad,), lambda: norm(bad))

# constructor
show("ctor empty", lambda: items(JSXTagAttrDict()))
show("ctor", lambda: items(JSXTagAttrDict(class_="c", x__="x__", x_="x_", x="x", a_b=1)))
show("ctor positional", lambda: JSXTagAttrDict({"a": 1}))

# __setitem__
d = JSXTagAttrDict(a=1)
d["b_c"] = 2
d["a_"] = 3
d["z__"] = 4
d["b-c"] = 5
show("setitem", lambda: items(d))
show("setitem bad key", lambda: d.__setitem__(3, 1))
show("after bad setitem", lambda: items(d))

# update: order, collisions, multiple args, kwargs last
d = JSXTagAttrDict(k_1=0, z=0)
show("update ret", lambda: d.update({"a_b": 1, "a-b": 2, "z_": 9}, OrderedDict([("q_", 1), ("k-1", 5)]), a_b_="kw", new_=1))
show("update result", lambda: items(d))
show("update nothing", lambda: (d.update(), items(d)))
show("update empty maps", lambda: (d.update({}, {}), items(d)))


class M(Mapping):
    def __init__(self, pairs):
        self.pairs = pairs
        self.log = []

    def __getitem__(self, k):
        self.log.append(("get", k))
        return dict(self.pairs)[k]

    def __iter__(self):
        self.log.append("iter")
        return iter([k for k, _ in self.pairs])

    def __len__(self):
        return len(self.pairs)


m = M([("b_b", 1), ("c_", 2)])
d = JSXTagAttrDict(a=1)
show("update Mapping", lambda: (d.update(m), items(d), m.log))


class OnlyItems:
    def items(self):
        return [("p_q", 1), ("p-q", 2), ("r_", 3)]


d = JSXTagAttrDict(a=1)
show("update OnlyItems", lambda: (d.update(OnlyItems()), items(d)))

# failure half-way: nothing from the failing mapping is stored, earlier mappings are
d = JSXTagAttrDict(a=1)
show("update bad key", lambda: d.update({"x_": 1}, {"ok_": 1, 3: 2, "later": 3}, kw_=1))
show("after bad key", lambda: items(d))
d = JSXTagAttrDict(a=1)
show("update non-mapping", lambda: d.update({"x_": 1}, [("a", 2)], kw=2))
show("after non-mapping", lambda: items(d))
d = JSXTagAttrDict(a=1)
show("update None", lambda: d.update(None))
show("update bad pairs", lambda: d.update(type("X", (), {"items": lambda self: [("a", 1, 2)]})()))
show("after", lambda: items(d))


class GenItems:
    def items(self):
        yield ("g_1", 1)
        yield ("g_2", 2)
        raise RuntimeError("boom")


d = JSXTagAttrDict(a=1)
show("update raising items", lambda: d.update({"first_": 1}, GenItems(), last=1))
show("after raising", lambda: items(d))

# _update directly
d = JSXTagAttrDict(a=1)
show("_update", lambda: (d._update({"b_": 1, "a": 2}), items(d)))

# bypass paths keep raw keys
d = JSXTagAttrDict(a_b=1)
d |= {"c_d": 2}
show("ior", lambda: items(d))
show("copy", lambda: items(copy.copy(d)))
show("deepcopy", lambda: items(copy.deepcopy(d)))
show("setdefault", lambda: (d.setdefault("e_f", 1), items(d)))


# subclass overriding the normaliser is honoured by all entry points
class Up(JSXTagAttrDict):
    @staticmethod
    def _normalize_attr_name(x):
        return x.upper()


u = Up(a_b=1)
u["c_"] = 2
u.update({"d_": 3}, e_=4)
show("subclass", lambda: items(u))

# through JSXTag
Foo = jsx_tag_create("Foo")
x = Foo(div("c"), class_="c", data_x_y=1, on_click_=jsx("() => 1"), style="a:b", aria_label__=None)
show("attrs", lambda: items(x.attrs))
x.attrs.update({"new_attr": [1, 2]}, other_=True)
x.attrs["set_item_"] = {"k_": 1}
show("attrs2", lambda: items(x.attrs))
show("str", lambda: str(x))
show("attrs3", lambda: items(x.attrs))
show("allowed", lambda: JSXTag("Foo", allowedProps=["a"], b=1))
show("render deps", lambda: [d.name for d in x.tagify().get_dependencies()])
