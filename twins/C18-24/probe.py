import copy

from htmltools import HTML, HTMLDependency, HTMLDocument, TagList, div, head_content, tags


def show(label, fn):
    try:
        out = fn()
        print(label, "->", repr(out))
    except Exception as e:  # noqa: BLE001
        print(label, "-> EXC", type(e).__name__, str(e)[:200])


OPTS = [
    {},
    {"lib_prefix": None},
    {"lib_prefix": ""},
    {"lib_prefix": "a/b c", "include_version": False},
    {"lib_prefix": "/abs/", "include_version": True},
]


def both(label, dep):
    for i, kw in enumerate(OPTS):
        show(f"{label}:as_dict[{i}]", lambda: dep.as_dict(**kw))
        show(f"{label}:tags[{i}]", lambda: str(dep.as_html_tags(**kw)))
        show(f"{label}:tags-children[{i}]", lambda: [type(x).__name__ for x in dep.as_html_tags(**kw)])


scripts = [
    {"src": "a.js"},
    {"type": "module", "src": "dir with space/ü.js", "defer": ""},
    {"src": "/abs.js", "integrity": "sha-<&>"},
    {"src": "q.js?x=1&y=2#frag"},
    {"src": ""},
    {"src": "../up.js", "async": ""},
]
sheets = [
    {"href": "a.css"},
    {"media": "print", "href": "p q.css", "title": "t"},
    {"href": "alt.css", "rel": "alternate stylesheet", "type": "text/css"},
    {"rel": "preload", "as": "style", "href": "/abs.css"},
    {"href": ""},
]
metas = [{"name": "viewport", "content": "w=<1>"}, {"content": "c", "name": "n", "http-equiv": "x"}]

plain = HTMLDependency("plain", "1.0")
nosrc = HTMLDependency("nosrc", "1.0", script=scripts, stylesheet=sheets, meta=metas, head="<!--h-->")
url = HTMLDependency("url", "2.0.1", source={"href": "https://cdn.example/x y/"}, script=scripts, stylesheet=sheets)
sub = HTMLDependency("sub", "3", source={"subdir": "www/lib"}, script=scripts[0], stylesheet=sheets[1], meta=metas[0])
pkg = HTMLDependency(
    "pkg", "0.0.1", source={"package": "htmltools", "subdir": "lib"}, script=scripts[1], head=tags.title("T&t")
)
hc = head_content(tags.title("x"), tags.script(HTML("1<2")))

for label, dep in [("plain", plain), ("nosrc", nosrc), ("url", url), ("sub", sub), ("pkg", pkg), ("hc", hc)]:
    both(label, dep)

# The dependency itself must not be modified by as_dict()/as_html_tags()
snap = copy.deepcopy((nosrc.script, nosrc.stylesheet, nosrc.meta))
nosrc.as_dict()
nosrc.as_html_tags()
show("unmodified", lambda: snap == (nosrc.script, nosrc.stylesheet, nosrc.meta))
r = nosrc.as_dict()
show("fresh-copies", lambda: (r["script"][0] is not nosrc.script[0], r["stylesheet"][0] is not nosrc.stylesheet[0], r["meta"] is nosrc.meta))

# Nested values inside items are deep-copied
nested = HTMLDependency("nested", "1", script={"src": "a.js", "data": ["x", {"y": 1}]})
rn = nested.as_dict()
show("nested-deepcopy", lambda: (rn["script"], rn["script"][0]["data"] is not nested.script[0]["data"]))
show("nested-tags", lambda: str(nested.as_html_tags()))

# Items modified after construction
norel = HTMLDependency("norel", "1", stylesheet=[{"href": "a.css", "media": "all"}])
del norel.stylesheet[0]["rel"]
both("norel", norel)
nohref = HTMLDependency("nohref", "1", script={"src": "ok.js"}, stylesheet={"href": "a.css"})
del nohref.stylesheet[0]["href"]
both("nohref", nohref)
nonesrc = HTMLDependency("nonesrc", "1", script=[{"src": "ok.js"}, {"src": "x.js"}], stylesheet={"href": "a.css"})
nonesrc.script[1]["src"] = None
both("nonesrc", nonesrc)
bytessrc = HTMLDependency("bytessrc", "1", script={"src": "x.js"})
bytessrc.script[0]["src"] = b"by tes.js"
both("bytessrc", bytessrc)
intkey = HTMLDependency("intkey", "1", meta={"name": "n", "content": "c"}, stylesheet={"href": "a.css"})
intkey.meta[0][5] = "five"
both("intkey", intkey)
notdict = HTMLDependency("notdict", "1", script={"src": "x.js"})
notdict.script.append("str item")
both("notdict", notdict)
tuples = HTMLDependency("tuples", "1", script=({"src": "x.js"},), stylesheet=({"href": "y.css"},))
both("tuples", tuples)


class Widget:
    def tagify(self):
        return tags.b("w")


badhead = HTMLDependency("badhead", "1", script={"src": "x.js"}, head=div(Widget()))
both("badhead", badhead)
badhead2 = HTMLDependency("badhead2", "1", script={"src": "x.js"}, head=div(Widget()))
badhead2.script[0]["src"] = None
both("badhead-and-badsrc", badhead2)
headnone = HTMLDependency("headnone", "1", head=tags.title("t"))
headnone.head = None
both("headnone", headnone)
emptyhead = HTMLDependency("emptyhead", "1", head=TagList())
both("emptyhead", emptyhead)


# Subclass that customises as_dict(): as_html_tags() must keep using it
class Custom(HTMLDependency):
    def as_dict(self, *, lib_prefix="lib", include_version=True):
        d = super().as_dict(lib_prefix=lib_prefix, include_version=include_version)
        d["meta"] = [{"name": "injected", "content": str(lib_prefix)}] + list(d["meta"])
        d["script"] = tuple(d["script"])
        return d


both("custom", Custom("custom", "1", script=scripts[:2], stylesheet=sheets[:1], meta=metas[:1], head="H"))


class Missing(HTMLDependency):
    def as_dict(self, *, lib_prefix="lib", include_version=True):
        d = super().as_dict(lib_prefix=lib_prefix, include_version=include_version)
        del d["stylesheet"]
        d["meta"] = [{"name": "seen", "content": "before-error"}, {1: 2}]
        return d


show("missing-key", lambda: str(Missing("m", "1").as_html_tags()))

# End to end
tree = div(nosrc, url, sub, pkg, hc, head_content(tags.title("x"), tags.script(HTML("1<2"))))
show("doc", lambda: HTMLDocument(tree).render(lib_prefix="L", include_version=False)["html"])
show("doc-default", lambda: HTMLDocument(tree).render()["html"])
show("str", lambda: str(url))
show("serialize", lambda: str(nosrc.serialize_to_script_json()))
