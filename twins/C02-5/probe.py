# Probe for refactoring 5: TagList.tagify (expansion of tagifiable children) and _util._flatten_recurse / flatten
import copy

from htmltools import HTML, HTMLDependency, Tag, TagList, div, span, tags
from htmltools._util import flatten

LOG = []


class S(str):
    pass


class Repr:
    def _repr_html_(self):
        return "<repr&>"


class Lazy:
    def __init__(self, name, result):
        self.name = name
        self.result = result

    def tagify(self):
        LOG.append(self.name)
        r = self.result
        return r() if callable(r) else r


class MetaLazy(HTMLDependency):
    """A MetadataNode that is also Tagifiable."""

    def tagify(self):
        LOG.append("metalazy")
        return "<from-metalazy>"


class LT(list):
    pass


def desc(x):
    if isinstance(x, (list, tuple, TagList)):
        return [desc(i) for i in x]
    if isinstance(x, Tag):
        return ("Tag", str(x))
    if isinstance(x, (str, HTML)):
        return (type(x).__name__, str(x))
    return type(x).__name__


def show(label, fn):
    del LOG[:]
    try:
        r = fn()
        print(label, "->", type(r).__name__, repr(r), "LOG", LOG)
    except Exception as e:  # noqa: BLE001
        print(label, "-> EXC", type(e).__name__, str(e), "LOG", LOG)


dep = HTMLDependency("d", "1.0", source={"subdir": "."}, script={"src": "x.js"})

# ---- flatten ----
FL = {
    "empty": [],
    "flat": ["<a>", "&", 1, 2.5],
    "nones": [None, [None, (None,)], None],
    "nested": ["<a>", ["&", ("<b>", [None, ["<c>"]])], None, TagList("<d>", TagList("<e>"))],
    "tuple top": ("<a>", ["<b>"]),
    "taglist top": TagList("<a>", 3),
    "list subclass": [LT(["<x>", LT([None, "<y>"])])],
    "str top": "a<b",
    "strs": ["ab", S("cd")],
    "generator": (c for c in ["<", [">"], None]),
    "gen item": [(c for c in "ab")],
    "dict top": {"k": 1},
    "dict item": [{"k": 1}],
    "set item": [frozenset(["x"])],
    "falsy": [0, 0.0, "", False, (), [], HTML(""), TagList()],
    "objects": [div("<"), dep, Repr(), HTML("<h>"), b"b"],
    "range item": [range(2)],
    "None top": None,
    "int top": 3,
}
for label, x in FL.items():
    show(f"flatten({label})", lambda: desc(flatten(x)))

src = ["<a>", ["<b>"]]
out = flatten(src)
print("fresh list", out is src, src, out)
inner = ["<keep>"]
out = flatten([inner])
print("identity of leaves", out[0] is inner[0])


def cyc():
    a = ["<a>"]
    a.append(a)
    return flatten(a)


show("flatten cyclic", cyc)

# ---- tagify ----
T = ["", "a & b < c > d", "<script>x</script>", "<!-- c -->&lt;&#60;", S("<s>")]
for t in T:
    show(f"tagify plain {t!r}", lambda: desc(TagList(t, 1, HTML(t)).tagify()))
    show(f"lazy->str {t!r}", lambda: desc(TagList("<0>", Lazy("a", t), "<1>").tagify()))
    show(f"lazy->HTML {t!r}", lambda: desc(TagList(Lazy("a", HTML(t))).tagify()))
    show(f"lazy->tag {t!r}", lambda: desc(TagList(Lazy("a", lambda: div(t, Lazy("inner", t)))).tagify()))
    show(f"lazy->taglist {t!r}", lambda: desc(TagList("<0>", Lazy("a", lambda: TagList(t, 2, [t, None], span(t))), "<1>").tagify()))
    show(f"lazy->empty taglist {t!r}", lambda: desc(TagList(t, Lazy("a", TagList()), t).tagify()))
    show(f"order {t!r}", lambda: desc(TagList(Lazy("a", t), Lazy("b", lambda: TagList(t, t)), Lazy("c", t), div(Lazy("d", t))).tagify()))
    show(f"render {t!r}", lambda: str(div(t, Lazy("a", lambda: TagList(t, 3)), Lazy("b", t)).tagify()))
    show(f"render2 {t!r}", lambda: div(Lazy("a", t), span(Lazy("b", lambda: TagList(t, HTML(t))))).render()["html"])
    show(f"script {t!r}", lambda: str(tags.script(Lazy("a", t), Lazy("b", lambda: TagList(t, t))).tagify()))

show("empty", lambda: desc(TagList().tagify()))
show("lazy->lazy (not re-expanded)", lambda: desc(TagList(Lazy("outer", lambda: Lazy("inner", "<x>"))).tagify()))
show("lazy->taglist with lazy", lambda: desc(TagList(Lazy("outer", lambda: TagList("<a>", Lazy("inner", "<x>")))).tagify()))
show("lazy->None", lambda: desc(TagList("<a>", Lazy("n", None), "<b>").tagify()))
show("lazy->None render", lambda: str(TagList("<a>", Lazy("n", None), "<b>").tagify()))
show("lazy->int", lambda: desc(TagList(Lazy("n", 5)).tagify()))
show("lazy->list", lambda: desc(TagList(Lazy("n", ["<a>", 1])).tagify()))
show("lazy->dep", lambda: desc(TagList(Lazy("n", dep), "<a>").tagify()))


def raises():
    raise KeyError("boom")


show("lazy raises", lambda: desc(TagList(Lazy("first", "<f>"), Lazy("bad", raises), Lazy("last", "<l>")).tagify()))
show("metalazy", lambda: desc(TagList("<a>", MetaLazy("m", "1", source={"subdir": "."}), dep).tagify()))


def copies():
    d = dep
    inner = div("<in>")
    tl = TagList("<a>", d, inner, Lazy("z", "<z>"))
    out = tl.tagify()
    return [
        out is tl,
        out[1] is d,
        out[1] == d,
        out[2] is inner,
        out[2].children is inner.children,
        desc(tl),
        desc(out),
    ]


show("copies / original untouched", copies)


def subclass():
    class MyList(TagList):
        pass

    out = MyList("<a>", Lazy("q", lambda: TagList("<b>", 1))).tagify()
    return [type(out).__name__, desc(out)]


show("subclass", subclass)


def raw_data():
    tl = TagList()
    tl.data.extend([None, 5, "<a>", Lazy("r", lambda: TagList("<b>"))])  # bypass normalization
    return desc(tl.tagify())


show("raw data", raw_data)
