"""Probe for property C17 (Tag context manager / display hook)."""
import copy
import sys

import htmltools
from htmltools import (
    HTML,
    HTMLDependency,
    HTMLDocument,
    Tag,
    TagList,
    div,
    span,
    tags,
    wrap_displayhook_handler,
)
from htmltools._core import is_tag_child, is_tag_node

LOG = []


def base_hook(value):
    LOG.append(("base", type(value).__name__, str(value)))


ORIG_HOOK = sys.displayhook
sys.displayhook = base_hook


def show(label, *vals):
    print(label, *[repr(v) for v in vals])


def flush(label):
    print(label, "LOG:", LOG)
    del LOG[:]


class Repr:
    def __init__(self, s):
        self.s = s

    def _repr_html_(self):
        return self.s


class ReprRaises:
    def _repr_html_(self):
        raise KeyError("boom")


class Tagi:
    def __init__(self, s):
        self.s = s

    def tagify(self):
        return span(self.s)


class Both:
    calls = 0

    def tagify(self):
        return div("both-tagify")

    def _repr_html_(self):
        Both.calls += 1
        return "<i>both-repr</i>"


class EqNone:
    def __eq__(self, other):
        return other is None

    __hash__ = None


class EqEllipsis:
    def __eq__(self, other):
        return other is ...


class EqRaises:
    def __eq__(self, other):
        raise ValueError("eq")


class Plain:
    pass


dep = HTMLDependency("a", "1.0", source={"subdir": "x"}, script={"src": "a.js"})

VALUES = [
    ("str", "a<b"),
    ("empty", ""),
    ("int", 3),
    ("float", 2.5),
    ("bool", True),
    ("none", None),
    ("ellipsis", ...),
    ("tag", span("s", id="x")),
    ("taglist", TagList("p", 1, None, [2, (3,)])),
    ("emptytaglist", TagList()),
    ("list", ["l", [None, 4.0, ("t",)], HTML("<b>")]),
    ("tuple", ()),
    ("html", HTML("<hr>")),
    ("repr", Repr("<em>r</em>")),
    ("reprraises", ReprRaises()),
    ("tagi", Tagi("T")),
    ("both", Both()),
    ("dep", dep),
    ("eqnone", EqNone()),
    ("eqellipsis", EqEllipsis()),
    ("eqraises", EqRaises()),
    ("plain", Plain()),
    ("dict", {"a": 1}),
    ("bytes", b"xy"),
    ("set", {1}),
    ("listbad", ["ok", Plain()]),
    ("range", range(2)),
    ("gen", (i for i in "ab")),
    ("notimpl", NotImplemented),
    ("complex", 1j),
]


def safe_str(c):
    if isinstance(c, (str, HTML, Tag, TagList, HTMLDependency)):
        return str(c)
    return "<obj>"


def describe_children(t):
    return [(type(c).__name__, safe_str(c)) for c in t.children]


# --- 1. every value displayed inside a block -------------------------------
for name, v in VALUES:
    t = div()
    before = sys.displayhook
    try:
        with t:
            inner = sys.displayhook
            try:
                sys.displayhook(v)
                res = "ok"
            except Exception as e:  # noqa
                res = type(e).__name__ + ":" + str(e)
            sys.displayhook("after")
    except Exception as e:  # noqa
        res = "ESCAPED " + type(e).__name__
    print(
        "disp",
        name,
        res,
        describe_children(t),
        sys.displayhook is before,
        inner is not before,
        t.prev_displayhook,
    )
    flush("disp " + name)
print("both calls", Both.calls)

# --- 2. nesting, ordering, exactly-once hand-off ----------------------------
outer, mid, inner_t, sib = div(id="o"), tags.p(id="m"), span(id="i"), tags.ul()
h0 = sys.displayhook
with outer:
    h1 = sys.displayhook
    sys.displayhook("o1")
    with mid:
        h2 = sys.displayhook
        sys.displayhook("m1")
        with inner_t:
            h3 = sys.displayhook
            sys.displayhook(1)
            sys.displayhook(None)
            sys.displayhook(...)
            sys.displayhook(Repr("<u>x</u>"))
        print("after inner", sys.displayhook is h2, inner_t.prev_displayhook)
        sys.displayhook("m2")
        with sib:
            sys.displayhook(tags.li("a"))
            sys.displayhook([tags.li("b"), None, tags.li("c")])
        print("after sib", sys.displayhook is h2)
    print("after mid", sys.displayhook is h1, mid.prev_displayhook)
    sys.displayhook("o2")
print("after outer", sys.displayhook is h0, outer.prev_displayhook)
print(len({id(h) for h in (h0, h1, h2, h3)}))
print(str(outer))
print(describe_children(outer))
print(describe_children(mid))
flush("nest")

# --- 3. exceptions inside blocks --------------------------------------------
a, b = div(id="a"), div(id="b")
h0 = sys.displayhook
try:
    with a:
        ha = sys.displayhook
        sys.displayhook("a1")
        try:
            with b:
                sys.displayhook("b1")
                raise ZeroDivisionError("in b")
        except ZeroDivisionError as e:
            print("caught", e, sys.displayhook is ha, b.prev_displayhook)
        sys.displayhook("a2")
        sys.displayhook(Plain())
except TypeError as e:
    print("typeerror", str(e), sys.displayhook is h0, a.prev_displayhook)
print(str(a))
flush("exc")

# exception propagating through two levels
a, b = div(id="a2"), div(id="b2")
try:
    with a:
        with b:
            sys.displayhook("deep")
            raise LookupError("x")
except LookupError:
    print("lookup", sys.displayhook is h0, a.prev_displayhook, b.prev_displayhook)
print(str(a))
flush("exc2")

# outer hook raising on hand-off
def bad_hook(v):
    raise OSError("hook " + type(v).__name__)


t = div("k")
sys.displayhook = bad_hook
try:
    with t:
        sys.displayhook("z")
except OSError as e:
    print("badhook", e, sys.displayhook is bad_hook, t.prev_displayhook, str(t))
sys.displayhook = base_hook

# --- 4. re-entry ---------------------------------------------------------------
t = div(id="re")
h0 = sys.displayhook
with t:
    hin = sys.displayhook
    sys.displayhook("x")
    try:
        with t:
            print("NOT REACHED")
    except RuntimeError as e:
        print("reenter", str(e), sys.displayhook is hin, t.prev_displayhook is h0)
    cp = copy.copy(t)
    print("copy prev same", cp.prev_displayhook is h0, cp.children is not t.children)
    try:
        with cp:
            print("NOT REACHED")
    except RuntimeError as e:
        print("reenter copy", type(e).__name__, sys.displayhook is hin)
    dc = copy.deepcopy(div("q"))
    with dc:
        sys.displayhook("in dc")
    print("eq during", t == div("x", id="re"), t == cp)
    sys.displayhook("y")
print("re done", sys.displayhook is h0, str(t), t.prev_displayhook)
print("eq after", t == div("x", dc, "y", id="re"), t == cp, cp == t)
flush("re")
# can be entered again after exit; same tag used sequentially
with t:
    sys.displayhook("again")
with t:
    sys.displayhook("again2")
print(str(t))
flush("seq")
# copy after exit can be entered
cp2 = copy.copy(t)
with cp2:
    sys.displayhook("cp2")
print(str(cp2), "|", len(t.children), cp2 == t, cp2.prev_displayhook)
flush("cp2")

# --- 5. wrap_displayhook_handler directly ---------------------------------------
got = []
w = wrap_displayhook_handler(got.append)
print(w.__name__, w.__qualname__, type(w).__name__)
for name, v in VALUES:
    del got[:]
    try:
        r = w(v)
        res = repr(r)
    except Exception as e:  # noqa
        res = type(e).__name__ + ":" + str(e)
    print(
        "wrap",
        name,
        res,
        [(type(g).__name__, g is v) for g in got],
        [str(g) for g in got if isinstance(g, HTML)],
    )


def raising_handler(v):
    raise IndexError(type(v).__name__)


w2 = wrap_displayhook_handler(raising_handler)
for v in ("s", None, ..., Repr("r"), div()):
    try:
        print("w2", w2(v))
    except IndexError as e:
        print("w2 IndexError", e)
w3 = wrap_displayhook_handler(w)
del got[:]
w3(Repr("<a>"))
w3(HTML("<b>"))
print("w3", [(type(g).__name__, str(g)) for g in got])

# --- 6. thin wrappers / constructors -----------------------------------------------
t = Tag("x-y", {"a": 1}, "k", None, [1, 2.0], {"b": "c"}, _add_ws=False, d="e")
print(repr(t), sorted(t.__dict__), t.prev_displayhook, t.add_ws)
try:
    t.append()
except TypeError as e:
    print("append()", str(e))
t.append("1", 2, [3])
t.extend(["e", None, TagList("f")])
t.extend("gh")
t.insert(0, "first")
t.insert(1, ["i1", "i2"])
t.insert(100, None)
print(describe_children(t))
for bad in (Plain(), {"a": 1}, b"x", [Plain()]):
    for meth in ("append", "insert", "extend"):
        try:
            if meth == "append":
                t.append("pre", bad)
            elif meth == "insert":
                t.insert(0, bad)
            else:
                t.extend(["pre", bad])
            print(meth, "ok", len(t.children))
        except Exception as e:  # noqa
            print(meth, type(e).__name__, str(e), len(t.children))
for bad in ("yes", 1, None):
    try:
        Tag("a", _add_ws=bad)
    except TypeError as e:
        print("ctor", str(e))
try:
    Tag("a", Plain())
except TypeError as e:
    print("ctor child", str(e))
try:
    TagList("a", Plain())
except TypeError as e:
    print("taglist ctor", str(e))
tl = TagList("a")
tl.append("b", 3)
tl.insert(0, [None, 4])
tl += ["c"]
print(list(tl), list(tl + "s"), list("s" + tl), list(tl + ("x", 1)))
doc = HTMLDocument(div("d"), lang="en")
doc.append("more", 5)
dcp = copy.copy(doc)
print(type(dcp).__name__, dcp._content == doc._content, dcp._content is not doc._content,
      dcp._html_attr_args == doc._html_attr_args, dcp._html_attr_args is not doc._html_attr_args)
dcp.append("only-copy")
print(len(doc._content), len(dcp._content))
print(doc.render()["html"])


class SubTag(Tag):
    def __init__(self, *a, **k):
        super().__init__("sub", *a, **k)
        self.extra = ["e"]


st = SubTag("c", id="s")
with st:
    sys.displayhook("in sub")
    scp = copy.copy(st)
print(type(scp).__name__, scp.extra == st.extra, scp.extra is not st.extra,
      scp.attrs is not st.attrs, scp.attrs == st.attrs, scp.prev_displayhook is base_hook,
      str(scp), str(st), scp == st)
flush("sub")

# --- 7. type guards ---------------------------------------------------------------------
for name, v in VALUES:
    print("guard", name, is_tag_node(v), is_tag_child(v))
for v in (Tag, TagList, str, int, object(), type, 0, 0.0, False, "", [], (), bytearray(b"a"), memoryview(b"a"), frozenset()):
    print("guard2", type(v).__name__, is_tag_node(v), is_tag_child(v))

sys.displayhook = ORIG_HOOK
print("done")

# --- extra for refactoring 2: no class attribute is created, instance state only -------
print("class attr", hasattr(Tag, "prev_displayhook"), "prev_displayhook" in vars(Tag))
t = div()
print("fresh", t.prev_displayhook, "prev_displayhook" in t.__dict__)
del t.__dict__["prev_displayhook"]
try:
    with t:
        print("NOT REACHED")
except AttributeError as e:
    print("no attr", type(e).__name__, sys.displayhook is ORIG_HOOK)
# __exit__ called without __enter__: hook becomes None, then calling it fails
t = div()
saved = sys.displayhook
try:
    t.__exit__(None, None, None)
except TypeError as e:
    print("exit w/o enter", type(e).__name__, sys.displayhook, t.prev_displayhook)
sys.displayhook = saved
# a non-None falsy previous hook still counts as "entered"
class FalsyHook:
    def __bool__(self):
        return False
    def __call__(self, v):
        print("falsy hook got", type(v).__name__)
fh = FalsyHook()
sys.displayhook = fh
t = div()
with t:
    try:
        t.__enter__()
    except RuntimeError as e:
        print("falsy reenter", str(e))
print("falsy restored", sys.displayhook is fh)
sys.displayhook = saved
print("done2")
