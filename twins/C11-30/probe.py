"""Probe for HTMLDocument (C11): exercises __init__, render, _gen_html_tag_tree and
_hoist_head_content on a spread of inputs and prints results deterministically."""

import copy

from htmltools import (
    HTML,
    HTMLDependency,
    HTMLDocument,
    HTMLTextDocument,
    Tag,
    TagList,
    div,
    head_content,
    span,
    tags,
)


def show(label, fn):
    try:
        res = fn()
    except BaseException as e:  # noqa: BLE001
        print(f"[{label}] EXC {type(e).__name__}: {e}")
        return
    if isinstance(res, dict) and "html" in res:
        print(f"[{label}] keys={list(res.keys())}")
        print(f"[{label}] html={res['html']!r}")
        print(
            f"[{label}] deps={[(d.name, str(d.version)) for d in res['dependencies']]!r}"
        )
    else:
        print(f"[{label}] {res!r}")


def dep(name, version, **kw):
    return HTMLDependency(name, version, **kw)


d_a1 = dep("a", "1.0", source={"subdir": "libs/a"}, script={"src": "a.js"})
d_a2 = dep(
    "a",
    "2.0",
    source={"subdir": "libs/a2"},
    script=[{"src": "a2.js"}, {"src": "x y.js", "defer": ""}],
    stylesheet={"href": "a2.css"},
    meta={"name": "viewport", "content": "width=device-width"},
)
d_b = dep("b", "0.1.1", source={"href": "https://cdn/b"}, stylesheet={"href": "b.css"})
d_c = dep("c", "3", head="<title>from c</title>")
d_h = dep("h", "1", head=TagList(tags.link(rel="icon", href="i.png"), "txt"))
d_bad = dep(
    "bad", "1", source={"package": "no_such_pkg_xyz", "subdir": "s"}, script={"src": "q.js"}
)
d_none = dep("plain", "9.9")


class Widget:
    """A Tagifiable that is not a Tag."""

    def __init__(self, out):
        self.out = out
        self.calls = 0

    def tagify(self):
        self.calls += 1
        return self.out


class MyTag(Tag):
    pass


class ReprThing:
    def _repr_html_(self):
        return "<i>repr</i>"


def contents():
    yield "empty", ()
    yield "none", (None,)
    yield "str", ("hello <b>",)
    yield "html_str", (HTML("<b>raw</b>"),)
    yield "number", (1, 2.5)
    yield "div", (div("x", d_a1),)
    yield "two", (div("x"), span("y", d_b))
    yield "list", ([div("x"), [span("y"), None]],)
    yield "taglist", (TagList(div("x"), d_c),)
    yield "body_only", (tags.body(div("x", d_a1), class_="bd"),)
    yield "body_plus", (tags.body("b"), div("after"))
    yield "two_bodies", (tags.body("b1"), tags.body("b2"))
    yield "body_in_taglist", (TagList(tags.body("b", d_b)),)
    yield "body_in_list", ([tags.body("b", d_b)],)
    yield "body_dep_sibling", (tags.body("b"), d_a1)
    yield "head_only", (tags.head(tags.title("t")),)
    yield "html_only", (tags.html(tags.head(tags.title("t")), tags.body("b", d_a1)),)
    yield "html_nohead", (tags.html(tags.body("b", d_a2, d_a1)),)
    yield "html_empty", (tags.html(),)
    yield "html_head_second", (tags.html(d_b, tags.head(tags.title("t")), tags.body("b")),)
    yield "html_two_heads", (
        tags.html(tags.head("h1", d_c), tags.head("h2"), tags.body("b")),
    )
    yield "html_nested_head", (tags.html(tags.body(tags.head("inner"), d_h)),)
    yield "html_plus", (tags.html(tags.body("b")), "tail")
    yield "html_plus_dep", (tags.html(tags.body("b")), d_a1)
    yield "html_attrs", (tags.html(tags.body("b"), lang="fr", class_="k"),)
    yield "html_in_taglist", (TagList(tags.html(tags.body("b"))),)
    yield "html_noadd_ws", (Tag("html", Tag("body", "b"), _add_ws=False),)
    yield "mytag_html", (MyTag("html", MyTag("head", "hh"), MyTag("body", "bb", d_a1)),)
    yield "mytag_body", (MyTag("body", "bb", d_b),)
    yield "upper_html", (Tag("HTML", Tag("body", "b")),)
    yield "upper_body", (Tag("BODY", "b"),)
    yield "widget_div", (Widget(div("w", d_a1)),)
    yield "widget_html", (Widget(tags.html(tags.head("wh"), tags.body("wb", d_b))),)
    yield "widget_body", (Widget(tags.body("wb", d_c)),)
    yield "widget_taglist_body", (Widget(TagList(tags.body("wb"))),)
    yield "widget_taglist_two", (Widget(TagList(tags.body("wb"), "more")),)
    yield "widget_empty", (Widget(TagList()),)
    yield "widget_in_body", (tags.body(Widget(div("inner", d_a2))),)
    yield "widget_in_html_head", (
        tags.html(tags.head(Widget(tags.title("wt"))), tags.body(Widget("s"))),
    )
    yield "repr_html", (ReprThing(), div(ReprThing()))
    yield "deps_dupes", (div(d_a1, d_b), span(d_a2), d_a1, d_c, d_h, d_none)
    yield "deps_order", (d_c, div(d_b, div(d_a2)), d_a1)
    yield "head_content", (
        div(head_content(tags.title("T"))),
        head_content(tags.title("T")),
        head_content("<x>"),
    )
    yield "dep_in_head", (tags.html(tags.head(d_a1, tags.title("t")), tags.body(d_b)),)
    yield "bad_dep", (div(d_none, d_bad),)
    yield "bad_child", (object(),)
    yield "bad_child_nested", (div("x"), [{"a": 1}])
    yield "script_style", (tags.script("if (a < b) {}"), tags.style("a > b {}"))


ATTRS = [
    {},
    {"lang": "en"},
    {"lang": "en", "class_": "c1", "data_x": True, "hidden": False, "skip": None},
    {"n": 3, "f": 1.5, "h": HTML("<&>"), "q": "\"'<&>"},
]

RENDER_KW = [
    {},
    {"lib_prefix": None},
    {"lib_prefix": ""},
    {"lib_prefix": "my/libs", "include_version": False},
]

for name, args in contents():
    for ai, attrs in enumerate(ATTRS):
        # only vary attrs on a subset to keep the output readable
        if ai > 0 and name not in (
            "empty",
            "div",
            "body_only",
            "html_only",
            "html_attrs",
            "mytag_html",
            "widget_html",
            "html_plus",
        ):
            continue
        for ki, kw in enumerate(RENDER_KW):
            if ki > 0 and ai > 0:
                continue
            label = f"{name}/a{ai}/k{ki}"

            def run(args=args, attrs=attrs, kw=kw):
                doc = HTMLDocument(*args, **attrs)
                return doc.render(**kw)

            show(label, run)

# Invalid attribute types
show("attr_bad_type", lambda: HTMLDocument(div("x"), lang=object()).render())
show(
    "attr_bad_type_html",
    lambda: HTMLDocument(tags.html(tags.body("x")), lang=["a"]).render(),
)
show("attr_add_ws", lambda: HTMLDocument(div("x"), _add_ws=False).render())
show(
    "attr_add_ws_html",
    lambda: HTMLDocument(tags.html(tags.body("x")), _add_ws=False).render(),
)
show("attr_name", lambda: HTMLDocument(div("x"), _name="zzz").render())
show("render_posarg", lambda: HTMLDocument(div("x")).render("lib"))
show("render_badkw", lambda: HTMLDocument(div("x")).render(foo=1))

# html attrs merge with the user's own <html> attributes
show(
    "html_attr_merge",
    lambda: HTMLDocument(
        tags.html(tags.body("b"), lang="fr", class_="k"), lang="en", class_="z"
    ).render(),
)


# No mutation of the inputs; render is repeatable
def no_mutation():
    user_head = tags.head(tags.title("t"))
    user_html = tags.html(user_head, tags.body("b", d_a1), id="u")
    before = (repr(user_html), len(user_html.children), len(user_head.children))
    doc = HTMLDocument(user_html, lang="en")
    r1 = doc.render()
    r2 = doc.render(lib_prefix=None)
    r3 = doc.render()
    after = (repr(user_html), len(user_html.children), len(user_head.children))
    return (
        before == after,
        r1 == r3,
        r1["html"] == r2["html"],
        dict(user_html.attrs),
        r1 is not r3,
        r1["dependencies"] is not r3["dependencies"],
        [a is b for a, b in zip(r1["dependencies"], r3["dependencies"])],
        [d is d_a1 for d in r1["dependencies"]],
    )


show("no_mutation", no_mutation)


def no_mutation_body():
    user_body = tags.body("b", d_b, id="bd")
    before = repr(user_body)
    doc = HTMLDocument(user_body)
    r1 = doc.render()
    r2 = doc.render()
    return before == repr(user_body), r1 == r2, len(doc._content), dict(user_body.attrs)


show("no_mutation_body", no_mutation_body)


def widget_calls():
    w = Widget(tags.html(tags.body("wb", d_b)))
    w2 = Widget(div("inner"))
    doc = HTMLDocument(w)
    doc2 = HTMLDocument(tags.body(w2))
    doc.render()
    doc2.render()
    return w.calls, w2.calls


show("widget_calls", widget_calls)


# __init__ state, append, copy
def init_state():
    kw = {"lang": "en", "class_": "c"}
    doc = HTMLDocument("a", [div("b"), None, 3], TagList("c"), **kw)
    out = [
        type(doc._content).__name__,
        [repr(x) for x in doc._content],
        type(doc._html_attr_args).__name__,
        doc._html_attr_args,
        sorted(doc.__dict__.keys()),
    ]
    kw["lang"] = "changed"
    out.append(doc._html_attr_args)
    doc.append("d", span("e"))
    out.append(len(doc._content))
    cp = copy.copy(doc)
    cp.append("only-in-copy")
    cp._html_attr_args["id"] = "cp"
    out.append((len(doc._content), len(cp._content)))
    out.append((doc._html_attr_args, cp._html_attr_args))
    out.append(doc.render()["html"])
    out.append(cp.render()["html"])
    return out


show("init_state", init_state)
show("init_empty", lambda: (list(HTMLDocument()._content), HTMLDocument()._html_attr_args))
show("init_bad", lambda: HTMLDocument(div("ok"), object()))
show("init_bad_dict", lambda: HTMLDocument({"class": "x"}))
show("init_str_iter", lambda: list(HTMLDocument("abc", ("d", "e"))._content))
show("append_none", lambda: HTMLDocument().append())


def append_after():
    doc = HTMLDocument()
    doc.append(tags.body("late"))
    r1 = doc.render()["html"]
    doc.append("x")
    return r1, doc.render()["html"]


show("append_after", append_after)

# Direct calls to the private helpers
show(
    "gen_tree_direct",
    lambda: str(HTMLDocument(div("x", d_a1))._gen_html_tag_tree("L", include_version=False)),
)
show(
    "gen_tree_direct_pos",
    lambda: str(HTMLDocument(tags.html(tags.body(d_b)))._gen_html_tag_tree(None, True)),
)
show(
    "gen_tree_type",
    lambda: type(
        HTMLDocument(MyTag("html", MyTag("body")))._gen_html_tag_tree("lib", True)
    ).__name__,
)
show("hoist_not_html", lambda: HTMLDocument._hoist_head_content(div("x"), "lib", True))
show(
    "hoist_not_html_body",
    lambda: HTMLDocument._hoist_head_content(tags.body(d_bad), "lib", True),
)


def hoist_direct():
    x = tags.html("lead", tags.head("h", d_c), tags.body(d_a1, d_a2, d_b))
    before = repr(x)
    res = HTMLDocument._hoist_head_content(x, "p", False)
    return (
        str(res),
        res is x,
        res.children is x.children,
        res.children[1] is x.children[1],
        res.children[2] is x.children[2],
        before == repr(x),
        [type(c).__name__ for c in res.children[1].children],
    )


show("hoist_direct", hoist_direct)


def hoist_untagified():
    x = tags.html(tags.body(Widget(div("w"))))
    return str(HTMLDocument._hoist_head_content(x, "p", True).render()["html"])


show("hoist_untagified", hoist_untagified)


def hoist_nohead_identity():
    x = tags.html(tags.body("b"))
    res = HTMLDocument._hoist_head_content(x, None, True)
    return (
        len(x.children),
        len(res.children),
        [getattr(c, "name", c) for c in res.children],
        res.children[1] is x.children[0],
        str(res),
    )


show("hoist_nohead_identity", hoist_nohead_identity)
show(
    "hoist_bad_dep",
    lambda: HTMLDocument._hoist_head_content(tags.html(tags.body(d_bad)), "lib", True),
)

# HTMLTextDocument shares the dependency markup format
show(
    "text_doc",
    lambda: HTMLTextDocument(
        "<html><head>@@</head><body>@@</body></html>",
        deps=[d_a2, d_b, d_c],
        deps_replace_pattern="@@",
    ).render(lib_prefix="tl", include_version=False),
)
show(
    "text_doc_nodeps",
    lambda: HTMLTextDocument("<html>@@</html>", deps=[], deps_replace_pattern="@@").render(),
)
show("text_doc_plain", lambda: HTMLTextDocument("<html></html>").render())
show(
    "text_doc_bad",
    lambda: HTMLTextDocument("<html>@@</html>", deps=[d_bad], deps_replace_pattern="@@").render(),
)

# save_html goes through render()
import os
import tempfile


def save():
    with tempfile.TemporaryDirectory() as td:
        f = os.path.join(td, "out.html")
        HTMLDocument(div("saved", d_b, d_c), lang="en").save_html(f, libdir=None)
        with open(f) as fh:
            return fh.read()


show("save_html", save)


# ---- extra cases for HTMLDocument.render ----
class RenderTag(Tag):
    """An <html> Tag whose render() result has an extra key and a non-str 'html'."""

    def render(self):
        res = super().render()
        res["html"] = HTML(res["html"])
        res["extra"] = "kept"
        return res


def render_custom_tag():
    doc = HTMLDocument(RenderTag("html", Tag("body", "b", d_b)), lang="en")
    r = doc.render()
    return list(r.keys()), type(r["html"]).__name__, str(r["html"]), r["extra"]


show("render_custom_tag", render_custom_tag)


class TracingDoc(HTMLDocument):
    def _gen_html_tag_tree(self, prefix, include_version):
        print("  trace gen:", repr(prefix), repr(include_version))
        return super()._gen_html_tag_tree(prefix, include_version)


for kw in RENDER_KW + [{"include_version": 0}, {"lib_prefix": 5}]:
    show(f"tracing/{kw!r}", lambda kw=kw: TracingDoc(div("t", d_a1, d_b)).render(**kw))


def render_shape():
    r = HTMLDocument().render()
    return (
        type(r).__name__,
        list(r.keys()),
        type(r["html"]).__name__,
        r["html"].startswith("<!DOCTYPE html>\n<html>"),
        r["html"].count("<!DOCTYPE"),
        r["html"].splitlines()[0],
        r["html"].splitlines()[1],
        r["html"].endswith("</html>"),
    )


show("render_shape", render_shape)
show(
    "render_doctype_in_content",
    lambda: HTMLDocument(HTML("<!DOCTYPE html>\n"), "<!DOCTYPE html>").render(),
)


def render_vs_tree():
    doc = HTMLDocument(div("x", d_a2), tags.p("y", d_c), id="root")
    tree = doc._gen_html_tag_tree("lib", include_version=True)
    tr = tree.render()
    r = doc.render()
    return (
        r["html"] == "<!DOCTYPE html>\n" + tr["html"],
        [d.name for d in r["dependencies"]] == [d.name for d in tr["dependencies"]],
        r["dependencies"] == tr["dependencies"],
    )


show("render_vs_tree", render_vs_tree)


def save_variants():
    out = []
    with tempfile.TemporaryDirectory() as td:
        for libdir, iv in [("lib", True), ("", True), (None, False), ("deep/er", False)]:
            f = os.path.join(td, "o.html")
            ret = HTMLDocument(div("s", d_b, d_c)).save_html(f, libdir=libdir, include_version=iv)
            with open(f) as fh:
                out.append((ret == f, fh.read()))
    return out


show("save_variants", save_variants)
show("taglist_doc_str", lambda: str(HTMLDocument(TagList("a", div("b"))).render()["html"]))
