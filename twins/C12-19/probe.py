# Probe for refactoring 4: extraction of serialized dependencies in HTMLTextDocument
# (and the URLs rendered for the reconstituted dependencies).
import json
import os
import tempfile

from htmltools import HTMLDependency, HTMLTextDocument, TagList, div, tags

ROOT = os.path.realpath(tempfile.mkdtemp(prefix="c12probe"))
SRC = os.path.join(ROOT, "src")
os.makedirs(SRC)


def scrub(s):
    return str(s).replace(ROOT, "<ROOT>")


def show(label, fn):
    try:
        print(label, "->", scrub(repr(fn())))
    except BaseException as e:  # noqa
        print(label, "raised", type(e).__name__)


def desc(deps):
    return [
        (d.name, str(d.version), d.source, d.script, d.stylesheet, d.meta, d.all_files,
         None if d.head is None else str(d.head))
        for d in deps
    ]


extract = HTMLTextDocument._static_extract_serialized_html_deps

a = HTMLDependency("a", "1.0", source={"subdir": SRC}, script={"src": "a b.js"}, stylesheet={"href": "c.css"})
b = HTMLDependency("b", "2.0", source={"href": "https://x.org/b"}, script=[{"src": "b.js", "defer": True}], all_files=True)
c = HTMLDependency("c", "3.0", head=tags.script("if (a </script> b) {}"), meta={"name": "m", "content": "</SCRIPT>"})
d = HTMLDependency("d", "0.1", head="<title>\r\n</title>")


def ser(dep, indent=None):
    return str(dep.serialize_to_script_json(indent=indent))


OPEN = '<script type="application/json" data-html-dependency="">'
texts = {
    "empty": "",
    "plain": "<html><head></head><body>hi</body></html>",
    "one": "<html><head></head><body>" + ser(a) + "</body></html>",
    "one_indent": "<html>" + ser(a, 2) + "</html>",
    "only": ser(b),
    "two_adjacent": ser(a) + ser(b),
    "three_spread": "x" + ser(a) + "y\n" + ser(b, 4) + "z\r\n" + ser(c) + "w",
    "dups": ser(a) + "-" + ser(b) + "-" + ser(a) + "-" + ser(a) + "-" + ser(b),
    "dup_diff_indent": ser(a) + ser(a, 1) + ser(a),
    "with_head_script": "<p>" + ser(c) + "</p>" + ser(d),
    "start_end": ser(d) + "middle" + ser(c),
    "uppercase_not_matched": ser(a).replace("<script", "<SCRIPT"),
    "other_attr_order": '<script data-html-dependency="" type="application/json">{}</script>',
    "unterminated": "<b>" + OPEN + '{"name": "x", "version": "1"}',
    "unterminated_then_ok": OPEN + "junk " + ser(a),
    "empty_payload": "p" + OPEN + "</script>q",
    "bad_json": "p" + OPEN + "{not json}</script>q",
    "json_list": "p" + OPEN + "[1, 2]</script>q",
    "json_string": "p" + OPEN + '"s"</script>q',
    "json_missing_keys": "p" + OPEN + '{"name": "x"}</script>q',
    "json_extra_keys": "p" + OPEN + '{"name": "x", "version": "1", "bogus": 1}</script>q',
    "json_minimal": "p" + OPEN + '{"name": "x", "version": "1"}</script>q',
    "json_bad_source": "p" + OPEN + '{"name": "x", "version": "1", "source": {"nothing": 1}}</script>q',
    "json_bad_version": "p" + OPEN + '{"name": "x", "version": "not a version"}</script>q',
    "good_then_bad": ser(a) + OPEN + "oops</script>" + ser(b),
    "bad_then_good": OPEN + "oops</script>" + ser(a),
    "bad_dup": OPEN + "oops</script>" + OPEN + "oops</script>",
    "newlines_in_payload": OPEN + '\n{"name":\r\n "nl",\n "version": "1"}\r</script>tail',
    "ordinary_scripts": "<script>var a;</script>" + ser(a) + '<script type="application/json">{}</script>',
    "nested_open": OPEN + OPEN + '{"name": "x", "version": "1"}</script></script>',
    "unicode": "é" + ser(HTMLDependency("ü", "1", script={"src": "ñ.js"})) + " end",
}
for label, text in texts.items():
    show("extract " + label, lambda: (lambda r: (r[0], desc(r[1])))(extract(text)))

for bad in (None, b"<html></html>", 5, ["x"]):
    show("extract %s" % type(bad).__name__, lambda: extract(bad))
    show("doc %s" % type(bad).__name__, lambda: HTMLTextDocument(bad))

# identity of the result when nothing is removed
t = texts["plain"]
r = extract(t)
print("no-match equal", r[0] == t, type(r[0]).__name__, r[1])


class S(str):
    pass


r = extract(S(texts["one"]))
print("str subclass", type(r[0]).__name__, r[0], scrub(desc(r[1])))
r = extract(S(texts["plain"]))
print("str subclass no match", type(r[0]).__name__, r[0])

# Through the constructor: explicit deps come first, the list passed in is extended in place
for label, text in texts.items():
    def f():
        mine = [HTMLDependency("mine", "9.9", source={"subdir": SRC}, script={"src": "m.js"})]
        doc = HTMLTextDocument("<head>@@</head>" + text, deps=mine, deps_replace_pattern="@@")
        out = []
        for pre in ("lib", None, "", "p q/r"):
            for iv in (True, False):
                r = doc.render(lib_prefix=pre, include_version=iv)
                out.append((pre, iv, r["html"], desc(r["dependencies"])))
        return (len(mine), desc(mine), doc._html, out)
    show("doc " + label, f)

    def g():
        doc = HTMLTextDocument(text)
        return (doc._html, desc(doc._deps), doc._deps_replace_pattern)
    show("doc nodeps " + label, g)

show("deps without pattern", lambda: HTMLTextDocument("x", deps=[a]))
show("pattern without deps", lambda: HTMLTextDocument("x@@" + ser(a), deps_replace_pattern="@@").render())
show("no pattern render", lambda: HTMLTextDocument("x" + ser(a)).render())

# round trip: what a document renders can be re-read
page = str(div("body", a.serialize_to_script_json(), b.serialize_to_script_json(), c.serialize_to_script_json(2)))
show("round trip", lambda: (lambda r: (r[0], desc(r[1])))(extract(page)))
os.rmdir(SRC)
os.rmdir(ROOT)
