# Probe for _tagchilds_to_tagnodes (children normalisation) and everything built on it.
import htmltools
from htmltools import HTML, Tag, TagList, div, span, tags, HTMLDependency
from htmltools._core import _tagchilds_to_tagnodes


def show(label, fn):
    try:
        r = fn()
        print(label, "->", type(r).__name__, repr(r))
    except Exception as e:  # noqa: BLE001
        print(label, "!!", type(e).__name__, str(e))


class IntSub(int):
    def __str__(self):
        return "intsub"


class BadStr(int):
    def __str__(self):
        raise RuntimeError("no str")


class Tagifiable:
    def __repr__(self):
        return "Tagifiable()"

    def tagify(self):
        return span("tagified")


class Reprable:
    def __repr__(self):
        return "Reprable()"

    def _repr_html_(self):
        return "<b>r</b>"


log = []


def gen():
    for v in ["a", None, 1, object(), "after"]:
        log.append(type(v).__name__)
        yield v


dep = HTMLDependency("d", "1.0", source={"subdir": "x"}, script={"src": "a.js"})

inputs = [
    ("str", "abc"),
    ("empty str", ""),
    ("empty list", []),
    ("empty tuple", ()),
    ("nones", [None, None, [None, (None,)]]),
    ("numbers", [1, 2.5, -0.0, 1e100, float("nan"), float("inf"), 10**30]),
    ("bools", [True, False]),
    ("intsub", [IntSub(3)]),
    ("nested", ["a", ["b", ("c", [1, None, TagList("d", 2)])]]),
    ("html", [HTML("<b>"), "<b>"]),
    ("tags", [div("x", 1), span()]),
    ("taglist", TagList("a", None, 3)),
    ("dep", [dep, "x"]),
    ("tagifiable", [Tagifiable()]),
    ("reprhtml", [Reprable()]),
    ("dict item", [{"a": 1}]),
    ("bytes item", ["ok", b"x"]),
    ("object item", [1, object.__new__(object).__class__]),
    ("set item", [{1}]),
    ("complex", [1j]),
    ("badstr", ["a", BadStr(1)]),
    ("non iterable", 5),
    ("None", None),
    ("dict as iterable", {"k": 1}),
    ("bytes as iterable", b"ab"),
    ("range", range(3)),
    ("generator ok", (str(i) for i in range(3))),
]
for label, x in inputs:
    show("conv " + label, lambda: _tagchilds_to_tagnodes(x))

# the generator is consumed completely before the error is reported
show("gen with bad", lambda: _tagchilds_to_tagnodes(gen()))
print("log", log)

# input must not be altered, result must be a fresh list
src = [1, [2, None], "x"]
out = _tagchilds_to_tagnodes(src)
print("src", src, "out", out, out is src)
tl = TagList("a", 1)
out = _tagchilds_to_tagnodes(tl)
print("tl", list(tl), out, out is tl.data if hasattr(tl, "data") else None)

# through the public API
show("TagList ctor", lambda: TagList(1, [2.0, None, ("x", HTML("&"))], True))
show("TagList bad", lambda: TagList("a", object()))
t = TagList("a")
show("extend", lambda: (t.extend([1, None, [2]]), list(t))[1])
show("append", lambda: (t.append(3.5, None, ["z"]), list(t))[1])
show("insert", lambda: (t.insert(0, 7), list(t))[1])
show("insert none", lambda: (t.insert(1, None), list(t))[1])
show("insert list", lambda: (t.insert(1, [8, 9]), list(t))[1])
show("insert bad", lambda: (t.insert(1, {}), list(t))[1])
print("after", list(t))
show("tagify", lambda: TagList("a", Tagifiable(), 1).tagify())
show("div render", lambda: str(div(1, None, [2.5, [True, "<&>"]], span(0), HTML("<i>"), id="x")))
show("div bad", lambda: div("a", {"k": "v"}, object()))
show("div extend", lambda: str((lambda d: (d.extend([1, None]), d)[1])(div())))
show("div insert", lambda: str((lambda d: (d.insert(0, 4.0), d)[1])(div("a"))))
show("tags.br", lambda: str(tags.br(None)))
show("tags.br2", lambda: str(tags.br(1)))
show("render", lambda: div(dep, 1, [None]).render())
show("version", lambda: type(htmltools.__version__).__name__)
