# Probe for HTML.__add__ / HTML.__radd__ (concatenation of trusted and plain text).
import itertools
from htmltools import HTML, TagList, div, span, tags

LOG = []


def show(label, fn):
    try:
        r = fn()
        print(label, "->", type(r).__name__, repr(str(r)) if isinstance(r, HTML) else repr(r))
    except BaseException as e:  # noqa
        print(label, "-> EXC", type(e).__name__, str(e)[:80])


class Loud(HTML):
    """HTML subclass that records when it is converted to a string."""

    def as_string(self):
        LOG.append(("as_string", self.data))
        return super().as_string()


class StrLogs:
    def __init__(self, s):
        self.s = s

    def __str__(self):
        LOG.append(("str", self.s))
        return self.s

    def __repr__(self):
        return "StrLogs(%r)" % self.s


class StrRaises:
    def __repr__(self):
        return "StrRaises()"

    def __str__(self):
        LOG.append(("str-raises",))
        raise KeyError("boom")


class MyStr(str):
    pass


plain = ["", "a", "<b>&\"'\n\r", "&amp;", "x < y > z", MyStr("<m>"), "é<", "&&&", "<" * 5]
trusted = [HTML(""), HTML("<i>t</i>"), HTML("&amp;<"), HTML("\"'\n"), Loud("<loud>&")]
others = [0, 1.5, None, True, ["<l>"], ("<t>",), b"<by>", {"<k>": 1}, StrLogs("<sl>&"), StrRaises(), div("<d>"), TagList("a<", HTML("<b>"))]

# pairwise, both orders
for a, b in itertools.product(trusted, plain + trusted + others):
    LOG.clear()
    show(f"{a!r} + {type(b).__name__}:{b!r:.30}", lambda: a + b)
    print("   log", LOG)
    LOG.clear()
    show(f"{type(b).__name__}:{b!r:.30} + {a!r}", lambda: b + a)
    print("   log", LOG)
    LOG.clear()
    show(f"__radd__ explicit {a!r} <- {type(b).__name__}", lambda: a.__radd__(b))
    print("   log", LOG)
    LOG.clear()
    show(f"__add__ explicit {a!r} <- {type(b).__name__}", lambda: a.__add__(b))
    print("   log", LOG)

# result type is exactly HTML (not the subclass), and data is a str
r = Loud("<x>") + "<y>"
print(type(r) is HTML, type(r.data) is str, r.data)
r = "<y>" + Loud("<x>")
print(type(r) is HTML, type(r.data) is str, r.data)
r = Loud("<x>") + Loud("<z>")
print(type(r) is HTML, type(r.data) is str, r.data)

# += and sum
h = HTML("<a>")
h += "<b>"
h += HTML("<c>")
print(type(h).__name__, repr(str(h)))
s = "<a>"
s += HTML("<b>")
print(type(s).__name__, repr(str(s)))
show("sum", lambda: sum(["<1>", "<2>"], HTML("<0>")))
show("sum-int-start", lambda: sum([HTML("<1>"), "<2>"]))

# grouping / order: rendering the concatenation == rendering the operands as adjacent children
ops = ["<p>", HTML("<q>"), "&", HTML("&amp;"), "", HTML("")]
for trip in itertools.product(ops, repeat=3):
    if not any(isinstance(t, HTML) for t in trip[:2]) and not any(isinstance(t, HTML) for t in trip[1:]):
        continue
    a, b, c = trip
    res = []
    for name, fn in (("(a+b)+c", lambda: (a + b) + c), ("a+(b+c)", lambda: a + (b + c))):
        try:
            v = fn()
            res.append((name, type(v).__name__, str(span(v, _add_ws=False)), str(TagList(v))))
        except BaseException as e:  # noqa
            res.append((name, "EXC", type(e).__name__))
    print(repr(trip), res, str(span(a, b, c, _add_ws=False)))

# as attribute values and inside script/style
print(str(div(HTML("<a>") + "<b>", title=HTML("\"q\"") + "\"r\"", class_="x" + HTML("&y"))))
print(str(tags.script(HTML("if (a<b) {}") + "c&&d")))
print(str(tags.style("a>b" + HTML("{}"))))
