# Probe for refactoring 4: _render_tag_or_taglist (str()/repr()/_repr_html_ of Tag/TagList in both
# dependency render modes) and HTMLTextDocument.__init__ / render.
import htmltools
from htmltools import HTML, HTMLDependency, HTMLDocument, HTMLTextDocument, Tag, TagList, div, span, tags
from htmltools._core import _render_tag_or_taglist


def show(label, fn):
    try:
        r = fn()
    except Exception as e:  # noqa: BLE001
        print(label, "-> EXC", type(e).__name__, str(e)[:160])
    else:
        print(label, "->", repr(r))


def state(d):
    return (d.name, str(d.version), d.source, d.script, d.stylesheet, d.meta, d.all_files,
            None if d.head is None else d.head.get_html_string())


A = HTMLDependency("a", "1.0", source={"subdir": "libtest"}, script={"src": "a.js"})
A2 = HTMLDependency("a", "1.1", source={"subdir": "libtest"}, script={"src": "a2.js"})
B = HTMLDependency("b</script>", "2", source={"href": "http://h/</SCRIPT>"},
                   stylesheet={"href": "b.css"}, meta={"name": "m", "content": "</script>"},
                   head="<script>'</script>'</script>", all_files=True)
C = HTMLDependency("c", "3", head=TagList(tags.title("t"), tags.meta(name="k")))


class Tagif:
    def __init__(self, *deps):
        self.deps = deps

    def tagify(self):
        return TagList(span("tagified"), *self.deps)


objs = {
    "empty_taglist": lambda: TagList(),
    "taglist_text": lambda: TagList("a < b", HTML("<i>raw</i>"), 3, None, 2.5),
    "taglist_only_dep": lambda: TagList(A),
    "taglist_deps": lambda: TagList(A, div("x", B), A2, C, A),
    "tag_nodeps": lambda: div("hello", span("x"), class_="k"),
    "tag_dep": lambda: div("hello", A),
    "tag_many": lambda: div(B, span(C, span(A)), A2, B),
    "tag_empty": lambda: div(),
    "script_tag": lambda: tags.script("if (a</b) {}", A),
    "tagifiable": lambda: div(Tagif(A, B)),
    "taglist_tagifiable": lambda: TagList(Tagif(C), Tagif()),
    "html_tag": lambda: tags.html(tags.head(), tags.body(A)),
}

for mode in ("invisible", "json", "bogus", None, "JSON", "invisible"):
    htmltools.html_dependency_render_mode = mode
    for name, mkobj in objs.items():
        show(f"[{mode!r}] str({name})", lambda: str(mkobj()))
        show(f"[{mode!r}] repr({name})", lambda: repr(mkobj()))
        show(f"[{mode!r}] _repr_html_({name})", lambda: mkobj()._repr_html_())
        show(f"[{mode!r}] helper({name})", lambda: (type(_render_tag_or_taglist(mkobj())).__name__,
                                                   _render_tag_or_taglist(mkobj())))
    show(f"[{mode!r}] helper(bad)", lambda: _render_tag_or_taglist("notatag"))
    show(f"[{mode!r}] non-tagified", lambda: str(div(Tagif(A)).children.get_html_string()))
htmltools.html_dependency_render_mode = "invisible"


# render() override returning odd things
class Odd(Tag):
    def render(self):
        return {"dependencies": [A, "notadep"], "html": HTML("<odd/>")}


class Odd2(Tag):
    def render(self):
        return {"html": "<odd2/>"}


class Odd3(Tag):
    def render(self):
        return {"dependencies": [B], "html": 5}


for mode in ("invisible", "json"):
    htmltools.html_dependency_render_mode = mode
    for cls in (Odd, Odd2, Odd3):
        show(f"[{mode}] {cls.__name__}", lambda: (type(str(cls("x"))).__name__, str(cls("x"))))
htmltools.html_dependency_render_mode = "invisible"

# ---- HTMLTextDocument constructor matrix ----
S = A.serialize_to_script_json().get_html_string()
for deps_name, deps in [("None", None), ("[]", []), ("[A]", [A]), ("[A,B]", [A, B]), ("tuple", ()), ("0", 0), ("False", False)]:
    for pat in (None, "", "@@", "<meta x>"):
        for text in ("", "<h>@@</h><b>@@<meta x></b>", "<h>@@</h>" + S + "<b>" + S + "@@</b>"):
            def f():
                doc = HTMLTextDocument(text, deps=deps, deps_replace_pattern=pat)
                return (doc._html, [state(d) for d in doc._deps], doc._deps is deps, doc._deps_replace_pattern)
            show(f"ctor deps={deps_name} pat={pat!r} text#{len(text)}", f)

            def g():
                doc = HTMLTextDocument(text, deps=deps, deps_replace_pattern=pat)
                r = doc.render(lib_prefix="lp", include_version=False)
                r2 = doc.render()
                return (list(r.keys()), r["html"], [state(d) for d in r["dependencies"]],
                        r["dependencies"] is doc._deps,
                        all(x is not y for x, y in zip(r["dependencies"], doc._deps)),
                        r2["html"])
            show(f"render deps={deps_name} pat={pat!r} text#{len(text)}", g)

show("positional args", lambda: HTMLTextDocument("<a>P</a>", [A], "P").render()["html"])
show("kw html", lambda: HTMLTextDocument(html="<a>P</a>", deps=[C], deps_replace_pattern="P").render()["html"])
show("pattern non-str", lambda: HTMLTextDocument("<a>1</a>", deps=[C], deps_replace_pattern=1).render()["html"])
show("html None", lambda: HTMLTextDocument(None, deps=[C], deps_replace_pattern="x"))
show("pattern is regex-ish", lambda: HTMLTextDocument("<a>.*</a>x", deps=[C], deps_replace_pattern=".*").render()["html"])
show("pattern in dep markup", lambda: HTMLTextDocument("[P][P]", deps=[HTMLDependency("P", "1", head="P")],
                                                        deps_replace_pattern="P").render()["html"])
# caller's list is extended in place by the constructor
mine = [A]
doc = HTMLTextDocument("x" + B.serialize_to_script_json().get_html_string(), deps=mine, deps_replace_pattern="x")
print("caller list extended:", [d.name for d in mine], doc._deps is mine)

# equivalence: json mode + HTMLTextDocument == direct HTMLDocument
htmltools.html_dependency_render_mode = "json"
try:
    ui = TagList(div("x", A, B), C, A2)
    body = str(ui)
finally:
    htmltools.html_dependency_render_mode = "invisible"
direct = HTMLDocument(ui).render(lib_prefix="lp")
via = HTMLTextDocument("<head>PLACE</head><body>" + body + "</body>PLACE", deps=[], deps_replace_pattern="PLACE").render(lib_prefix="lp")
print("direct:", repr(direct["html"]))
print("via   :", repr(via["html"]))
print("deps  :", [state(d) for d in direct["dependencies"]], [state(d) for d in via["dependencies"]])
