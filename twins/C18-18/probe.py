# Probe for refactoring 3: head_content / hash_deterministic / HTMLDependency.__init__
from htmltools import (
    HTML, HTMLDependency, HTMLDocument, TagList, div, span, head_content, tags,
)
from htmltools._util import hash_deterministic
from htmltools._jsx import jsx
from packaging.version import Version


def show(label, fn):
    try:
        r = fn()
        print(label, "->", r)
    except BaseException as e:  # noqa
        print(label, "!!", type(e).__name__, str(e)[:100])


def desc(d):
    return {
        "name": d.name,
        "version": (type(d.version).__name__, str(d.version)),
        "source": d.source,
        "script": (type(d.script).__name__, d.script),
        "stylesheet": (type(d.stylesheet).__name__, d.stylesheet),
        "meta": (type(d.meta).__name__, d.meta),
        "all_files": d.all_files,
        "head": None if d.head is None else (type(d.head).__name__, [type(c).__name__ for c in d.head], d.head.get_html_string()),
        "keys": list(d.__dict__),
    }


# --- hash_deterministic
for s in ["", "a", "abc", "é", "\U0001F600", "a" * 10000, "<title>T</title>", "\n", "\x00"]:
    show("hash %r" % s[:12], lambda s=s: hash_deterministic(s))


class S(str):
    pass


show("hash S", lambda: hash_deterministic(S("abc")))
show("hash HTML", lambda: hash_deterministic(HTML("abc")))
show("hash surrogate", lambda: hash_deterministic("\ud800"))
show("hash bytes", lambda: hash_deterministic(b"abc"))
show("hash None", lambda: hash_deterministic(None))
show("hash int", lambda: hash_deterministic(1))
show("hash type", lambda: type(hash_deterministic("x")).__name__)

# --- head_content
hc = {
    "none": (),
    "None": (None,),
    "empty_str": ("",),
    "text": ("a & b",),
    "html": (HTML("<b>x</b>"),),
    "title": (tags.title("T"),),
    "title2": (tags.title("T"),),
    "two": (tags.title("T"), tags.meta(name="x")),
    "two_rev": (tags.meta(name="x"), tags.title("T")),
    "nested_list": ([tags.title("T"), [tags.meta(name="x")]],),
    "taglist": (TagList(tags.title("T"), tags.meta(name="x")),),
    "number": (1, 2.5),
    "script": (tags.script("a<b"), tags.style("p>q{}")),
    "with_dep": (tags.title("T"), HTMLDependency("z", "1")),
    "with_nested_hc": (head_content(tags.title("inner")), "x"),
    "attrs_order1": (tags.link(rel="a", href="b"),),
    "attrs_order2": (tags.link(href="b", rel="a"),),
    "ws": (span("a", _add_ws=False), span("b")),
    "unicode": ("é\U0001F600",),
}
for k, v in hc.items():
    show("head_content " + k, lambda v=v: desc(head_content(*v)))
show("head_content dict arg", lambda: desc(head_content({"a": 1})))
show("head_content bad child", lambda: desc(head_content(object())))
show("head_content surrogate", lambda: desc(head_content("\ud800")))


class Tg:
    def tagify(self):
        return tags.title("late")


show("head_content tagifiable", lambda: desc(head_content(Tg())))
show("equal names", lambda: head_content("x", 1).name == head_content("x1").name)
show("eq", lambda: head_content(tags.title("T")) == head_content(tags.title("T")))
show("neq", lambda: head_content(tags.title("T")) == head_content(tags.title("U")))
x = head_content(tags.title("T"))
print(HTMLDocument(div(x, head_content(tags.title("T")), head_content(tags.title("U")), x)).render()["html"])
show("head is own TagList", lambda: (lambda t: head_content(t).head is t)(TagList("a")))

# --- HTMLDependency.__init__ normalisation
sc = {"src": "a.js"}
st = {"href": "a.css"}
st_rel = {"href": "b.css", "rel": "preload"}
me = {"name": "n", "content": "c"}
ctor = {
    "minimal": dict(),
    "version_obj": dict(version=Version("1.2.3")),
    "version_other": dict(version=5),
    "script_dict": dict(script=dict(sc)),
    "script_list": dict(script=[dict(sc), {"src": "b.js", "async": ""}]),
    "script_empty_list": dict(script=[]),
    "script_empty_dict": dict(script={}),
    "script_tuple": dict(script=(dict(sc),)),
    "stylesheet_dict": dict(stylesheet=dict(st)),
    "stylesheet_list": dict(stylesheet=[dict(st), dict(st_rel)]),
    "stylesheet_tuple": dict(stylesheet=(dict(st),)),
    "meta_dict": dict(meta=dict(me)),
    "meta_list": dict(meta=[dict(me), dict(me)]),
    "all": dict(script=dict(sc), stylesheet=dict(st), meta=dict(me), all_files=True,
                source={"subdir": "s"}, head="<x>"),
    "source_href": dict(source={"href": "http://x"}),
    "source_pkg": dict(source={"package": "htmltools", "subdir": "lib"}),
    "head_none": dict(head=None),
    "head_str": dict(head="<b>&</b>"),
    "head_empty_str": dict(head=""),
    "head_str_subclass": dict(head=S("<i>")),
    "head_jsx": dict(head=jsx("a<b")),
    "head_html": dict(head=HTML("<b>&</b>")),
    "head_tag": dict(head=tags.title("T")),
    "head_list": dict(head=["a<", tags.title("T"), None, [1]]),
    "head_empty_list": dict(head=[]),
    "head_taglist": dict(head=TagList("a<", tags.title("T"))),
    "head_number": dict(head=3),
    "head_zero": dict(head=0),
    "head_false": dict(head=False),
    "head_dep": dict(head=HTMLDependency("q", "1")),
    "all_files_str": dict(all_files="yes"),
}
for k, kw in ctor.items():
    kw = dict(kw)
    ver = kw.pop("version", "1.0")
    show("ctor " + k, lambda kw=kw, ver=ver: desc(HTMLDependency("nm", ver, **kw)))

bad = {
    "script_str": dict(script="a.js"),
    "script_int": dict(script=3),
    "script_missing": dict(script={"href": "x"}),
    "script_list_bad_item": dict(script=[dict(sc), "x"]),
    "script_list_missing": dict(script=[dict(sc), {}]),
    "stylesheet_missing": dict(stylesheet={"src": "x"}),
    "stylesheet_str": dict(stylesheet="a.css"),
    "meta_missing_content": dict(meta={"name": "n"}),
    "meta_missing_name": dict(meta={"content": "n"}),
    "meta_false": dict(meta=False),
    "meta_zero": dict(meta=0),
    "script_false": dict(script=False),
    "source_str": dict(source="dir"),
    "source_bad": dict(source={"x": 1}),
    "head_obj": dict(head=object()),
    "head_dict": dict(head={"a": 1}),
    "bad_version": dict(version="x.y"),
    "positional_source": None,
}
for k, kw in bad.items():
    if kw is None:
        show("ctor-bad " + k, lambda: HTMLDependency("nm", "1", {"subdir": "x"}))
        continue
    kw = dict(kw)
    ver = kw.pop("version", "1.0")
    show("ctor-bad " + k, lambda kw=kw, ver=ver: desc(HTMLDependency("nm", ver, **kw)))

# identity / aliasing of caller-provided containers, and side effects on them
lst = [dict(sc)]
d = HTMLDependency("nm", "1", script=lst)
print("script list kept by identity:", d.script is lst)
one = dict(sc)
d = HTMLDependency("nm", "1", script=one)
print("script dict wrapped by identity:", d.script[0] is one)
s1 = dict(st); s2 = dict(st_rel)
d = HTMLDependency("nm", "1", stylesheet=[s1, s2])
print("caller stylesheet dicts after ctor:", s1, s2)
d1 = HTMLDependency("nm", "1"); d2 = HTMLDependency("nm", "1")
print("fresh empty lists:", d1.script is d2.script, d1.stylesheet is d2.stylesheet, d1.meta is d2.meta,
      d1.script is d1.stylesheet, d1.script is d1.meta)

# side effects that happen before a later argument fails validation
s3 = dict(st)
show("meta fails after stylesheet rel default", lambda: HTMLDependency("nm", "1", stylesheet=s3, meta={"name": "n"}))
print("stylesheet dict after failed ctor:", s3)
s4 = dict(st)
show("script fails before stylesheet", lambda: HTMLDependency("nm", "1", script={"x": 1}, stylesheet=s4))
print("stylesheet dict after failed ctor:", s4)
s5 = dict(st)
show("head fails last", lambda: HTMLDependency("nm", "1", stylesheet=s5, head=object()))
print("stylesheet dict after failed ctor:", s5)

# partially initialised object when __init__ is re-run on an existing instance
d = HTMLDependency("nm", "1", script=dict(sc), head="h")
show("re-init fails at stylesheet", lambda: d.__init__("other", "2", script={"src": "z.js"}, stylesheet={"bad": 1}))
print("after failed re-init:", {k: str(v) for k, v in d.__dict__.items()})
show("re-init fails at meta", lambda: d.__init__("other3", "3", stylesheet={"href": "q.css"}, meta=[1]))
print("after failed re-init:", {k: str(v) for k, v in d.__dict__.items()})
show("re-init fails at head", lambda: d.__init__("other4", "4", meta=dict(me), all_files=True, head=object()))
print("after failed re-init:", {k: str(v) for k, v in d.__dict__.items()})


# subclass overriding the validator still sees the same calls in the same order
class Loud(HTMLDependency):
    def _validate_dicts(self, ld, req_attr):
        print("   validate", ld, req_attr, sorted(self.__dict__))
        super()._validate_dicts(ld, req_attr)


show("subclass", lambda: desc(Loud("nm", "1", script=dict(sc), stylesheet=[dict(st)], meta=dict(me), head="x")))
show("subclass none", lambda: desc(Loud("nm", "1")))

# generator arguments are consumed by validation, as before
show("script generator", lambda: (lambda d: (type(d.script).__name__, list(d.script)))(HTMLDependency("nm", "1", script=(x for x in [dict(sc)]))))

# rendering of results
d = HTMLDependency("nm", "1.5", script=dict(sc), stylesheet=[dict(st), dict(st_rel)], meta=dict(me), head="<!-- h -->")
print(d.as_html_tags()); print(d.as_dict()); print(d.serialize_to_script_json())
print(repr(d), str(HTMLDependency("e", "0")) == "")
