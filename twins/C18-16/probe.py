# Probe for refactoring 1: _resolve_dependencies / TagList.get_dependencies
from htmltools import (
    HTMLDependency, HTMLDocument, Tag, TagList, div, span, head_content, tags,
)
from htmltools import _core


def dep(name, version, **kw):
    return HTMLDependency(name, version, **kw)


def show(label, fn):
    try:
        r = fn()
        print(label, "->", repr(r))
    except BaseException as e:  # noqa
        print(label, "!!", type(e).__name__, str(e)[:80])


def ids(ds):
    return [(d.name, str(d.version), id_map.get(id(d), "?")) for d in ds]


id_map = {}


def mk(tag, name, version, **kw):
    d = dep(name, version, **kw)
    id_map[id(d)] = tag
    return d


a1 = mk("a1", "a", "1.0")
a2 = mk("a2", "a", "2.0")
a2b = mk("a2b", "a", "2.0")
a10 = mk("a10", "a", "1.10")
a19 = mk("a19", "a", "1.9")
b1 = mk("b1", "b", "1.0")
b01 = mk("b01", "b", "0.1")
c1 = mk("c1", "c", "1")
c100 = mk("c100", "c", "1.0.0")
e = mk("empty", "", "0")

cases = {
    "empty": [],
    "single": [a1],
    "dup_same_obj": [a1, a1],
    "upgrade": [a1, b1, a2],
    "no_downgrade": [a2, b1, a1],
    "equal_versions_keep_first": [a2, a2b],
    "equal_versions_keep_first_rev": [a2b, a2],
    "numeric_compare": [a19, a10, a1],
    "numeric_compare_rev": [a10, a19],
    "order_first_seen": [b1, a1, c1, a2, b01, c100],
    "c_equal_1_vs_100": [c1, c100],
    "c_equal_100_vs_1": [c100, c1],
    "empty_name": [e, a1, e],
    "many": [a1, b01, a10, c1, b1, a19, a2, c100, a2b, e],
}
for k, v in cases.items():
    show("resolve " + k, lambda v=v: ids(_core._resolve_dependencies(v)))
    show("resolve(tuple) " + k, lambda v=v: ids(_core._resolve_dependencies(tuple(v))))
    show("resolve(iter) " + k, lambda v=v: ids(_core._resolve_dependencies(iter(v))))

# return type is a fresh list
x = [a1]
r = _core._resolve_dependencies(x)
print("fresh list:", type(r).__name__, r is x, r == x)

# get_dependencies through trees
tree = TagList(
    a1,
    div(b1, span(a2, "txt", c1), a10, id="x"),
    TagList(b01, [c100, None, [a19]]),
    "text",
    e,
)
show("tl dedup", lambda: ids(tree.get_dependencies()))
show("tl dedup=True", lambda: ids(tree.get_dependencies(dedup=True)))
show("tl dedup=False", lambda: ids(tree.get_dependencies(dedup=False)))
show("tl dedup=0", lambda: ids(tree.get_dependencies(dedup=0)))
show("tl dedup='yes'", lambda: ids(tree.get_dependencies(dedup="yes")))
show("tl dedup=None", lambda: ids(tree.get_dependencies(dedup=None)))
show("tl dedup=[]", lambda: ids(tree.get_dependencies(dedup=[])))
t = div(tree, a2b)
show("tag dedup", lambda: ids(t.get_dependencies()))
show("tag dedup False", lambda: ids(t.get_dependencies(False)))
show("empty tl", lambda: TagList().get_dependencies())
show("empty tl nd", lambda: TagList().get_dependencies(dedup=False))
nd = TagList(a1, a1).get_dependencies(dedup=False)
print("non-dedup identity:", [d is a1 for d in nd])
show("positional dedup rejected", lambda: tree.get_dependencies(False))

# head_content names and dedup
h1 = head_content(tags.title("T"))
h2 = head_content(tags.title("T"))
h3 = head_content(tags.title("U"))
id_map[id(h1)] = "h1"; id_map[id(h2)] = "h2"; id_map[id(h3)] = "h3"
show("head dedup", lambda: ids(TagList(h1, div(h2), h3, h1).get_dependencies()))
show("render deps", lambda: [repr(d) for d in div(h1, a1, span(h2, a2), h3).render()["dependencies"]])
print(HTMLDocument(div(h1, a1, span(h2, a2), h3, b1)).render()["html"])

# Error paths
class Obj:
    pass

bad_ver = dep("a", "1.0"); bad_ver.version = "3.0"          # str vs Version
show("str vs Version", lambda: ids(_core._resolve_dependencies([a1, bad_ver])))
show("Version vs str", lambda: ids(_core._resolve_dependencies([bad_ver, a1])))
show("str vs str", lambda: [(d.name, d.version) for d in _core._resolve_dependencies([bad_ver, bad_ver])])
bad_ver2 = dep("a", "1.0"); bad_ver2.version = "10.0"
show("str vs str lexicographic", lambda: [(d.name, d.version) for d in _core._resolve_dependencies([bad_ver, bad_ver2])])
show("str vs str lexicographic rev", lambda: [(d.name, d.version) for d in _core._resolve_dependencies([bad_ver2, bad_ver])])
unh = dep("a", "1.0"); unh.name = ["list"]
show("unhashable name", lambda: ids(_core._resolve_dependencies([a1, unh])))
show("unhashable name first", lambda: ids(_core._resolve_dependencies([unh])))
none_name = dep("a", "1.0"); none_name.name = None
id_map[id(none_name)] = "none_name"
show("None name", lambda: [(d.name, id_map.get(id(d))) for d in _core._resolve_dependencies([none_name, a1, none_name])])
show("not a dep", lambda: _core._resolve_dependencies([a1, Obj()]))
show("None in list", lambda: _core._resolve_dependencies([None]))
show("None arg", lambda: _core._resolve_dependencies(None))
nover = dep("a", "1.0"); del nover.version
show("missing version first", lambda: ids(_core._resolve_dependencies([nover])))
show("missing version second", lambda: ids(_core._resolve_dependencies([a1, nover])))
show("missing version on stored", lambda: ids(_core._resolve_dependencies([nover, a1])))
tuple_name = dep("a", "1"); tuple_name.name = ("t", 1)
show("tuple name", lambda: [d.name for d in _core._resolve_dependencies([tuple_name, a1, tuple_name])])
# names equal under == but of different type (1 == 1.0 == True)
n1 = dep("a", "1"); n1.name = 1
n2 = dep("a", "2"); n2.name = 1.0
n3 = dep("a", "3"); n3.name = True
show("numeric names", lambda: [(d.name, str(d.version)) for d in _core._resolve_dependencies([n1, n2, n3])])
show("numeric names rev", lambda: [(d.name, str(d.version)) for d in _core._resolve_dependencies([n3, n2, n1])])
