import copy
import os
import sys
import tempfile

import htmltools
from htmltools import (
    HTML,
    HTMLDependency,
    HTMLDocument,
    HTMLTextDocument,
    Tag,
    TagList,
    div,
    head_content,
    span,
    tags,
)


def show(label, fn):
    try:
        res = fn()
    except BaseException as e:  # noqa
        print(label, "-> EXC", type(e).__name__, str(e)[:200])
    else:
        print(label, "->", repr(res))


def dep(name, version, **kw):
    return HTMLDependency(name, version, **kw)


d_a1 = dep("a", "1.0", source={"subdir": "libtest/testdep"}, script={"src": "a.js"})
d_a2 = dep(
    "a",
    "2.0",
    source={"href": "https://x.y/a"},
    script=[{"src": "a2.js", "defer": ""}],
    stylesheet={"href": "a2.css"},
    meta={"name": "viewport", "content": "width=device-width"},
    head="<script>var a = 2;</script>",
)
d_b = dep(
    "b",
    "0.1",
    source={"package": "htmltools", "subdir": "libtest"},
    stylesheet=[{"href": "b.css"}, {"href": "b2.css", "media": "print"}],
    head=TagList(tags.title("T & t"), tags.link(rel="icon", href="i.png")),
)
d_nosrc = dep("nosrc", "3")
hc = head_content(tags.style("p {color: red}"), "raw <text>")


class Tagif:
    def __init__(self, v):
        self.v = v

    def tagify(self):
        return self.v


def render_doc(doc, **kw):
    r = doc.render(**kw)
    return (sorted(r.keys()), r["html"], [(d.name, str(d.version)) for d in r["dependencies"]])


CONTENTS = {
    "empty": lambda: (),
    "str": lambda: ("hello <b>",),
    "html": lambda: (HTML("<i>x</i>"),),
    "num_none": lambda: (1, None, 2.5, [None, "z"]),
    "div_dep": lambda: (div("x", d_a1, id="i"),),
    "two_versions": lambda: (div(d_a1, span(d_a2)), d_b, d_a1),
    "dep_order": lambda: (d_b, d_a2, d_nosrc, div(hc, hc), d_a1),
    "only_dep": lambda: (d_nosrc,),
    "body_sole": lambda: (tags.body("in body", d_b, class_="c"),),
    "body_plus": lambda: (tags.body("in body"), "tail"),
    "two_bodies": lambda: (tags.body("b1"), tags.body("b2")),
    "html_sole": lambda: (
        tags.html(tags.head(tags.title("t"), d_a1), tags.body("B", d_b), lang="fr"),
    ),
    "html_nohead": lambda: (tags.html(d_a2, tags.body("B")),),
    "html_head_second": lambda: (
        tags.html(d_a1, tags.head(tags.title("t")), tags.body(), tags.head("second")),
    ),
    "html_nested_head": lambda: (tags.html(tags.body(tags.head("inner"), hc)),),
    "html_plus": lambda: (tags.html(tags.body("B")), "after"),
    "head_tag": lambda: (tags.head(tags.title("not hoisted")), div("y")),
    "tagifiable_html": lambda: (Tagif(tags.html(tags.body("tb", d_a1))),),
    "tagifiable_body": lambda: (Tagif(tags.body("tb2")),),
    "tagifiable_list": lambda: (Tagif(TagList("l1", d_b, div(Tagif(span(d_a2))))),),
    "tagifiable_str": lambda: (Tagif("just a str"),),
    "taglist_nested": lambda: (TagList(TagList(div("q")), "r"), [span("s")]),
    "noesc": lambda: (tags.script("a < b && c"), tags.style("x > y")),
    "inline": lambda: (span("a", span("b", _add_ws=False), _add_ws=False), "txt"),
    "upper_html": lambda: (Tag("HTML", "x"),),
    "html_subnamed": lambda: (Tag("html", "no body", d_nosrc, _add_ws=False),),
}

ATTRS = [{}, {"lang": "en"}, {"class_": "k", "data_x": True, "hidden": None, "n": 3}]
RENDER_KW = [
    {},
    {"lib_prefix": None},
    {"lib_prefix": ""},
    {"lib_prefix": "my/libs", "include_version": False},
]

for cname, mk in CONTENTS.items():
    for ai, attrs in enumerate(ATTRS):
        for ki, kw in enumerate(RENDER_KW):
            show(
                f"doc[{cname}][a{ai}][k{ki}]",
                lambda: render_doc(HTMLDocument(*mk(), **attrs), **kw),
            )

# inputs are not modified, and rendering twice gives the same thing
user_html = tags.html(tags.head(tags.title("t")), tags.body("B", d_b), lang="fr")
doc = HTMLDocument(user_html, id="root")
r1 = render_doc(doc)
r2 = render_doc(doc)
print("twice same", r1 == r2)
print("user html untouched", str(user_html), dict(user_html.attrs))

# append and copy
doc = HTMLDocument(div("one"), lang="en")
cp = copy.copy(doc)
doc.append(span("two"), d_a2, None, ["three", 4])
show("doc after append", lambda: render_doc(doc))
show("copy before append", lambda: render_doc(cp))
print("copy type", type(cp).__name__, sorted(cp.__dict__), cp._content is doc._content)
print("copy attrs shared", cp._html_attr_args is doc._html_attr_args, cp._html_attr_args == doc._html_attr_args)
cp.append("only in copy")
show("copy after own append", lambda: render_doc(cp))
show("doc unaffected", lambda: render_doc(doc))


class MyDoc(HTMLDocument):
    extra = "cls"

    def __init__(self, *a, **k):
        super().__init__(*a, **k)
        self.note = ["n"]


md = MyDoc(div("m"), d_nosrc)
mc = copy.copy(md)
print("subclass copy", type(mc).__name__, sorted(mc.__dict__), mc.note == md.note, mc.note is md.note)
show("subclass render", lambda: render_doc(mc))

# bad content
show("bad content", lambda: HTMLDocument(object()))
show("bad append", lambda: HTMLDocument().append({"a": 1}))
show("bad html attr", lambda: render_doc(HTMLDocument(div(), _add_ws=3)))
show("hoist non-html", lambda: HTMLDocument._hoist_head_content(div("x"), "lib", include_version=True))
show(
    "hoist direct",
    lambda: str(HTMLDocument._hoist_head_content(tags.html(tags.body(d_a2)), None, include_version=False)),
)

# Tag / TagList ordinary rendering
for cname, mk in CONTENTS.items():
    def tl_render():
        r = TagList(*mk()).render()
        return (list(r.keys()), r["html"], [(d.name, str(d.version)) for d in r["dependencies"]])

    def tag_render():
        r = div(*mk(), id="w").render()
        return (list(r.keys()), r["html"], [(d.name, str(d.version)) for d in r["dependencies"]])

    show(f"taglist.render[{cname}]", tl_render)
    show(f"tag.render[{cname}]", tag_render)
    show(f"str(taglist)[{cname}]", lambda: str(TagList(*mk())))
    show(f"tag.get_dependencies(dedup=False)[{cname}]", lambda: [(d.name, str(d.version)) for d in div(*mk()).get_dependencies(dedup=False)])

htmltools.html_dependency_render_mode = "json"
show("json mode taglist", lambda: str(TagList(div("x", d_a2), d_b)))
show("json mode tag", lambda: repr(div("x", d_nosrc)))
htmltools.html_dependency_render_mode = "default"

# Tag copy
t = div("c", span("d"), d_a1, id="x", class_="y")
tc = copy.copy(t)
print("tag copy", type(tc).__name__, sorted(tc.__dict__), tc == t, tc.children is t.children, tc.attrs is t.attrs, tc.children[1] is t.children[1])
tc.append("more")
tc.attrs["id"] = "z"
print("tag after copy mutated", str(t), "|", str(tc))


class MyTag(Tag):
    def __init__(self, *a, **k):
        super().__init__("mytag", *a, **k)
        self.extra = {"k": [1]}


mt = MyTag("x")
mtc = copy.copy(mt)
print("subclass tag copy", type(mtc).__name__, sorted(mtc.__dict__), mtc.extra is mt.extra, mtc.extra["k"] is mt.extra["k"])

# HTMLTextDocument
TEMPLATE = "<html><head><!-- deps --></head><body><!-- deps -->x</body></html>"
for deps in ([], [d_a1], [d_a1, d_a2, d_b], [hc, d_nosrc]):
    for kw in RENDER_KW:
        def go():
            td = HTMLTextDocument(TEMPLATE, deps=list(deps), deps_replace_pattern="<!-- deps -->")
            r = td.render(**kw)
            return (list(r.keys()), r["html"], [(d.name, str(d.version)) for d in r["dependencies"]], r["dependencies"] is td._deps)

        show(f"textdoc[{[d.name for d in deps]}][{kw}]", go)

show("textdoc no pattern", lambda: HTMLTextDocument("<html></html>", deps=[d_a1]))
show("textdoc none", lambda: HTMLTextDocument("<html></html>").render())
ser = str(d_a2.serialize_to_script_json()) + str(d_b.serialize_to_script_json(indent=2))
show(
    "textdoc serialized",
    lambda: (lambda r: (r["html"], [(d.name, str(d.version)) for d in r["dependencies"]]))(
        HTMLTextDocument(
            "<html><head>@@</head><body>" + ser + ser + "</body></html>",
            deps=[d_nosrc],
            deps_replace_pattern="@@",
        ).render(lib_prefix="L")
    ),
)


# save_html
def listing(root):
    out = []
    for dp, dn, fn in os.walk(root):
        dn.sort()
        for f in sorted(fn):
            full = os.path.join(dp, f)
            out.append((os.path.relpath(full, root), open(full).read() if f.endswith(".html") else os.path.getsize(full)))
    return out


pkg_dep = dep("pk", "1.1", source={"package": "htmltools", "subdir": "libtest/testdep"}, script={"src": "testdep.js"}, stylesheet={"href": "testdep.css"})
for i, (obj, kw) in enumerate(
    [
        (HTMLDocument(div("s", pkg_dep), lang="en"), {}),
        (HTMLDocument(div("s", pkg_dep)), {"libdir": None}),
        (HTMLDocument(div("s", pkg_dep)), {"libdir": "deps/here", "include_version": False}),
        (div("s", pkg_dep), {}),
        (div("s", pkg_dep), {"libdir": "L2", "include_version": False}),
        (TagList("s", pkg_dep, span("t")), {}),
        (TagList("s", pkg_dep, span("t")), {"libdir": None}),
        (tags.html(tags.body("s", pkg_dep)), {"libdir": ""}),
    ]
):
    with tempfile.TemporaryDirectory() as td:
        f = os.path.join(td, "sub.html")
        try:
            ret = obj.save_html(f, **kw)
            print(f"save[{i}]", ret == f, listing(td))
        except BaseException as e:  # noqa
            print(f"save[{i}] EXC", type(e).__name__, str(e)[:100])
show("save positional tag", lambda: div().save_html("x.html", "lib"))


# --- specific to refactoring 5: the "is this a tag named X" tests in _gen_html_tag_tree
# and in the search for the <head> child.
class NameLog(Tag):
    @property
    def name(self):
        print("  name read ->", self._n)
        return self._n

    @name.setter
    def name(self, v):
        self._n = v


class EqLog(str):
    def __eq__(self, other):
        print("  eq", str(self), other)
        return str(self) == other

    def __ne__(self, other):
        print("  ne", str(self), other)
        return str(self) != other

    __hash__ = str.__hash__


for nm in ("html", "body", "div", "HEAD", "", "head"):
    show(f"namelog sole [{nm}]", lambda: render_doc(HTMLDocument(NameLog(nm, "c", d_nosrc), lang="x")))
    show(f"namelog pair [{nm}]", lambda: render_doc(HTMLDocument(NameLog(nm, "c"), "z")))
    show(f"eqlog sole [{nm}]", lambda: render_doc(HTMLDocument(Tag(EqLog(nm), "c"))))
    show(f"namelog tagifiable [{nm}]", lambda: render_doc(HTMLDocument(Tagif(NameLog(nm, Tagif(span("in")))))))

# search for <head> among the children of a user <html>
show(
    "head search stops at first",
    lambda: render_doc(
        HTMLDocument(
            tags.html(
                "text",
                HTML("<!-- c -->"),
                d_a1,
                NameLog("div", "before"),
                NameLog("head", "first head"),
                NameLog("head", "second head"),
                NameLog("body", "b"),
            )
        )
    ),
)
show(
    "head search no head",
    lambda: render_doc(HTMLDocument(tags.html("text", d_b, NameLog("header", "x"), NameLog("Head", "y"), NameLog("body", "b")))),
)
show("head search empty html", lambda: render_doc(HTMLDocument(tags.html())))
show("head search only text", lambda: render_doc(HTMLDocument(tags.html("head"))))
show("head last", lambda: render_doc(HTMLDocument(tags.html(tags.body("b"), tags.head(tags.title("late"))))))
show("head in tagifiable child", lambda: render_doc(HTMLDocument(tags.html(Tagif(tags.head("th")), tags.body()))))
show("head from taglist child", lambda: render_doc(HTMLDocument(tags.html(Tagif(TagList("pre", tags.head("th"))), tags.body()))))
show("eqlog head", lambda: render_doc(HTMLDocument(tags.html(Tag(EqLog("x"), "1"), Tag(EqLog("head"), "2"), Tag(EqLog("head"), "3")))))
user = tags.html(tags.head("keep"), tags.body())
show("user head untouched", lambda: (render_doc(HTMLDocument(user))[1], str(user)))
show("hoist on non-tag", lambda: HTMLDocument._hoist_head_content("html", "lib", include_version=True))
show("fragment with html inside", lambda: render_doc(HTMLDocument(div(tags.html(tags.head("nested"))))))
