"""Probe for refactoring 5: Tag.render / TagList.render share _render_impl;
_render_tag_or_taglist uses a guard clause and a generator for the json mode."""
import os
import tempfile

import htmltools as ht
from htmltools import (
    HTML,
    HTMLDependency,
    HTMLDocument,
    Tag,
    TagList,
    div,
    head_content,
    span,
    tags,
)

CALLS = []


def show(label, fn):
    try:
        out = fn()
        print(label, "->", type(out).__name__, repr(out))
    except BaseException as e:  # noqa
        print(label, "!!", type(e).__name__, str(e)[:110])


class Tagi:
    def __init__(self, v, tag="t"):
        self.v = v
        self.tag = tag

    def tagify(self):
        CALLS.append(("tagify", self.tag))
        return self.v


class BoomTagify:
    def tagify(self):
        raise LookupError("boom tagify")


class Rep:
    def _repr_html_(self):
        CALLS.append(("repr_html",))
        return "<b>rep & raw</b>"


class MyTag(Tag):
    def tagify(self):
        CALLS.append(("MyTag.tagify",))
        return super().tagify()

    def get_dependencies(self, dedup=True):
        CALLS.append(("MyTag.get_dependencies", dedup))
        return super().get_dependencies(dedup=dedup)

    def get_html_string(self, indent=0, eol="\n"):
        CALLS.append(("MyTag.get_html_string", indent, eol))
        return super().get_html_string(indent, eol)


class MyList(TagList):
    def tagify(self):
        CALLS.append(("MyList.tagify",))
        return super().tagify()


class OddRender(Tag):
    def render(self):
        return {"dependencies": [], "html": HTML("<odd>&")}


class NoHtmlKey(Tag):
    def render(self):
        return {"dependencies": []}


dep_a = HTMLDependency("a-dep", "1.0", head="<meta name='a' content='</script><b>'>")
dep_b = HTMLDependency(
    "b-dep", "2.1.3", source={"subdir": "/nowhere"}, script={"src": "b.js"}, stylesheet={"href": "b.css"}
)
dep_a2 = HTMLDependency("a-dep", "1.2")

TEXTS = ["", "plain", "a<b & c>d", "</script><script>alert(1)</script>", "<!-- c -->", "&amp; &#60;", "é\n\t\"'"]


def objects():
    out = []
    for t in TEXTS:
        out.append(("div1 %r" % t, div(t)))
        out.append(("div2 %r" % t, div(t, span(t), t, 4, 2.5)))
        out.append(("script %r" % t, tags.script(t)))
        out.append(("style2 %r" % t, tags.style(t, t)))
        out.append(("tl %r" % t, TagList(t, HTML(t), div(t), None, [t, 1])))
        out.append(("tagi %r" % t, div(Tagi(t), Tagi(TagList(t, span(t), 7)))))
        out.append(("tl-tagi %r" % t, TagList(Tagi(t), Tagi(TagList(Tagi(t, "inner"))))))
        out.append(("deps %r" % t, div(t, dep_a, span(dep_b, t), dep_a2, head_content(tags.title(t)))))
        out.append(("tl-deps %r" % t, TagList(dep_b, t, dep_a, div(dep_a2))))
        out.append(("mytag %r" % t, MyTag("section", t, Rep(), dep_a, id=t)))
        out.append(("mylist %r" % t, MyList(t, MyTag("em", t))))
    out.append(("empty div", div()))
    out.append(("empty tl", TagList()))
    out.append(("void", tags.br()))
    out.append(("only dep", TagList(dep_a)))
    out.append(("odd", OddRender("x")))
    out.append(("nokey", NoHtmlKey("x")))
    out.append(("boom", div("a<", BoomTagify())))
    out.append(("tl boom", TagList("a<", BoomTagify())))
    return out


def dep_summary(deps):
    return [(d.name, str(d.version)) for d in deps]


for mode in ("invisible", "json", "other", None):
    ht.html_dependency_render_mode = mode
    print("=== mode", repr(mode))
    for lab, obj in objects():
        CALLS.clear()

        def rnd():
            r = obj.render()
            return (sorted(r.keys()), type(r).__name__, r["html"], dep_summary(r["dependencies"]))

        show(f"render {lab}", rnd)
        print("   calls:", CALLS)
        CALLS.clear()
        show(f"str {lab}", lambda: str(obj))
        print("   calls:", CALLS)
        show(f"repr {lab}", lambda: repr(obj))
        show(f"_repr_html_ {lab}", lambda: obj._repr_html_())
        show(f"fmt {lab}", lambda: "{}|{!s}|{!r}".format(obj, obj, obj))
ht.html_dependency_render_mode = "invisible"

# rendering does not modify the original
orig = div("a<", Tagi("t&"), dep_a)
before = (len(orig.children), [type(c).__name__ for c in orig.children])
r1 = orig.render()
r2 = orig.render()
print("original untouched:", before == (len(orig.children), [type(c).__name__ for c in orig.children]))
print("fresh dicts:", r1 is not r2, r1 == r2, r1["dependencies"] is not r2["dependencies"])

# documents and files
for mode in ("invisible", "json"):
    ht.html_dependency_render_mode = mode
    for lab, obj in objects()[:22]:
        show(f"doc[{mode}] {lab}", lambda: HTMLDocument(obj).render()["html"])
    with tempfile.TemporaryDirectory() as d:
        for k, (lab, obj) in enumerate(objects()[:11]):
            path = os.path.join(d, "f%d.html" % k)

            def save():
                ret = obj.save_html(path, libdir=None)
                with open(path) as f:
                    return (os.path.basename(ret), f.read())

            show(f"save[{mode}] {lab}", save)
ht.html_dependency_render_mode = "invisible"

# display-hook entry point ends in str()/repr of the tag
import sys

saved = sys.displayhook
try:
    with div("ctx<") as _:
        sys.displayhook("shown & <told>")
        sys.displayhook(Rep())
        sys.displayhook(Tagi("late<"))
except BaseException as e:  # noqa
    print("ctx !!", type(e).__name__)
finally:
    sys.displayhook = saved
