"""Probe for refactoring 2: _tagchilds_to_tagnodes split into a per-item helper."""
import htmltools
from htmltools import HTML, Tag, TagList, div, span, tags, HTMLDocument, HTMLDependency
from htmltools import _core

LOG = []


def show(label, fn):
    try:
        out = fn()
        print(label, "->", repr(out))
    except BaseException as e:  # noqa
        print(label, "!!", type(e).__name__, str(e)[:120])


class StrSub(str):
    pass


class IntSub(int):
    def __str__(self):
        return "IntSub<%d>" % int(self)


class FloatSub(float):
    def __str__(self):
        return "FloatSub<%r>" % float(self)


class Tagi:
    def __init__(self, v):
        self.v = v

    def tagify(self):
        return self.v

    def __repr__(self):
        return "Tagi(...)"


class Rep:
    def _repr_html_(self):
        return "<b>rep</b>"

    def __repr__(self):
        return "Rep()"


class Meta(htmltools.MetadataNode):
    def __repr__(self):
        return "Meta()"


class Spy:
    """Invalid child that records every attribute probe made on it."""

    def __init__(self, name):
        object.__setattr__(self, "_n", name)

    def __getattr__(self, attr):
        LOG.append((object.__getattribute__(self, "_n"), attr))
        raise AttributeError(attr)

    def __repr__(self):
        return "Spy(%s)" % object.__getattribute__(self, "_n")


class Boom:
    """Iterable that fails midway."""

    def __iter__(self):
        yield "a<"
        raise ValueError("boom")


def describe(lst):
    return [(type(x).__name__, repr(x) if not isinstance(x, (Tag, TagList)) else str(x)) for x in lst]


ITEMS = [
    "",
    "a<b & c>",
    StrSub("sub<"),
    HTML("<raw>"),
    0,
    7,
    -3,
    True,
    False,
    IntSub(4),
    1.5,
    -0.0,
    float("inf"),
    float("nan"),
    FloatSub(2.25),
    10**25,
    None,
    [],
    (),
    ["x<", ["y&", ("z>", None, 3)]],
    TagList("in<", 2),
    TagList(),
    span("s<"),
    Tagi("t<"),
    Rep(),
    Meta(),
    HTMLDependency("d", "1.0"),
]

INVALID = [
    b"bytes",
    bytearray(b"ba"),
    object,
    3 + 4j,
    {"a": 1},
    {1, 2}.__class__(),
    frozenset(),
    range(3),
    iter(["a"]),
    (x for x in "ab"),
    lambda: 1,
    Ellipsis,
    NotImplemented,
    Spy("s1"),
]

ITEMS_SAFE = _core.TagList  # placeholder, replaced below


class _Safe:
    def __contains__(self, it):
        return any(it is x for x in ITEMS)


ITEMS_SAFE = _Safe()

# --- direct calls of the helper
for it in ITEMS:
    show(f"helper [{it!r}]", lambda: describe(_core._tagchilds_to_tagnodes([it])))
    show(f"helper ({it!r},)", lambda: describe(_core._tagchilds_to_tagnodes((it, "tail&"))))
for it in INVALID:
    show(f"helper invalid {type(it).__name__}", lambda: describe(_core._tagchilds_to_tagnodes(["ok", it, "after"])))
for whole in ["", "abc<", StrSub("whole&"), HTML("<h>"), 5, None, 2.5, Boom(), "a", range(2), iter(["p<", 1]), (x for x in ["g&", None, 2]), {"k": 1}, b"xy", TagList("q", 1), span("a")]:
    show(f"helper whole {type(whole).__name__}", lambda: describe(_core._tagchilds_to_tagnodes(whole)))

# identity / freshness of the result
src = ["a", 1, [2, "b"]]
res = _core._tagchilds_to_tagnodes(src)
print("fresh list:", res is not src, src, res)
s0 = StrSub("keep")
h0 = HTML("keep")
res = _core._tagchilds_to_tagnodes([s0, h0])
print("identity preserved:", res[0] is s0, res[1] is h0, type(res).__name__)

# order of checks and short-circuit on first invalid item
LOG.clear()
show("spy order", lambda: _core._tagchilds_to_tagnodes(["a", Spy("A"), 3, Spy("B")]))
print("spy log:", LOG)
LOG.clear()
show("spy order nested", lambda: _core._tagchilds_to_tagnodes([[1, [Spy("N1")]], Spy("N2")]))
print("spy log nested:", LOG)

# --- through the public API: constructor, append, extend, insert, +, +=, radd
for it in ITEMS + INVALID:
    lab = f"{type(it).__name__} {it!r:.40}" if it in ITEMS_SAFE else type(it).__name__
    show(f"TagList({lab})", lambda: describe(TagList("h<", it, "t>")))
    show(f"div({lab})", lambda: str(div("h<", it, "t>")))
    show(f"script({lab})", lambda: str(tags.script("h<", it, "t>")))

    def ap():
        x = div("0&")
        x.append(it)
        x.append(it, "two<")
        return str(x)

    def ex():
        x = div("0&")
        x.extend([it, [it]])
        return str(x)

    def ins():
        x = div("0&", "1&")
        x.insert(1, it)
        x.children.insert(0, it)
        x.children.insert(-1, [it, "k<"])
        return str(x)

    def add():
        tl = TagList("0&")
        a = tl + [it]
        b = [it] + tl
        tl += [it]
        return (str(a), str(b), str(tl))

    show(f"append {lab}", ap)
    show(f"extend {lab}", ex)
    show(f"insert {lab}", ins)
    show(f"add {lab}", add)
    show(f"doc {lab}", lambda: HTMLDocument("h<", it).render()["html"])

# failure must leave the container untouched
x = div("keep<")
show("append invalid", lambda: x.append("new", b"bad"))
show("extend invalid", lambda: x.extend(["new", object()]))
show("insert invalid", lambda: x.insert(0, ["new", 1j]))
print("after failures:", str(x), len(x.children))

# tagify expansion paths (TagList returned from tagify is re-normalised)
show("tagify TagList", lambda: str(div(Tagi(TagList("<a>", 1, 2.5, HTML("<b>"), None, ["n<"])), "z&")))
show("tagify str", lambda: str(div(Tagi("<s>&"))))
show("tagify nested", lambda: str(TagList(Tagi(TagList(Tagi("deep<"), 9)))))


def corrupt():
    inner = TagList("ok")
    inner.data.append(12)  # bypass normalisation
    inner.data.append(None)
    return describe(TagList(Tagi(inner)).tagify())


show("tagify corrupted TagList", corrupt)


def corrupt2():
    inner = TagList("ok")
    inner.data.append(b"raw")
    return describe(TagList(Tagi(inner)).tagify())


show("tagify corrupted TagList invalid", corrupt2)
show("tag.tagify", lambda: str(div(Tagi(TagList(1, "a<")), 2).tagify()))
