# Probe for refactoring 4: the void / no-escape tag-name tables consulted by Tag.get_html_string
import htmltools
from htmltools import HTML, Tag, TagList, HTMLDependency, div, span, tags, svg
from htmltools import _core


class StrSub(str):
    pass


class OddHash(str):
    # equal to "br" / hashes like "br", but spelled differently
    def __hash__(self):
        return hash("br")

    def __eq__(self, other):
        return str.__eq__(self, other) or other == "br"


class Repr:
    def _repr_html_(self):
        return "<r>&</r>"


def show(label, fn):
    try:
        r = fn()
        print(label, "->", type(r).__name__, repr(r))
    except BaseException as e:  # noqa
        print(label, "!!", type(e).__name__, str(e))


# table contents (order-independent view) and membership behaviour
for tbl_name in ("_VOID_TAG_NAMES", "_NO_ESCAPE_TAG_NAMES"):
    tbl = getattr(_core, tbl_name)
    print(tbl_name, len(tbl), sorted(tbl))
    for probe in ("br", "BR", "script", "style", "", " br", "br ", StrSub("img"), None, 5, ("br",)):
        show(f"  {probe!r} in {tbl_name}", lambda: probe in tbl)
    show(f"  [] in {tbl_name}", lambda: [] in tbl)
    show(f"  set() in {tbl_name}", lambda: set() in tbl)
    show(f"  {{'br'}} in {tbl_name}", lambda: {"br"} in tbl)

dep = HTMLDependency("x", "1.0", source={"subdir": "."}, script={"src": "x.js"})

names = sorted(
    {n for n in dir(tags) if not n.startswith("_") and callable(getattr(tags, n)) and n not in ("Tag",)}
    | {"area", "base", "br", "col", "command", "embed", "hr", "img", "input", "keygen", "link", "meta",
       "param", "source", "track", "wbr", "script", "style", "SCRIPT", "Br", "x-y", "", "brr", "b", "scriptx"}
)
print(len(names))
child_sets = {
    "none": (),
    "dep only": (dep,),
    "text": ("a<b&c",),
    "html": (HTML("a<b&c"),),
    "empty text": ("",),
    "two texts": ("a<b", "&c"),
    "text+html+repr": ("<", HTML("<"), Repr()),
    "inline tag": (span("<"),),
    "mixed": ("<", span("i"), div("b"), "&"),
}
for name in names:
    for label, kids in child_sets.items():
        for ws in (True, False):
            show(f"<{name}> {label} ws={ws}", lambda: Tag(name, *kids, _add_ws=ws, id="i").get_html_string(1))

# the wrapper functions themselves
for fn_name in ("br", "hr", "img", "input", "link", "meta", "script", "style", "span", "div", "wbr", "source", "col"):
    fn = getattr(tags, fn_name)
    show(f"tags.{fn_name}()", lambda: str(fn()))
    show(f"tags.{fn_name}('x<y')", lambda: str(fn("x<y")))
    show(f"tags.{fn_name}('x<y', span('&'), 'z')", lambda: str(fn("x<y", span("&"), "z")))
show("svg.script", lambda: str(svg.script("a<b", "c>d")))
show("svg.style", lambda: str(svg.style("a<b")))
show("svg.a", lambda: str(svg.a("a<b", svg.a())))

# names that are not plain strings
show("strsub void", lambda: Tag(StrSub("hr")).get_html_string())
show("strsub noescape", lambda: Tag(StrSub("style"), "a>b", "c").get_html_string())
show("oddhash", lambda: Tag(OddHash("zz")).get_html_string())
show("oddhash kids", lambda: Tag(OddHash("zz"), "k").get_html_string())
show("name None", lambda: Tag(None).get_html_string())
show("name tuple", lambda: Tag(("br",)).get_html_string())
show("name list", lambda: Tag(["br"]).get_html_string())

# void tags inside inline content: nothing injected around them
show("inline with void", lambda: str(span("a", tags.br(), "b", tags.img(src="s"), tags.wbr(), span(tags.hr()))))
show("block with void", lambda: str(div("a", tags.br(), "b", tags.hr(), "c")))
show("script in span", lambda: str(span(tags.script("1<2"), tags.script("1<2", "3>4"), tags.style(HTML("x>y")))))
show("doc", lambda: htmltools.HTMLDocument(div(tags.br(), tags.script("a<b"))).render()["html"])
