"""Probe for property C13 (serialised dependencies round-trip through HTML text).

Prints deterministic reprs of outputs / exception types for the code paths:
  HTMLDependency.serialize_to_script_json
  HTMLTextDocument.__init__ / _extract_serialized_html_deps /
      _static_extract_serialized_html_deps / render
  _render_tag_or_taglist (json render mode)
"""

import json
import re

import htmltools
from htmltools import (
    HTML,
    HTMLDependency,
    HTMLDocument,
    HTMLTextDocument,
    Tag,
    TagList,
    div,
    head_content,
    span,
    tags,
)
from htmltools import _core


def show(label, fn):
    try:
        out = fn()
    except BaseException as e:  # noqa: BLE001
        print(f"{label}: EXC {type(e).__name__}: {e}")
    else:
        print(f"{label}: {out!r}")


def dep_fields(d):
    return (
        d.name,
        str(d.version),
        d.source,
        d.script,
        d.stylesheet,
        d.meta,
        d.all_files,
        None if d.head is None else d.head.get_html_string(),
    )


NASTY = [
    "</script>",
    "</SCRIPT>",
    "</ScRiPt >",
    "</script",
    "<\\/script>",
    "</",
    "<//",
    "<<//script>",
    "<!-- </script> -->",
    "   é \U0001f600",
    'quote " and \\ backslash',
    "line\nbreak\r\nand\ttab",
    "",
    "&amp; <b> '",
]


def make_deps():
    deps = []
    deps.append(HTMLDependency("plain", "1.0"))
    deps.append(
        HTMLDependency(
            "full",
            "2.3.4",
            source={"package": "htmltools", "subdir": "libtest"},
            script=[{"src": "a.js"}, {"src": "b c.js", "defer": ""}],
            stylesheet={"href": "s.css"},
            meta={"name": "viewport", "content": "width=device-width"},
            all_files=True,
            head="<link rel='x' href='y'>",
        )
    )
    deps.append(
        HTMLDependency(
            "href-src",
            "0.1",
            source={"href": "https://example.com/lib"},
            script={"src": "x.js"},
            stylesheet=[{"href": "x.css", "rel": "preload"}],
            head=TagList(tags.script("var a = 1 < 2;"), tags.style("p{}")),
        )
    )
    for i, s in enumerate(NASTY):
        deps.append(
            HTMLDependency(
                f"nasty{i}" + s,
                "1." + str(i),
                source={"href": "h" + s},
                script={"src": "s" + s, "data-x": s},
                stylesheet={"href": "c" + s},
                meta={"name": "n" + s, "content": s},
                head=s,
            )
        )
    deps.append(HTMLDependency("taghead", "3", head=div("x", span("</script>"))))
    deps.append(HTMLDependency("emptyhead", "3", head=""))
    deps.append(HTMLDependency("emptytaglist", "3", head=TagList()))
    return deps


print("=== 1. serialize_to_script_json ===")
for d in make_deps():
    for indent in (None, 0, 2):
        tag = d.serialize_to_script_json(indent=indent)
        s = tag.get_html_string()
        print(repr(d.name), indent, repr(s))
        inner = s[s.index(">") + 1 : s.rindex("</script>")]
        print("  attrs:", repr(dict(tag.attrs)), "name:", tag.name, "nchild:", len(tag.children))
        print("  no-end-tag-inside:", "</script" not in inner.lower(), "no '</':", "</" not in inner)
        print("  json-eq:", dep_fields(HTMLDependency(**json.loads(inner))) == dep_fields(d))
show("serialize positional indent", lambda: HTMLDependency("p", "1").serialize_to_script_json(4).get_html_string())
show("serialize str(tag)", lambda: str(HTMLDependency("p", "1", head="<i>").serialize_to_script_json()))


def bad_version():
    d = HTMLDependency("p", "1")
    d.version = object.__new__(BadStr)
    return d.serialize_to_script_json()


class BadStr:
    def __str__(self):
        raise RuntimeError("bad str")


class BadHead:
    def __init__(self):
        pass


def bad_head():
    d = HTMLDependency("p", "1")
    d.head = 5  # not a TagList; TagList(5) -> "5"
    return d.serialize_to_script_json().get_html_string()


def bad_head2():
    d = HTMLDependency("p", "1")
    d.head = object()
    return d.serialize_to_script_json().get_html_string()


def bad_both():
    d = HTMLDependency("p", "1")
    d.version = object.__new__(BadStr)
    d.head = object()
    return d.serialize_to_script_json()


def unserialisable():
    d = HTMLDependency("p", "1")
    d.source = {"href": {1, 2}}
    return d.serialize_to_script_json()


def no_attr():
    d = HTMLDependency("p", "1")
    del d.meta
    return d.serialize_to_script_json()


show("serialize bad version", bad_version)
show("serialize int head", bad_head)
show("serialize object head", bad_head2)
show("serialize bad version+head", bad_both)
show("serialize unserialisable", unserialisable)
show("serialize missing attr", no_attr)

print("=== 2. _static_extract_serialized_html_deps ===")
extract = HTMLTextDocument._static_extract_serialized_html_deps


def run_extract(html):
    out_html, deps = extract(html)
    return (out_html, [dep_fields(d) for d in deps], type(deps).__name__)


deps = make_deps()
ser = [d.serialize_to_script_json().get_html_string() for d in deps]
ser2 = [d.serialize_to_script_json(indent=2).get_html_string() for d in deps]
OPEN = '<script type="application/json" data-html-dependency="">'

texts = {
    "empty": "",
    "no deps": "<html><body>hi</body></html>",
    "one": "A" + ser[0] + "B",
    "dup same": "A" + ser[1] + "B" + ser[1] + "C" + ser[1],
    "dup diff indent": ser[1] + "|" + ser2[1] + "|" + ser[1] + "|" + ser2[1],
    "order": "".join(f"[{i}]" + s for i, s in enumerate(ser)),
    "reverse order": "".join(f"[{i}]" + s for i, s in enumerate(reversed(ser))),
    "interleaved dup": ser[2] + ser[0] + ser[2] + ser[1] + ser[0] + ser2[2],
    "all indented": "\n".join(ser2),
    "adjacent": ser[0] + ser[0] + ser[3] + ser[3],
    "upper-case close is not a close": OPEN + '{"name":"a","version":"1"}</SCRIPT>' + "tail",
    "upper then lower": OPEN + '{"name":"a","version":"1"}</SCRIPT> </script>' + "tail",
    "other script types stay": '<script type="application/json">{"a":1}</script>' + ser[0] + "<script>1</script>",
    "attr order differs": '<script data-html-dependency="" type="application/json">{"name":"a","version":"1"}</script>',
    "single quotes": "<script type='application/json' data-html-dependency=''>{\"name\":\"a\",\"version\":\"1\"}</script>",
    "unterminated": "x" + OPEN + '{"name":"a","version":"1"}',
    "open inside open": OPEN + OPEN + '{"name":"a","version":"1"}</script></script>',
    "crlf body": OPEN + '{\r\n"name":\r"a",\n"version":"1"}</script>',
    "ws only dup": OPEN + '{"name":"a","version":"1"}</script>' + OPEN + '{"name":"a", "version":"1"}</script>',
    "extra keys head": OPEN + '{"name":"a","version":"1","head":"<b>x</b>"}</script>',
    "null fields": OPEN + '{"name":"a","version":"1","source":null,"script":null,"stylesheet":null,"meta":null,"head":null,"all_files":false}</script>',
}
for k, v in texts.items():
    show("extract " + k, lambda v=v: run_extract(v))

bad_texts = {
    "empty body": OPEN + "</script>",
    "invalid json": "a" + OPEN + "{not json}</script>b",
    "json list": OPEN + "[1,2]</script>",
    "json str": OPEN + '"abc"</script>',
    "json int": OPEN + "3</script>",
    "json null": OPEN + "null</script>",
    "missing version": OPEN + '{"name":"a"}</script>',
    "unknown key": OPEN + '{"name":"a","version":"1","bogus":1}</script>',
    "bad version": OPEN + '{"name":"a","version":"not a version"}</script>',
    "bad source": OPEN + '{"name":"a","version":"1","source":"str"}</script>',
    "bad source keys": OPEN + '{"name":"a","version":"1","source":{}}</script>',
    "bad script": OPEN + '{"name":"a","version":"1","script":[{"nosrc":1}]}</script>',
    "bad script type": OPEN + '{"name":"a","version":"1","script":[1]}</script>',
    "good then bad": ser[0] + OPEN + "{oops</script>",
    "bad then good": OPEN + "{oops</script>" + ser[0],
    "bad dup bad": OPEN + "[1]</script>" + OPEN + "{oops</script>" + OPEN + "[1]</script>",
    "int version": OPEN + '{"name":"a","version":1}</script>',
    "int name": OPEN + '{"name":7,"version":"1"}</script>',
}
for k, v in bad_texts.items():
    show("extract bad " + k, lambda v=v: run_extract(v))

show("extract bytes", lambda: run_extract(b"abc"))
show("extract None", lambda: run_extract(None))
show("extract int", lambda: run_extract(3))
show("extract HTML obj", lambda: run_extract(HTML("a" + ser[0] + "b")))
show("extract bytearray", lambda: run_extract(bytearray(b"abc")))


class MyStr(str):
    pass


show("extract str subclass", lambda: (lambda r: (r, type(extract(MyStr("q"))[0]).__name__))(run_extract(MyStr("x" + ser[0]))))
show("extract result types", lambda: [type(x).__name__ for x in extract("a" + ser[1])])
show("extract big", lambda: (lambda r: (len(r[0]), len(r[1])))(run_extract(("x" * 1000 + ser[1] + "\n" * 50) * 30 + ser[0])))

print("=== 3. HTMLTextDocument construction ===")


def doc_state(doc):
    return (doc._html, [dep_fields(d) for d in doc._deps], doc._deps_replace_pattern)


show("ctor plain", lambda: doc_state(HTMLTextDocument("abc")))
show("ctor pattern only", lambda: doc_state(HTMLTextDocument("abc" + ser[0], deps_replace_pattern="X")))
show("ctor deps w/o pattern", lambda: HTMLTextDocument("abc", deps=[deps[0]]))
show("ctor empty deps w/o pattern", lambda: HTMLTextDocument("abc", deps=[]))
show("ctor deps+pattern", lambda: doc_state(HTMLTextDocument("a" + ser[1] + "b" + ser[0], deps=[deps[2]], deps_replace_pattern="P")))
show("ctor positional", lambda: doc_state(HTMLTextDocument("a" + ser[1], [deps[2], deps[2]], "P")))
show("ctor tuple deps", lambda: HTMLTextDocument("a", (deps[0],), "P"))
show("ctor tuple deps no found", lambda: doc_state(HTMLTextDocument("a", (), "P")))
show("ctor bad json", lambda: HTMLTextDocument("a" + OPEN + "{</script>", deps_replace_pattern="P"))
show("ctor None html", lambda: HTMLTextDocument(None))
show("ctor bytes html", lambda: HTMLTextDocument(b"a"))


def ctor_alias():
    mine = [deps[0]]
    doc = HTMLTextDocument("a" + ser[1], deps=mine, deps_replace_pattern="P")
    return (doc._deps is mine, [d.name for d in mine])


show("ctor aliases caller list", ctor_alias)


def ctor_failure_leaves_list():
    mine = [deps[0]]
    try:
        HTMLTextDocument(ser[1] + OPEN + "{</script>", deps=mine, deps_replace_pattern="P")
    except Exception as e:  # noqa: BLE001
        return (type(e).__name__, [d.name for d in mine])


show("ctor failure leaves list", ctor_failure_leaves_list)


def extract_twice():
    doc = HTMLTextDocument("a" + ser[1] + "b", deps_replace_pattern="P")
    doc._html += ser[0] + ser[1]
    doc._extract_serialized_html_deps()
    return doc_state(doc)


show("extract method twice", extract_twice)

print("=== 4. HTMLTextDocument.render ===")


def rend(doc, **kw):
    r = doc.render(**kw)
    return (r["html"], [dep_fields(d) for d in r["dependencies"]], sorted(r.keys()), type(r["html"]).__name__)


PH = "<!-- deps -->"
page = "<html><head>" + PH + "</head><body>" + PH + " text " + PH + "</body></html>"
show("render no deps", lambda: rend(HTMLTextDocument(page, deps_replace_pattern=PH)))
show("render no deps empty list", lambda: rend(HTMLTextDocument(page, deps=[], deps_replace_pattern=PH)))
show("render one", lambda: rend(HTMLTextDocument(page, deps=[deps[1]], deps_replace_pattern=PH)))
show("render embedded", lambda: rend(HTMLTextDocument(page + ser[1] + "z" + ser[2] + ser[1], deps_replace_pattern=PH)))
show("render mix", lambda: rend(HTMLTextDocument(page + ser[2], deps=[deps[1], deps[0]], deps_replace_pattern=PH)))
show("render all", lambda: rend(HTMLTextDocument(page + "".join(ser), deps_replace_pattern=PH)))
show("render no lib_prefix", lambda: rend(HTMLTextDocument(page + ser[1], deps_replace_pattern=PH), lib_prefix=None))
show("render empty lib_prefix", lambda: rend(HTMLTextDocument(page + ser[1], deps_replace_pattern=PH), lib_prefix=""))
show("render other lib_prefix", lambda: rend(HTMLTextDocument(page + ser[1], deps_replace_pattern=PH), lib_prefix="a/b"))
show("render no version", lambda: rend(HTMLTextDocument(page + ser[1], deps_replace_pattern=PH), include_version=False))
show("render positional args", lambda: HTMLTextDocument(page, deps_replace_pattern=PH).render("lib"))
show("render missing placeholder", lambda: rend(HTMLTextDocument("<p>none</p>" + ser[1], deps_replace_pattern=PH)))
show("render empty placeholder", lambda: rend(HTMLTextDocument("<p>none</p>" + ser[0], deps_replace_pattern="")))
show("render None placeholder", lambda: rend(HTMLTextDocument("<p>none</p>")))
show("render None placeholder w/ dep", lambda: rend(HTMLTextDocument("<p>none</p>" + ser[0])))
show("render placeholder inside dep markup", lambda: rend(HTMLTextDocument("script " + ser[1], deps_replace_pattern="script")))
show("render backslash placeholder", lambda: rend(HTMLTextDocument("a\\1b\\g<0>" + ser[1], deps_replace_pattern="\\1")))
show("render same-name deps", lambda: rend(HTMLTextDocument(PH, deps=[HTMLDependency("a", "1"), HTMLDependency("a", "2"), HTMLDependency("a", "1")], deps_replace_pattern=PH)))


def render_twice():
    doc = HTMLTextDocument(page + ser[1], deps_replace_pattern=PH)
    a = doc.render()
    b = doc.render()
    return (a["html"] == b["html"], a["dependencies"] is b["dependencies"], a["dependencies"][0] is doc._deps[0], a["dependencies"] == doc._deps)


show("render twice / copies", render_twice)


def render_int_name():
    return rend(HTMLTextDocument(PH + OPEN + '{"name":7,"version":"1"}</script>', deps_replace_pattern=PH))


show("render int name", render_int_name)


def render_bad_dep():
    doc = HTMLTextDocument(PH, deps_replace_pattern=PH)
    doc._deps.append("not a dep")
    return rend(doc)


show("render non-dep in list", render_bad_dep)


def render_missing_file_dep():
    d = HTMLDependency("x", "1", source={"package": "no_such_pkg_zz", "subdir": "s"}, script={"src": "a.js"})
    return rend(HTMLTextDocument(PH, deps=[d], deps_replace_pattern=PH))


show("render bad package", render_missing_file_dep)

print("=== 5. same head markup as HTMLDocument ===")


def head_of(html):
    m = re.search(r"<head>\n\s*<meta charset=\"utf-8\"/>\n?(.*)\n?\s*</head>", html, re.S)
    return m.group(1) if m else None


def compare(ds, **kw):
    direct = HTMLDocument(TagList(*ds, div("body"))).render(**kw)
    text = HTMLTextDocument(PH, deps=list(ds), deps_replace_pattern=PH).render(**kw)
    lines_direct = [ln.strip() for ln in (head_of(direct["html"]) or "").splitlines() if ln.strip()]
    lines_text = [ln.strip() for ln in text["html"].splitlines() if ln.strip()]
    return (lines_direct == lines_text, lines_text)


show("cmp one", lambda: compare([deps[1]]))
show("cmp three", lambda: compare(deps[:3]))
show("cmp no prefix", lambda: compare(deps[:3], lib_prefix=None))
show("cmp no version", lambda: compare(deps[:3], include_version=False))

print("=== 6. json render mode + post-processing ===")
ui_cases = {
    "no deps": div("hello"),
    "one dep": div("a", deps[1], span("b")),
    "nested deps": div(deps[1], div(deps[2], span(deps[0])), deps[1]),
    "taglist": TagList(deps[0], "txt", deps[2], div(deps[1])),
    "empty taglist": TagList(),
    "taglist only dep": TagList(deps[3]),
    "head_content": div("x", head_content(tags.script("</script>alert(1)")), head_content("<b>")),
    "version conflict": div(HTMLDependency("a", "1", head="one"), HTMLDependency("a", "2", head="two")),
    "nasty": TagList(*deps[3:], div("end")),
}


def both_modes(ui):
    out = []
    for mode in ("invisible", "json", "other"):
        htmltools.html_dependency_render_mode = mode
        try:
            out.append((mode, str(ui), repr(ui), ui._repr_html_(), type(str(ui)).__name__))
        finally:
            htmltools.html_dependency_render_mode = "invisible"
    out.append(("direct", _core._render_tag_or_taglist(ui)))
    return out


for k, ui in ui_cases.items():
    show("modes " + k, lambda ui=ui: both_modes(ui))


def roundtrip(ui):
    htmltools.html_dependency_render_mode = "json"
    try:
        body = str(ui)
    finally:
        htmltools.html_dependency_render_mode = "invisible"
    text = "<html><head>" + PH + "</head><body>" + body + "</body></html>"
    post = HTMLTextDocument(text, deps_replace_pattern=PH).render()
    rendered = ui.render()
    direct_deps = rendered["dependencies"]
    ref = HTMLTextDocument(
        "<html><head>" + PH + "</head><body>" + rendered["html"] + "</body></html>",
        deps=list(direct_deps),
        deps_replace_pattern=PH,
    ).render()
    return (
        post["html"] == ref["html"],
        [dep_fields(d) for d in post["dependencies"]] == [dep_fields(d) for d in direct_deps],
        post["dependencies"] == direct_deps,
        post["html"],
    )


for k, ui in ui_cases.items():
    show("roundtrip " + k, lambda ui=ui: roundtrip(ui))


def render_mode_missing():
    saved = htmltools.html_dependency_render_mode
    del htmltools.html_dependency_render_mode
    try:
        return str(div("x"))
    finally:
        htmltools.html_dependency_render_mode = saved


show("render mode attr missing", render_mode_missing)


class Boom:
    def tagify(self):
        raise RuntimeError("boom")


def render_raises_before_import():
    saved = htmltools.html_dependency_render_mode
    del htmltools.html_dependency_render_mode
    try:
        return str(TagList(Boom()))
    finally:
        htmltools.html_dependency_render_mode = saved


show("render raises first", render_raises_before_import)
show("render_tag_or_taglist bad arg", lambda: _core._render_tag_or_taglist("str"))
show("Tag str", lambda: str(Tag("p", deps[0], "x")))
print("=== done ===")
